From JV Require Import Model.Base Model.GoTime Gen.TypeGo Gen.FilterGo Model.Schema Model.Value
  Model.SoftRes Model.Wrapper Model.Resource Model.Filter Model.Range Model.C17.

Fixpoint build_all (l : list (res resource * list (str * value))) : res (list resource) :=
  match l with
  | [] => Ok []
  | (r0, ops) :: rest =>
      bind (bind r0 (fun r => apply_sets r ops)) (fun r =>
        bind (build_all rest) (fun rs => Ok (r :: rs)))
  end.

(** observation of a page: for each element the values of the rule attributes
    (what the order is defined on; uint64 / *uint64 / *[]byte rules are never
    compared by Less and are left out; a nil and an empty byte string compare
    equal, so both are shown as empty) and, when [with_ids], its id *)
Definition key_obs (rules : list str) (r : resource) : list obs :=
  flat_map (fun rule =>
              let n := fst (rule_name rule) in
              if String.eqb n "id" then []
              else match sort_operand r n with
                   | VInt 11 _ | VPtr 11 _ | VPtr 14 _ => []
                   | VBytes _ b => [obs_value (VBytes false b)]
                   | v => [obs_value v]
                   end) rules.

Definition run_range (l : list (res resource * list (str * value))) (ids : list str)
           (f : option filter) (rules : list str) (size num : Z) (with_ids : bool) : obs :=
  match build_all l with
  | Ok c =>
      match range c ids f rules size num with
      | Ok page => OL (map (fun r => OL ((if with_ids then [OS (id_of r)] else []) ++ key_obs rules r)) page)
      | _ => OC "panic" []
      end
  | _ => OC "panic" []
  end.
