(* Struct-backed resources (wrapper.go, helpers.go).  reflect is data: a
   struct type is a list of field descriptors, a struct value the aligned list
   of field values. *)
From JV Require Import Model.Base Model.GoTime Gen.TypeGo Model.Schema Model.Value.

Inductive gotype : Type :=
| GTAttr (k : Z) (nullable : bool)  (* one of the 28 attribute Go types *)
| GTStrs                            (* []string *)
| GTOther (name : str).             (* any other type, by reflect's name *)

Record sfield : Type := mkSField {
  sf_name : str;       (* Go field name *)
  sf_type : gotype;
  sf_json : str;       (* value of the json tag ("" when absent) *)
  sf_api : str;        (* value of the api tag *)
  sf_exported : bool
}.
Definition structdesc := list sfield.

Definition base_go_name (k : Z) : str :=
  if (k =? 1)%Z then "string" else if (k =? 2)%Z then "int" else if (k =? 3)%Z then "int8"
  else if (k =? 4)%Z then "int16" else if (k =? 5)%Z then "int32" else if (k =? 6)%Z then "int64"
  else if (k =? 7)%Z then "uint" else if (k =? 8)%Z then "uint8" else if (k =? 9)%Z then "uint16"
  else if (k =? 10)%Z then "uint32" else if (k =? 11)%Z then "uint64" else if (k =? 12)%Z then "bool"
  else if (k =? 13)%Z then "time.Time" else if (k =? 14)%Z then "[]uint8" else "?".

Definition go_type_string (g : gotype) : str :=
  match g with
  | GTAttr k n => (if n then "*" else "") ++ base_go_name k
  | GTStrs => "[]string"
  | GTOther name => name
  end.

(** reflect.New(t).Elem(): the Go zero value of a field type. *)
Definition go_zero (g : gotype) : value :=
  match g with
  | GTAttr k true => VPtr k None
  | GTAttr k false => if (k =? 14)%Z then VBytes true [] else base_zero k
  | GTStrs => VStrs true []
  | GTOther _ => VNil
  end.

(** Does a dynamic value have exactly this Go type? *)
Definition value_has_type (g : gotype) (v : value) : bool :=
  match g, v with
  | GTAttr k n, _ => let '(k', n') := kind_of_value v in
                     negb (k' =? 0)%Z && (k =? k')%Z && Bool.eqb n n'
  | GTStrs, VStrs _ _ => true
  | _, _ => false
  end.

(** strings.Split(s, ",") *)
Fixpoint split_comma_aux (s : string) (cur : string) : list string :=
  match s with
  | EmptyString => [cur]
  | String c rest =>
      if Ascii.eqb c "," then cur :: split_comma_aux rest EmptyString
      else split_comma_aux rest (cur ++ String c EmptyString)
  end.
Definition split_comma (s : string) : list string := split_comma_aux s EmptyString.

Record wrapper : Type := mkWrapper {
  w_desc : structdesc;
  w_vals : list value;     (* aligned with w_desc *)
  w_typ : str;
  w_attrs : list (str * attr);
  w_rels : list (str * rel)
}.

Definition find_field (p : sfield -> bool) (d : structdesc) : option sfield := find p d.

(** IDAndType on a struct: the ID field's api tag when the field is a string. *)
Definition struct_type_name (d : structdesc) : str :=
  match find_field (fun f => String.eqb (sf_name f) "ID") d with
  | Some f => match sf_type f with GTAttr 1 false => sf_api f | _ => "" end
  | None => ""
  end.

(** helpers.go Check *)
Definition attr_type_supported (g : gotype) : bool :=
  match g with
  | GTAttr k _ => (1 <=? k)%Z && (k <=? 14)%Z
  | _ => false
  end.

Definition is_res_tag (api : str) : bool :=
  String.eqb api "attr" || String.eqb api "rel" || String.prefix "rel," api.

Definition is_id_field (f : sfield) : bool := String.eqb (sf_name f) "ID".

(** names of the tagged fields must be non-empty, exported, distinct and not "id" *)
Fixpoint names_ok (fs : list sfield) (seen : list str) : bool :=
  match fs with
  | [] => true
  | f :: rest =>
      if negb (is_id_field f) && is_res_tag (sf_api f) then
        negb (String.eqb (sf_json f) "") && sf_exported f && negb (mem_str (sf_json f) seen)
        && names_ok rest (sf_json f :: seen)
      else names_ok rest seen
  end.

Definition tagged_names (d : structdesc) : list str :=
  "id" :: map sf_json (filter (fun f => negb (is_id_field f) && is_res_tag (sf_api f)) d).

Definition check_struct (d : structdesc) : bool :=
  match find_field is_id_field d with
  | None => false
  | Some idf =>
      negb (String.eqb (sf_api idf) "")
      && (match sf_type idf with GTAttr 1 false => true | _ => false end)
      && String.eqb (sf_json idf) "id"
      && names_ok d ["id"]
      && forallb (fun f => if is_id_field f || is_res_tag (sf_api f) then true
                           else String.eqb (sf_json f) "" || negb (mem_str (sf_json f) (tagged_names d))) d
      && forallb (fun f => if String.eqb (sf_api f) "attr" then attr_type_supported (sf_type f) else true) d
      && forallb (fun f =>
                    if String.eqb (sf_api f) "rel" || String.prefix "rel," (sf_api f) then
                      let parts := split_comma (sf_api f) in
                      let n := length parts in
                      (Nat.leb 2 n && Nat.leb n 3)
                      && negb (String.eqb (nth 1 parts "") "")
                      && match sf_type f with
                         | GTAttr 1 false => true
                         | GTStrs => true
                         | _ => false
                         end
                    else true) d
  end.

(** BuildType's error/ok and the type it returns (NewFunc aside) *)
Definition build_attrs (d : structdesc) : list (str * attr) :=
  fold_left (fun m f =>
               if String.eqb (sf_api f) "attr" then
                 let '(k, n) := get_attr_type (go_type_string (sf_type f)) in
                 map_set (sf_json f) (mkAttr (sf_json f) k n) m
               else m) d [].

(** Relationship map; [None] when a tag "rel" has no target ([relTag[1]]
    indexes out of range: panic). *)
Definition rels_step (typ : str) (acc : option (list (str * rel))) (f : sfield) : option (list (str * rel)) :=
  match acc with
  | None => None
  | Some m =>
      match split_comma (sf_api f) with
      | hd :: tl =>
          if String.eqb hd "rel" then
            match tl with
            | [] => None
            | target :: tl2 =>
                let inv := match tl2 with [x] => x | _ => "" end in
                let to1 := negb (String.eqb (go_type_string (sf_type f)) "[]string") in
                Some (map_set (sf_json f) (mkRel typ (sf_json f) to1 target inv false) m)
            end
          else Some m
      | [] => Some m
      end
  end.

Definition build_rels (typ : str) (d : structdesc) : option (list (str * rel)) :=
  fold_left (rels_step typ) d (Some []).

(** Wrap: panics when Check fails or a relationship tag has no target. *)
Definition wrap (d : structdesc) (vals : list value) : res wrapper :=
  if negb (check_struct d) then Panic
  else
    let typ := struct_type_name d in
    match build_rels typ d with
    | None => Panic
    | Some rels => Ok (mkWrapper d vals typ (build_attrs d) rels)
    end.

Definition build_type (d : structdesc) : res type :=
  if negb (check_struct d) then Err
  else
    let typ := struct_type_name d in
    match build_rels typ d with
    | None => Panic
    | Some rels => Ok (mkType typ (build_attrs d) rels)
    end.

Definition zero_vals (d : structdesc) : list value := map (fun f => go_zero (sf_type f)) d.

Definition wrap_new (d : structdesc) : res wrapper := wrap d (zero_vals d).

Fixpoint get_slot (p : sfield -> bool) (d : structdesc) (vals : list value) : option (sfield * value) :=
  match d, vals with
  | f :: d', v :: vals' => if p f then Some (f, v) else get_slot p d' vals'
  | _, _ => None
  end.

Fixpoint set_slot (p : sfield -> bool) (d : structdesc) (vals : list value) (nv : sfield -> value) : list value :=
  match d, vals with
  | f :: d', v :: vals' => if p f then nv f :: vals' else v :: set_slot p d' vals' nv
  | _, _ => vals
  end.

Definition wrapper_get_id (w : wrapper) : str :=
  match get_slot (fun f => String.eqb (sf_name f) "ID") (w_desc w) (w_vals w) with
  | Some (f, VStr s) => match sf_type f with GTAttr 1 false => s | _ => "" end
  | _ => ""
  end.

(** getField: first field whose json tag is the key and whose api tag is not
    empty; a nil pointer reads as the untyped nil; an unexported field makes
    reflect panic. *)
Definition wrapper_get_field (w : wrapper) (key : str) : res value :=
  if String.eqb key "" then Panic
  else
    match get_slot (fun f => String.eqb key (sf_json f) && negb (String.eqb (sf_api f) ""))
                   (w_desc w) (w_vals w) with
    | Some (f, v) =>
        if negb (sf_exported f) then Panic
        else match v with
             | VPtr _ None => Ok VNil
             | _ => Ok v
             end
    | None => Panic
    end.

Definition wrapper_get (w : wrapper) (key : str) : res value :=
  if String.eqb key "id" then Ok (VStr (wrapper_get_id w)) else wrapper_get_field w key.

(** setField: first field whose json tag is the key. *)
Definition wrapper_set_field (w : wrapper) (key : str) (v : value) : res wrapper :=
  if String.eqb key "" then Panic
  else
    let p := fun f => String.eqb key (sf_json f) in
    match get_slot p (w_desc w) (w_vals w) with
    | Some (f, _) =>
        if negb (sf_exported f) then Panic
        else
          match v with
          | VNil => Ok (mkWrapper (w_desc w) (set_slot p (w_desc w) (w_vals w) (fun f => go_zero (sf_type f)))
                                  (w_typ w) (w_attrs w) (w_rels w))
          | _ => if value_has_type (sf_type f) v
                 then Ok (mkWrapper (w_desc w) (set_slot p (w_desc w) (w_vals w) (fun _ => v))
                                    (w_typ w) (w_attrs w) (w_rels w))
                 else Panic
          end
    | None => Panic
    end.

(** SetID: FieldByName("ID").SetString panics unless the field is a string. *)
Definition wrapper_set_id (w : wrapper) (id : str) : res wrapper :=
  let p := fun f => String.eqb (sf_name f) "ID" in
  match get_slot p (w_desc w) (w_vals w) with
  | Some (f, _) =>
      match sf_type f with
      | GTAttr 1 false =>
          Ok (mkWrapper (w_desc w) (set_slot p (w_desc w) (w_vals w) (fun _ => VStr id))
                        (w_typ w) (w_attrs w) (w_rels w))
      | _ => Panic
      end
  | None => Panic
  end.

(** Set: for "id" SetID runs and then setField runs as well (no return). *)
Definition wrapper_set (w : wrapper) (key : str) (v : value) : res wrapper :=
  if String.eqb key "id" then
    bind (wrapper_set_id w (match v with VStr s => s | _ => "" end))
         (fun w' => wrapper_set_field w' key v)
  else wrapper_set_field w key v.
