(* C17 run functions: the same Set history on both implementations. *)
From JV Require Import Model.Base Model.GoTime Gen.TypeGo Model.Schema Model.Value
  Model.SoftRes Model.Wrapper Model.Resource.

Definition dump (r : resource) (fields : list str) : obs :=
  OL (map (fun f => obs_res obs_value (res_get r f)) fields).

Definition obs_struct (r : resource) : obs :=
  OL [OS (res_type_name r);
      OL (map (fun kv => OL [OS (fst kv); obs_attr (snd kv)])
              (isort (fun a b => String.ltb (fst a) (fst b)) (res_attrs r)));
      OL (map (fun kv => OL [OS (fst kv); obs_rel (snd kv)])
              (isort (fun a b => String.ltb (fst a) (fst b)) (res_rels r)))].

Fixpoint run_sets (r : resource) (ops : list (str * value)) (fields : list str) : list obs :=
  match ops with
  | [] => []
  | (k, v) :: rest =>
      match res_set r k v with
      | Ok r' => dump r' fields :: run_sets r' rest fields
      | _ => [OC "panic" []]
      end
  end.

Definition run_c17 (r0 : res resource) (ops : list (str * value)) (fields : list str) : obs :=
  match r0 with
  | Ok r => OL (obs_struct r :: dump r fields :: run_sets r ops fields)
  | _ => OC "panic" []
  end.

Definition new_soft (t : type) : res resource := Ok (RSoft (soft_new t)).
Definition new_wrapped (d : structdesc) : res resource :=
  bind (wrap_new d) (fun w => Ok (RWrap w)).

(** Equality helpers on two resources built by Set histories. *)
From JV Require Import Model.Equal.

Fixpoint apply_sets (r : resource) (ops : list (str * value)) : res resource :=
  match ops with
  | [] => Ok r
  | (k, v) :: rest => bind (res_set r k v) (fun r' => apply_sets r' rest)
  end.

Definition obs_bool_res (r : res bool) : obs := obs_res OB r.

Definition run_equal (r1 : res resource) (ops1 : list (str * value))
           (r2 : res resource) (ops2 : list (str * value)) : obs :=
  match bind r1 (fun r => apply_sets r ops1), bind r2 (fun r => apply_sets r ops2) with
  | Ok a, Ok b =>
      OL [obs_bool_res (equal a b); obs_bool_res (equal b a);
          obs_bool_res (equal_strict a b); obs_bool_res (equal a a)]
  | _, _ => OC "panic" []
  end.

(** A soft resource whose type is replaced (SoftResource.SetType): check()
    runs, then the pointer changes. *)
Definition retype (r : resource) (t : type) : resource :=
  match r with
  | RSoft s => let s1 := soft_check s in RSoft (mkSoft t (s_id s1) (s_data s1))
  | _ => r
  end.

Definition run_retype (t1 : type) (ops1 : list (str * value)) (t2 : type) (ops2 : list (str * value))
           (fields : list str) : obs :=
  match apply_sets (RSoft (soft_new t1)) ops1 with
  | Ok r1 =>
      let r2 := retype r1 t2 in
      match apply_sets r2 ops2 with
      | Ok r3 => OL [dump r1 fields; obs_struct r2; dump r2 fields; dump r3 fields; dump (retype r3 t1) fields]
      | _ => OC "panic" []
      end
  | _ => OC "panic" []
  end.
