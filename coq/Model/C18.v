From JV Require Import Model.Base Model.GoTime Gen.TypeGo Model.Schema Model.Value
  Model.Resource Model.Heap.

Definition obs_rd (v : option rdval) : obs :=
  match v with
  | None => OC "absent" []
  | Some (RImm x) => OC "imm" [obs_value (canon x)]
  | Some (RBytes b) => OC "bytes" [OL (map OZ (match b with Some l => l | None => [] end))]
  | Some (RPBytes None) => OC "nilptr" []
  | Some (RPBytes (Some b)) => OC "pbytes" [OL (map OZ (match b with Some l => l | None => [] end))]
  | Some (RStrs l) => OC "strs" [OL (map OS (match l with Some x => x | None => [] end))]
  end.

(** fields of the source whose (non-empty) slice storage is also reachable
    from the copy *)
Definition shared_fields (st : hstate) (fields : list str) : list str :=
  let addrs_of (r : hres) :=
    flat_map (fun f => match option_map slot_addr (lookup f (h_fields r)) with
                       | Some (Some a) =>
                           match nth_error (hs_heap st) a with
                           | Some (CBytes (_ :: _)) | Some (CStrs (_ :: _)) => [a]
                           | _ => []
                           end
                       | _ => []
                       end) fields in
  let ca := addrs_of (hs_cpy st) in
  filter (fun f => match option_map slot_addr (lookup f (h_fields (hs_src st))) with
                   | Some (Some a) => existsb (Nat.eqb a) ca
                   | _ => false
                   end) fields.

Definition obs_hstate (st : hstate) (fields : list str) : obs :=
  OL [OS (h_id (hs_src st)); OL (map (fun f => obs_rd (hread (hs_heap st) (hs_src st) f)) fields);
      OS (h_id (hs_cpy st)); OL (map (fun f => obs_rd (hread (hs_heap st) (hs_cpy st) f)) fields);
      OL (map OS (shared_fields st fields))].

Fixpoint run_hops (st : hstate) (ops : list hop) (fields : list str) : list obs :=
  match ops with
  | [] => []
  | o :: rest => let st' := hstep st o in obs_hstate st' fields :: run_hops st' rest fields
  end.

Definition run_c18 (zero : list (str * slot)) (sets : list (str * newval)) (id : str)
           (ops : list hop) (fields : list str) : obs :=
  let st := hinit zero sets id in
  OL (obs_hstate st fields :: run_hops st ops fields).

(** type-level edits after Copy / New (soft resources) *)
From JV Require Import Model.SoftRes Model.C14 Model.TypeHeap.

Definition obs_tstate (st : tstate) : obs :=
  OL [obs_type (tcell (ts_heap st) (ts_src st)); obs_type (tcell (ts_heap st) (ts_other st))].

Fixpoint run_tops (st : tstate) (ops : list top) : list obs :=
  match ops with
  | [] => []
  | o :: rest => let st' := tstep st o in obs_tstate st' :: run_tops st' rest
  end.

Definition run_c18_types (t : type) (ops : list top) : obs :=
  let st := tinit t in OL (obs_tstate st :: run_tops st ops).
