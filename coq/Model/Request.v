(* NewRequest (request.go): the URL of the request is parsed, then -- for POST
   and PATCH -- the body is unmarshaled as a document.  [body]: the JSON tree
   of the body, [None] when the bytes are not JSON (json.Unmarshal fails). *)
From JV Require Import Model.Base Model.GoTime Gen.TypeGo Model.Schema Model.Value
  Model.Strconv Model.Json Model.Attr Model.SoftRes Model.Wrapper Model.Resource
  Model.Unmarshal Model.Document Model.Url.

Record request : Type := mkReq { rq_method : str; rq_url : url; rq_doc : option udoc }.

Definition new_request (e : stdenv) (s : sch) (method : str) (path : str)
           (values : list (str * list str)) (fo : filter_oracle) (body : option json) : res request :=
  bind (new_url_from (sch_schema s) path values fo) (fun u =>
    if String.eqb method "POST" || String.eqb method "PATCH" then
      match body with
      | None => Err
      | Some j => bind (unmarshal_document e s j) (fun d => Ok (mkReq method u (Some d)))
      end
    else Ok (mkReq method u None)).
