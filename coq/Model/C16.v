(* C16: Schema.Rels on top of the generated Rel functions. *)
From JV Require Import Model.Base Gen.TypeGo Gen.SchemaGo Model.Schema.

(** buildRels: the set of [rel.Normalize()] over every relationship of every
    type (a Go map keyed by the Rel value: a set). *)
Definition norm_rels (s : schema) : list rel :=
  flat_map (fun t => map (fun kv => rel_normalize (snd kv)) (trels t)) (types s).

Fixpoint rel_mem (r : rel) (l : list rel) : bool :=
  match l with
  | [] => false
  | x :: xs => rel_eqb r x || rel_mem r xs
  end.

Fixpoint dedupe (l : list rel) : list rel :=
  match l with
  | [] => []
  | x :: xs => if rel_mem x xs then dedupe xs else x :: dedupe xs
  end.

(** Schema.Rels: the set's members sorted with relLess (generated). *)
Definition schema_rels (s : schema) : list rel :=
  isort rel_less (dedupe (norm_rels s)).

(** Entry points for the correspondence check. *)
Definition run_rel_laws (r : rel) : obs :=
  OL [obs_rel (rel_invert r); obs_rel (rel_normalize r); OS (rel_string r)].
Definition run_schema_rels (s : schema) : obs :=
  OL (map obs_rel (schema_rels s)).
