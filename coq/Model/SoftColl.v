(* SoftCollection (soft_collection.go).  The stored SoftResources all point
   to the collection's *Type (SetType rebinds them), so a collection is its
   current type and the ordered list of (id, data map). *)
From JV Require Import Model.Base Model.GoTime Gen.TypeGo Model.Schema Model.Value
  Model.SoftRes Model.Wrapper Model.Resource Model.C14.

Record scoll : Type := mkSColl {
  sc_type : type;
  sc_items : list (str * list (str * value))
}.

Definition item_soft (c : scoll) (it : str * list (str * value)) : soft :=
  mkSoft (sc_type c) (fst it) (snd it).

(** SoftResource.AddAttr / AddRel: a direct write into the (shared) type's
    map unless some field already has that name *)
Definition soft_add_attr (s : soft) (a : attr) : soft :=
  let s1 := soft_check s in
  if mem_str (aname a) (soft_fields (s_type s1)) then s1
  else mkSoft (mkType (tname (s_type s1)) (map_set (aname a) a (tattrs (s_type s1))) (trels (s_type s1)))
              (s_id s1) (s_data s1).

Definition soft_add_rel (s : soft) (r : rel) : soft :=
  let s1 := soft_check s in
  if mem_str (from_name r) (soft_fields (s_type s1)) then s1
  else mkSoft (mkType (tname (s_type s1)) (tattrs (s_type s1)) (map_set (from_name r) r (trels (s_type s1))))
              (s_id s1) (s_data s1).

(** Add: build a SoftResource bound to the collection's type from the
    resource's attributes and relationships *)
Fixpoint add_attrs (src : resource) (s : soft) (attrs : list (str * attr)) : res soft :=
  match attrs with
  | [] => Ok s
  | (_, a) :: rest =>
      bind (res_get src (aname a)) (fun v =>
        add_attrs src (soft_set (soft_add_attr s a) (aname a) v) rest)
  end.

Fixpoint add_rels (src : resource) (s : soft) (rels : list (str * rel)) : res soft :=
  match rels with
  | [] => Ok s
  | (_, x) :: rest =>
      bind (res_get src (from_name x)) (fun v =>
        (* only a well-typed value is stored (checked type assertion) *)
        match v with
        | VStr _ => if to_one x then add_rels src (soft_set (soft_add_rel s x) (from_name x) v) rest
                    else add_rels src (soft_add_rel s x) rest
        | VStrs _ _ => if to_one x then add_rels src (soft_add_rel s x) rest
                       else add_rels src (soft_set (soft_add_rel s x) (from_name x) v) rest
        | _ => add_rels src (soft_add_rel s x) rest
        end)
  end.

Definition sc_add (c : scoll) (src : resource) : res scoll :=
  bind (res_get src "id") (fun idv =>
    match idv with
    | VStr id =>
        bind (add_attrs src (mkSoft (sc_type c) id []) (res_attrs src)) (fun s1 =>
          bind (add_rels src s1 (res_rels src)) (fun s2 =>
            Ok (mkSColl (s_type s2) (sc_items c ++ [(s_id s2, s_data s2)]))))
    | _ => Panic
    end).

Fixpoint remove_first_id (id : str) (l : list (str * list (str * value))) : list (str * list (str * value)) :=
  match l with
  | [] => []
  | it :: rest => if String.eqb (fst it) id then rest else it :: remove_first_id id rest
  end.

Definition sc_remove (c : scoll) (id : str) : scoll := mkSColl (sc_type c) (remove_first_id id (sc_items c)).
Definition sc_set_type (c : scoll) (t : type) : scoll := mkSColl t (sc_items c).
Definition sc_add_attr (c : scoll) (a : attr) : bool * scoll :=
  let '(ok, t) := type_add_attr (sc_type c) a in (ok, mkSColl t (sc_items c)).
Definition sc_add_rel (c : scoll) (r : rel) : bool * scoll :=
  let '(ok, t) := type_add_rel (sc_type c) r in (ok, mkSColl t (sc_items c)).

Definition sc_len (c : scoll) : Z := Z.of_nat (length (sc_items c)).
Definition sc_at (c : scoll) (i : Z) : option soft :=
  if (0 <=? i)%Z && (i <? sc_len c)%Z
  then option_map (item_soft c) (nth_error (sc_items c) (Z.to_nat i)) else None.
Definition sc_resource (c : scoll) (id : str) : option soft :=
  option_map (item_soft c) (find (fun it => String.eqb (fst it) id) (sc_items c)).

(** reading a stored resource runs check(), which rewrites its data map:
    reads are applied to every element after each step *)
Definition sc_normalise (c : scoll) : scoll :=
  mkSColl (sc_type c)
          (map (fun it => let s := soft_check (item_soft c it) in (s_id s, s_data s)) (sc_items c)).

Inductive cop : Type :=
| CAdd (src : res resource) (ops : list (str * value))
| CAddOwn (ops : list (str * value))     (* a soft resource made from the collection's own type value *)
| CRemove (id : str)
| CSetType (t : type)
| CAddAttr (a : attr)
| CAddRel (r : rel).
