(* Equal / EqualStrict (resource.go). *)
From JV Require Import Model.Base Model.GoTime Gen.TypeGo Model.Schema Model.Value
  Model.SoftRes Model.Wrapper Model.Resource.

(** reflect.DeepEqual on values of the model (same dynamic type and deeply
    equal contents; a nil slice differs from an empty one). *)
Fixpoint strs_eqb (a b : list str) : bool :=
  match a, b with
  | [], [] => true
  | x :: xs, y :: ys => String.eqb x y && strs_eqb xs ys
  | _, _ => false
  end.

Fixpoint deep_equal (a b : value) : bool :=
  match a, b with
  | VNil, VNil => true
  | VStr x, VStr y => String.eqb x y
  | VInt k x, VInt k' y => Z.eqb k k' && Z.eqb x y
  | VBool x, VBool y => Bool.eqb x y
  | VTime x, VTime y => gtime_eqb x y
  | VBytes n x, VBytes n' y => Bool.eqb n n' && zlist_eqb x y
  | VPtr k None, VPtr k' None => Z.eqb k k'
  | VPtr k (Some x), VPtr k' (Some y) => Z.eqb k k' && deep_equal x y
  | VStrs n x, VStrs n' y => Bool.eqb n n' && strs_eqb x y
  | _, _ => false
  end.

Definition is_nil_value (v : value) : bool :=
  match v with VNil => true | VPtr _ None => true | _ => false end.

Definition sorted_attrs (r : resource) : list attr :=
  isort (fun a b => String.ltb (aname a) (aname b)) (map snd (res_attrs r)).
Definition sorted_rels (r : resource) : list rel :=
  isort (fun a b => String.ltb (from_name a) (from_name b)) (map snd (res_rels r)).

Fixpoint equal_attrs (r1 r2 : resource) (l : list (attr * attr)) : res bool :=
  match l with
  | [] => Ok true
  | (a1, a2) :: rest =>
      bind (res_get r1 (aname a1)) (fun v1 =>
      bind (res_get r2 (aname a2)) (fun v2 =>
        if deep_equal v1 v2 then equal_attrs r1 r2 rest
        else
          (* the rescue reads attr1's name on BOTH resources ([&&] short-circuits) *)
          if is_nil_value v1 then
            bind (res_get r2 (aname a1)) (fun v2' =>
              if is_nil_value v2' then equal_attrs r1 r2 rest else Ok false)
          else Ok false))
  end.

Fixpoint equal_rels (r1 r2 : resource) (l : list (rel * rel)) : res bool :=
  match l with
  | [] => Ok true
  | (x, y) :: rest =>
      if negb (Bool.eqb (to_one x) (to_one y)) then Ok false
      else
        bind (res_get r1 (from_name x)) (fun v1 =>
        bind (res_get r2 (from_name y)) (fun v2 =>
          if to_one x then
            match v1, v2 with
            | VStr s1, VStr s2 => if String.eqb s1 s2 then equal_rels r1 r2 rest else Ok false
            | _, _ => Panic
            end
          else
            match v1, v2 with
            | VStrs n1 l1, VStrs n2 l2 =>
                if negb (Nat.eqb (length l1) 0) || negb (Nat.eqb (length l2) 0)
                then (if deep_equal v1 v2 then equal_rels r1 r2 rest else Ok false)
                else equal_rels r1 r2 rest
            | _, _ => Panic
            end))
  end.

Definition equal (r1 r2 : resource) : res bool :=
  if negb (String.eqb (res_type_name r1) (res_type_name r2)) then Ok false
  else
    let a1 := sorted_attrs r1 in
    let a2 := sorted_attrs r2 in
    if negb (Nat.eqb (length a1) (length a2)) then Ok false
    else
      bind (equal_attrs r1 r2 (combine a1 a2)) (fun ok =>
        if negb ok then Ok false
        else
          let l1 := sorted_rels r1 in
          let l2 := sorted_rels r2 in
          if negb (Nat.eqb (length l1) (length l2)) then Ok false
          else equal_rels r1 r2 (combine l1 l2)).

Definition equal_strict (r1 r2 : resource) : res bool :=
  bind (res_get r1 "id") (fun i1 =>
  bind (res_get r2 "id") (fun i2 =>
    match i1, i2 with
    | VStr a, VStr b => if String.eqb a b then equal r1 r2 else Ok false
    | _, _ => Panic
    end)).
