From JV Require Import Model.Base Model.GoTime Gen.TypeGo Gen.FilterGo Model.Schema Model.Value
  Model.SoftRes Model.Wrapper Model.Resource Model.Filter Model.C17.

Definition run_filter (r0 : res resource) (ops : list (str * value)) (f : filter) : obs :=
  match bind r0 (fun r => apply_sets r ops) with
  | Ok r => obs_res OB (is_allowed f r)
  | _ => OC "panic" []
  end.
