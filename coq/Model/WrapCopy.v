(* Wrapper.Copy and Wrapper.New (wrapper.go): a new zero struct of the same
   type is wrapped, then the ID, every attribute and every relationship are
   read from the source and set on it.  Values are immutable in this model, so
   the byte/ID slices that Copy duplicates are the values themselves (the
   storage-level independence is C18's, Model/Heap.v). *)
From JV Require Import Model.Base Model.GoTime Gen.TypeGo Model.Schema Model.Value Model.Wrapper.

Definition copy_attr_step (w : wrapper) (acc : res wrapper) (na : str * attr) : res wrapper :=
  bind acc (fun nw =>
    bind (wrapper_get w (aname (snd na))) (fun v => wrapper_set nw (aname (snd na)) v)).

(** w.Get(rel.FromName).(string) / .([]string): the type assertions panic on
    anything else *)
Definition copy_rel_step (w : wrapper) (acc : res wrapper) (nx : str * rel) : res wrapper :=
  bind acc (fun nw =>
    bind (wrapper_get w (from_name (snd nx))) (fun v =>
      if to_one (snd nx)
      then match v with VStr _ => wrapper_set nw (from_name (snd nx)) v | _ => Panic end
      else match v with VStrs _ _ => wrapper_set nw (from_name (snd nx)) v | _ => Panic end)).

Definition wrapper_copy (w : wrapper) : res wrapper :=
  bind (wrap_new (w_desc w)) (fun nw0 =>
    bind (wrapper_set_id nw0 (wrapper_get_id w)) (fun nw1 =>
      fold_left (copy_rel_step w) (w_rels w)
                (fold_left (copy_attr_step w) (w_attrs w) (Ok nw1)))).

Definition wrapper_new (w : wrapper) : res wrapper := wrap_new (w_desc w).
