(* C18, type level: a SoftResource points to its Type; the maps of a Type are
   shared by everything that points to the same Type value.  Types live in
   cells; Copy and New allocate a fresh cell (Type.Copy), they do not share the
   pointer. *)
From JV Require Import Model.Base Model.GoTime Gen.TypeGo Model.Schema Model.Value Model.SoftRes.

Definition theap := list type.

Definition tcell (h : theap) (a : nat) : type := nth a h empty_type.

Definition talloc (h : theap) (t : type) : theap * nat := ((h ++ [t])%list, length h).

(** SoftResource.Copy / SoftResource.New: a new Type value holding copies of the maps *)
Definition tcopy (h : theap) (a : nat) : theap * nat := talloc h (tcell h a).

(** SoftResource.AddAttr / AddRel / RemoveField on the Type a resource points to *)
Definition tadd_attr (t : type) (a : attr) : type :=
  if mem_str (aname a) (soft_fields t) then t
  else mkType (tname t) (map_set (aname a) a (tattrs t)) (trels t).

Definition tadd_rel (t : type) (r : rel) : type :=
  if mem_str (from_name r) (soft_fields t) then t
  else mkType (tname t) (tattrs t) (map_set (from_name r) r (trels t)).

Definition tremove_field (t : type) (n : str) : type :=
  mkType (tname t) (remove_key n (tattrs t)) (remove_key n (trels t)).

Inductive top : Type :=
| TAddAttr (who : bool) (a : attr)
| TAddRel (who : bool) (r : rel)
| TRemoveField (who : bool) (n : str).

Definition top_target (o : top) : bool :=
  match o with TAddAttr w _ | TAddRel w _ | TRemoveField w _ => w end.

Definition top_fun (o : top) : type -> type :=
  match o with
  | TAddAttr _ a => fun t => tadd_attr t a
  | TAddRel _ r => fun t => tadd_rel t r
  | TRemoveField _ n => fun t => tremove_field t n
  end.

Fixpoint tupdate (h : theap) (a : nat) (f : type -> type) : theap :=
  match h, a with
  | [], _ => []
  | t :: rest, O => f t :: rest
  | t :: rest, S b => t :: tupdate rest b f
  end.

(** [true] addresses the source, [false] the copy / the new resource *)
Record tstate : Type := mkTS { ts_heap : theap; ts_src : nat; ts_other : nat }.

Definition tstep (st : tstate) (o : top) : tstate :=
  let a := if top_target o then ts_src st else ts_other st in
  mkTS (tupdate (ts_heap st) a (top_fun o)) (ts_src st) (ts_other st).

Definition trun (st : tstate) (ops : list top) : tstate := fold_left tstep ops st.

Definition tinit (t : type) : tstate :=
  let '(h, a) := tcopy [t] 0 in mkTS h 0 a.
