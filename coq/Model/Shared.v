(* C12: operations against a shared state, interleaved by a schedule.  An
   operation returns a result, the state it leaves and whether it performed a
   write access to the shared state. *)
From JV Require Import Model.Base.

Section Shared.
  Context {St Rs : Type}.

  Definition sop := St -> Rs * St * bool.

  Definition reader (f : St -> Rs) : sop := fun s => (f s, s, false).

  (** threads: the operations each has still to run; a schedule names the
      thread that takes the next step *)
  Fixpoint take_step (tid : nat) (threads : list (list sop)) : option (sop * list (list sop)) :=
    match tid, threads with
    | O, (o :: rest) :: others => Some (o, rest :: others)
    | O, [] :: _ => None
    | S n, t :: others =>
        match take_step n others with
        | Some (o, others') => Some (o, t :: others')
        | None => None
        end
    | _, [] => None
    end.

  Record trace : Type := mkTrace {
    tr_state : St;
    tr_results : list (nat * Rs);      (* (thread, result), latest first *)
    tr_writes : nat                   (* number of write accesses to the shared state *)
  }.

  Fixpoint run_schedule (sched : list nat) (threads : list (list sop)) (t : trace) : trace :=
    match sched with
    | [] => t
    | tid :: rest =>
        match take_step tid threads with
        | Some (o, threads') =>
            let '(r, s', w) := o (tr_state t) in
            run_schedule rest threads'
              (mkTrace s' ((tid, r) :: tr_results t) (if w then S (tr_writes t) else tr_writes t))
        | None => run_schedule rest threads t      (* that thread has finished: the step is skipped *)
        end
    end.
End Shared.
