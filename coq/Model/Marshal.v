(* MarshalResource (resource.go), links (link.go): the output as a JSON tree
   with object keys sorted, as json.Marshal prints maps. *)
From JV Require Import Model.Base Model.GoTime Gen.TypeGo Model.Schema Model.Value
  Model.Strconv Model.Json Model.SoftRes Model.Wrapper Model.Resource.

Definition jobj (m : list (str * json)) : json :=
  JObj (isort (fun a b => String.ltb (fst a) (fst b)) m).

(** json.Marshal of a value held in an [any]. *)
Fixpoint json_of_value (e : stdenv) (v : value) : json :=
  match v with
  | VNil => JNull
  | VStr s => jstr s
  | VInt _ z => JNum (itoa z)
  | VBool b => JBool b
  | VTime t => jstr (tfmt e t)
  | VBytes true _ => JNull
  | VBytes false b => jstr (b64enc e b)
  | VPtr _ None => JNull
  | VPtr _ (Some x) => json_of_value e x
  | VStrs true _ => JNull
  | VStrs false l => JArr (map jstr l)
  end.

Definition has_suffix_slash (s : str) : bool :=
  match String.length s with
  | O => false
  | S n => match String.get n s with Some c => Ascii.eqb c "/" | None => false end
  end.

(** buildSelfLink *)
Definition self_link (prepath tname id : str) : str :=
  let link := if has_suffix_slash prepath then prepath else prepath ++ "/" in
  if negb (String.eqb id "") && negb (String.eqb tname "") then link ++ tname ++ "/" ++ id
  else link.

Definition rel_links (prepath tname id rel : str) : json :=
  jobj [("self", jstr (self_link prepath tname id ++ "/relationships/" ++ rel));
        ("related", jstr (self_link prepath tname id ++ "/" ++ rel))].

Definition identifier_json (id typ : str) : json :=
  jobj [("id", jstr id); ("type", jstr typ)].

Definition get_str (r : resource) (key : str) : res str :=
  bind (res_get r key) (fun v => match v with VStr s => Ok s | _ => Panic end).

Definition get_strs (r : resource) (key : str) : res (list str) :=
  bind (res_get r key) (fun v => match v with VStrs _ l => Ok l | _ => Panic end).

(** the attribute members *)
Fixpoint marshal_attrs (e : stdenv) (r : resource) (fields : list str)
         (attrs : list (str * attr)) (acc : list (str * json)) : res (list (str * json)) :=
  match attrs with
  | [] => Ok acc
  | (_, a) :: rest =>
      if mem_str (aname a) fields then
        bind (res_get r (aname a)) (fun v =>
          marshal_attrs e r fields rest (map_set (aname a) (json_of_value e v) acc))
      else marshal_attrs e r fields rest acc
  end.

Definition marshal_rel (r : resource) (prepath tname id : str) (want_data : bool) (x : rel) : res json :=
  let links := ("links", rel_links prepath tname id (from_name x)) in
  if negb want_data then Ok (jobj [links])
  else if to_one x then
    bind (get_str r (from_name x)) (fun rid =>
      Ok (jobj [links; ("data", if String.eqb rid "" then JNull else identifier_json rid (to_type x))]))
  else
    bind (get_strs r (from_name x)) (fun ids =>
      Ok (jobj [links; ("data", JArr (map (fun i => identifier_json i (to_type x))
                                          (isort String.ltb ids)))])).

Fixpoint marshal_rels (r : resource) (prepath tname id : str) (fields : list str) (want : list str)
         (rels : list (str * rel)) (acc : list (str * json)) : res (list (str * json)) :=
  match rels with
  | [] => Ok acc
  | (_, x) :: rest =>
      if mem_str (from_name x) fields then
        bind (marshal_rel r prepath tname id (mem_str (from_name x) want) x) (fun j =>
          marshal_rels r prepath tname id fields want rest (map_set (from_name x) j acc))
      else marshal_rels r prepath tname id fields want rest acc
  end.

(** MarshalResource r prepath fields relData *)
Definition marshal_resource (e : stdenv) (r : resource) (prepath : str) (fields : list str)
           (reldata : list (str * list str)) : res json :=
  bind (get_str r "id") (fun id =>
    let tn := res_type_name r in
    bind (marshal_attrs e r fields (res_attrs r) []) (fun attrs =>
      let want := match lookup tn reldata with Some l => l | None => [] end in
      bind (marshal_rels r prepath tn id fields want (res_rels r) []) (fun rels =>
        Ok (jobj ([("id", jstr id); ("type", jstr tn);
                   ("links", jobj [("self", jstr (self_link prepath tn id))])]
                  ++ (match attrs with [] => [] | _ => [("attributes", jobj attrs)] end)
                  ++ (match rels with [] => [] | _ => [("relationships", jobj rels)] end)))))).
