From JV Require Import Model.Base Model.GoTime Gen.TypeGo Model.Schema Model.Value
  Model.SoftRes Model.Wrapper Model.WrapCopy Model.Resource Model.C14 Model.C17.

Definition obs_class {A} (r : res A) : obs :=
  match r with Ok _ => OC "ok" [] | Err => OC "err" [] | Panic => OC "panic" [] end.

(** Check, BuildType, Wrap of a zero value, then Get / Set(zero value of the
    field's type) of every named field and Set of the id *)
Definition run_c20 (d : structdesc) (names : list str) : obs :=
  let w := wrap_new d in
  OL [OB (check_struct d);
      match build_type d with
      | Ok t => OC "ok" [obs_type t]
      | Err => OC "err" []
      | Panic => OC "panic" []
      end;
      match w with
      | Ok w0 => OC "ok" [obs_struct (RWrap w0);
                          OL (map (fun n =>
                                     if String.eqb n "id" || has_key n (w_attrs w0) || has_key n (w_rels w0)
                                     then obs_res obs_value (wrapper_get w0 n)
                                     else obs_class (wrapper_get w0 n)) names);
                          OL (map (fun n =>
                                     match get_slot (fun f => String.eqb n (sf_json f)) (w_desc w0) (w_vals w0) with
                                     | Some (f, _) => obs_class (wrapper_set w0 n (go_zero (sf_type f)))
                                     | None => obs_class (wrapper_set w0 n VNil)
                                     end) names);
                          obs_class (wrapper_set w0 "id" (VStr "x"));
                          obs_res (fun c => obs_struct (RWrap c)) (wrapper_copy w0)]
      | Err => OC "err" []
      | Panic => OC "panic" []
      end].

(** a Set history on a wrapped zero value, then Copy: what the copy is and reads *)
Definition run_wcopy (d : structdesc) (ops : list (str * value)) (fields : list str) : obs :=
  match bind (new_wrapped d) (fun r => apply_sets r ops) with
  | Ok (RWrap w) =>
      OC "ok" [obs_res (fun c => OL [obs_struct (RWrap c); dump (RWrap c) fields]) (wrapper_copy w)]
  | Ok _ => OC "soft" []
  | _ => OC "panic" []
  end.
