(* time.Time as far as the library observes it: an instant (seconds since the
   Unix epoch, nanoseconds) and a fixed zone offset in seconds.  Equal, Before
   and After compare instants only. *)
From JV Require Import Model.Base.

Record gtime : Type := mkTime { t_unix : Z; t_nsec : Z; t_off : Z }.

Definition time_equal (a b : gtime) : bool :=
  Z.eqb (t_unix a) (t_unix b) && Z.eqb (t_nsec a) (t_nsec b).

Definition time_before (a b : gtime) : bool :=
  Z.ltb (t_unix a) (t_unix b)
  || (Z.eqb (t_unix a) (t_unix b) && Z.ltb (t_nsec a) (t_nsec b)).

Definition time_zero : gtime := mkTime (-62135596800) 0 0.
