(* JSON values as trees.  Number tokens keep their literal text (the library
   feeds it to strconv); string tokens remember whether the source text had a
   backslash escape (time.Time's UnmarshalJSON does not unescape); objects keep
   key order and duplicate keys.  Bytes <-> tree is encoding/json's lexer and
   printer: modelled, not verified (DESIGN.md 2.2). *)
From JV Require Import Model.Base.

Inductive json : Type :=
| JNull
| JBool (b : bool)
| JNum (lit : str)
| JStr (s : str) (escaped : bool)
| JArr (l : list json)
| JObj (m : list (str * json)).

Definition jstr (s : str) : json := JStr s false.

Definition is_jnull (j : json) : bool := match j with JNull => true | _ => false end.

(** Generic observation of a tree. *)
Fixpoint obs_json (j : json) : obs :=
  match j with
  | JNull => OC "null" []
  | JBool b => OB b
  | JNum l => OC "num" [OS l]
  | JStr s _ => OS s
  | JArr l => OL (map obs_json l)
  | JObj m => OC "obj" (map (fun kv => OL [OS (fst kv); obs_json (snd kv)]) m)
  end.
