(* Run functions for the document-level properties (C02, C03, C04, C05, C11). *)
From JV Require Import Model.Base Model.GoTime Gen.TypeGo Model.Schema Model.Value
  Model.Strconv Model.Json Model.Attr Model.SoftRes Model.Wrapper Model.Resource
  Model.Marshal Model.Unmarshal Model.Document Model.C17 Model.C01.

Record docspec : Type := mkDocSpec {
  ds_kind : str;
  ds_data : list (res resource * list (str * value));
  ds_ctype : str;
  ds_idents : list identifier;
  ds_inc : list (res resource * list (str * value));
  ds_reldata : list (str * list str);
  ds_meta : list (str * json);
  ds_errors : list jerror;
  ds_prepath : str
}.

Fixpoint build_list (l : list (res resource * list (str * value))) : res (list resource) :=
  match l with
  | [] => Ok []
  | (r0, ops) :: rest =>
      bind (bind r0 (fun r => apply_sets r ops)) (fun r =>
        bind (build_list rest) (fun rs => Ok (r :: rs)))
  end.

Definition build_doc (ds : docspec) : res document :=
  bind (build_list (ds_data ds)) (fun data =>
  bind (build_list (ds_inc ds)) (fun inc =>
    let k := ds_kind ds in
    let dd :=
      if String.eqb k "nil" then DNil
      else if String.eqb k "resource" then (match data with r :: _ => DRes r | [] => DNil end)
      else if String.eqb k "identifier" then (match ds_idents ds with i :: _ => DIdent i | [] => DNil end)
      else if String.eqb k "identifiers" then DIdents false (ds_idents ds)
      else if String.eqb k "nil-identifiers" then DIdents true []
      else DCol (ds_ctype ds) data in
    Ok (mkDoc dd inc (ds_reldata ds) (ds_meta ds) (ds_errors ds) (ds_prepath ds)))).

Definition sorted_field_names (r : resource) : list str :=
  isort String.ltb (map fst (res_attrs r) ++ map fst (res_rels r)).

Definition obs_full_resource (r : resource) : obs :=
  OL [OS (res_type_name r); dump r ("id" :: sorted_field_names r)].

Definition obs_members (m : list (str * json)) : obs :=
  OL (map (fun kv => OL [OS (fst kv); obs_json (snd kv)])
          (isort (fun a b => String.ltb (fst a) (fst b)) m)).

Definition obs_error (e : jerror) : obs :=
  OL [OS (e_id e); OS (e_code e); OS (e_status e); OS (e_title e); OS (e_detail e);
      OL (map (fun kv => OL [OS (fst kv); OS (snd kv)])
              (isort (fun a b => String.ltb (fst a) (fst b)) (e_links e)));
      obs_members (e_source e); obs_members (e_meta e)].

Definition obs_udoc (u : udoc) : obs :=
  OL [match u_data u with
      | UNil => OC "nil" []
      | URes r => OC "res" [obs_full_resource r]
      | UCol l => OC "col" (map obs_full_resource l)
      end;
      OL (map obs_error (u_errors u));
      OL (map obs_full_resource (u_included u));
      obs_members (u_meta u)].

Definition run_doc_marshal (e : stdenv) (ds : docspec) (fields : list (str * list str)) (self : str) : obs :=
  match build_doc ds with
  | Ok d => obs_fail obs_json (marshal_document e d fields self)
  | _ => OC "panic" []
  end.

Definition run_doc_roundtrip (e : stdenv) (s : sch) (ds : docspec) (fields : list (str * list str))
           (self : str) : obs :=
  match build_doc ds with
  | Ok d =>
      match marshal_document e d fields self with
      | Ok j => OL [obs_json j; obs_fail obs_udoc (unmarshal_document e s j)]
      | _ => OC "fail" []
      end
  | _ => OC "panic" []
  end.

Definition run_doc_unmarshal (e : stdenv) (s : sch) (j : json) : obs :=
  obs_fail obs_udoc (unmarshal_document e s j).

(** Include histories (C03) *)
Fixpoint include_all (d : document) (l : list resource) : res document :=
  match l with
  | [] => Ok d
  | r :: rest => bind (include d r) (fun d' => include_all d' rest)
  end.

Definition run_include (ds : docspec) (incs : list (res resource * list (str * value))) : obs :=
  match build_doc ds, build_list incs with
  | Ok d, Ok l =>
      obs_fail (fun d' => OL (map (fun r => OL [OS (rid r); OS (res_type_name r)]) (d_included d')))
               (include_all d l)
  | _, _ => OC "panic" []
  end.
