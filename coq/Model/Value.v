(* Go values that flow through the Resource interface (the model of [any]). *)
From JV Require Import Model.Base Model.GoTime Gen.TypeGo.

Inductive value : Type :=
| VNil                                 (* untyped nil *)
| VStr (s : str)
| VInt (k : Z) (z : Z)                 (* k: attribute kind code 2..11 = int..uint64 *)
| VBool (b : bool)
| VTime (t : gtime)
| VBytes (isnil : bool) (b : list Z)   (* []byte: nil-ness and contents *)
| VPtr (k : Z) (v : option value)      (* pointer to a value of kind k; None = nil pointer *)
| VStrs (isnil : bool) (l : list str). (* []string *)

(** Environment of the standard-library functions that are modelled as
    oracles (time formatting/parsing, base64). *)
Record stdenv : Type := mkEnv {
  tparse : str -> option gtime;
  tfmt : gtime -> str;
  b64dec : str -> option (list Z);
  b64enc : list Z -> str
}.

Definition is_signed (k : Z) : bool := (2 <=? k)%Z && (k <=? 6)%Z.
Definition is_unsigned (k : Z) : bool := (7 <=? k)%Z && (k <=? 11)%Z.
Definition bits_of (k : Z) : Z :=
  if (k =? 3)%Z || (k =? 8)%Z then 8
  else if (k =? 4)%Z || (k =? 9)%Z then 16
  else if (k =? 5)%Z || (k =? 10)%Z then 32
  else 64.

Definition in_range (k z : Z) : bool :=
  if is_signed k then (- 2 ^ (bits_of k - 1) <=? z)%Z && (z <? 2 ^ (bits_of k - 1))%Z
  else if is_unsigned k then (0 <=? z)%Z && (z <? 2 ^ bits_of k)%Z
  else false.

(** GetZeroValue (type.go) as a function of kind and nullability. *)
Definition base_zero (k : Z) : value :=
  if (k =? 1)%Z then VStr ""
  else if is_signed k || is_unsigned k then VInt k 0
  else if (k =? 12)%Z then VBool false
  else if (k =? 13)%Z then VTime time_zero
  else if (k =? 14)%Z then VBytes false []
  else VNil.

Definition zero_value (k : Z) (nullable : bool) : value :=
  if (1 <=? k)%Z && (k <=? 14)%Z then (if nullable then VPtr k None else base_zero k)
  else VNil.

(** fmt.Sprintf("%T", v) followed by GetAttrType: kind code and nullability
    of a dynamic value (0,false when it is no attribute type). *)
Definition kind_of_value (v : value) : Z * bool :=
  match v with
  | VNil => (0, false)%Z
  | VStr _ => (1, false)%Z
  | VInt k _ => (k, false)
  | VBool _ => (12, false)%Z
  | VTime _ => (13, false)%Z
  | VBytes _ _ => (14, false)%Z
  | VPtr k _ => (k, true)
  | VStrs _ _ => (0, false)%Z
  end.

Definition value_kind_ok (v : value) : bool :=
  match v with
  | VInt k _ => is_signed k || is_unsigned k
  | VPtr k (Some (VStr _)) => (k =? 1)%Z
  | VPtr k (Some (VInt k' _)) => (k =? k')%Z && (is_signed k || is_unsigned k)
  | VPtr k (Some (VBool _)) => (k =? 12)%Z
  | VPtr k (Some (VTime _)) => (k =? 13)%Z
  | VPtr k (Some (VBytes _ _)) => (k =? 14)%Z
  | VPtr k (Some _) => false
  | VPtr k None => (1 <=? k)%Z && (k <=? 14)%Z
  | _ => true
  end.

(** Observation of a value: integers in decimal, bytes as numbers, times as
    (unix, nsec, offset), nil-ness of slices and pointers explicit. *)
Definition obs_time (t : gtime) : obs := OC "time" [OZ (t_unix t); OZ (t_nsec t); OZ (t_off t)].

Fixpoint obs_value (v : value) : obs :=
  match v with
  | VNil => OC "nil" []
  | VStr s => OC "str" [OS s]
  | VInt k z => OC "int" [OZ k; OZ z]
  | VBool b => OC "bool" [OB b]
  | VTime t => obs_time t
  | VBytes n b => OC "bytes" [OB n; OL (map OZ b)]
  | VPtr k None => OC "nilptr" [OZ k]
  | VPtr k (Some v') => OC "ptr" [OZ k; obs_value v']
  | VStrs n l => OC "strs" [OB n; OL (map OS l)]
  end.

(** Oracle tables supplied by the harness for one correspondence case. *)
Definition gtime_eqb (a b : gtime) : bool :=
  Z.eqb (t_unix a) (t_unix b) && Z.eqb (t_nsec a) (t_nsec b) && Z.eqb (t_off a) (t_off b).

Fixpoint zlist_eqb (a b : list Z) : bool :=
  match a, b with
  | [], [] => true
  | x :: xs, y :: ys => Z.eqb x y && zlist_eqb xs ys
  | _, _ => false
  end.

Fixpoint assoc_by {K V} (eqb : K -> K -> bool) (k : K) (m : list (K * V)) : option V :=
  match m with
  | [] => None
  | (k', v) :: rest => if eqb k k' then Some v else assoc_by eqb k rest
  end.

Definition tbl_env (tp : list (str * gtime)) (tf : list (gtime * str))
           (bd : list (str * list Z)) (be : list (list Z * str)) : stdenv :=
  mkEnv (fun s => lookup s tp)
        (fun t => match assoc_by gtime_eqb t tf with Some s => s | None => "?tfmt" end)
        (fun s => lookup s bd)
        (fun b => match assoc_by zlist_eqb b be with Some s => s | None => "?b64enc" end).
