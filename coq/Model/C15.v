(* C15: Schema.Check, mirroring the double loop of schema.go. *)
From JV Require Import Model.Base Gen.TypeGo Model.Schema.

Inductive cerr : Type :=
| ErrTarget (rname tn : str)     (* ToType does not exist *)
| ErrFromType (rname tn : str)   (* FromType is not the owning type's name *)
| ErrInverse (rname tn : str).   (* no relationship of the target names it back *)

Definition points_back (r inv : rel) : bool :=
  String.eqb (from_name r) (to_name inv) && String.eqb (to_name r) (from_name inv).

Definition check_rel (s : schema) (t : type) (r : rel) : list cerr :=
  let target := get_type s (to_type r) in
  (if String.eqb (tname target) "" then [ErrTarget (from_name r) (tname t)] else [])
  ++
  (if String.eqb (to_name r) "" then []
   else if negb (String.eqb (from_type r) (tname t)) then [ErrFromType (from_name r) (tname t)]
   else if existsb (fun kv => points_back r (snd kv)) (trels target) then []
   else [ErrInverse (from_name r) (tname t)]).

Definition check (s : schema) : list cerr :=
  flat_map (fun t => flat_map (fun kv => check_rel s t (snd kv)) (trels t)) (types s).

(** Observation: the number of errors (error texts are never compared). *)
Definition run_check (s : schema) : obs := OZ (Z.of_nat (length (check s))).
