(* What net/url does with a raw URL before jsonapi sees it: url.Parse (cut the
   fragment, cut the query, unescape the path) and URL.Query (ParseQuery,
   errors ignored).  Modelled, not verified: this is the standard library; the
   correspondence check runs [parse_raw] against url.Parse + Query() on the
   same strings.  Domain: raw strings that start with one "/" (no scheme, no
   authority) -- what a JSON:API request target looks like and what
   URL.String() prints; [raw_in_domain] decides it. *)
From JV Require Import Model.Base Model.Url.

Definition unhex (c : ascii) : option N :=
  let n := N_of_ascii c in
  if ((48 <=? n) && (n <=? 57))%N then Some (n - 48)%N
  else if ((65 <=? n) && (n <=? 70))%N then Some (n - 55)%N
  else if ((97 <=? n) && (n <=? 102))%N then Some (n - 87)%N
  else None.

(** url.unescape in the path/fragment modes ([plus_is_space = false]) and in
    the query mode ([true]) *)
Fixpoint unescape (plus_is_space : bool) (s : string) : option string :=
  match s with
  | EmptyString => Some EmptyString
  | String c rest =>
      if Ascii.eqb c "%" then
        match rest with
        | String h (String l rest') =>
            match unhex h, unhex l with
            | Some a, Some b => option_map (String (ascii_of_N (a * 16 + b))) (unescape plus_is_space rest')
            | _, _ => None
            end
        | _ => None
        end
      else if plus_is_space && Ascii.eqb c "+" then option_map (String " ") (unescape plus_is_space rest)
      else option_map (String c) (unescape plus_is_space rest)
  end.

(** stringContainsCTLByte *)
Definition is_ctl (c : ascii) : bool := let n := N_of_ascii c in ((n <? 32) || (n =? 127))%N.
Fixpoint has_ctl (s : string) : bool :=
  match s with EmptyString => false | String c rest => is_ctl c || has_ctl rest end.

Fixpoint contains_char (x : ascii) (s : string) : bool :=
  match s with EmptyString => false | String c rest => Ascii.eqb c x || contains_char x rest end.

(** strings.Cut at the first [sep]: the text before, and the text after when
    [sep] occurs *)
Fixpoint cut_at (sep : ascii) (s : string) : string * option string :=
  match s with
  | EmptyString => (EmptyString, None)
  | String c rest =>
      if Ascii.eqb c sep then (EmptyString, Some rest)
      else let '(a, b) := cut_at sep rest in (String c a, b)
  end.

(** url.Values: m[key] = append(m[key], value) *)
Fixpoint add_value (k v : str) (m : list (str * list str)) : list (str * list str) :=
  match m with
  | [] => [(k, [v])]
  | (k', vs) :: rest =>
      if String.eqb k k' then (k', vs ++ [v]) :: rest else (k', vs) :: add_value k v rest
  end.

(** one iteration of parseQuery; malformed pairs are skipped (Query() drops
    the error) *)
Definition parse_pair (m : list (str * list str)) (piece : string) : list (str * list str) :=
  if contains_char ";" piece then m
  else if String.eqb piece "" then m
  else
    let '(k, v) := cut_at "=" piece in
    match unescape true k, unescape true (match v with Some v => v | None => "" end) with
    | Some k', Some v' => add_value k' v' m
    | _, _ => m
    end.

Definition parse_query (q : string) : list (str * list str) :=
  fold_left parse_pair (split_char "&" q) [].

Definition raw_in_domain (raw : string) : bool :=
  has_prefix "/" raw && negb (has_prefix "//" raw).

(** url.Parse on the domain: the decoded path and the query values, or an
    error (control byte, bad escape in the path or in the fragment) *)
Definition parse_raw (raw : string) : res (str * list (str * list str)) :=
  let '(u, frag) := cut_at "#" raw in
  if has_ctl u then Err      (* the fragment is not looked at *)
  else
    let '(rest, q) := cut_at "?" u in
    match unescape false rest with
    | None => Err
    | Some path =>
        match frag with
        | Some f => match unescape false f with
                    | None => Err
                    | Some _ => Ok (path, parse_query (match q with Some q => q | None => "" end))
                    end
        | None => Ok (path, parse_query (match q with Some q => q | None => "" end))
        end
    end.

Definition sort_values (m : list (str * list str)) : list (str * list str) :=
  isort (fun a b => String.ltb (fst a) (fst b)) m.

Definition run_rawparse (raw : string) : obs :=
  if raw_in_domain raw then
    match parse_raw raw with
    | Ok (p, vs) => OC "ok" [OS p; OL (map (fun kv => OL [OS (fst kv); OL (map OS (snd kv))]) (sort_values vs))]
    | _ => OC "fail" []
    end
  else OC "outside" [].

(** NewURLFromRaw on the domain *)
Definition new_url_from_raw (s : Schema.schema) (raw : str) (fo : filter_oracle) : res url :=
  bind (parse_raw raw) (fun pv => new_url_from s (fst pv) (snd pv) fo).
