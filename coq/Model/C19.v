From JV Require Import Model.Base Model.GoTime Gen.TypeGo Model.Schema Model.Value
  Model.SoftRes Model.Wrapper Model.Resource Model.C14 Model.SoftColl Model.C17 Model.C02.

Definition cstep (c : scoll) (o : cop) : res scoll :=
  match o with
  | CAdd r0 ops => bind (bind r0 (fun r => apply_sets r ops)) (fun r => sc_add c r)
  | CAddOwn ops => bind (apply_sets (RSoft (soft_new (sc_type c))) ops) (fun r => sc_add c r)
  | CRemove id => Ok (sc_remove c id)
  | CSetType t => Ok (sc_set_type c t)
  | CAddAttr a => Ok (snd (sc_add_attr c a))
  | CAddRel r => Ok (snd (sc_add_rel c r))
  end.

Definition obs_item (s : soft) : obs := obs_full_resource (RSoft s).

Definition obs_coll (c : scoll) (probes : list Z) (ids : list str) : obs :=
  OL [OZ (sc_len c);
      OL (map (fun it => obs_item (item_soft c it)) (sc_items c));
      OL (map (fun i => match sc_at c i with Some s => OC "some" [OS (s_id s)] | None => OC "nil" [] end) probes);
      OL (map (fun id => match sc_resource c id with Some s => OC "some" [OS (s_id s)] | None => OC "nil" [] end) ids)].

Fixpoint run_cops (c : scoll) (ops : list cop) (probes : list Z) (ids : list str) : list obs :=
  match ops with
  | [] => []
  | o :: rest =>
      match cstep c o with
      | Ok c' => let c'' := sc_normalise c' in obs_coll c'' probes ids :: run_cops c'' rest probes ids
      | _ => [OC "panic" []]
      end
  end.

Definition run_c19 (t : type) (ops : list cop) (probes : list Z) (ids : list str) : obs :=
  OL (run_cops (mkSColl t []) ops probes ids).
