(* Document: Include, MarshalDocument, UnmarshalDocument, collections and
   identifiers (document.go, collection.go, identifiers.go, error.go).  The
   URL enters through the field selection and the self link text. *)
From JV Require Import Model.Base Model.GoTime Gen.TypeGo Model.Schema Model.Value
  Model.Strconv Model.Json Model.Attr Model.SoftRes Model.Wrapper Model.Resource
  Model.Marshal Model.Unmarshal.

(** Error objects: the eight members *)
Record jerror : Type := mkErr {
  e_id : str; e_code : str; e_status : str; e_title : str; e_detail : str;
  e_links : list (str * str);
  e_source : list (str * json);
  e_meta : list (str * json)
}.

Inductive docdata : Type :=
| DNil
| DRes (r : resource)
| DCol (ctype : str) (l : list resource)   (* a Collection: its GetType().Name and members *)
| DIdent (i : identifier)
| DIdents (isnil : bool) (l : list identifier)
| DUnknown.

Record document : Type := mkDoc {
  d_data : docdata;
  d_included : list resource;
  d_reldata : list (str * list str);
  d_meta : list (str * json);
  d_errors : list jerror;
  d_prepath : str
}.

(** * Include *)
Definition inc_key (r : resource) : res str :=
  bind (get_str r "id") (fun id => Ok (id ++ " " ++ res_type_name r)).

Fixpoint has_inc_key (k : str) (l : list resource) : res bool :=
  match l with
  | [] => Ok false
  | r :: rest => bind (inc_key r) (fun k' => if String.eqb k k' then Ok true else has_inc_key k rest)
  end.

Definition include (d : document) (r : resource) : res document :=
  bind (inc_key r) (fun key =>
    let in_data :=
      match d_data d with
      | DRes dr => bind (inc_key dr) (fun k => Ok (String.eqb k key))
      | DCol _ l => has_inc_key key l
      | _ => Ok false
      end in
    bind in_data (fun found =>
      if found then Ok d
      else bind (has_inc_key key (d_included d)) (fun found2 =>
        if found2 then Ok d
        else Ok (mkDoc (d_data d) (d_included d ++ [r]) (d_reldata d) (d_meta d) (d_errors d) (d_prepath d))))).

(** * MarshalDocument *)
Definition opt_member (k : str) (s : str) : list (str * json) :=
  if String.eqb s "" then [] else [(k, jstr s)].

Definition error_json (e : jerror) : json :=
  jobj (opt_member "id" (e_id e) ++ opt_member "code" (e_code e) ++ opt_member "status" (e_status e)
        ++ opt_member "title" (e_title e) ++ opt_member "detail" (e_detail e)
        ++ (match e_links e with [] => [] | l => [("links", jobj (map (fun kv => (fst kv, jstr (snd kv))) l))] end)
        ++ (match e_source e with [] => [] | l => [("source", jobj l)] end)
        ++ (match e_meta e with [] => [] | l => [("meta", jobj l)] end)).

Definition fields_for (fields : list (str * list str)) (tn : str) : list str :=
  match lookup tn fields with Some l => l | None => [] end.

Fixpoint marshal_all (e : stdenv) (l : list resource) (prepath : str)
         (fields : list (str * list str)) (reldata : list (str * list str)) : res (list json) :=
  match l with
  | [] => Ok []
  | r :: rest =>
      bind (marshal_resource e r prepath (fields_for fields (res_type_name r)) reldata) (fun j =>
        bind (marshal_all e rest prepath fields reldata) (fun js => Ok (j :: js)))
  end.

Definition rid (r : resource) : str :=
  match res_get r "id" with Ok (VStr s) => s | _ => "" end.

(** sort.Slice(doc.Included, by id).  With distinct ids (C11's domain) the
    sorted order is unique.  Resources of different types may share an id:
    for the at most 12 included resources the checks generate, sort.Slice is
    an insertion sort, which keeps equal ids in their original order -- so
    does this one (an element is inserted before the first one that is not
    smaller). *)
Definition sort_included (l : list resource) : list resource :=
  isort (fun a b => String.leb (rid a) (rid b)) l.

Definition ident_json (i : identifier) : json :=
  JObj [("id", jstr (i_id i)); ("type", jstr (i_type i))].

(** the "data" member: [None] when there is none *)
Definition marshal_data (e : stdenv) (d : document) (fields : list (str * list str)) : res (option json) :=
  match d_data d with
  | DRes r =>
      bind (marshal_resource e r (d_prepath d) (fields_for fields (res_type_name r)) (d_reldata d))
           (fun j => Ok (Some j))
  | DCol _ l =>
      bind (marshal_all e l (d_prepath d) fields (d_reldata d)) (fun js => Ok (Some (JArr js)))
  | DIdent i => Ok (Some (ident_json i))
  | DIdents true _ => Ok (Some JNull)
  | DIdents false l => Ok (Some (JArr (map ident_json l)))
  | DNil => Ok (match d_errors d with [] => Some JNull | _ => None end)
  | DUnknown => Err
  end.

(** MarshalDocument doc url, with [fields] = url.Params.Fields and [self] =
    doc.PrePath + url.String() *)
Definition marshal_document (e : stdenv) (d : document) (fields : list (str * list str))
           (self : str) : res json :=
  bind (marshal_data e d fields) (fun data =>
    let errs := match d_errors d with [] => None | l => Some (JArr (map error_json l)) end in
    bind (match d_included d, data with
          | _ :: _, Some _ => bind (marshal_all e (sort_included (d_included d)) (d_prepath d) fields (d_reldata d))
                                   (fun js => Ok js)
          | _, _ => Ok []
          end) (fun incs =>
      Ok (jobj ((match errs with
                 | Some ej => [("errors", ej)]
                 | None => match data with
                           | Some dj => ("data", dj) :: (match incs with [] => [] | _ => [("included", JArr incs)] end)
                           | None => []
                           end
                 end)
                ++ (match d_meta d with [] => [] | m => [("meta", jobj m)] end)
                ++ [("links", jobj [("self", jstr self)]);
                    ("jsonapi", jobj [("version", jstr "1.0")])])))).

(** * Unmarshaling *)
Fixpoint unmarshal_each (e : stdenv) (s : sch) (l : list json) : res (list resource) :=
  match l with
  | [] => Ok []
  | j :: rest =>
      bind (unmarshal_resource e s j) (fun r =>
        bind (unmarshal_each e s rest) (fun rs => Ok (r :: rs)))
  end.

(** UnmarshalCollection *)
Definition unmarshal_collection (e : stdenv) (s : sch) (j : json) : res (list resource) :=
  match j with
  | JArr l => unmarshal_each e s l
  | JNull => Ok []
  | _ => Err
  end.

(** UnmarshalIdentifier / UnmarshalIdentifiers *)
Definition unmarshal_identifier (s : sch) (j : json) : res identifier :=
  match dec_identifier j with
  | None => Err
  | Some i =>
      if String.eqb (i_id i) "" then Err
      else if String.eqb (i_type i) "" then Err
      else if negb (has_type (sch_schema s) (i_type i)) then Err
      else Ok i
  end.

Fixpoint unmarshal_identifier_list (s : sch) (l : list json) : res (list identifier) :=
  match l with
  | [] => Ok []
  | JNull :: _ => Err     (* a nil *json.RawMessage *)
  | j :: rest =>
      bind (unmarshal_identifier s j) (fun i =>
        bind (unmarshal_identifier_list s rest) (fun is' => Ok (i :: is')))
  end.

Definition unmarshal_identifiers (s : sch) (j : json) : res (list identifier) :=
  match j with
  | JArr l => unmarshal_identifier_list s l
  | JNull => Ok []
  | _ => Err
  end.

(** decoding of Error objects *)
Fixpoint dec_str_map (m : list (str * json)) (cur : list (str * str)) : option (list (str * str)) :=
  match m with
  | [] => Some cur
  | (k, JStr s _) :: rest => dec_str_map rest (map_set k s cur)
  | (k, JNull) :: rest =>
      dec_str_map rest (map_set k (match lookup k cur with Some x => "" | None => "" end) cur)
  | _ => None
  end.

Fixpoint dec_error_members (m : list (str * json)) (cur : jerror) : option jerror :=
  match m with
  | [] => Some cur
  | (k, v) :: rest =>
      let upd (f : str -> jerror) (old : str) :=
        match dec_string old v with Some s => dec_error_members rest (f s) | None => None end in
      if key_is "id" k then upd (fun s => mkErr s (e_code cur) (e_status cur) (e_title cur) (e_detail cur) (e_links cur) (e_source cur) (e_meta cur)) (e_id cur)
      else if key_is "code" k then upd (fun s => mkErr (e_id cur) s (e_status cur) (e_title cur) (e_detail cur) (e_links cur) (e_source cur) (e_meta cur)) (e_code cur)
      else if key_is "status" k then upd (fun s => mkErr (e_id cur) (e_code cur) s (e_title cur) (e_detail cur) (e_links cur) (e_source cur) (e_meta cur)) (e_status cur)
      else if key_is "title" k then upd (fun s => mkErr (e_id cur) (e_code cur) (e_status cur) s (e_detail cur) (e_links cur) (e_source cur) (e_meta cur)) (e_title cur)
      else if key_is "detail" k then upd (fun s => mkErr (e_id cur) (e_code cur) (e_status cur) (e_title cur) s (e_links cur) (e_source cur) (e_meta cur)) (e_detail cur)
      else if key_is "links" k then
        match v with
        | JObj o => match dec_str_map o (e_links cur) with
                    | Some l => dec_error_members rest (mkErr (e_id cur) (e_code cur) (e_status cur) (e_title cur) (e_detail cur) l (e_source cur) (e_meta cur))
                    | None => None
                    end
        | JNull => dec_error_members rest (mkErr (e_id cur) (e_code cur) (e_status cur) (e_title cur) (e_detail cur) [] (e_source cur) (e_meta cur))
        | _ => None
        end
      else if key_is "source" k then
        match v with
        | JObj o => dec_error_members rest (mkErr (e_id cur) (e_code cur) (e_status cur) (e_title cur) (e_detail cur) (e_links cur) (merge_raw o (e_source cur)) (e_meta cur))
        | JNull => dec_error_members rest (mkErr (e_id cur) (e_code cur) (e_status cur) (e_title cur) (e_detail cur) (e_links cur) [] (e_meta cur))
        | _ => None
        end
      else if key_is "meta" k then
        match v with
        | JObj o => dec_error_members rest (mkErr (e_id cur) (e_code cur) (e_status cur) (e_title cur) (e_detail cur) (e_links cur) (e_source cur) (merge_raw o (e_meta cur)))
        | JNull => dec_error_members rest (mkErr (e_id cur) (e_code cur) (e_status cur) (e_title cur) (e_detail cur) (e_links cur) (e_source cur) [])
        | _ => None
        end
      else dec_error_members rest cur
  end.

Definition empty_error : jerror := mkErr "" "" "" "" "" [] [] [].

Fixpoint dec_errors (l : list json) : option (list jerror) :=
  match l with
  | [] => Some []
  | j :: rest =>
      let one := match j with
                 | JNull => Some empty_error
                 | JObj m => dec_error_members m empty_error
                 | _ => None
                 end in
      match one, dec_errors rest with
      | Some x, Some r => Some (x :: r)
      | _, _ => None
      end
  end.

(** payloadSkeleton *)
Record payske : Type := mkPaySke {
  p_data : option json;
  p_errors : list jerror;
  p_included : list json;
  p_meta : list (str * json)
}.

Fixpoint dec_payske_members (m : list (str * json)) (cur : payske) : option payske :=
  match m with
  | [] => Some cur
  | (k, v) :: rest =>
      if key_is "data" k then dec_payske_members rest (mkPaySke (Some v) (p_errors cur) (p_included cur) (p_meta cur))
      else if key_is "errors" k then
        match v with
        | JArr l => match dec_errors l with
                    | Some es => dec_payske_members rest (mkPaySke (p_data cur) es (p_included cur) (p_meta cur))
                    | None => None
                    end
        | JNull => dec_payske_members rest (mkPaySke (p_data cur) [] (p_included cur) (p_meta cur))
        | _ => None
        end
      else if key_is "included" k then
        match v with
        | JArr l => dec_payske_members rest (mkPaySke (p_data cur) (p_errors cur) l (p_meta cur))
        | JNull => dec_payske_members rest (mkPaySke (p_data cur) (p_errors cur) [] (p_meta cur))
        | _ => None
        end
      else if key_is "meta" k then
        match v with
        | JObj o => dec_payske_members rest (mkPaySke (p_data cur) (p_errors cur) (p_included cur) (merge_raw o (p_meta cur)))
        | JNull => dec_payske_members rest (mkPaySke (p_data cur) (p_errors cur) (p_included cur) [])
        | _ => None
        end
      else dec_payske_members rest cur
  end.

Definition dec_payske (j : json) : option payske :=
  match j with
  | JNull => Some (mkPaySke None [] [] [])
  | JObj m => dec_payske_members m (mkPaySke None [] [] [])
  | _ => None
  end.

Fixpoint all_identifier_shaped (l : list json) : bool :=
  match l with
  | [] => true
  | j :: rest => match dec_identifier j with Some _ => all_identifier_shaped rest | None => false end
  end.

Inductive udata : Type := UNil | URes (r : resource) | UCol (l : list resource).

Record udoc : Type := mkUDoc {
  u_data : udata;
  u_errors : list jerror;
  u_included : list resource;
  u_meta : list (str * json)
}.

Definition unmarshal_document (e : stdenv) (s : sch) (j : json) : res udoc :=
  match dec_payske j with
  | None => Err
  | Some k =>
      let data_part : res (udata * list jerror) :=
        match p_data k with
        | Some (JObj m) => bind (unmarshal_resource e s (JObj m)) (fun r => Ok (URes r, []))
        | Some (JArr l) => bind (unmarshal_collection e s (JArr l)) (fun c => Ok (UCol c, []))
        | Some JNull => Ok (UNil, [])
        | Some _ => Err
        | None => Ok (UNil, p_errors k)
        end in
      bind data_part (fun de =>
        if negb (all_identifier_shaped (p_included k)) then Err
        else bind (unmarshal_each e s (p_included k)) (fun incs =>
          Ok (mkUDoc (fst de) (snd de) incs (p_meta k))))
  end.
