(* Range and sortedResources.Less (range.go). *)
From JV Require Import Model.Base Model.GoTime Gen.TypeGo Gen.FilterGo Model.Schema Model.Value
  Model.SoftRes Model.Wrapper Model.Resource Model.Filter.

(** Comparison of two values of one attribute, as the type switch of Less
    does it.  Kinds without a case (uint64, *uint64, *[]byte) and values of
    unexpected shapes compare as "equal": the rule is skipped. *)
Definition bool_cmp (a b : bool) : comparison :=
  match a, b with
  | false, true => Lt
  | true, false => Gt
  | _, _ => Eq
  end.

Definition time_cmp (a b : gtime) : comparison :=
  match Z.compare (t_unix a) (t_unix b) with
  | Eq => Z.compare (t_nsec a) (t_nsec b)
  | c => c
  end.

Definition base_vcmp (a b : value) : comparison :=
  match a, b with
  | VStr x, VStr y => String.compare x y
  | VInt k x, VInt k' y => if (k =? 11)%Z || (k' =? 11)%Z then Eq else Z.compare x y
  | VBool x, VBool y => bool_cmp x y
  | VTime x, VTime y => time_cmp x y
  | VBytes _ x, VBytes _ y => bytes_cmp x y
  | _, _ => Eq
  end.

Definition vcmp (a b : value) : comparison :=
  match a, b with
  | VPtr k x, VPtr k' y =>
      if (k =? 11)%Z || (k =? 14)%Z || (k' =? 11)%Z || (k' =? 14)%Z then Eq
      else match x, y with
           | None, None => Eq
           | None, Some _ => Lt          (* nil before non-nil *)
           | Some _, None => Gt
           | Some u, Some w => base_vcmp u w
           end
  | VPtr _ _, _ | _, VPtr _ _ => Eq
  | _, _ => base_vcmp a b
  end.

(** what Less reads for a rule: Get, with an untyped nil replaced by the
    attribute's typed zero value *)
Definition sort_operand (r : resource) (name : str) : value :=
  match res_get r name with
  | Ok VNil => match lookup name (res_attrs r) with
               | Some a => zero_value (acode a) (anull a)
               | None => VNil
               end
  | Ok v => v
  | _ => VNil
  end.

Definition rule_name (rule : str) : str * bool :=
  match rule with
  | String c rest => if Ascii.eqb c "-" then (rest, true) else (rule, false)
  | EmptyString => (rule, false)
  end.

Definition flip (inverse : bool) (c : comparison) : comparison :=
  if inverse then CompOpp c else c.

Definition id_of (r : resource) : str :=
  match res_get r "id" with Ok (VStr s) => s | _ => "" end.

(** the comparison a single rule makes; a rule on "id" is decisive even on a
    tie (Less returns there), which [less] accounts for *)
Definition rule_cmp (rule : str) (a b : resource) : comparison :=
  let '(n, inv) := rule_name rule in
  if String.eqb n "id" then flip inv (String.compare (id_of a) (id_of b))
  else flip inv (vcmp (sort_operand a n) (sort_operand b n)).

Fixpoint lex_cmp (rules : list str) (a b : resource) : comparison :=
  match rules with
  | [] => Eq
  | rule :: rest =>
      if String.eqb (fst (rule_name rule)) "id" then rule_cmp rule a b   (* returns, no continue *)
      else match rule_cmp rule a b with
           | Eq => lex_cmp rest a b
           | c => c
           end
  end.

Definition effective_rules (rules : list str) : list str :=
  match rules with [] => ["id"] | _ => rules end.

Definition less (rules : list str) (a b : resource) : bool :=
  match lex_cmp (effective_rules rules) a b with Lt => true | _ => false end.

(** ID selection (the doubly nested loop) *)
Definition select_ids (c : list resource) (ids : list str) : list resource :=
  match ids with
  | [] => c
  | _ => flat_map (fun r => flat_map (fun id => if String.eqb (id_of r) id then [r] else []) ids) c
  end.

(** filtering; a panic of the filter is a panic of Range *)
Fixpoint filter_allowed (f : filter) (l : list resource) : res (list resource) :=
  match l with
  | [] => Ok []
  | r :: rest =>
      bind (is_allowed f r) (fun ok =>
        bind (filter_allowed f rest) (fun rest' => Ok (if ok then r :: rest' else rest')))
  end.

(** the page window, on unsigned integers without overflow *)
Definition window {A} (l : list A) (size num : Z) : list A :=
  let total := Z.of_nat (length l) in
  if (0 <? size)%Z && (num <=? total / size)%Z
  then firstn (Z.to_nat (Z.min size total)) (skipn (Z.to_nat (num * size)) l)
  else [].

Definition range_with (sorter : (resource -> resource -> bool) -> list resource -> list resource)
           (c : list resource) (ids : list str) (f : option filter) (rules : list str)
           (size num : Z) : res (list resource) :=
  let sel := select_ids c ids in
  bind (match f with Some flt => filter_allowed flt sel | None => Ok sel end) (fun kept =>
    Ok (window (sorter (less rules) kept) size num)).

(** the executable instance: stable insertion sort *)
Definition range := range_with (fun lt l => isort lt l).
