(* C01 / C06 / C13 run functions: marshal, unmarshal, partial unmarshal. *)
From JV Require Import Model.Base Model.GoTime Gen.TypeGo Model.Schema Model.Value
  Model.Strconv Model.Json Model.Attr Model.SoftRes Model.Wrapper Model.Resource
  Model.Marshal Model.Unmarshal Model.Equal Model.C17.

Definition obs_fail {A} (f : A -> obs) (r : res A) : obs :=
  match r with Ok a => OC "ok" [f a] | _ => OC "fail" [] end.

Definition obs_resource (r : resource) (fields : list str) : obs :=
  OL [OS (res_type_name r); dump r fields].

(** build, marshal with the given selection, unmarshal the result *)
Definition run_roundtrip (e : stdenv) (s : sch) (r0 : res resource) (ops : list (str * value))
           (prepath : str) (fields : list str) (reldata : list (str * list str)) : obs :=
  match bind r0 (fun r => apply_sets r ops) with
  | Ok r =>
      match marshal_resource e r prepath fields reldata with
      | Ok j => OL [obs_json j;
                    obs_fail (fun r' => obs_resource r' ("id" :: fields)) (unmarshal_resource e s j)]
      | _ => OC "panic" []
      end
  | _ => OC "panic" []
  end.

(** unmarshal a payload (full and partial), re-marshal the full result *)
Definition obs_soft_struct (s : soft) : obs := obs_struct (RSoft s).

Definition run_unmarshal (e : stdenv) (s : sch) (j : json) (fields : list str) (prepath : str)
           (reldata : list (str * list str)) : obs :=
  let full := unmarshal_resource e s j in
  OL [obs_fail (fun r => obs_resource r ("id" :: fields)) full;
      obs_fail (fun p => OL [obs_soft_struct p;
                             dump (RSoft p) ("id" :: isort String.ltb (map fst (tattrs (s_type p)) ++ map fst (trels (s_type p))))])
               (unmarshal_partial e s j);
      match full with
      | Ok r => obs_fail obs_json (marshal_resource e r prepath fields reldata)
      | _ => OC "fail" []
      end].
