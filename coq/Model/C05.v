(* C05 run function: the six unmarshaling entry points on one JSON tree. *)
From JV Require Import Model.Base Model.GoTime Gen.TypeGo Model.Schema Model.Value
  Model.Strconv Model.Json Model.Attr Model.SoftRes Model.Wrapper Model.Resource
  Model.Marshal Model.Unmarshal Model.Document Model.Url Model.Request Model.C17 Model.C01 Model.C02.

Definition obs_ident (i : identifier) : obs := OL [OS (i_id i); OS (i_type i)].

Definition obs_request (r : res request) : obs :=
  obs_fail (fun q => OC "request" [OB (match rq_doc q with Some _ => true | None => false end)]) r.

Definition run_c05 (e : stdenv) (s : sch) (j : json) : obs :=
  OL [obs_fail (fun u => obs_udoc (mkUDoc (u_data u) (map (fun x => mkErr (e_id x) (e_code x) (e_status x) (e_title x) (e_detail x) (e_links x) [] []) (u_errors u)) (u_included u) [])) (unmarshal_document e s j);
      obs_fail obs_full_resource (unmarshal_resource e s j);
      obs_fail (fun p => OL [obs_soft_struct p;
                             dump (RSoft p) ("id" :: isort String.ltb (map fst (tattrs (s_type p)) ++ map fst (trels (s_type p))))])
               (unmarshal_partial e s j);
      obs_fail (fun l => OL (map obs_full_resource l)) (unmarshal_collection e s j);
      obs_fail obs_ident (unmarshal_identifier s j);
      obs_fail (fun l => OL (map obs_ident l)) (unmarshal_identifiers s j);
      obs_request (new_request e s "POST" "/alltypes" [] FOErr (Some j));
      obs_request (new_request e s "PATCH" "/alltypes" [] FOErr (Some j));
      obs_request (new_request e s "GET" "/alltypes" [] FOErr (Some j));
      obs_request (new_request e s "PATCH" "/alltypes/x1" [] FOErr (Some j))].
