(* Filter.IsAllowed / checkVal (filter.go); the scalar comparison tables are
   the definitions GENERATED from filter.go (Gen/FilterGo.v). *)
From JV Require Import Model.Base Model.GoTime Gen.TypeGo Gen.FilterGo Model.Schema Model.Value
  Model.SoftRes Model.Wrapper Model.Resource.

Inductive filter : Type :=
| FLeaf (field op : str) (val : value)    (* Op not "and"/"or"; Val as decoded *)
| FAnd (fs : list filter)                 (* Op "and", Val []*Filter *)
| FOr (fs : list filter).                 (* Op "or" *)

(** The value the filter looks at: the attribute's value (an untyped nil is
    replaced by the typed zero value), or the relationship's. *)
Definition filter_operand (r : resource) (field : str) : res value :=
  let v1 :=
    match lookup field (res_attrs r) with
    | Some a => bind (res_get r field) (fun v =>
                  Ok (match v with VNil => zero_value (acode a) (anull a) | _ => v end))
    | None => Ok VNil
    end in
  bind v1 (fun v =>
    match lookup field (res_rels r) with
    | Some x =>
        bind (res_get r field) (fun w =>
          if to_one x then (match w with VStr _ => Ok w | _ => Panic end)
          else (match w with VStrs _ _ => Ok w | _ => Panic end))
    | None => Ok v
    end).

Fixpoint strs_eqb' (a b : list str) : bool :=
  match a, b with
  | [], [] => true
  | x :: xs, y :: ys => String.eqb x y && strs_eqb' xs ys
  | _, _ => false
  end.

(** checkSlice: equal as sorted lists; only = and != *)
Definition check_slice (op : str) (a b : list str) : bool :=
  let equal := Nat.eqb (length a) (length b)
               && strs_eqb' (isort String.ltb a) (isort String.ltb b) in
  if String.eqb op "=" then equal else if String.eqb op "!=" then negb equal else false.

(** the nil branches of the pointer cases: pointer identity, so only nil = nil *)
Definition check_nil (op : str) (both_nil : bool) : bool :=
  if String.eqb op "=" then both_nil else if String.eqb op "!=" then negb both_nil else false.

Definition check_base (op : str) (rv cv : value) : res bool :=
  match rv, cv with
  | VStr a, VStr b => Ok (check_str op a b)
  | VInt k a, VInt k' b =>
      if negb (Z.eqb k k') then Panic
      else if is_signed k then Ok (check_int op a b) else Ok (check_uint op a b)
  | VBool a, VBool b => Ok (check_bool op a b)
  | VTime a, VTime b => Ok (check_time op a b)
  | VBytes _ a, VBytes _ b => Ok (check_bytes op a b)
  | _, _ => Panic
  end.

(** checkVal: dispatch on the resource value's dynamic type; the filter value
    is type-asserted to the same type (panic otherwise). *)
Definition check_val (op : str) (rv cv : value) : res bool :=
  match rv with
  | VNil => Ok false
  | VStrs _ a => match cv with VStrs _ b => Ok (check_slice op a b) | _ => Panic end
  | VPtr k ro =>
      match cv with
      | VPtr k' co =>
          if negb (Z.eqb k k') then Panic
          else match ro, co with
               | Some x, Some y => check_base op x y
               | None, None => Ok (check_nil op true)
               | _, _ => Ok (check_nil op false)
               end
      | _ => Panic
      end
  | _ => match cv with
         | VPtr _ _ | VNil | VStrs _ _ => Panic
         | _ => check_base op rv cv
         end
  end.

Fixpoint is_allowed (f : filter) (r : resource) {struct f} : res bool :=
  match f with
  | FAnd fs =>
      (fix all (l : list filter) : res bool :=
         match l with
         | [] => Ok true
         | g :: rest => bind (is_allowed g r) (fun b => if b then all rest else Ok false)
         end) fs
  | FOr fs =>
      (fix any (l : list filter) : res bool :=
         match l with
         | [] => Ok false
         | g :: rest => bind (is_allowed g r) (fun b => if b then Ok true else any rest)
         end) fs
  | FLeaf field op cv =>
      bind (filter_operand r field) (fun rv =>
        if String.eqb op "and" || String.eqb op "or" then Panic
        else if String.eqb op "in" then
          match rv, cv with
          | VStr s, VStrs _ l => Ok (check_in s l)
          | _, _ => Panic
          end
        else if String.eqb op "has" then
          match cv, rv with
          | VStr s, VStrs _ l => Ok (check_in s l)
          | _, _ => Panic
          end
        else check_val op rv cv)
  end.
