From JV Require Import Model.Base Model.GoTime Gen.TypeGo Model.Schema Model.Value
  Model.Strconv Model.Json Model.Url.

Definition obs_pageval (v : pageval) : obs :=
  match v with PInt z => OC "int" [OZ z] | PStr s => OC "str" [OS s] end.

Definition obs_filterparam (f : filterparam) : obs :=
  match f with
  | FPNone => OC "none" []
  | FPLabel l => if String.eqb l "" then OC "none" [] else OC "label" [OS l]
  | FPFilter m => OC "filter" [OS m]
  end.

Definition obs_url (u : url) (label_json : str) : obs :=
  let p := u_params u in
  OL [OL (map OS (u_fragments u)); OS (u_route u); OB (u_iscol u); OS (u_restype u); OS (u_resid u);
      OS (u_relkind u); obs_rel (u_rel u);
      OL (map (fun kv => OL [OS (fst kv); OL (map OS (snd kv))])
              (isort (fun a b => String.ltb (fst a) (fst b)) (p_fields p)));
      obs_filterparam (p_filter p);
      OL (map OS (p_rules p));
      OL (map (fun kv => OL [OS (fst kv); obs_pageval (snd kv)])
              (isort (fun a b => String.ltb (fst a) (fst b)) (p_page p)));
      OL (map (fun l => OL (map obs_rel l)) (p_include p));
      OS (url_string u label_json)].

Definition run_url (s : schema) (path : str) (values : list (str * list str)) (fo : filter_oracle)
           (label_json : str) : obs :=
  match new_url_from s path values fo with
  | Ok u => OC "ok" [obs_url u label_json]
  | Err => OC "fail" []
  | Panic => OC "panic" []
  end.
