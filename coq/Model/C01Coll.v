(* C01 through the collection route: MarshalCollection of a Resources value,
   UnmarshalCollection of the result. *)
From JV Require Import Model.Base Model.GoTime Gen.TypeGo Model.Schema Model.Value
  Model.Strconv Model.Json Model.Attr Model.SoftRes Model.Wrapper Model.Resource
  Model.Marshal Model.Unmarshal Model.Document Model.C17 Model.C01.

Fixpoint build_all (l : list (res resource * list (str * value))) : res (list resource) :=
  match l with
  | [] => Ok []
  | (r0, ops) :: rest =>
      bind (bind r0 (fun r => apply_sets r ops)) (fun r =>
        bind (build_all rest) (fun rs => Ok (r :: rs)))
  end.

Definition run_collection_roundtrip (e : stdenv) (s : sch) (members : list (res resource * list (str * value)))
           (prepath : str) (fields : list (str * list str)) (reldata : list (str * list str)) : obs :=
  match build_all members with
  | Ok l =>
      match marshal_all e l prepath fields reldata with
      | Ok js =>
          OL [obs_json (JArr js);
              obs_fail (fun l' => OL (map (fun r' => obs_resource r' ("id" :: fields_for fields (res_type_name r'))) l'))
                       (unmarshal_collection e s (JArr js))]
      | _ => OC "panic" []
      end
  | _ => OC "panic" []
  end.
