(* NewSimpleURL, NewParams, NewURL, URL.String (simple_url.go, params.go,
   url.go).  net/url is modelled, not verified: the model starts from the
   decoded path and the query values that url.Parse / ParseQuery return; the
   JSON decoding of the filter parameter is an oracle input. *)
From JV Require Import Model.Base Model.GoTime Gen.TypeGo Model.Schema Model.Value
  Model.Strconv Model.Json.

(** * small string functions *)
Fixpoint split_on (sep : ascii) (s : string) (cur : string) : list string :=
  match s with
  | EmptyString => [cur]
  | String c rest =>
      if Ascii.eqb c sep then cur :: split_on sep rest EmptyString
      else split_on sep rest (cur ++ String c EmptyString)
  end.
Definition split_char (sep : ascii) (s : string) : list string := split_on sep s EmptyString.

Definition non_empty (l : list string) : list string :=
  filter (fun x => negb (String.eqb x "")) l.

Definition parse_comma_list (s : string) : list string := non_empty (split_char "," s).
Definition parse_fragments (s : string) : list string := non_empty (split_char "/" s).

Definition has_prefix (p s : string) : bool := String.prefix p s.
Fixpoint has_suffix_rev (p s : list ascii) : bool :=
  match p, s with
  | [], _ => true
  | x :: xs, y :: ys => Ascii.eqb x y && has_suffix_rev xs ys
  | _, [] => false
  end.
Definition has_suffix (suf s : string) : bool :=
  has_suffix_rev (rev (list_ascii_of_string suf)) (rev (list_ascii_of_string s)).

Definition nth_str (l : list str) (i : nat) : str := nth i l "".

(** deduceRoute *)
Definition deduce_route (p : list str) : str :=
  let n := length p in
  let r1 := if Nat.leb 1 n then "/" ++ nth_str p 0 else "" in
  let r2 := if Nat.leb 2 n then (if String.eqb (nth_str p 1) "meta" then r1 ++ "/meta" else r1 ++ "/:id") else r1 in
  let r3 := if Nat.leb 3 n then
              (if String.eqb (nth_str p 2) "relationships" then r2 ++ "/relationships"
               else if String.eqb (nth_str p 2) "meta" then r2 ++ "/meta"
               else r2 ++ "/" ++ nth_str p 2)
            else r2 in
  let r4 := if Nat.leb 4 n then
              (if String.eqb (nth_str p 3) "meta" then r3 ++ "/meta"
               else if String.eqb (nth_str p 2) "relationships" then r3 ++ "/" ++ nth_str p 3
               else r3)
            else r3 in
  if Nat.leb 5 n then (if String.eqb (nth_str p 4) "meta" then r4 ++ "/meta" else r4) else r4.

(** * SimpleURL *)
Inductive pageval : Type := PInt (z : Z) | PStr (s : str).

Inductive filterparam : Type :=
| FPNone
| FPLabel (s : str)
| FPFilter (marshaled : str).   (* json.Marshal of the decoded Filter, as Go prints it *)

Record simple_url : Type := mkSU {
  su_fragments : list str;
  su_route : str;
  su_fields : list (str * list str);
  su_filter : filterparam;
  su_rules : list str;
  su_page : list (str * pageval);
  su_include : list str
}.

(** oracle for the filter parameter: what decoding its value gives *)
Inductive filter_oracle : Type :=
| FOErr                      (* json.Unmarshal fails *)
| FOLabel (s : str)
| FOFilter (marshaled : str).

Definition first_value (vs : list str) : str := match vs with v :: _ => v | [] => "" end.

Definition substr (s : string) (from len : nat) : string := String.substring from len s.

Fixpoint simple_params (values : list (str * list str)) (fo : filter_oracle) (su : simple_url) : res simple_url :=
  match values with
  | [] => Ok su
  | (name, vs) :: rest =>
      let v := first_value vs in
      let n := String.length name in
      if has_prefix "fields[" name && has_suffix "]" name && Nat.ltb 8 n then
        let rt := substr name 7 (n - 8) in
        simple_params rest fo
          (match parse_comma_list v with
           | [] => su
           | fs => mkSU (su_fragments su) (su_route su) (map_set rt fs (su_fields su))
                        (su_filter su) (su_rules su) (su_page su) (su_include su)
           end)
      else if has_prefix "page[" name && has_suffix "]" name && Nat.ltb 6 n then
        let arg := substr name 5 (n - 6) in
        simple_params rest fo
          (if String.eqb v "" then su
           else mkSU (su_fragments su) (su_route su) (su_fields su) (su_filter su) (su_rules su)
                     (map_set arg (match atoi v with Some z => PInt z | None => PStr v end) (su_page su))
                     (su_include su))
      else if String.eqb name "filter" then
        match fo with
        | FOErr => Err
        | FOLabel l => simple_params rest fo (mkSU (su_fragments su) (su_route su) (su_fields su) (FPLabel l) (su_rules su) (su_page su) (su_include su))
        | FOFilter m => simple_params rest fo (mkSU (su_fragments su) (su_route su) (su_fields su) (FPFilter m) (su_rules su) (su_page su) (su_include su))
        end
      else if String.eqb name "sort" then
        simple_params rest fo (mkSU (su_fragments su) (su_route su) (su_fields su) (su_filter su)
                                    (su_rules su ++ flat_map parse_comma_list vs)%list (su_page su) (su_include su))
      else if String.eqb name "include" then
        simple_params rest fo (mkSU (su_fragments su) (su_route su) (su_fields su) (su_filter su)
                                    (su_rules su) (su_page su) (su_include su ++ flat_map parse_comma_list vs)%list)
      else Err
  end.

Definition new_simple_url (path : str) (values : list (str * list str)) (fo : filter_oracle) : res simple_url :=
  let frags := parse_fragments path in
  simple_params values fo (mkSU frags (deduce_route frags) [] FPNone [] [] []).

(** * Params *)
Definition zero_rel : rel := mkRel "" "" false "" "" false.
Definition rel_of (s : schema) (tn name : str) : option rel := lookup name (trels (get_type s tn)).

Fixpoint remove_at {A} (i : nat) (l : list A) : list A :=
  match i, l with
  | O, _ :: rest => rest
  | S j, x :: rest => x :: remove_at j rest
  | _, [] => []
  end.

(** the right-to-left pruning loop *)
Fixpoint prune_loop (i : nat) (l : list str) : list str :=
  match i with
  | O => l
  | S j =>
      let a := nth_str l i in
      let b := nth_str l j in
      let l' := if String.eqb a b || has_prefix (b ++ ".") a then remove_at j l else l in
      prune_loop j l'
  end.

Definition prune_includes (incs : list str) : list str :=
  prune_loop (length incs - 1) incs.

(** one pass over the words of an inclusion path; [None]: the path is removed *)
Fixpoint check_words (s : schema) (words : list str) (cur : rel) (fields : list (str * list str))
  : option (list (str * list str)) * list (str * list str) :=
  match words with
  | [] => (Some fields, fields)
  | w :: rest =>
      let t := get_type s (to_type cur) in
      if String.eqb (tname t) "" then check_words s rest cur fields
      else match lookup w (trels t) with
           | Some r => if has_type s (to_type r)
                       then check_words s rest r (map_set (to_type r) [] fields)
                       else (None, fields)
           | None => (None, fields)
           end
  end.

(** the validation loop deletes while iterating: after a removal the index
    still advances, so the element that slides into position i is skipped *)
Fixpoint check_includes (fuel : nat) (s : schema) (rt : str) (i : nat) (incs : list str)
         (fields : list (str * list str)) : list str * list (str * list str) :=
  match fuel with
  | O => (incs, fields)
  | S f =>
      if Nat.leb (length incs) i then (incs, fields)
      else
        let words := split_char "." (nth_str incs i) in
        match check_words s words (mkRel "" "" false rt "" false) fields with
        | (Some _, fields') => check_includes f s rt (S i) incs fields'
        | (None, fields') => check_includes f s rt (S i) (remove_at i incs) fields'
        end
  end.

Fixpoint include_chain (s : schema) (words : list str) (cur : rel) : list rel :=
  match words with
  | [] => []
  | _ :: rest =>
      cur :: match rest with
             | [] => []
             | w' :: _ => include_chain s rest (match rel_of s (to_type cur) w' with Some r => r | None => zero_rel end)
             end
  end.

Definition build_include (s : schema) (rt : str) (inc : str) : list rel :=
  let words := split_char "." inc in
  match words with
  | [] => []
  | w0 :: _ => include_chain s words (match rel_of s rt w0 with Some r => r | None => zero_rel end)
  end.

Definition type_fields (t : type) : list str :=
  isort String.ltb (map (fun kv => aname (snd kv)) (tattrs t) ++ map (fun kv => from_name (snd kv)) (trels t))%list.

Fixpoint has_dup (l : list str) : bool :=
  match l with
  | [] => false
  | x :: rest => mem_str x rest || has_dup rest
  end.

Fixpoint apply_fields (s : schema) (rt : str) (sf : list (str * list str))
         (fields : list (str * list str)) : res (list (str * list str)) :=
  match sf with
  | [] => Ok fields
  | (t, fs) :: rest =>
      let typ := get_type s t in
      if negb (String.eqb t rt) && String.eqb (tname typ) "" then Err
      else if String.eqb (tname typ) "" then apply_fields s rt rest fields
      else
        let sel := flat_map (fun f => if String.eqb f "id" then ["id"]
                                      else filter (String.eqb f) (type_fields typ)) fs in
        if has_dup sel then Err
        else apply_fields s rt rest (map_set t sel fields)
  end.

Definition default_fields (s : schema) (fields : list (str * list str)) : list (str * list str) :=
  map (fun kv => match snd kv with
                 | [] => (fst kv, type_fields (get_type s (fst kv)))
                 | _ => kv
                 end) fields.

Definition strip_minus (r : str) : str :=
  match r with String c rest => if Ascii.eqb c "-" then rest else r | EmptyString => r end.

Fixpoint requested_rules (attrs : list str) (rules : list str) (acc : list str) : list str :=
  match rules with
  | [] => acc
  | rule :: rest =>
      let u := strip_minus rule in
      if existsb (fun r => String.eqb (strip_minus r) u) acc then requested_rules attrs rest acc
      else if String.eqb u "id" then requested_rules attrs rest (acc ++ [rule])%list
      else if mem_str u attrs then requested_rules attrs rest (acc ++ [rule])%list
      else requested_rules attrs rest acc
  end.

Definition sorting_rules (t : type) (rules : list str) : list str :=
  let attrs := map (fun kv => aname (snd kv)) (tattrs t) in
  let req := requested_rules attrs rules [] in
  let restr := isort String.ltb
                 (filter (fun a => negb (existsb (fun r => String.eqb (strip_minus r) a) req)) attrs) in
  let all := (req ++ restr)%list in
  if existsb (fun r => String.eqb (strip_minus r) "id") req then all else (all ++ ["id"])%list.

Record params : Type := mkParams {
  p_fields : list (str * list str);
  p_filter : filterparam;
  p_rules : list str;
  p_page : list (str * pageval);
  p_include : list (list rel)
}.

Definition is_collection (s : schema) (frags : list str) : bool :=
  match length frags with
  | 1 => true
  | 0 | 2 => false
  | _ => match rel_of s (nth_str frags 0) (nth_str frags (length frags - 1)) with
         | Some r => negb (to_one r)
         | None => true      (* zero Rel: ToOne false *)
         end
  end.

Definition new_params (s : schema) (su : simple_url) (rt : str) : res params :=
  let incs0 := prune_includes (isort String.ltb (su_include su)) in
  let '(incs, fields1) := check_includes (S (length incs0)) s rt 0 incs0 [] in
  let include := map (build_include s rt) incs in
  let fields2 := if String.eqb rt "" then fields1 else map_set rt [] fields1 in
  bind (apply_fields s rt (su_fields su) fields2) (fun fields3 =>
    let fields := default_fields s fields3 in
    let rules := if is_collection s (su_fragments su)
                 then sorting_rules (get_type s rt) (su_rules su) else [] in
    Ok (mkParams fields (su_filter su) rules (su_page su) include)).

(** * URL *)
Record url : Type := mkUrl {
  u_fragments : list str;
  u_route : str;
  u_iscol : bool;
  u_restype : str;
  u_resid : str;
  u_relkind : str;
  u_rel : rel;
  u_params : params
}.

Definition new_url (s : schema) (su : simple_url) : res url :=
  let fr := su_fragments su in
  match fr with
  | [] => Err
  | f0 :: _ =>
      let typ := get_type s f0 in
      if String.eqb (tname typ) "" then Err
      else
        let n := length fr in
        if Nat.leb 3 n then
          match lookup (nth_str fr (n - 1)) (trels typ) with
          | None => Err
          | Some r =>
              if negb (has_type s (to_type r)) then Err
              else
                let kind := if Nat.eqb n 3 then "related" else if Nat.eqb n 4 then "self" else "" in
                bind (new_params s su (to_type r)) (fun p =>
                  Ok (mkUrl fr (su_route su) (negb (to_one r)) (to_type r) "" kind r p))
          end
        else
          bind (new_params s su (tname typ)) (fun p =>
            Ok (mkUrl fr (su_route su) (Nat.eqb n 1) (tname typ)
                      (if Nat.eqb n 2 then nth_str fr 1 else "") "" zero_rel p))
  end.

Definition new_url_from (s : schema) (path : str) (values : list (str * list str)) (fo : filter_oracle) : res url :=
  bind (new_simple_url path values fo) (new_url s).

(** * URL.String *)
Definition hex_digit (n : N) : ascii :=
  ascii_of_N (if (n <? 10)%N then 48 + n else 55 + n).

Definition pct (c : ascii) : string :=
  let n := N_of_ascii c in
  String "%" (String (hex_digit (n / 16)) (String (hex_digit (n mod 16)) EmptyString)).

Definition is_unreserved (c : ascii) : bool :=
  let n := N_of_ascii c in
  ((48 <=? n) && (n <=? 57))%N || ((65 <=? n) && (n <=? 90))%N || ((97 <=? n) && (n <=? 122))%N
  || (n =? 45)%N || (n =? 95)%N || (n =? 46)%N || (n =? 126)%N.

Fixpoint query_escape (s : string) : string :=
  match s with
  | EmptyString => EmptyString
  | String c rest =>
      (if is_unreserved c then String c EmptyString
       else if Ascii.eqb c " " then "+" else pct c) ++ query_escape rest
  end.

(** url.PathEscape: in a path segment  $ & + = : @  stay *)
Definition path_keeps (c : ascii) : bool :=
  is_unreserved c || Ascii.eqb c "$" || Ascii.eqb c "&" || Ascii.eqb c "+" || Ascii.eqb c "="
  || Ascii.eqb c ":" || Ascii.eqb c "@".

Fixpoint path_escape (s : string) : string :=
  match s with
  | EmptyString => EmptyString
  | String c rest => (if path_keeps c then String c EmptyString else pct c) ++ path_escape rest
  end.

Fixpoint join (sep : string) (l : list string) : string :=
  match l with
  | [] => ""
  | [x] => x
  | x :: rest => x ++ sep ++ join sep rest
  end.

Definition chop (n : nat) (s : string) : string := String.substring 0 (String.length s - n) s.

Definition page_text (v : pageval) : string :=
  match v with PInt z => itoa z | PStr s => s end.

Definition sort_fields (m : list (str * list str)) : list (str * list str) :=
  isort (fun a b => String.ltb (fst a) (fst b)) m.

(** [label_json]: the label's JSON string content, as json.Marshal prints it
    (an oracle input, like the filter) *)
Definition url_string (u : url) (label_json : str) : string :=
  let path := chop 1 ("/" ++ fold_right (fun p acc => path_escape p ++ "/" ++ acc) "" (u_fragments u)) in
  let p := u_params u in
  let fparams :=
    map (fun kv =>
           chop 3 ("fields%5B" ++ query_escape (fst kv) ++ "%5D="
                   ++ fold_right (fun f acc => query_escape f ++ "%2C" ++ acc) "" (isort String.ltb (snd kv))))
        (sort_fields (p_fields p)) in
  let filt := match p_filter p with
              | FPFilter m => ["filter=" ++ query_escape m]
              | FPLabel l => if String.eqb l "" then [] else ["filter=" ++ query_escape label_json]
              | FPNone => []
              end in
  let pn := match lookup "number" (p_page p) with
            | Some v => ["page%5Bnumber%5D=" ++ query_escape (page_text v)] | None => [] end in
  let ps := match lookup "size" (p_page p) with
            | Some v => ["page%5Bsize%5D=" ++ query_escape (page_text v)] | None => [] end in
  let page := if u_iscol u then (pn ++ ps)%list else [] in
  let srt := match p_rules p with
             | [] => []
             | rs => ["sort=" ++ join "%2C" (map query_escape rs)]
             end in
  let all := (fparams ++ filt ++ page ++ srt)%list in
  path ++ chop 1 ("?" ++ fold_right (fun x acc => x ++ "&" ++ acc) "" all).
