From JV Require Import Model.Base Model.GoTime Gen.TypeGo Model.Schema Model.Value
  Model.Strconv Model.Json Model.Attr.

Definition run_unmarshal_attr (e : stdenv) (a : attr) (j : json) : obs :=
  obs_res obs_value (unmarshal_to_type e a j).
