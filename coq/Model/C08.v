(* Run file for the raw-URL cases: NewURLFromRaw through the model's own
   url.Parse / Query() (Model/UrlParse.v). *)
From JV Require Import Model.Base Model.GoTime Gen.TypeGo Model.Schema Model.Value
  Model.Strconv Model.Json Model.Url Model.UrlParse Model.C07.

Definition run_url_raw (s : schema) (raw : str) (fo : filter_oracle) (label_json : str) : obs :=
  match new_url_from_raw s raw fo with
  | Ok u => OC "ok" [obs_url u label_json]
  | Err => OC "fail" []
  | Panic => OC "panic" []
  end.
