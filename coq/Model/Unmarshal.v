(* UnmarshalResource / UnmarshalPartialResource (resource.go) and the struct
   decoding of the skeletons (skeletons.go, identifiers.go) at tree level. *)
From JV Require Import Model.Base Model.GoTime Gen.TypeGo Model.Schema Model.Value
  Model.Strconv Model.Json Model.Attr Model.SoftRes Model.Wrapper Model.Resource Model.C14.

(** * encoding/json struct-field matching: exact, or equal after simple case
    folding (ASCII letters; U+017F and U+212A fold to s and k). *)
Definition up_ascii (c : ascii) : ascii :=
  let n := N_of_ascii c in
  if (97 <=? n)%N && (n <=? 122)%N then ascii_of_N (n - 32) else c.

Fixpoint fold_name (s : string) : string :=
  match s with
  | EmptyString => EmptyString
  | String a tl =>
      match tl with
      | String b rest =>
          if (N_of_ascii a =? 197)%N && (N_of_ascii b =? 191)%N then String "S" (fold_name rest)
          else
            match rest with
            | String c rest' =>
                if (N_of_ascii a =? 226)%N && (N_of_ascii b =? 132)%N && (N_of_ascii c =? 170)%N
                then String "K" (fold_name rest')
                else String (up_ascii a) (fold_name tl)
            | EmptyString => String (up_ascii a) (fold_name tl)
            end
      | EmptyString => String (up_ascii a) EmptyString
      end
  end.

Definition key_is (name key : str) : bool :=
  String.eqb key name || String.eqb (fold_name key) (fold_name name).

(** decoding a string-typed struct field: a JSON string sets it, null is a
    no-op, any other kind is an error *)
Definition dec_string (cur : str) (j : json) : option str :=
  match j with
  | JStr s _ => Some s
  | JNull => Some cur
  | _ => None
  end.

(** * Identifier / Identifiers *)
Record identifier : Type := mkIdent { i_id : str; i_type : str }.

Fixpoint dec_identifier_members (m : list (str * json)) (cur : identifier) : option identifier :=
  match m with
  | [] => Some cur
  | (k, v) :: rest =>
      if key_is "id" k then
        match dec_string (i_id cur) v with
        | Some s => dec_identifier_members rest (mkIdent s (i_type cur))
        | None => None
        end
      else if key_is "type" k then
        match dec_string (i_type cur) v with
        | Some s => dec_identifier_members rest (mkIdent (i_id cur) s)
        | None => None
        end
      else dec_identifier_members rest cur
  end.

(** json.Unmarshal(data, &iden): (value after decoding, error?) -- the partial
    value matters because the caller uses iden.ID before looking at err. *)
Definition dec_identifier (j : json) : option identifier :=
  match j with
  | JNull => Some (mkIdent "" "")
  | JObj m => dec_identifier_members m (mkIdent "" "")
  | _ => None
  end.

Fixpoint dec_identifiers_list (l : list json) : option (list identifier) :=
  match l with
  | [] => Some []
  | j :: rest =>
      match dec_identifier j, dec_identifiers_list rest with
      | Some i, Some r => Some (i :: r)
      | _, _ => None
      end
  end.

Definition dec_identifiers (j : json) : option (list identifier) :=
  match j with
  | JNull => Some []
  | JArr l => dec_identifiers_list l
  | _ => None
  end.

(** * resourceSkeleton *)
Record relske : Type := mkRelSke { rs_data : option json }.   (* Data: absent / raw value *)

Record resske : Type := mkResSke {
  k_id : str;
  k_type : str;
  k_attrs : list (str * json);
  k_rels : list (str * relske)
}.

(** map[string]json.RawMessage for links / meta inside a relationship: only
    the JSON kind matters *)
Definition is_obj_or_null (j : json) : bool :=
  match j with JObj _ | JNull => true | _ => false end.

Fixpoint dec_relske_members (m : list (str * json)) (cur : relske) : option relske :=
  match m with
  | [] => Some cur
  | (k, v) :: rest =>
      if key_is "data" k then dec_relske_members rest (mkRelSke (Some v))
      else if key_is "links" k || key_is "meta" k then
        (if is_obj_or_null v then dec_relske_members rest cur else None)
      else dec_relske_members rest cur
  end.

Definition dec_relske (j : json) : option relske :=
  match j with
  | JNull => Some (mkRelSke None)
  | JObj m => dec_relske_members m (mkRelSke None)
  | _ => None
  end.

(** a map member: merge the object's entries into the current map (later
    duplicates overwrite); null empties the map *)
Fixpoint merge_raw (m : list (str * json)) (cur : list (str * json)) : list (str * json) :=
  match m with
  | [] => cur
  | (k, v) :: rest => merge_raw rest (map_set k v cur)
  end.

Fixpoint merge_rels (m : list (str * json)) (cur : list (str * relske)) : option (list (str * relske)) :=
  match m with
  | [] => Some cur
  | (k, v) :: rest =>
      match dec_relske v with
      | Some rs => merge_rels rest (map_set k rs cur)
      | None => None
      end
  end.

Fixpoint dec_resske_members (m : list (str * json)) (cur : resske) : option resske :=
  match m with
  | [] => Some cur
  | (k, v) :: rest =>
      if key_is "id" k then
        match dec_string (k_id cur) v with
        | Some s => dec_resske_members rest (mkResSke s (k_type cur) (k_attrs cur) (k_rels cur))
        | None => None
        end
      else if key_is "type" k then
        match dec_string (k_type cur) v with
        | Some s => dec_resske_members rest (mkResSke (k_id cur) s (k_attrs cur) (k_rels cur))
        | None => None
        end
      else if key_is "attributes" k then
        match v with
        | JObj o => dec_resske_members rest (mkResSke (k_id cur) (k_type cur) (merge_raw o (k_attrs cur)) (k_rels cur))
        | JNull => dec_resske_members rest (mkResSke (k_id cur) (k_type cur) [] (k_rels cur))
        | _ => None
        end
      else if key_is "relationships" k then
        match v with
        | JObj o => match merge_rels o (k_rels cur) with
                    | Some rs => dec_resske_members rest (mkResSke (k_id cur) (k_type cur) (k_attrs cur) rs)
                    | None => None
                    end
        | JNull => dec_resske_members rest (mkResSke (k_id cur) (k_type cur) (k_attrs cur) [])
        | _ => None
        end
      else if key_is "meta" k then
        (if is_obj_or_null v then dec_resske_members rest cur else None)
      else dec_resske_members rest cur
  end.

Definition dec_resske (j : json) : option resske :=
  match j with
  | JNull => Some (mkResSke "" "" [] [])
  | JObj m => dec_resske_members m (mkResSke "" "" [] [])
  | _ => None
  end.

(** * Schemas whose types may be struct-backed *)
Record sch : Type := mkSch {
  sch_schema : schema;
  sch_wrapped : list (str * structdesc)   (* type name -> struct descriptor (NewFunc) *)
}.

Definition type_new (s : sch) (t : type) : res resource :=
  match lookup (tname t) (sch_wrapped s) with
  | Some d => bind (wrap_new d) (fun w => Ok (RWrap w))
  | None => Ok (RSoft (soft_new t))
  end.

(** * UnmarshalResource *)
Fixpoint set_attrs (e : stdenv) (t : type) (r : resource) (l : list (str * json)) : res resource :=
  match l with
  | [] => Ok r
  | (k, v) :: rest =>
      match lookup k (tattrs t) with
      | Some a =>
          bind (unmarshal_to_type e a v) (fun val =>
            bind (res_set r (aname a) val) (fun r' => set_attrs e t r' rest))
      | None => Err
      end
  end.

Definition ids_of (l : list identifier) : list str := map i_id l.

Fixpoint set_rels (t : type) (r : resource) (l : list (str * relske)) : res resource :=
  match l with
  | [] => Ok r
  | (k, rs) :: rest =>
      match lookup k (trels t) with
      | Some x =>
          match rs_data rs with
          | None => set_rels t r rest
          | Some d =>
              if to_one x then
                (* Set runs with whatever ID was decoded, then the error is looked at *)
                match dec_identifier d with
                | Some i => bind (res_set r (from_name x) (VStr (i_id i))) (fun r' => set_rels t r' rest)
                | None => Err
                end
              else
                match dec_identifiers d with
                | Some l' => bind (res_set r (from_name x) (VStrs false (ids_of l'))) (fun r' => set_rels t r' rest)
                | None => Err
                end
          end
      | None => Err
      end
  end.

Definition unmarshal_resource (e : stdenv) (s : sch) (j : json) : res resource :=
  match dec_resske j with
  | None => Err
  | Some k =>
      let t := get_type (sch_schema s) (k_type k) in
      if String.eqb (tname t) "" then Err
      else
        bind (type_new s t) (fun r0 =>
        bind (res_set r0 "id" (VStr (k_id k))) (fun r1 =>
        bind (set_attrs e t r1 (k_attrs k)) (fun r2 =>
          set_rels t r2 (k_rels k))))
  end.

(** * UnmarshalPartialResource: a soft resource over a new type holding only
    the fields present *)
Fixpoint partial_attrs (e : stdenv) (t : type) (s : soft) (l : list (str * json)) : res soft :=
  match l with
  | [] => Ok s
  | (k, v) :: rest =>
      match lookup k (tattrs t) with
      | Some a =>
          bind (unmarshal_to_type e a v) (fun val =>
            let nt := snd (type_add_attr (s_type s) a) in
            partial_attrs e t (soft_set (mkSoft nt (s_id s) (s_data s)) (aname a) val) rest)
      | None => Err
      end
  end.

Fixpoint partial_rels (t : type) (s : soft) (l : list (str * relske)) : res soft :=
  match l with
  | [] => Ok s
  | (k, rs) :: rest =>
      match lookup k (trels t) with
      | Some x =>
          match rs_data rs with
          | None => partial_rels t s rest
          | Some d =>
              let nt := snd (type_add_rel (s_type s) x) in
              let s' := mkSoft nt (s_id s) (s_data s) in
              if to_one x then
                match dec_identifier d with
                | Some i => partial_rels t (soft_set s' (from_name x) (VStr (i_id i))) rest
                | None => Err
                end
              else
                match dec_identifiers d with
                | Some l' => partial_rels t (soft_set s' (from_name x) (VStrs false (ids_of l'))) rest
                | None => Err
                end
          end
      | None => Err
      end
  end.

Definition unmarshal_partial (e : stdenv) (s : sch) (j : json) : res soft :=
  match dec_resske j with
  | None => Err
  | Some k =>
      let t := get_type (sch_schema s) (k_type k) in
      if String.eqb (tname t) "" then Err
      else
        bind (partial_attrs e t (mkSoft (mkType (tname t) [] []) (k_id k) []) (k_attrs k)) (fun s1 =>
          partial_rels t s1 (k_rels k))
  end.
