(* Schema, Type, Attr.  A Go map is an association list in an arbitrary
   order; the map key and the name stored in the value are kept separately
   because the code uses sometimes one, sometimes the other. *)
From JV Require Import Model.Base Gen.TypeGo.

Record attr : Type := mkAttr { aname : str; acode : Z; anull : bool }.

Record type : Type := mkType {
  tname : str;
  tattrs : list (str * attr);
  trels : list (str * rel)
}.

Record schema : Type := mkSchema { types : list type }.

Definition rel_eqb (a b : rel) : bool :=
  String.eqb (from_type a) (from_type b) && String.eqb (from_name a) (from_name b)
  && Bool.eqb (to_one a) (to_one b) && String.eqb (to_type a) (to_type b)
  && String.eqb (to_name a) (to_name b) && Bool.eqb (from_one a) (from_one b).

Definition empty_type : type := mkType "" [] [].

(** Schema.GetType: first type with that name, else the zero Type. *)
Fixpoint get_type_in (ts : list type) (name : str) : type :=
  match ts with
  | [] => empty_type
  | t :: rest => if String.eqb (tname t) name then t else get_type_in rest name
  end.
Definition get_type (s : schema) (name : str) : type := get_type_in (types s) name.

Definition has_type (s : schema) (name : str) : bool :=
  existsb (fun t => String.eqb (tname t) name) (types s).

(** Observation helpers shared by several run files. *)
Definition obs_rel (r : rel) : obs :=
  OC "rel" [OS (from_type r); OS (from_name r); OB (to_one r);
            OS (to_type r); OS (to_name r); OB (from_one r)].
Definition obs_attr (a : attr) : obs :=
  OC "attr" [OS (aname a); OZ (acode a); OB (anull a)].
