(* C12: reachability over the write-effect table that the translator
   regenerates from /repo (Gen/EffectsGo.v).  A node is a function together
   with whether its receiver is a value its caller created. *)
From JV Require Import Model.Base.

Definition fn_entry : Type := list str * list str * list (Z * str).
Definition fn_table : Type := list (str * fn_entry).
Definition enode : Type := (str * bool)%type.

Definition enode_eqb (a b : enode) : bool :=
  String.eqb (fst a) (fst b) && Bool.eqb (snd a) (snd b).

Definition mem_node (n : enode) (l : list enode) : bool := existsb (enode_eqb n) l.

Definition entry_of (tbl : fn_table) (f : str) : fn_entry :=
  match lookup f tbl with Some e => e | None => ([], [], []) end.

(** writes that count at a node: those through the receiver only when the
    receiver is not the caller's own creation *)
Definition node_writes (tbl : fn_table) (n : enode) : list str :=
  let '(rw, ow, _) := entry_of tbl (fst n) in
  (if snd n then [] else rw) ++ ow.

Definition node_succs (tbl : fn_table) (n : enode) : list enode :=
  let '(_, _, calls) := entry_of tbl (fst n) in
  map (fun c : Z * str =>
         let '(m, g) := c in
         (g, if (m =? 0)%Z then true else if (m =? 1)%Z then snd n else false)) calls.

Fixpoint add_new (ns : list enode) (visited : list enode) : list enode * list enode :=
  match ns with
  | [] => ([], visited)
  | n :: rest =>
      if mem_node n visited then add_new rest visited
      else let '(fresh, v') := add_new rest (n :: visited) in (n :: fresh, v')
  end.

Fixpoint explore (fuel : nat) (tbl : fn_table) (frontier visited : list enode) : list enode :=
  match fuel with
  | O => visited
  | S k =>
      match frontier with
      | [] => visited
      | n :: rest =>
          let '(fresh, v') := add_new (node_succs tbl n) visited in
          explore k tbl (rest ++ fresh) v'
      end
  end.

Definition reach_set (tbl : fn_table) (roots : list str) : list enode :=
  let rs := map (fun f => (f, false)) roots in
  let '(fresh, v) := add_new rs [] in
  explore (2 * List.length tbl + 2) tbl fresh v.

(** the set is closed: it has the roots and every successor of a member *)
Definition closed_set (tbl : fn_table) (roots : list str) (v : list enode) : bool :=
  forallb (fun f => mem_node (f, false) v) roots
  && forallb (fun n => forallb (fun m => mem_node m v) (node_succs tbl n)) v.

Definition set_writes (tbl : fn_table) (v : list enode) : list (str * str) :=
  List.concat (map (fun n => map (fun w => (fst n, w)) (node_writes tbl n)) v).

Definition known_roots (tbl : fn_table) (roots : list str) : bool :=
  forallb (fun f => match lookup f tbl with Some _ => true | None => false end) roots.

(** The operations C12 lists, by entry point. *)
Definition c12_roots : list str :=
  ["NewURLFromRaw"; "NewURL"; "NewSimpleURL"; "NewParams";
   "UnmarshalDocument"; "UnmarshalResource"; "UnmarshalCollection"; "UnmarshalPartialResource";
   "UnmarshalIdentifier"; "UnmarshalIdentifiers";
   "Type.New"; "MarshalDocument";
   "Schema.GetType"; "Schema.HasType"; "Schema.Check"; "Schema.Rels"].

(** Writes tolerated below the listed operations: SoftResource.check
    initialising the nil maps of the Type value its resource was made from.
    In the listed operations that value is the copy [Schema.GetType] returned
    to the caller, never the schema's own element; the analysis cannot see
    that, the race runs of the correspondence check do. *)
Definition c12_tolerated : list (str * str) :=
  [("SoftResource.check", "type-field sr.Type.Attrs");
   ("SoftResource.check", "type-field sr.Type.Rels")].

Definition pair_eqb (a b : str * str) : bool :=
  String.eqb (fst a) (fst b) && String.eqb (snd a) (snd b).

Definition untolerated (ws : list (str * str)) : list (str * str) :=
  filter (fun w => negb (existsb (pair_eqb w) c12_tolerated)) ws.

Definition c12_static (tbl : fn_table) : bool :=
  let v := reach_set tbl c12_roots in
  known_roots tbl c12_roots && closed_set tbl c12_roots v
  && match untolerated (set_writes tbl v) with [] => true | _ => false end.
