(* C14: schema editing.  Each operation mirrors its Go loop (schema.go,
   type.go).  The result of an edit is (ok?, schema after). *)
From JV Require Import Model.Base Gen.TypeGo Model.Schema.

(** * Type-level edits *)
Definition attr_name_used (t : type) (n : str) : bool :=
  existsb (fun kv => String.eqb (aname (snd kv)) n) (tattrs t).
Definition rel_name_used (t : type) (n : str) : bool :=
  existsb (fun kv => String.eqb (from_name (snd kv)) n) (trels t).

Definition type_check_attr (t : type) (a : attr) : bool :=
  negb (String.eqb (aname a) "")
  && negb (String.eqb (get_attr_type_string (acode a) false) "")
  && negb (attr_name_used t (aname a)).

Definition type_add_attr (t : type) (a : attr) : bool * type :=
  if type_check_attr t a
  then (true, mkType (tname t) (map_set (aname a) a (tattrs t)) (trels t))
  else (false, t).

Definition type_remove_attr (t : type) (n : str) : type :=
  if attr_name_used t n then mkType (tname t) (remove_key n (tattrs t)) (trels t) else t.

(** Type.checkRel *)
Definition type_check_rel (t : type) (r : rel) : bool :=
  negb (String.eqb (from_name r) "")
  && negb (String.eqb (to_type r) "")
  && negb (rel_name_used t (from_name r)).

Definition type_add_rel (t : type) (r : rel) : bool * type :=
  if type_check_rel t r
  then (true, mkType (tname t) (tattrs t) (map_set (from_name r) r (trels t)))
  else (false, t).

Definition type_remove_rel (t : type) (n : str) : type :=
  if rel_name_used t n then mkType (tname t) (tattrs t) (remove_key n (trels t)) else t.

(** * Schema-level edits *)
Fixpoint find_type (ts : list type) (n : str) : option type :=
  match ts with
  | [] => None
  | t :: rest => if String.eqb (tname t) n then Some t else find_type rest n
  end.

(** Apply [f] to the first type named [n] (the loops that [return] inside). *)
Fixpoint upd_first (ts : list type) (n : str) (f : type -> type) : list type :=
  match ts with
  | [] => []
  | t :: rest => if String.eqb (tname t) n then f t :: rest else t :: upd_first rest n f
  end.

(** Apply [f] to every type named [n] (the loops without [return]). *)
Definition upd_all (ts : list type) (n : str) (f : type -> type) : list type :=
  map (fun t => if String.eqb (tname t) n then f t else t) ts.

Fixpoint remove_first (ts : list type) (n : str) : list type :=
  match ts with
  | [] => []
  | t :: rest => if String.eqb (tname t) n then rest else t :: remove_first rest n
  end.

Definition schema_add_type (s : schema) (t : type) : bool * schema :=
  if String.eqb (tname t) "" then (false, s)
  else if has_type s (tname t) then (false, s)
  else (true, mkSchema (types s ++ [t])).

Definition schema_remove_type (s : schema) (n : str) : schema :=
  mkSchema (remove_first (types s) n).

Definition schema_add_attr (s : schema) (n : str) (a : attr) : bool * schema :=
  match find_type (types s) n with
  | None => (false, s)
  | Some t =>
      if type_check_attr t a
      then (true, mkSchema (upd_first (types s) n (fun t => snd (type_add_attr t a))))
      else (false, s)
  end.

Definition schema_remove_attr (s : schema) (n an : str) : schema :=
  mkSchema (upd_all (types s) n (fun t => type_remove_attr t an)).

Definition schema_add_rel (s : schema) (n : str) (r : rel) : bool * schema :=
  match find_type (types s) n with
  | None => (false, s)
  | Some t =>
      if type_check_rel t r
      then (true, mkSchema (upd_first (types s) n (fun t => snd (type_add_rel t r))))
      else (false, s)
  end.

Definition schema_remove_rel (s : schema) (n rn : str) : schema :=
  mkSchema (upd_all (types s) n (fun t => type_remove_rel t rn)).

Definition schema_add_two_way_rel (s : schema) (r : rel) : bool * schema :=
  let rel1 := rel_normalize r in
  let rel2 := rel_invert rel1 in
  let t1 := find_type (types s) (from_type rel1) in
  let t2 := find_type (types s) (from_type rel2) in
  let ok1 := match t1 with Some t => type_check_rel t rel1 | None => true end in
  let ok2 := match t2 with Some t => type_check_rel t rel2 | None => true end in
  if negb ok1 then (false, s)
  else if negb ok2 then (false, s)
  else match t1, t2 with
       | Some _, Some _ =>
           (* typ1 == typ2 (same pointer) iff both names are the same *)
           if String.eqb (from_type rel1) (from_type rel2)
              && String.eqb (from_name rel1) (from_name rel2)
           then (false, s)
           else
             let ts1 := upd_first (types s) (from_type rel1) (fun t => snd (type_add_rel t rel1)) in
             let ts2 := upd_first ts1 (from_type rel2) (fun t => snd (type_add_rel t rel2)) in
             (true, mkSchema ts2)
       | _, _ => (false, s)
       end.

Inductive op : Type :=
| OpAddType (t : type)
| OpRemoveType (n : str)
| OpAddAttr (n : str) (a : attr)
| OpRemoveAttr (n an : str)
| OpAddRel (n : str) (r : rel)
| OpRemoveRel (n rn : str)
| OpAddTwoWayRel (r : rel).

Definition step (s : schema) (o : op) : bool * schema :=
  match o with
  | OpAddType t => schema_add_type s t
  | OpRemoveType n => (true, schema_remove_type s n)
  | OpAddAttr n a => schema_add_attr s n a
  | OpRemoveAttr n an => (true, schema_remove_attr s n an)
  | OpAddRel n r => schema_add_rel s n r
  | OpRemoveRel n rn => (true, schema_remove_rel s n rn)
  | OpAddTwoWayRel r => schema_add_two_way_rel s r
  end.

Definition run (s : schema) (ops : list op) : schema :=
  fold_left (fun s o => snd (step s o)) ops s.

(** * Observation for the correspondence: after every step, the result class,
    the whole schema (maps sorted by key) and the lookups for a list of probe
    names. *)
Definition sort_keys {A} (m : list (str * A)) : list (str * A) :=
  isort (fun a b => String.ltb (fst a) (fst b)) m.

Definition obs_type (t : type) : obs :=
  OC "type" [OS (tname t);
             OL (map (fun kv => OL [OS (fst kv); obs_attr (snd kv)]) (sort_keys (tattrs t)));
             OL (map (fun kv => OL [OS (fst kv); obs_rel (snd kv)]) (sort_keys (trels t)))].

Definition obs_schema (s : schema) : obs := OL (map obs_type (types s)).

Definition obs_lookups (s : schema) (probes : list str) : obs :=
  OL (map (fun n => OL [OB (has_type s n); obs_type (get_type s n)]) probes).

Fixpoint run_obs (s : schema) (ops : list op) (probes : list str) : list obs :=
  match ops with
  | [] => []
  | o :: rest =>
      let '(ok, s') := step s o in
      OL [OB ok; obs_schema s'; obs_lookups s' probes] :: run_obs s' rest probes
  end.

Definition run_history (ops : list op) (probes : list str) : obs :=
  OL (run_obs (mkSchema []) ops probes).
