(* C18: storage model.  Slices ([]byte, []string) live in heap cells and are
   referred to by address; everything else is an immediate value.  Copy, Set,
   writes through a slice obtained from Get, and the in-place sorts done by
   marshaling and filtering are operations on (heap, resource). *)
From JV Require Import Model.Base Model.GoTime Gen.TypeGo Model.Schema Model.Value.

Definition addr := nat.

Inductive cell : Type :=
| CBytes (b : list Z)
| CStrs (l : list str).

Definition heap := list cell.

Inductive slot : Type :=
| SImm (v : value)                     (* never mutated in place *)
| SBytes (a : option addr)             (* []byte: nil or a cell *)
| SPBytes (a : option (option addr))   (* *[]byte: nil pointer, or pointer to (nil slice | cell) *)
| SStrs (a : option addr).             (* []string *)

Record hres : Type := mkHRes { h_fields : list (str * slot); h_id : str }.

(** what a caller passes to Set: slice contents are given, the slice itself is
    the caller's own fresh storage *)
Inductive newval : Type :=
| NImm (v : value)
| NBytes (b : option (list Z))
| NPBytes (b : option (option (list Z)))
| NStrs (l : option (list str)).

Definition alloc (h : heap) (c : cell) : heap * addr := ((h ++ [c])%list, length h).

Definition store (h : heap) (n : newval) : heap * slot :=
  match n with
  | NImm v => (h, SImm v)
  | NBytes None => (h, SBytes None)
  | NBytes (Some b) => let '(h', a) := alloc h (CBytes b) in (h', SBytes (Some a))
  | NPBytes None => (h, SPBytes None)
  | NPBytes (Some None) => (h, SPBytes (Some None))
  | NPBytes (Some (Some b)) => let '(h', a) := alloc h (CBytes b) in (h', SPBytes (Some (Some a)))
  | NStrs None => (h, SStrs None)
  | NStrs (Some l) => let '(h', a) := alloc h (CStrs l) in (h', SStrs (Some a))
  end.

Definition slot_addr (s : slot) : option addr :=
  match s with
  | SBytes a => a
  | SPBytes (Some a) => a
  | SStrs a => a
  | _ => None
  end.

(** Set: only for a field the resource has (the type is fixed here) *)
Definition hset (h : heap) (r : hres) (f : str) (n : newval) : heap * hres :=
  match lookup f (h_fields r) with
  | Some _ => let '(h', s) := store h n in (h', mkHRes (map_set f s (h_fields r)) (h_id r))
  | None => (h, r)
  end.

(** the content read through Get *)
Inductive rdval : Type :=
| RImm (v : value)
| RBytes (b : option (list Z))
| RPBytes (b : option (option (list Z)))
| RStrs (l : option (list str)).

Definition cell_bytes (h : heap) (a : addr) : list Z :=
  match nth_error h a with Some (CBytes b) => b | _ => [] end.
Definition cell_strs (h : heap) (a : addr) : list str :=
  match nth_error h a with Some (CStrs l) => l | _ => [] end.

Definition read_slot (h : heap) (s : slot) : rdval :=
  match s with
  | SImm v => RImm v
  | SBytes a => RBytes (option_map (cell_bytes h) a)
  | SPBytes a => RPBytes (option_map (option_map (cell_bytes h)) a)
  | SStrs a => RStrs (option_map (cell_strs h) a)
  end.

Definition hread (h : heap) (r : hres) (f : str) : option rdval :=
  option_map (read_slot h) (lookup f (h_fields r)).

(** Copy (soft: copyData; wrapper: Copy): every slice gets fresh storage *)
Definition copy_slot (h : heap) (s : slot) : heap * slot :=
  match s with
  | SImm v => (h, SImm v)
  | SBytes None => (h, SBytes None)
  | SBytes (Some a) => let '(h', a') := alloc h (CBytes (cell_bytes h a)) in (h', SBytes (Some a'))
  | SPBytes None => (h, SPBytes None)
  | SPBytes (Some None) => (h, SPBytes (Some None))
  | SPBytes (Some (Some a)) => let '(h', a') := alloc h (CBytes (cell_bytes h a)) in (h', SPBytes (Some (Some a')))
  | SStrs None => (h, SStrs None)
  | SStrs (Some a) => let '(h', a') := alloc h (CStrs (cell_strs h a)) in (h', SStrs (Some a'))
  end.

Fixpoint copy_fields (h : heap) (fs : list (str * slot)) : heap * list (str * slot) :=
  match fs with
  | [] => (h, [])
  | (k, s) :: rest =>
      let '(h1, s') := copy_slot h s in
      let '(h2, rest') := copy_fields h1 rest in
      (h2, (k, s') :: rest')
  end.

Definition hcopy (h : heap) (r : hres) : heap * hres :=
  let '(h', fs) := copy_fields h (h_fields r) in (h', mkHRes fs (h_id r)).

(** in-place updates of a cell *)
Fixpoint set_nth {A} (i : nat) (x : A) (l : list A) : list A :=
  match i, l with
  | O, _ :: rest => x :: rest
  | S j, y :: rest => y :: set_nth j x rest
  | _, [] => []
  end.

Definition update_cell (h : heap) (a : addr) (f : cell -> cell) : heap :=
  match nth_error h a with
  | Some c => set_nth a (f c) h
  | None => h
  end.

(** write element [i] of the slice obtained from Get *)
Definition hmut (h : heap) (r : hres) (f : str) (i : nat) (zb : Z) (zs : str) : heap :=
  match option_map slot_addr (lookup f (h_fields r)) with
  | Some (Some a) =>
      update_cell h a (fun c => match c with
                                | CBytes b => CBytes (set_nth i zb b)
                                | CStrs l => CStrs (set_nth i zs l)
                                end)
  | _ => h
  end.

(** sort.Strings on the to-many cells (marshaling: every to-many field asked
    for; filtering: one field) *)
Definition hsort_field (h : heap) (r : hres) (f : str) : heap :=
  match lookup f (h_fields r) with
  | Some (SStrs (Some a)) =>
      update_cell h a (fun c => match c with CStrs l => CStrs (isort String.ltb l) | _ => c end)
  | _ => h
  end.

Definition hsort_fields (h : heap) (r : hres) (fs : list str) : heap :=
  fold_left (fun h f => hsort_field h r f) fs h.

(** the operations of a history; [who]: false = the source, true = the copy *)
Inductive hop : Type :=
| HSet (who : bool) (f : str) (n : newval)
| HSetID (who : bool) (id : str)
| HMut (who : bool) (f : str) (i : nat) (zb : Z) (zs : str)
| HSort (who : bool) (fs : list str).     (* marshal / filter *)

Record hstate : Type := mkHS { hs_heap : heap; hs_src : hres; hs_cpy : hres }.

Definition pick_res (st : hstate) (who : bool) : hres := if who then hs_cpy st else hs_src st.

Definition hstep (st : hstate) (o : hop) : hstate :=
  match o with
  | HSet who f n =>
      let '(h', r') := hset (hs_heap st) (pick_res st who) f n in
      if who then mkHS h' (hs_src st) r' else mkHS h' r' (hs_cpy st)
  | HSetID who id =>
      let r := pick_res st who in
      let r' := mkHRes (h_fields r) id in
      if who then mkHS (hs_heap st) (hs_src st) r' else mkHS (hs_heap st) r' (hs_cpy st)
  | HMut who f i zb zs => mkHS (hmut (hs_heap st) (pick_res st who) f i zb zs) (hs_src st) (hs_cpy st)
  | HSort who fs => mkHS (hsort_fields (hs_heap st) (pick_res st who) fs) (hs_src st) (hs_cpy st)
  end.

Definition hrun (st : hstate) (ops : list hop) : hstate := fold_left hstep ops st.

(** build the source by Sets on zero-valued slots, then Copy *)
Definition hbuild (zero : list (str * slot)) (sets : list (str * newval)) (id : str) : heap * hres :=
  fold_left (fun hr kv => hset (fst hr) (snd hr) (fst kv) (snd kv)) sets ([], mkHRes zero id).

Definition hinit (zero : list (str * slot)) (sets : list (str * newval)) (id : str) : hstate :=
  let '(h, r) := hbuild zero sets id in
  let '(h', c) := hcopy h r in
  mkHS h' r c.
