(* Attr.UnmarshalToType (type.go), on the JSON tree of the raw message. *)
From JV Require Import Model.Base Model.GoTime Gen.TypeGo Model.Schema Model.Value
  Model.Strconv Model.Json.

Definition wrap_null (a : attr) (v : value) : value :=
  if anull a then VPtr (acode a) (Some v) else v.

(** json.Unmarshal of an array into []byte: each element a uint8 number or
    null (a no-op leaving 0). *)
Fixpoint bytes_of_array (l : list json) : option (list Z) :=
  match l with
  | [] => Some []
  | JNull :: rest => option_map (cons 0%Z) (bytes_of_array rest)
  | JNum lit :: rest =>
      match parse_uint lit 8, bytes_of_array rest with
      | Some z, Some r => Some (z :: r)
      | _, _ => None
      end
  | _ :: _ => None
  end.

Definition unmarshal_to_type (e : stdenv) (a : attr) (j : json) : res value :=
  let k := acode a in
  if anull a && is_jnull j then Ok (zero_value k true)
  else if is_jnull j && negb (k =? 14)%Z then Err
  else if (k =? 1)%Z then
    match j with JStr s _ => Ok (wrap_null a (VStr s)) | _ => Err end
  else if is_signed k then
    match j with
    | JNum lit => match parse_int lit (bits_of k) with
                  | Some z => Ok (wrap_null a (VInt k z)) | None => Err end
    | _ => Err
    end
  else if is_unsigned k then
    match j with
    | JNum lit => match parse_uint lit (bits_of k) with
                  | Some z => Ok (wrap_null a (VInt k z)) | None => Err end
    | _ => Err
    end
  else if (k =? 12)%Z then
    match j with JBool b => Ok (wrap_null a (VBool b)) | _ => Err end
  else if (k =? 13)%Z then
    match j with
    | JStr s false => match tparse e s with
                      | Some t => Ok (wrap_null a (VTime t)) | None => Err end
    | _ => Err
    end
  else if (k =? 14)%Z then
    match j with
    | JNull => Ok (wrap_null a (VBytes true []))
    | JStr s _ => match b64dec e s with
                  | Some b => Ok (wrap_null a (VBytes false b)) | None => Panic end
    | JArr l => match bytes_of_array l with
                | Some b => Ok (wrap_null a (VBytes false b)) | None => Panic end
    | _ => Panic
    end
  else Err.
