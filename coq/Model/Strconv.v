(* strconv.Atoi / ParseInt(s,10,w) / ParseUint(s,10,w) and decimal printing,
   through the standard library's decimal conversions.  Base 10 only: one
   optional sign for the signed forms, decimal digits only, no underscores. *)
From Coq Require Import DecimalString DecimalN.
From JV Require Import Model.Base.

(** non-empty string of decimal digits -> its value *)
Definition parse_udec (s : str) : option Z :=
  option_map (fun d => Z.of_N (N.of_uint d)) (NilZero.uint_of_string s).

Definition parse_uint (s : str) (bits : Z) : option Z :=
  match parse_udec s with
  | Some z => if (z <? 2 ^ bits)%Z then Some z else None
  | None => None
  end.

Definition parse_int (s : str) (bits : Z) : option Z :=
  match s with
  | EmptyString => None
  | String c rest =>
      let neg := Ascii.eqb c "-" in
      let body := if neg || Ascii.eqb c "+" then rest else s in
      match parse_udec body with
      | Some z =>
          if neg then (if (z <=? 2 ^ (bits - 1))%Z then Some (- z)%Z else None)
          else (if (z <? 2 ^ (bits - 1))%Z then Some z else None)
      | None => None
      end
  end.

Definition atoi (s : str) : option Z := parse_int s 64.

(** decimal text of a non-negative / any integer (strconv.FormatUint/FormatInt) *)
Definition utoa (z : Z) : str := NilZero.string_of_uint (N.to_uint (Z.to_N z)).
Definition itoa (z : Z) : str := if (z <? 0)%Z then String "-" (utoa (- z)) else utoa z.
