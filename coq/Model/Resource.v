(* The Resource interface over its two shipped implementations. *)
From JV Require Import Model.Base Model.GoTime Gen.TypeGo Model.Schema Model.Value
  Model.SoftRes Model.Wrapper.

Inductive resource : Type :=
| RSoft (s : soft)
| RWrap (w : wrapper).

Definition res_attrs (r : resource) : list (str * attr) :=
  match r with
  | RSoft s => tattrs (s_type (soft_check s))
  | RWrap w => w_attrs w
  end.

Definition res_rels (r : resource) : list (str * rel) :=
  match r with
  | RSoft s => trels (s_type (soft_check s))
  | RWrap w => w_rels w
  end.

Definition res_type_name (r : resource) : str :=
  match r with
  | RSoft s => tname (s_type s)
  | RWrap w => w_typ w
  end.

Definition res_type (r : resource) : type :=
  mkType (res_type_name r) (res_attrs r) (res_rels r).

Definition res_get (r : resource) (key : str) : res value :=
  match r with
  | RSoft s => Ok (soft_get s key)
  | RWrap w => wrapper_get w key
  end.

Definition res_set (r : resource) (key : str) (v : value) : res resource :=
  match r with
  | RSoft s => Ok (RSoft (soft_set s key v))
  | RWrap w => bind (wrapper_set w key v) (fun w' => Ok (RWrap w'))
  end.

(** canonical reading used by C17: nil pointer = untyped nil, nil slice =
    empty slice *)
Definition canon (v : value) : value :=
  match v with
  | VPtr _ None => VNil
  | VBytes _ [] => VBytes false []
  | VStrs _ [] => VStrs false []
  | _ => v
  end.
