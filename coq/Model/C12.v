(* C12 run file: threads of schema queries under a schedule. *)
From JV Require Import Model.Base Model.GoTime Gen.TypeGo Model.Schema Model.C14 Model.C15 Model.C16 Model.Shared.

Inductive qop : Type :=
| QHas (n : str)
| QGet (n : str)
| QCheck
| QRels.

Definition q_run (s : schema) (o : qop) : obs :=
  match o with
  | QHas n => OB (has_type s n)
  | QGet n => obs_type (get_type s n)
  | QCheck => run_check s
  | QRels => run_schema_rels s
  end.

Definition q_sop (o : qop) : @sop schema obs := reader (fun s => q_run s o).

(** results of one thread, oldest first *)
Definition thread_results (tid : nat) (res : list (nat * obs)) : list obs :=
  rev (map snd (filter (fun p => Nat.eqb (fst p) tid) res)).

Definition run_c12 (s : schema) (threads : list (list qop)) (sched : list Z) : obs :=
  let t := run_schedule (map Z.to_nat sched) (map (map q_sop) threads) (mkTrace s [] 0) in
  OL [OL (map (fun tid => OL (thread_results tid (tr_results t))) (seq 0 (List.length threads)));
      obs_schema (tr_state t);
      OZ (Z.of_nat (tr_writes t))].
