(* Shared vocabulary of the executable model.  Definitions only (plus the
   generic observation type used by the correspondence check); lemmas about
   them live in Proofs/BaseFacts.v. *)
From Coq Require Export List String Ascii ZArith NArith Bool.
Export ListNotations.
Open Scope string_scope.
Open Scope list_scope.
(* [length] means the list one throughout; strings use [String.length]. *)
Notation length := List.length (only parsing).

(** * Go strings are byte strings; [String.compare] is Go's [<] on strings. *)
Definition str := string.
Definition slt (a b : str) : bool := String.ltb a b.
Definition sle (a b : str) : bool := String.leb a b.
Definition seqb (a b : str) : bool := String.eqb a b.

(** * Hex transport of arbitrary byte strings from the Go harness. *)
Definition hexval (c : ascii) : N :=
  let n := N_of_ascii c in
  if (48 <=? n)%N && (n <=? 57)%N then (n - 48)%N
  else if (97 <=? n)%N && (n <=? 102)%N then (n - 87)%N
  else 0%N.

Fixpoint hx (s : string) : string :=
  match s with
  | String a (String b rest) =>
      String (ascii_of_N (hexval a * 16 + hexval b)) (hx rest)
  | _ => EmptyString
  end.

(** * Outcomes.  A Go panic is a value of the model. *)
Inductive res (A : Type) : Type :=
| Ok (a : A)
| Err
| Panic.
Arguments Ok {A} a.
Arguments Err {A}.
Arguments Panic {A}.

Definition bind {A B} (r : res A) (f : A -> res B) : res B :=
  match r with Ok a => f a | Err => Err | Panic => Panic end.

Definition is_ok {A} (r : res A) : bool :=
  match r with Ok _ => true | _ => false end.
Definition is_panic {A} (r : res A) : bool :=
  match r with Panic => true | _ => false end.

(** * Generic observations: what both the Go harness and the model print. *)
Inductive obs : Type :=
| OS (s : string)
| OZ (z : Z)
| OB (b : bool)
| OL (l : list obs)
| OC (tag : string) (args : list obs).

Fixpoint obs_eqb (a b : obs) {struct a} : bool :=
  let fix list_eqb (l1 l2 : list obs) {struct l1} : bool :=
    match l1, l2 with
    | [], [] => true
    | x :: xs, y :: ys => obs_eqb x y && list_eqb xs ys
    | _, _ => false
    end in
  match a, b with
  | OS s, OS t => String.eqb s t
  | OZ x, OZ y => Z.eqb x y
  | OB x, OB y => Bool.eqb x y
  | OL l1, OL l2 => list_eqb l1 l2
  | OC t1 l1, OC t2 l2 => String.eqb t1 t2 && list_eqb l1 l2
  | _, _ => false
  end.

(** A correspondence case: index, model-side observation (computed), Go-side
    observation (recorded).  [mismatches] returns the indices that differ
    together with what the model computed. *)
Definition mismatches (cases : list (Z * obs * obs)) : list (Z * obs) :=
  flat_map (fun c => match c with
                     | (i, m, g) => if obs_eqb m g then [] else [(i, m)]
                     end) cases.

Definition obs_res {A} (f : A -> obs) (r : res A) : obs :=
  match r with
  | Ok a => OC "ok" [f a]
  | Err => OC "err" []
  | Panic => OC "panic" []
  end.

(** * Small list helpers used by several models. *)
Fixpoint insert_by {A} (lt : A -> A -> bool) (x : A) (l : list A) : list A :=
  match l with
  | [] => [x]
  | y :: ys => if lt x y then x :: l else y :: insert_by lt x ys
  end.

(** Stable insertion sort: [x] goes before the first [y] with [x < y]. *)
Fixpoint isort {A} (lt : A -> A -> bool) (l : list A) : list A :=
  match l with
  | [] => []
  | x :: xs => insert_by lt x (isort lt xs)
  end.

Fixpoint mem_str (x : str) (l : list str) : bool :=
  match l with
  | [] => false
  | y :: ys => String.eqb x y || mem_str x ys
  end.

Fixpoint lookup {A} (k : str) (m : list (str * A)) : option A :=
  match m with
  | [] => None
  | (k', v) :: rest => if String.eqb k k' then Some v else lookup k rest
  end.

Fixpoint remove_key {A} (k : str) (m : list (str * A)) : list (str * A) :=
  match m with
  | [] => []
  | (k', v) :: rest =>
      if String.eqb k k' then remove_key k rest else (k', v) :: remove_key k rest
  end.

(** Go map write [m[k] = v]: replace in place when present, else append
    (position is irrelevant: iteration order is quantified over). *)
Fixpoint map_set {A} (k : str) (v : A) (m : list (str * A)) : list (str * A) :=
  match m with
  | [] => [(k, v)]
  | (k', v') :: rest =>
      if String.eqb k k' then (k, v) :: rest else (k', v') :: map_set k v rest
  end.

(** [scan2 p a b]: some index below both lengths satisfies [p a[i] b[i]]
    (the shape of the byte loops in filter.go). *)
Fixpoint scan2 {A} (p : A -> A -> bool) (a b : list A) : bool :=
  match a, b with
  | x :: xs, y :: ys => p x y || scan2 p xs ys
  | _, _ => false
  end.

(** bytes.Compare: -1, 0 or +1, lexicographic on byte values. *)
Fixpoint bytes_cmp (a b : list Z) : comparison :=
  match a, b with
  | [], [] => Eq
  | [], _ :: _ => Lt
  | _ :: _, [] => Gt
  | x :: xs, y :: ys => match Z.compare x y with Eq => bytes_cmp xs ys | c => c end
  end.
Definition bytes_compare (a b : list Z) : Z :=
  match bytes_cmp a b with Lt => (-1)%Z | Eq => 0%Z | Gt => 1%Z end.
