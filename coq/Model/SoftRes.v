(* SoftResource (soft_resource.go).  The resource owns a Type value and a
   data map; check() normalises the data map against the type and is run at
   the start of every method, as in the Go code. *)
From JV Require Import Model.Base Model.GoTime Gen.TypeGo Model.Schema Model.Value.

Record soft : Type := mkSoft {
  s_type : type;
  s_id : str;
  s_data : list (str * value)
}.

Definition has_key {A} (k : str) (m : list (str * A)) : bool :=
  existsb (fun kv => String.eqb (fst kv) k) m.

Definition soft_fields (t : type) : list str :=
  map (fun kv => aname (snd kv)) (tattrs t) ++ map (fun kv => from_name (snd kv)) (trels t).

Definition fill_attrs (t : type) (d : list (str * value)) : list (str * value) :=
  fold_left (fun d kv =>
               let n := aname (snd kv) in
               if has_key n d then d else map_set n (zero_value (acode (snd kv)) (anull (snd kv))) d)
            (tattrs t) d.

Definition fill_rels (t : type) (d : list (str * value)) : list (str * value) :=
  fold_left (fun d kv =>
               let n := from_name (snd kv) in
               if has_key n d then d
               else map_set n (if to_one (snd kv) then VStr "" else VStrs false []) d)
            (trels t) d.

Definition soft_check (s : soft) : soft :=
  let t := s_type s in
  let d := fill_rels t (fill_attrs t (s_data s)) in
  let fields := soft_fields t in
  let d := if Nat.ltb (length fields) (length d)
           then filter (fun kv => mem_str (fst kv) fields) d else d in
  mkSoft t (s_id s) d.

Definition soft_new (t : type) : soft := mkSoft t "" [].

Definition soft_get (s0 : soft) (key : str) : value :=
  let s := soft_check s0 in
  if String.eqb key "id" then VStr (s_id s)
  else if has_key key (tattrs (s_type s)) || has_key key (trels (s_type s)) then
    match lookup key (s_data s) with Some v => v | None => VNil end
  else VNil.

Definition soft_set (s0 : soft) (key : str) (v : value) : soft :=
  let s := soft_check s0 in
  if String.eqb key "id" then
    mkSoft (s_type s) (match v with VStr x => x | _ => "" end) (s_data s)
  else
    match lookup key (tattrs (s_type s)) with
    | Some a =>
        let '(k, n) := kind_of_value v in
        if Z.eqb (acode a) k && Bool.eqb (anull a) n
        then mkSoft (s_type s) (s_id s) (map_set key v (s_data s))
        else match v with
             | VNil => if anull a
                       then mkSoft (s_type s) (s_id s) (map_set key (zero_value (acode a) (anull a)) (s_data s))
                       else s
             | _ => s
             end
    | None =>
        match lookup key (trels (s_type s)) with
        | Some r =>
            match v with
            | VStr _ => if to_one r then mkSoft (s_type s) (s_id s) (map_set key v (s_data s)) else s
            | VStrs _ _ => if to_one r then s else mkSoft (s_type s) (s_id s) (map_set key v (s_data s))
            | _ => s
            end
        | None => s
        end
    end.
