(* C13 -- Partial unmarshaling reports exactly the fields present.
   [unmarshal_partial] / [unmarshal_resource] mirror UnmarshalPartialResource /
   UnmarshalResource (Model/Unmarshal.v); [dec_resske] is the tree-level model
   of encoding/json decoding the resource skeleton (case-folded member names,
   later duplicates win, maps merge, null empties a map), so [k_attrs k] IS
   "the attributes that appear in the payload's attributes object". *)
From JV Require Import Model.Base Model.GoTime Gen.TypeGo Model.Schema Model.Value
  Model.Json Model.SoftRes Model.Wrapper Model.Resource Model.Unmarshal Proofs.C14Facts Proofs.SoftFacts Proofs.C13Facts Proofs.C13Rels Proofs.C13Values Proofs.C05Mixed Proofs.WrapperFacts Proofs.C01Wrapped Proofs.C13Mixed.

(* accepted by partial unmarshaling iff accepted by full unmarshaling (and a
   panic on one side is a panic on the other); proved for schemas of soft
   types; struct-backed types: correspondence only *)
Theorem C13_accept_iff_partial : forall e s j,
  all_soft s ->
  is_ok (unmarshal_partial e s j) = is_ok (unmarshal_resource e s j) /\
  is_panic (unmarshal_partial e s j) = is_panic (unmarshal_resource e s j).
Proof. exact accept_iff. Qed.
Print Assumptions C13_accept_iff_partial.

(* ... and the same for schemas that mix soft and struct-backed types (every
   struct one Wrap accepts, the schema type the built one): full unmarshaling
   Sets the decoded values on a struct, partial unmarshaling on a soft
   resource, and both stop at the same member of the payload *)
Theorem C13_accept_iff_mixed : forall e s j,
  sch_ok s ->
  is_ok (unmarshal_partial e s j) = is_ok (unmarshal_resource e s j) /\
  is_panic (unmarshal_partial e s j) = is_panic (unmarshal_resource e s j).
Proof. exact accept_iff_mixed. Qed.
Print Assumptions C13_accept_iff_mixed.

(* the resulting type has the schema type's name *)
Theorem C13_type_name : forall e s j p,
  unmarshal_partial e s j = Ok p ->
  exists k, dec_resske j = Some k /\
            tname (s_type p) = tname (get_type (sch_schema s) (k_type k)) /\
            tname (s_type p) <> "".
Proof. exact partial_type_name. Qed.
Print Assumptions C13_type_name.

(* exactly the attributes present in the payload, each with the schema's definition *)
Theorem C13_attrs_exact : forall e s j p,
  unmarshal_partial e s j = Ok p ->
  exists k, dec_resske j = Some k /\
    (wf_type (get_type (sch_schema s) (k_type k)) ->
     (forall n, In n (map fst (tattrs (s_type p))) <-> In n (map fst (k_attrs k))) /\
     (forall n a, In (n, a) (tattrs (s_type p)) ->
                  lookup n (tattrs (get_type (sch_schema s) (k_type k))) = Some a)).
Proof. exact partial_attrs_exact. Qed.
Print Assumptions C13_attrs_exact.

(* exactly the relationships whose object carries a data member
   ([with_data]: the keys of the payload's relationships object whose value
   has a "data" member, null included), each with the schema's definition *)
Theorem C13_rels_exact : forall e s j p,
  unmarshal_partial e s j = Ok p ->
  exists k, dec_resske j = Some k /\
    (wf_type (get_type (sch_schema s) (k_type k)) ->
     (forall n, In n (map fst (trels (s_type p))) <-> In n (with_data (k_rels k))) /\
     (forall n x, In (n, x) (trels (s_type p)) ->
                  lookup n (trels (get_type (sch_schema s) (k_type k))) = Some x)).
Proof. exact partial_rels_exact. Qed.
Print Assumptions C13_rels_exact.

(* ... each with the value full unmarshaling gives it (schemas of soft types
   whose type for the payload is well formed: unique names, attribute and
   relationship names disjoint, no field called id) *)
Theorem C13_values_agree : forall e s j p r,
  sch_wrapped s = [] ->
  (forall k, dec_resske j = Some k -> wf_res_type (get_type (sch_schema s) (k_type k))) ->
  unmarshal_partial e s j = Ok p -> unmarshal_resource e s j = Ok (RSoft r) ->
  soft_get p "id" = soft_get r "id" /\
  forall f, is_field (s_type p) f -> soft_get p f = soft_get r f.
Proof. exact partial_values_agree. Qed.
Print Assumptions C13_values_agree.

(* the same for struct-backed types: full unmarshaling stores the values in a
   struct, partial unmarshaling in a soft resource; what the struct reads for
   the id, for every attribute of the partial type ([read_slot]: a nil pointer
   reads as nil) and for every relationship of the partial type is the partial
   resource's value *)
Theorem C13_values_agree_wrapped : forall e s j p r d,
  sch_ok s ->
  (forall k, dec_resske j = Some k ->
     lookup (tname (get_type (sch_schema s) (k_type k))) (sch_wrapped s) = Some d /\
     wf_res_type (get_type (sch_schema s) (k_type k))) ->
  unmarshal_partial e s j = Ok p -> unmarshal_resource e s j = Ok r ->
  exists w', r = RWrap w' /\
    wrapper_get w' "id" = Ok (soft_get p "id") /\
    (forall n, In n (map fst (tattrs (s_type p))) -> wrapper_get w' n = Ok (read_slot (soft_get p n))) /\
    (forall n, In n (map fst (trels (s_type p))) -> wrapper_get w' n = Ok (soft_get p n)).
Proof. exact partial_values_agree_wrapped. Qed.
Print Assumptions C13_values_agree_wrapped.

Example c13_wrapped_example :
  let e := tbl_env [] [] [] [] in
  let j := JObj [("type", jstr "things"); ("id", jstr "7");
                 ("attributes", JObj [("n", JNull); ("a", jstr "x")]);
                 ("relationships", JObj [("many", JObj [("data", JArr [JObj [("id", jstr "u1"); ("type", jstr "u")]])])])] in
  sch_ok exw_sch /\ is_ok (unmarshal_partial e exw_sch j) = true /\ is_ok (unmarshal_resource e exw_sch j) = true /\
  lookup "things" (sch_wrapped exw_sch) = Some exw_desc.
Proof. cbn zeta. split; [exact (proj1 exw_sch_ok)|]. vm_compute. repeat split. Qed.

Example c13_example :
  let e := tbl_env [] [] [] [] in
  let t := mkType "t" [("a", mkAttr "a" 1 false); ("b", mkAttr "b" 3 true)]
                      [("r", mkRel "t" "r" true "u" "" false)] in
  let s := mkSch (mkSchema [t; mkType "u" [] []]) [] in
  let j := JObj [("type", jstr "t"); ("id", jstr "7");
                 ("attributes", JObj [("b", JNull)]);
                 ("relationships", JObj [("r", JObj [("links", JObj [])])])] in
  option_map (fun p => (map fst (tattrs (s_type p)), map fst (trels (s_type p))))
             (match unmarshal_partial e s j with Ok p => Some p | _ => None end)
  = Some (["b"], []).
Proof. vm_compute. reflexivity. Qed.
