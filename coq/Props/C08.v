(* C08 -- URL.String is a canonical form that parses back to the same URL.
   Proved here, about [url_string] (Model/Url.v, mirroring URL.String),
   [parse_raw] (Model/UrlParse.v: url.Parse + Query(), modelled and run against
   the standard library by the correspondence check) and [new_url_from]
   (NewSimpleURL + NewURL):
   (1) the escaping is invertible for EVERY byte string and escaped values
   contain no delimiter;
   (2) the text depends on the field selections as a map of sets only;
   (3) C08_string_parses_to_its_parameters: the printed text parses into the
   fragments' path and exactly one value per printed parameter;
   (4) C08_sorting_rules_fixed_point: the rule list is a fixed point of the
   normalisation in NewParams;
   (5) C08_string_fixed_point_partial: for every URL that parsing returns,
   parsing its String() succeeds, recovers fragments, type, id, relationship,
   field selection (as sets), rules, page number/size and filter, and prints
   the same text again.  PARTIAL: under the naming hygiene [schema_hyg] (the
   property's own domain is "every schema whose names are JSON:API member
   names": such names contain no comma and do not start with '-'; every
   type has a field -- otherwise the recorded finding empty-field-list-chopped
   --, field names without commas, attribute names not starting with '-' and
   not "id"; C08_fixed_point_without_hygiene_refuted shows it is needed) and
   under [fo_agrees] (decoding the printed filter text gives the filter back:
   json.Marshal / Unmarshal of Filter are oracle inputs of the model; the Go
   oracle checks this on every generated URL).
   (6) C08_parameter_order_values / C08_parameter_order_raw: the URL (and its
   text) does not depend on the order in which differently named parameters
   are met -- for every order of Go's map iteration over url.Values, and for
   two raw URLs whose '&'-separated pieces are permutations of each other
   (Proofs/PermFold.v: steps with different keys commute up to map
   equality; Proofs/C08Order.v). *)
From Coq Require Import Permutation.
From JV Require Import Model.Base Model.GoTime Gen.TypeGo Model.Schema Model.Value
  Model.Url Model.UrlParse Proofs.C08Facts Proofs.C08Strings Proofs.C08Parse Proofs.C08Rules Proofs.C08Reparse
  Proofs.C08Origin Proofs.C08Fixed Proofs.PermFold Proofs.C08Order.

Theorem C08_query_escape_invertible : forall s, unescape true (query_escape s) = Some s.
Proof. exact query_unescape_escape. Qed.
Print Assumptions C08_query_escape_invertible.

Theorem C08_path_escape_invertible : forall s, unescape false (path_escape s) = Some s.
Proof. exact path_unescape_escape. Qed.
Print Assumptions C08_path_escape_invertible.

Theorem C08_escaped_values_have_no_delimiter : forall s, no_delim (query_escape s) = true.
Proof. exact query_escape_no_delim. Qed.
Print Assumptions C08_escaped_values_have_no_delimiter.

Theorem C08_field_names_order : forall k l1 l2,
  Permutation l1 l2 -> field_param (k, l1) = field_param (k, l2).
Proof. exact field_param_perm. Qed.
Print Assumptions C08_field_names_order.

Theorem C08_string_canonical : forall u1 u2 lj,
  u_fragments u1 = u_fragments u2 -> u_iscol u1 = u_iscol u2 ->
  p_filter (u_params u1) = p_filter (u_params u2) ->
  p_rules (u_params u1) = p_rules (u_params u2) ->
  p_page (u_params u1) = p_page (u_params u2) ->
  NoDup (map fst (p_fields (u_params u1))) ->
  Permutation (p_fields (u_params u1)) (p_fields (u_params u2)) ->
  url_string u1 lj = url_string u2 lj.
Proof. exact url_string_fields_order. Qed.
Print Assumptions C08_string_canonical.

Theorem C08_string_parses_to_its_parameters : forall u lj x l,
  u_fragments u = x :: l ->
  Forall (fun kv => snd kv <> []) (p_fields (u_params u)) ->
  NoDup (map fst (dec_params u lj)) ->
  parse_raw (url_string u lj) = Ok (("/" ++ join "/" (x :: l))%string, map one_value (dec_params u lj)).
Proof. exact parse_raw_url_string. Qed.
Print Assumptions C08_string_parses_to_its_parameters.

Theorem C08_sorting_rules_fixed_point : forall t rules,
  NoDup (attr_names t) ->
  (forall a, In a (attr_names t) -> strip_minus a = a /\ a <> "id") ->
  sorting_rules t (sorting_rules t rules) = sorting_rules t rules.
Proof. exact sorting_rules_fixed_point. Qed.
Print Assumptions C08_sorting_rules_fixed_point.

Theorem C08_string_fixed_point_partial : forall s path values fo u lj fo',
  schema_hyg s -> new_url_from s path values fo = Ok u ->
  fo_agrees (p_filter (u_params u)) fo' ->
  exists u', new_url_from_raw s (url_string u lj) fo' = Ok u' /\
             url_string u' lj = url_string u lj /\ url_same u u'.
Proof. exact string_fixed_point. Qed.
Print Assumptions C08_string_fixed_point_partial.

Theorem C08_parameter_order_values : forall s path vs1 vs2 fo lj,
  NoDup (map fst vs1) -> Permutation vs1 vs2 ->
  match new_url_from s path vs1 fo, new_url_from s path vs2 fo with
  | Ok u1, Ok u2 => url_eq u1 u2 /\ url_string u1 lj = url_string u2 lj
  | Err, Err => True
  | _, _ => False
  end.
Proof. exact values_order. Qed.
Print Assumptions C08_parameter_order_values.

Theorem C08_parameter_order_raw : forall s P x1 ps1 x2 ps2 fo lj,
  all_chars rsafe P = true -> Forall piece_safe (x1 :: ps1) ->
  Permutation (x1 :: ps1) (x2 :: ps2) ->
  NoDup (map fst (decoded (x1 :: ps1))) ->
  match new_url_from_raw s (P ++ "?" ++ join "&" (x1 :: ps1)) fo,
        new_url_from_raw s (P ++ "?" ++ join "&" (x2 :: ps2)) fo with
  | Ok u1, Ok u2 => url_eq u1 u2 /\ url_string u1 lj = url_string u2 lj
  | Err, Err => True
  | _, _ => False
  end.
Proof. exact raw_order. Qed.
Print Assumptions C08_parameter_order_raw.

(* every text String() prints for such a URL lies in the domain on which
   [parse_raw] models url.Parse (one leading slash, not two) *)
Theorem C08_string_in_parse_domain : forall s path values fo u lj,
  schema_hyg s -> new_url_from s path values fo = Ok u -> raw_in_domain (url_string u lj) = true.
Proof.
  intros s path values fo u lj Hy H. apply (url_string_in_domain s). exact (new_url_from_wf s path values fo u Hy H).
Qed.
Print Assumptions C08_string_in_parse_domain.

(** the hygiene is needed: with an attribute called "-a" the second String()
    differs from the first *)
Definition c08_odd_schema : schema := mkSchema [mkType "t" [("-a", mkAttr "-a" 1 false)] []].

Theorem C08_fixed_point_without_hygiene_refuted :
  exists u u', new_url_from c08_odd_schema "/t" [] FOErr = Ok u /\
               new_url_from_raw c08_odd_schema (url_string u "") FOErr = Ok u' /\
               url_string u' "" <> url_string u "".
Proof.
  eexists. eexists. split; [vm_compute; reflexivity|]. split; [vm_compute; reflexivity|].
  vm_compute. discriminate.
Qed.
Print Assumptions C08_fixed_point_without_hygiene_refuted.

(** non-vacuity: a schema with the hygiene and a URL with every kind of parameter *)
Definition c08_schema : schema :=
  mkSchema [mkType "t" [("a", mkAttr "a" 1 false); ("b", mkAttr "b" 2 false)]
                       [("r", mkRel "t" "r" true "u" "" false)];
            mkType "u" [("title", mkAttr "title" 1 false)] []].

Example c08_schema_hyg : schema_hyg c08_schema.
Proof.
  constructor.
  - reflexivity.
  - intros t [<-|[<-|[]]]; (split; [discriminate|]); (split; [repeat constructor; cbn; intuition discriminate|]).
    all: repeat constructor; try discriminate.
  - intros t a [<-|[<-|[]]]; cbn [attr_names map tattrs snd aname In]; intros H;
      repeat (destruct H as [<-|H]; [split; [reflexivity|discriminate]|]); destruct H.
Qed.

Example c08_fixed_point_example :
  exists u, new_url_from c08_schema "/t"
              [("sort", ["-b,id"]); ("fields[t]", ["b,a"]); ("fields[u]", ["title"]);
               ("page[size]", ["10"]); ("page[number]", ["x y"]); ("include", ["r"]);
               ("filter", ["la bel"])] (FOLabel "la bel") = Ok u /\
            url_string u "la bel"
            = "/t?fields%5Bt%5D=a%2Cb&fields%5Bu%5D=title&filter=la+bel&page%5Bnumber%5D=x+y&page%5Bsize%5D=10&sort=-b%2Cid%2Ca" /\
            fo_agrees (p_filter (u_params u)) (FOLabel "la bel").
Proof. eexists. split; [vm_compute; reflexivity|]. split; [vm_compute; reflexivity|]. right. reflexivity. Qed.

Example c08_order_example :
  let ps := ["sort=-b"; "fields%5Bt%5D=b,a"; "page%5Bsize%5D=10"; "bad=%zz"; "include=r"] in
  all_chars rsafe "/t" = true /\ Forall piece_safe ps /\ NoDup (map fst (decoded ps)) /\
  decoded ps = [("sort", "-b"); ("fields[t]", "b,a"); ("page[size]", "10"); ("include", "r")] /\
  is_ok (new_url_from_raw c08_schema ("/t?" ++ join "&" ps) FOErr) = true.
Proof.
  cbn zeta. split; [reflexivity|]. split; [repeat constructor|].
  split; [vm_compute; repeat constructor; cbn; intuition discriminate|].
  split; vm_compute; reflexivity.
Qed.

Example c08_escape_examples :
  query_escape "a b&c?#%+/=" = "a+b%26c%3F%23%25%2B%2F%3D" /\
  path_escape "a b?/" = "a%20b%3F%2F".
Proof. vm_compute. split; reflexivity. Qed.
