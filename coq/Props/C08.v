(* C08 -- URL.String is a canonical form that parses back to the same URL.
   Proved here, about [url_string] (Model/Url.v, mirroring URL.String):
   (1) the escaping it applies is invertible for EVERY byte string -- query
   values (url.QueryEscape) and path segments (url.PathEscape) -- and escaped
   query values contain none of the characters that delimit a URL's parts, so
   a value can neither be cut nor merged on the way back; (2) the text is a
   function of the field selections as a map of sets: reordering the
   selection entries or the names inside them does not change it.
   NOT PROVED (correspondence + oracle only): the full fixed point
   parse(String(u)) = u, which needs url.Parse / ParseQuery themselves; the
   recorded finding empty-field-list-chopped (a type without any field) is a
   counterexample pinned by the golden files. *)
From Coq Require Import Permutation.
From JV Require Import Model.Base Model.GoTime Gen.TypeGo Model.Schema Model.Value
  Model.Url Proofs.C08Facts.

Theorem C08_query_escape_invertible : forall s, unescape true (query_escape s) = Some s.
Proof. exact query_unescape_escape. Qed.
Print Assumptions C08_query_escape_invertible.

Theorem C08_path_escape_invertible : forall s, unescape false (path_escape s) = Some s.
Proof. exact path_unescape_escape. Qed.
Print Assumptions C08_path_escape_invertible.

Theorem C08_escaped_values_have_no_delimiter : forall s, no_delim (query_escape s) = true.
Proof. exact query_escape_no_delim. Qed.
Print Assumptions C08_escaped_values_have_no_delimiter.

Theorem C08_field_names_order : forall k l1 l2,
  Permutation l1 l2 -> field_param (k, l1) = field_param (k, l2).
Proof. exact field_param_perm. Qed.
Print Assumptions C08_field_names_order.

Theorem C08_string_canonical : forall u1 u2 lj,
  u_fragments u1 = u_fragments u2 -> u_iscol u1 = u_iscol u2 ->
  p_filter (u_params u1) = p_filter (u_params u2) ->
  p_rules (u_params u1) = p_rules (u_params u2) ->
  p_page (u_params u1) = p_page (u_params u2) ->
  NoDup (map fst (p_fields (u_params u1))) ->
  Permutation (p_fields (u_params u1)) (p_fields (u_params u2)) ->
  url_string u1 lj = url_string u2 lj.
Proof. exact url_string_fields_order. Qed.
Print Assumptions C08_string_canonical.

Example c08_escape_examples :
  query_escape "a b&c?#%+/=" = "a+b%26c%3F%23%25%2B%2F%3D" /\
  path_escape "a b?/" = "a%20b%3F%2F".
Proof. vm_compute. split; reflexivity. Qed.
