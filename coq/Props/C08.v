From JV Require Import Model.Base Model.C07.
Theorem C08_placeholder : True. Proof. exact I. Qed.
Print Assumptions C08_placeholder.
