(* C19 -- SoftCollection behaves as an ordered in-memory store.
   [scoll] (Model/SoftColl.v): the collection's current type and the ordered
   list of (id, data map); stored resources share the collection's type
   (SetType rebinds them: repaired, see KNOWN_FINDINGS).  Len, At, Resource,
   Remove, Add, AddAttr, AddRel, SetType mirror soft_collection.go; reading an
   element is SoftResource's Get (C17). *)
From JV Require Import Model.Base Model.GoTime Gen.TypeGo Model.Schema Model.Value
  Model.SoftRes Model.Resource Model.SoftColl Proofs.SoftFacts Proofs.C19Facts Proofs.C19Values.

(* Len and At agree with the list; an out-of-range At is nil *)
Theorem C19_len : forall c, sc_len c = Z.of_nat (length (ids_of_coll c)).
Proof. exact sc_len_spec. Qed.
Print Assumptions C19_len.

Theorem C19_at_out_of_range : forall c i, (i < 0 \/ sc_len c <= i)%Z -> sc_at c i = None.
Proof. exact sc_at_out_of_range. Qed.
Print Assumptions C19_at_out_of_range.

Theorem C19_at_in_range : forall c i,
  (0 <= i < sc_len c)%Z ->
  exists it, nth_error (sc_items c) (Z.to_nat i) = Some it /\ sc_at c i = Some (item_soft c it).
Proof. exact sc_at_in_range. Qed.
Print Assumptions C19_at_in_range.

(* Remove deletes the first element with that ID and nothing else *)
Theorem C19_remove_first : forall id l1 it l2,
  (forall x, In x l1 -> fst x <> id) -> fst it = id ->
  remove_first_id id (l1 ++ it :: l2) = (l1 ++ l2)%list.
Proof. exact remove_first_id_first. Qed.
Print Assumptions C19_remove_first.

Theorem C19_remove_absent : forall id l,
  (forall it, In it l -> fst it <> id) -> remove_first_id id l = l.
Proof. exact remove_first_id_absent. Qed.
Print Assumptions C19_remove_absent.

(* Add appends one element, carrying the resource's ID, and leaves the
   stored elements as they were *)
Theorem C19_add_appends : forall c src c' id,
  res_get src "id" = Ok (VStr id) ->
  Forall (fun kv => aname (snd kv) <> "id") (res_attrs src) ->
  Forall (fun kv => from_name (snd kv) <> "id") (res_rels src) ->
  sc_add c src = Ok c' -> exists data, sc_items c' = (sc_items c ++ [(id, data)])%list.
Proof. exact sc_add_id. Qed.
Print Assumptions C19_add_appends.

(* AddAttr / AddRel / SetType never touch the stored elements *)
Theorem C19_type_edits_keep_items : forall c a r t,
  sc_items (snd (sc_add_attr c a)) = sc_items c /\
  sc_items (snd (sc_add_rel c r)) = sc_items c /\
  sc_items (sc_set_type c t) = sc_items c.
Proof. exact sc_type_edits_keep_items. Qed.
Print Assumptions C19_type_edits_keep_items.

(* every stored resource exposes exactly the collection's current type, and a
   field added after it was stored reads as the zero value *)
Theorem C19_stored_type : forall c it, s_type (item_soft c it) = sc_type c.
Proof. exact stored_type. Qed.
Print Assumptions C19_stored_type.

Theorem C19_later_field_zero : forall c it f,
  wf_res_type (sc_type c) -> is_field (sc_type c) f -> lookup f (snd it) = None ->
  soft_get (item_soft c it) f = field_zero (sc_type c) f.
Proof. exact stored_missing_field_zero. Qed.
Print Assumptions C19_later_field_zero.

(* Add stores the attribute values of the resource it is given: for a resource
   whose attributes fit the collection's type ([pending_ok]: distinct names,
   each either already defined identically in the type or not a field of it,
   a value of the declared Go type or nil for a nullable one; likewise its
   relationships) the appended element carries the resource's ID, the type
   afterwards defines every such attribute, the element reads the value --
   the zero value for nil -- and every relationship value of the declared
   cardinality. *)
Theorem C19_add_stores_values : forall c src id,
  wf_res_type (sc_type c) ->
  res_get src "id" = Ok (VStr id) ->
  pending_ok src (sc_type c) (res_attrs src) ->
  (forall s1, add_attrs src (mkSoft (sc_type c) id []) (res_attrs src) = Ok s1 ->
              pending_rels_ok src (s_type s1) (res_rels src) /\
              forall kv kr, In kv (res_attrs src) -> In kr (res_rels src) -> aname (snd kv) <> from_name (snd kr)) ->
  exists c' data,
    sc_add c src = Ok c' /\ sc_items c' = (sc_items c ++ [(id, data)])%list /\
    (forall kv v, In kv (res_attrs src) -> res_get src (aname (snd kv)) = Ok v ->
      lookup (aname (snd kv)) (tattrs (sc_type c')) = Some (snd kv) /\
      soft_get (item_soft c' (id, data)) (aname (snd kv)) = kept (snd kv) v) /\
    (forall kr v, In kr (res_rels src) -> res_get src (from_name (snd kr)) = Ok v -> rel_typed (snd kr) v ->
      soft_get (item_soft c' (id, data)) (from_name (snd kr)) = v).
Proof. exact sc_add_stores_values. Qed.
Print Assumptions C19_add_stores_values.

(* NOT PROVED here (correspondence + oracle): snapshot semantics w.r.t. later
   Set calls on the source (values are immutable in this model; the Go side
   re-reads the snapshot after mutating the source). *)

(* the hypotheses of C19_add_stores_values are satisfiable *)
Example c19_add_premises :
  wf_res_type (sc_type ex19_coll) /\ res_get ex19_src "id" = Ok (VStr "7") /\
  pending_ok ex19_src (sc_type ex19_coll) (res_attrs ex19_src) /\
  (forall s1, add_attrs ex19_src (mkSoft (sc_type ex19_coll) "7" []) (res_attrs ex19_src) = Ok s1 ->
              pending_rels_ok ex19_src (s_type s1) (res_rels ex19_src) /\
              forall kv kr, In kv (res_attrs ex19_src) -> In kr (res_rels ex19_src) -> aname (snd kv) <> from_name (snd kr)).
Proof. exact ex19_premises. Qed.
