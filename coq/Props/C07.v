(* C07 -- URL parsing never panics and its result is consistent with the schema.
   [new_url_from s path values fo] mirrors NewSimpleURL + NewURL + NewParams
   (Model/Url.v) for ARBITRARY inputs: [path] and [values] range over
   everything url.Parse / url.Values can return (net/url is modelled, not
   verified), [fo] over every outcome of decoding the filter parameter.
   Hence "for any raw URL string". *)
From JV Require Import Model.Base Model.GoTime Gen.TypeGo Model.Schema Model.Value
  Model.Url Proofs.C07Facts Proofs.C07Fields Proofs.C07Include Proofs.C07Prune.

(* parsing returns an error or a URL, never panics (the model's loops have no
   indexing or assertion left: the repaired code, see KNOWN_FINDINGS) *)
Theorem C07_total : forall s path values fo, new_url_from s path values fo <> Panic.
Proof. exact new_url_from_no_panic. Qed.
Print Assumptions C07_total.

(* the resource type of a returned URL exists in the schema *)
Theorem C07_restype_in_schema : forall s su u,
  new_url s su = Ok u -> has_type s (u_restype u) = true.
Proof. exact new_url_restype. Qed.
Print Assumptions C07_restype_in_schema.

(* collection URLs: the rules mention only id or attributes of the type,
   always contain id, and start with the caller's valid rules in order *)
Theorem C07_sorting_rules : forall t rules,
  let attrs := map (fun kv => aname (snd kv)) (tattrs t) in
  Forall (rule_ok attrs) (sorting_rules t rules) /\
  existsb (fun r => String.eqb (strip_minus r) "id") (sorting_rules t rules) = true /\
  exists rest, sorting_rules t rules = (requested_rules attrs rules [] ++ rest)%list.
Proof. exact sorting_rules_ok. Qed.
Print Assumptions C07_sorting_rules.

Theorem C07_rules_of_params : forall s su rt p,
  new_params s su rt = Ok p ->
  p_rules p = if is_collection s (su_fragments su) then sorting_rules (get_type s rt) (su_rules su) else [].
Proof. exact new_params_rules. Qed.
Print Assumptions C07_rules_of_params.

(* the FULL statement about inclusion paths ("every inclusion path is a chain
   of relationships that exists in the schema") is FALSE of the code:
   recorded finding include-zero-rel-survives, pinned by TestParseParams *)
Theorem C07_include_refuted :
  exists u, new_url_from c07_schema "/t" [("include", ["zz,yy"])] FOErr = Ok u /\
            In [zero_rel] (p_include (u_params u)).
Proof. exact include_refuted. Qed.
Print Assumptions C07_include_refuted.

(* the field-selection clause: every entry of a returned URL names a schema
   type and either is the default -- all of the type's fields -- or is a
   non-empty duplicate-free list of that type's fields and id *)
Theorem C07_field_selection : forall s su u,
  new_url s su = Ok u ->
  forall t fs, In (t, fs) (p_fields (u_params u)) -> final_entry_ok s t fs.
Proof. exact new_url_fields. Qed.
Print Assumptions C07_field_selection.

(* the inclusion clause where the recorded finding cannot occur: when every
   requested path (sorted, duplicates and prefixes pruned) is valid nothing is
   removed, the URL's inclusion paths are exactly those paths and each is a
   chain of relationships that exists in the schema from the resource type
   ([chain_ok]).  (Schemas without a type named "".) *)
Theorem C07_include_all_valid_partial : forall s su rt p,
  has_type s "" = false -> tname (get_type s rt) <> "" ->
  let incs0 := prune_includes (isort String.ltb (su_include su)) in
  Forall (fun q => words_valid s rt (split_char "." q) = true /\ split_char "." q <> []) incs0 ->
  new_params s su rt = Ok p ->
  p_include p = map (build_include s rt) incs0 /\
  Forall (fun q => chain_ok s rt (split_char "." q) (build_include s rt q)) incs0.
Proof. exact new_params_include_all_valid. Qed.
Print Assumptions C07_include_all_valid_partial.

(* "each valid requested path being kept unless a longer requested path
   extends it", where the recorded finding cannot occur (every requested path
   valid): a requested path that no requested path extends ([extends q p]: q
   starts with p followed by a dot) is among the URL's inclusion paths, as the
   chain of relationships [build_include] gives, and every inclusion path of the
   URL was requested. *)
Theorem C07_valid_paths_kept_partial : forall s su rt prm p,
  has_type s "" = false -> tname (get_type s rt) <> "" ->
  Forall (fun q => words_valid s rt (split_char "." q) = true /\ split_char "." q <> []) (su_include su) ->
  new_params s su rt = Ok prm ->
  In p (su_include su) -> (forall q, In q (su_include su) -> extends q p = false) ->
  In (build_include s rt p) (p_include prm) /\
  (forall c, In c (p_include prm) -> exists q, In q (su_include su) /\ c = build_include s rt q).
Proof. exact new_params_keeps_valid. Qed.
Print Assumptions C07_valid_paths_kept_partial.

Example c07_prune_example :
  prune_includes (isort String.ltb ["r"; "r.back"; "a"; "r"; "a-b"; "a.b"]) = ["a"; "a-b"; "a.b"; "r.back"] /\
  extends "r.back" "r" = true /\ extends "a-b" "a" = false.
Proof. vm_compute. repeat split. Qed.

(* NOT PROVED here (correspondence + oracle only): the inclusion clause when
   some requested path is invalid (outside the recorded finding). *)

Example c07_rules_example :
  sorting_rules (mkType "t" [("a", mkAttr "a" 1 false); ("b", mkAttr "b" 2 false)] [])
                ["id"; "-a"; "zz"; "a"] = ["id"; "-a"; "b"].
Proof. vm_compute. reflexivity. Qed.
