From JV Require Import Model.Base Model.C07.
Theorem C07_placeholder : True. Proof. exact I. Qed.
Print Assumptions C07_placeholder.
