(* C11 -- Marshaling is deterministic and depends only on content.
   The model's marshal_document is a FUNCTION of its arguments (any number of
   calls on equal arguments give equal trees, and a tree has one printed form:
   json.Marshal is a function).  The library sorts to-many IDs, field lists
   and the included list IN PLACE; a later call therefore sees permuted
   arguments -- the theorems below say that the output does not notice:
   it is invariant under permutation of to-many IDs, of the names (and
   duplicates) of every field selection and relationship-data list, and of the
   included resources when their IDs are distinct.  Marshaling reads resources
   only through Get: nothing else can change (pure model; the Go side compares
   all readings before and after).
   [C11_map_iteration_order]: a resource object does not depend on the order
   in which the attribute and relationship maps of its type are walked (Go's
   randomised map iteration): any two walks over the same entries give the
   same tree.  (At document level the same holds member by member; each
   correspondence case also pits the model's order against Go's.) *)
From Coq Require Import Permutation.
From JV Require Import Model.Base Model.GoTime Gen.TypeGo Model.Schema Model.Value
  Model.Json Model.Resource Model.Marshal Model.Unmarshal Model.Document Proofs.C11Facts Proofs.C11Order.

Theorem C11_tomany_order : forall ids1 ids2,
  Permutation ids1 ids2 -> isort String.ltb ids1 = isort String.ltb ids2.
Proof. exact sorted_ids_perm. Qed.
Print Assumptions C11_tomany_order.

Theorem C11_names_order : forall f1 f2, Permutation f1 f2 -> same_names f1 f2.
Proof. exact mem_str_perm. Qed.
Print Assumptions C11_names_order.

Theorem C11_resource_selection_order : forall e r prepath f1 f2 rd1 rd2,
  same_names f1 f2 ->
  same_names (match lookup (res_type_name r) rd1 with Some l => l | None => [] end)
             (match lookup (res_type_name r) rd2 with Some l => l | None => [] end) ->
  marshal_resource e r prepath f1 rd1 = marshal_resource e r prepath f2 rd2.
Proof. exact marshal_resource_names. Qed.
Print Assumptions C11_resource_selection_order.

Theorem C11_included_order : forall l1 l2,
  NoDup (map rid l1) -> Permutation l1 l2 -> sort_included l1 = sort_included l2.
Proof. exact sort_included_perm. Qed.
Print Assumptions C11_included_order.

Theorem C11_document_content_only : forall e d1 d2 f1 f2 self,
  d_data d1 = d_data d2 -> d_meta d1 = d_meta d2 -> d_errors d1 = d_errors d2 ->
  d_prepath d1 = d_prepath d2 ->
  NoDup (map rid (d_included d1)) -> Permutation (d_included d1) (d_included d2) ->
  (forall tn, same_names (fields_for f1 tn) (fields_for f2 tn)) ->
  (forall tn, same_names (match lookup tn (d_reldata d1) with Some x => x | None => [] end)
                         (match lookup tn (d_reldata d2) with Some x => x | None => [] end)) ->
  marshal_document e d1 f1 self = marshal_document e d2 f2 self.
Proof. exact marshal_document_content. Qed.
Print Assumptions C11_document_content_only.

Theorem C11_map_iteration_order : forall e r1 r2 prepath fields reldata,
  res_type_name r1 = res_type_name r2 ->
  (forall k, res_get r1 k = res_get r2 k) ->
  Permutation (res_attrs r1) (res_attrs r2) ->
  Permutation (res_rels r1) (res_rels r2) ->
  NoDup (map (fun kv => aname (snd kv)) (res_attrs r1)) ->
  NoDup (map (fun kv => from_name (snd kv)) (res_rels r1)) ->
  (forall kv, In kv (res_attrs r1) -> exists v, res_get r1 (aname (snd kv)) = Ok v) ->
  (forall kv, In kv (res_rels r1) -> rel_read_ok r1 (snd kv)) ->
  marshal_resource e r1 prepath fields reldata = marshal_resource e r2 prepath fields reldata.
Proof. exact marshal_resource_map_order. Qed.
Print Assumptions C11_map_iteration_order.
