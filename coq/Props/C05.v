(* C05 -- Unmarshaling arbitrary bytes never panics nor yields off-schema data.
   Byte level: the entry points first hand the bytes to encoding/json; bytes
   that are not JSON make every one of them return an error before any
   library logic runs (modelled; checked on the Go side with truncations,
   deep nesting, garbage).  The theorems are about the library logic on EVERY
   JSON tree [j] (Model/Unmarshal.v, Model/Document.v), for every schema [s]
   and every stdlib oracle [e].
   The FULL statement "never panics" is FALSE of the code (recorded finding
   bytes-attr-invalid-panics, pinned by TestAttrUnmarshalToType): refuted with
   a witness and proved under the guard [no_bytes_schema] (no byte-string
   attribute): first for schemas of soft types ([all_soft]), then
   ([C05_*_mixed]) for schemas that mix soft and struct-backed types, where
   every struct is one Wrap accepts and the schema holds the type BuildType
   gives for it ([sch_ok]) -- the decoded values have the Go types of the
   struct's fields, so no Set panics. *)
From JV Require Import Model.Base Model.GoTime Gen.TypeGo Model.Schema Model.Value
  Model.Json Model.Resource Model.Unmarshal Model.Document Model.Url Model.Request
  Proofs.C13Facts Proofs.C05Facts Proofs.C01Wrapped Proofs.C05Mixed Proofs.C05Request.

Theorem C05_total_refuted : forall e,
  unmarshal_resource e c05_schema
    (JObj [("id", jstr "1"); ("type", jstr "t"); ("attributes", JObj [("b", JNum "123")])]) = Panic.
Proof. exact no_panic_refuted. Qed.
Print Assumptions C05_total_refuted.

Theorem C05_resource_partial : forall e s j,
  all_soft s -> no_bytes_schema s -> unmarshal_resource e s j <> Panic.
Proof. exact unmarshal_resource_no_panic. Qed.
Print Assumptions C05_resource_partial.

Theorem C05_partial_resource_partial : forall e s j,
  all_soft s -> no_bytes_schema s -> unmarshal_partial e s j <> Panic.
Proof. exact unmarshal_partial_no_panic. Qed.
Print Assumptions C05_partial_resource_partial.

Theorem C05_collection_partial : forall e s j,
  all_soft s -> no_bytes_schema s -> unmarshal_collection e s j <> Panic.
Proof. exact unmarshal_collection_no_panic. Qed.
Print Assumptions C05_collection_partial.

Theorem C05_document_partial : forall e s j,
  all_soft s -> no_bytes_schema s -> unmarshal_document e s j <> Panic.
Proof. exact unmarshal_document_no_panic. Qed.
Print Assumptions C05_document_partial.

(* the same for schemas mixing soft and struct-backed types *)
Theorem C05_resource_mixed : forall e s j,
  sch_ok s -> no_bytes_schema s -> unmarshal_resource e s j <> Panic.
Proof. exact unmarshal_resource_no_panic_mixed. Qed.
Print Assumptions C05_resource_mixed.

Theorem C05_partial_resource_mixed : forall e s j,
  no_bytes_schema s -> unmarshal_partial e s j <> Panic.
Proof. exact unmarshal_partial_no_panic_mixed. Qed.
Print Assumptions C05_partial_resource_mixed.

Theorem C05_collection_mixed : forall e s j,
  sch_ok s -> no_bytes_schema s -> unmarshal_collection e s j <> Panic.
Proof. exact unmarshal_collection_no_panic_mixed. Qed.
Print Assumptions C05_collection_mixed.

Theorem C05_document_mixed : forall e s j,
  sch_ok s -> no_bytes_schema s -> unmarshal_document e s j <> Panic.
Proof. exact unmarshal_document_no_panic_mixed. Qed.
Print Assumptions C05_document_mixed.

(* building a request from an HTTP request carrying the body (NewRequest =
   NewSimpleURL + NewURL on the request's URL, then UnmarshalDocument for POST
   and PATCH; [body = None]: the bytes are not JSON): never a panic under the
   same guard, for every method, URL and body; and what a returned request
   holds *)
Theorem C05_request_mixed : forall e s method path values fo body,
  sch_ok s -> no_bytes_schema s -> new_request e s method path values fo body <> Panic.
Proof. exact new_request_no_panic_mixed. Qed.
Print Assumptions C05_request_mixed.

Theorem C05_request_parts : forall e s method path values fo body r,
  new_request e s method path values fo body = Ok r ->
  new_url_from (sch_schema s) path values fo = Ok (rq_url r) /\ rq_method r = method /\
  (if String.eqb method "POST" || String.eqb method "PATCH"
   then exists j d, body = Some j /\ unmarshal_document e s j = Ok d /\ rq_doc r = Some d
   else rq_doc r = None).
Proof. exact new_request_parts. Qed.
Print Assumptions C05_request_parts.

(* the guard is satisfiable: the schema holding the example struct of C01 *)
Example c05_mixed_guard_example : sch_ok exw_sch /\ no_bytes_schema exw_sch.
Proof. exact exw_sch_ok. Qed.

(* identifiers: no guard needed *)
Theorem C05_identifier_total : forall s j, unmarshal_identifier s j <> Panic.
Proof. exact unmarshal_identifier_no_panic. Qed.
Print Assumptions C05_identifier_total.

Theorem C05_identifiers_total : forall s j, unmarshal_identifiers s j <> Panic.
Proof. exact unmarshal_identifiers_no_panic. Qed.
Print Assumptions C05_identifiers_total.

(* results are on-schema: the type exists (the attribute values' Go types are
   C06_typed) *)
Theorem C05_resource_type_in_schema : forall e s j r,
  all_soft s -> unmarshal_resource e s j = Ok r ->
  has_type (sch_schema s) (res_type_name r) = true.
Proof. exact unmarshal_resource_on_schema. Qed.
Print Assumptions C05_resource_type_in_schema.

Theorem C05_identifier_type_in_schema : forall s j i,
  unmarshal_identifier s j = Ok i -> has_type (sch_schema s) (i_type i) = true /\ i_id i <> "".
Proof. exact unmarshal_identifier_on_schema. Qed.
Print Assumptions C05_identifier_type_in_schema.

(* non-vacuity: the guard is met by ordinary schemas *)
Example c05_guard_example :
  let s := mkSch (mkSchema [mkType "t" [("a", mkAttr "a" 1 false); ("n", mkAttr "n" 3 true)] []]) [] in
  all_soft s /\ no_bytes_schema s.
Proof.
  cbn zeta. split; [reflexivity|]. intros n. unfold no_bytes, get_type.
  cbn [sch_schema types get_type_in tname].
  destruct (String.eqb "t" n); cbn [tattrs empty_type]; intros k a H.
  - destruct H as [H|[H|[]]]; inversion H; subst; cbn; discriminate.
  - destruct H.
Qed.
