(* C03 -- Marshaled documents are well-formed JSON:API.
   In the model the output IS a tree, so syntactic validity is by
   construction (bytes are encoding/json's; the Go side of the check parses
   the real bytes with an independent strict RFC 8259 validator).  The shape
   statements are about [marshal_document] / [marshal_resource] /
   [marshal_rel] (Model/Document.v, Model/Marshal.v); Include uniqueness is an
   invariant over every history of Include calls. *)
From JV Require Import Model.Base Model.GoTime Gen.TypeGo Model.Schema Model.Value
  Model.Json Model.Resource Model.Marshal Model.Unmarshal Model.Document Proofs.C03Facts.

(* top level: jsonapi member, self link, never both data and errors,
   included only alongside data *)
Theorem C03_document_shape : forall e d fields self j,
  marshal_document e d fields self = Ok j ->
  jhas "jsonapi" j = true /\
  jmember "links" j = Some (JObj [("self", jstr self)]) /\
  (jhas "data" j && jhas "errors" j = false) /\
  (jhas "included" j = true -> jhas "data" j = true).
Proof. exact marshal_document_shape. Qed.
Print Assumptions C03_document_shape.

(* every resource object: string type, string id, self link = prefix/type/id *)
Theorem C03_resource_shape : forall e r prepath fields reldata j,
  marshal_resource e r prepath fields reldata = Ok j ->
  exists id, get_str r "id" = Ok id /\
    jmember "id" j = Some (jstr id) /\
    jmember "type" j = Some (jstr (res_type_name r)) /\
    jmember "links" j = Some (JObj [("self", jstr (self_link prepath (res_type_name r) id))]).
Proof. exact marshal_resource_shape. Qed.
Print Assumptions C03_resource_shape.

Theorem C03_self_link : forall prepath tn id,
  id <> "" -> tn <> "" ->
  self_link prepath tn id =
  ((if has_suffix_slash prepath then prepath else prepath ++ "/") ++ tn ++ "/" ++ id)%string.
Proof. exact self_link_spec. Qed.
Print Assumptions C03_self_link.

(* every relationship object: self and related links; data, when present, is
   null, one identifier or an array of identifiers *)
Theorem C03_relationship_shape : forall r prepath tn id want x j,
  marshal_rel r prepath tn id want x = Ok j ->
  jmember "links" j = Some (rel_links prepath tn id (from_name x)) /\
  (jmember "data" j = None \/
   jmember "data" j = Some JNull \/
   (exists rid0, jmember "data" j = Some (identifier_json rid0 (to_type x))) \/
   (exists ids, jmember "data" j = Some (JArr (map (fun i => identifier_json i (to_type x)) ids)))).
Proof. exact marshal_rel_shape. Qed.
Print Assumptions C03_relationship_shape.

Theorem C03_relationship_links : forall prepath tn id rel,
  jmember "self" (rel_links prepath tn id rel)
    = Some (jstr (self_link prepath tn id ++ "/relationships/" ++ rel)%string) /\
  jmember "related" (rel_links prepath tn id rel)
    = Some (jstr (self_link prepath tn id ++ "/" ++ rel)%string).
Proof. exact rel_links_shape. Qed.
Print Assumptions C03_relationship_links.

(* Include: after ANY sequence of Include calls no key "id type" -- hence no
   type/ID pair -- appears twice across primary data and included, whatever
   collection implementation holds the primary data *)
Theorem C03_include_unique : forall l d,
  Forall readable_id (primary d) -> Forall readable_id (d_included d) -> Forall readable_id l ->
  NoDup (all_keys d) ->
  exists d', include_all d l = Ok d' /\ NoDup (all_keys d') /\ primary d' = primary d.
Proof. exact include_all_nodup. Qed.
Print Assumptions C03_include_unique.

Theorem C03_pair_determines_key : forall r1 r2,
  rid r1 = rid r2 -> res_type_name r1 = res_type_name r2 -> key_of r1 = key_of r2.
Proof. exact same_pair_same_key. Qed.
Print Assumptions C03_pair_determines_key.
