(* C20 -- A struct accepted by Check is safe to use everywhere.
   reflect is data (Model/Wrapper.v): a struct type is a list of field
   descriptors (Go name, Go type, json tag, api tag, exported?).
   [check_struct] mirrors helpers.go Check (as repaired, see KNOWN_FINDINGS),
   [build_type] BuildType, [wrap] Wrap. *)
From JV Require Import Model.Base Model.GoTime Gen.TypeGo Model.Schema Model.Value
  Model.Strconv Model.Json Model.SoftRes Model.Wrapper Model.WrapCopy Model.Resource Model.Marshal
  Proofs.C20Facts Proofs.C20Safe Proofs.C20Rels Proofs.C20Copy Proofs.C20Marshal.

(* if Check rejects it, BuildType returns an error and Wrap refuses it *)
Theorem C20_reject : forall d vals,
  check_struct d = false -> build_type d = Err /\ wrap d vals = Panic.
Proof. exact reject_both. Qed.
Print Assumptions C20_reject.

(* if Check accepts it, BuildType and Wrap succeed (no index out of range on
   the relationship tags), and the wrapper reports exactly the built type *)
Theorem C20_accept_partial : forall d vals,
  check_struct d = true ->
  exists rels,
    build_type d = Ok (mkType (struct_type_name d) (build_attrs d) rels) /\
    wrap d vals = Ok (mkWrapper d vals (struct_type_name d) (build_attrs d) rels).
Proof. exact accept_both. Qed.
Print Assumptions C20_accept_partial.

(* the built type's attributes are the attr-tagged fields, with the kind and
   nullability their Go field type declares *)
Theorem C20_attrs_declared : forall d n a,
  In (n, a) (build_attrs d) ->
  exists f, In f d /\ sf_api f = "attr" /\ sf_json f = n /\
            a = (let '(k, nl) := get_attr_type (go_type_string (sf_type f)) in mkAttr n k nl).
Proof. exact build_attrs_from. Qed.
Print Assumptions C20_attrs_declared.

(* Reading and writing the declared fields of an accepted struct never panics:
   for every struct Check accepts (distinct Go field names, as the language
   guarantees; values aligned with the fields), every name carried by a
   tagged field is readable, and writable with nil or a value of the field's
   Go type -- whatever other (untagged, unexported, differently tagged)
   fields the struct has.  [tagged]: not the ID field, api tag attr / rel. *)
Theorem C20_get_declared : forall d vals typ attrs rels n,
  check_struct d = true -> NoDup (map sf_name d) -> length vals = length d ->
  (exists f, In f d /\ tagged f = true /\ sf_json f = n) ->
  exists v, wrapper_get (mkWrapper d vals typ attrs rels) n = Ok v.
Proof. exact get_declared_ok. Qed.
Print Assumptions C20_get_declared.

Theorem C20_set_declared : forall d vals typ attrs rels n v,
  check_struct d = true -> NoDup (map sf_name d) -> length vals = length d ->
  (exists f, In f d /\ tagged f = true /\ sf_json f = n) ->
  (forall g, In g d -> sf_json g = n -> v = VNil \/ value_has_type (sf_type g) v = true) ->
  exists w', wrapper_set (mkWrapper d vals typ attrs rels) n v = Ok w'.
Proof. exact set_declared_ok. Qed.
Print Assumptions C20_set_declared.

(* every attribute of the built type is such a name (for a type that is not
   itself called "attr": the ID field's api tag is the type name) *)
Theorem C20_attr_names_declared : forall d n a,
  In (n, a) (build_attrs d) ->
  (forall f, In f d -> is_id_field f = true -> sf_api f <> "attr") ->
  exists f, In f d /\ tagged f = true /\ sf_json f = n.
Proof. exact attr_name_declared. Qed.
Print Assumptions C20_attr_names_declared.

(* the relationship half of "exactly the tagged fields": every relationship
   of the built type is declared by a field whose api tag starts with rel,
   with that field's json name, cardinality ([]string = to-many), target and
   inverse ([rel_of_field]); conversely every attr-tagged and every
   rel-tagged field appears in the built type *)
Theorem C20_rels_declared : forall typ d rels n x,
  build_rels typ d = Some rels -> In (n, x) rels ->
  exists f, In f d /\ rel_of_field typ f = Some x /\ sf_json f = n.
Proof. exact build_rels_from. Qed.
Print Assumptions C20_rels_declared.

Theorem C20_tagged_fields_all_present : forall typ d rels,
  build_rels typ d = Some rels ->
  (forall f, In f d -> sf_api f = "attr" -> In (sf_json f) (map fst (build_attrs d))) /\
  (forall f x, In f d -> rel_of_field typ f = Some x -> In (sf_json f) (map fst rels)).
Proof. exact tagged_fields_all_present. Qed.
Print Assumptions C20_tagged_fields_all_present.

(* Copy, New and MarshalResource of an instance of an accepted struct
   succeed, whatever values its fields hold ([slot_typed]: a Go struct's
   tagged fields hold values of their declared types) and whatever other
   fields the struct has -- struct types whose own name is a resource tag
   (attr, rel,...; they list their ID among their fields) included.  The field
   called ID is exported, as Go's naming rule guarantees. *)
Theorem C20_copy_new_safe : forall d vals w,
  check_struct d = true -> NoDup (map sf_name d) ->
  (forall f, In f d -> is_id_field f = true -> sf_exported f = true) ->
  length vals = length d -> Forall2 slot_typed d vals ->
  wrap d vals = Ok w ->
  (exists w', wrapper_copy w = Ok w' /\ w_desc w' = d /\ w_typ w' = w_typ w /\
              w_attrs w' = w_attrs w /\ w_rels w' = w_rels w) /\
  (exists w0, wrapper_new w = Ok w0).
Proof. exact copy_checked_ok. Qed.
Print Assumptions C20_copy_new_safe.

Theorem C20_marshal_safe : forall e d vals w prepath fields reldata,
  check_struct d = true -> NoDup (map sf_name d) ->
  length vals = length d -> Forall2 slot_typed d vals ->
  wrap d vals = Ok w ->
  exists j, marshal_resource e (RWrap w) prepath fields reldata = Ok j.
Proof. exact marshal_checked_ok. Qed.
Print Assumptions C20_marshal_safe.

Example c20_copy_example :
  let d := [mkSField "ID" (GTAttr 1 false) "id" "things" true;
            mkSField "A" (GTAttr 3 true) "a" "attr" true;
            mkSField "X" (GTOther "map[string]int") "x" "" true;
            mkSField "R" GTStrs "r" "rel,other,inv" true;
            mkSField "O" (GTAttr 1 false) "o" "rel,other" true] in
  let vals := [VStr "id1"; VPtr 3 (Some (VInt 3 (-5))); VNil; VStrs false ["b"; "a"]; VStr "o1"] in
  check_struct d = true /\ NoDup (map sf_name d) /\
  (forall f, In f d -> is_id_field f = true -> sf_exported f = true) /\
  Forall2 slot_typed d vals /\
  is_ok (bind (wrap d vals) wrapper_copy) = true.
Proof.
  cbn zeta. split; [reflexivity|]. split; [repeat constructor; cbn; intuition discriminate|].
  split.
  { intros f [<-|[<-|[<-|[<-|[<-|[]]]]]]; cbn; intros H; try discriminate; reflexivity. }
  split; [|reflexivity].
  repeat (apply Forall2_cons; [intros H; try discriminate H; split; reflexivity|]). apply Forall2_nil.
Qed.

Example c20_examples :
  let id := mkSField "ID" (GTAttr 1 false) "id" "things" true in
  check_struct [id; mkSField "A" (GTAttr 3 true) "a" "attr" true; mkSField "R" GTStrs "r" "rel,other,inv" true] = true /\
  check_struct [id; mkSField "R" (GTAttr 1 false) "r" "rel" true] = false /\
  check_struct [mkSField "ID" (GTAttr 2 false) "id" "things" true] = false /\
  check_struct [id; mkSField "A" (GTAttr 1 false) "a" "attr" true; mkSField "B" (GTAttr 2 false) "a" "" true] = false /\
  check_struct [id; mkSField "A" (GTAttr 1 false) "" "attr" true] = false.
Proof. vm_compute. repeat split. Qed.

(* a struct type that is itself called "attr" lists its ID among its attributes *)
Example c20_copy_named_attr_example :
  let d := [mkSField "ID" (GTAttr 1 false) "id" "attr" true; mkSField "A" (GTAttr 2 false) "a" "attr" true] in
  let vals := [VStr "id1"; VInt 2 7] in
  check_struct d = true /\ map fst (build_attrs d) = ["id"; "a"] /\
  is_ok (bind (wrap d vals) wrapper_copy) = true /\
  (forall e, is_ok (bind (wrap d vals) (fun w => marshal_resource e (RWrap w) "/" ["id"; "a"] [])) = true).
Proof. cbn zeta. split; [reflexivity|]. split; [reflexivity|]. split; [reflexivity|]. intros e. reflexivity. Qed.
