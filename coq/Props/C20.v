(* C20 -- A struct accepted by Check is safe to use everywhere.
   reflect is data (Model/Wrapper.v): a struct type is a list of field
   descriptors (Go name, Go type, json tag, api tag, exported?).
   [check_struct] mirrors helpers.go Check (as repaired, see KNOWN_FINDINGS),
   [build_type] BuildType, [wrap] Wrap. *)
From JV Require Import Model.Base Model.GoTime Gen.TypeGo Model.Schema Model.Value
  Model.Wrapper Proofs.C20Facts.

(* if Check rejects it, BuildType returns an error and Wrap refuses it *)
Theorem C20_reject : forall d vals,
  check_struct d = false -> build_type d = Err /\ wrap d vals = Panic.
Proof. exact reject_both. Qed.
Print Assumptions C20_reject.

(* if Check accepts it, BuildType and Wrap succeed (no index out of range on
   the relationship tags), and the wrapper reports exactly the built type *)
Theorem C20_accept_partial : forall d vals,
  check_struct d = true ->
  exists rels,
    build_type d = Ok (mkType (struct_type_name d) (build_attrs d) rels) /\
    wrap d vals = Ok (mkWrapper d vals (struct_type_name d) (build_attrs d) rels).
Proof. exact accept_both. Qed.
Print Assumptions C20_accept_partial.

(* the built type's attributes are the attr-tagged fields, with the kind and
   nullability their Go field type declares *)
Theorem C20_attrs_declared : forall d n a,
  In (n, a) (build_attrs d) ->
  exists f, In f d /\ sf_api f = "attr" /\ sf_json f = n /\
            a = (let '(k, nl) := get_attr_type (go_type_string (sf_type f)) in mkAttr n k nl).
Proof. exact build_attrs_from. Qed.
Print Assumptions C20_attrs_declared.

(* NOT PROVED here (correspondence + oracle): that Get / Set / Copy / New /
   marshaling of every declared field of an accepted struct never panic, and
   the relationship half of "exactly the tagged fields". *)

Example c20_examples :
  let id := mkSField "ID" (GTAttr 1 false) "id" "things" true in
  check_struct [id; mkSField "A" (GTAttr 3 true) "a" "attr" true; mkSField "R" GTStrs "r" "rel,other,inv" true] = true /\
  check_struct [id; mkSField "R" (GTAttr 1 false) "r" "rel" true] = false /\
  check_struct [mkSField "ID" (GTAttr 2 false) "id" "things" true] = false /\
  check_struct [id; mkSField "A" (GTAttr 1 false) "a" "attr" true; mkSField "B" (GTAttr 2 false) "a" "" true] = false /\
  check_struct [id; mkSField "A" (GTAttr 1 false) "" "attr" true] = false.
Proof. vm_compute. repeat split. Qed.
