(* C02 -- Documents survive a marshal/unmarshal round trip.
   Proved here: the STRUCTURE of the round trip in the model of
   MarshalDocument / UnmarshalDocument (Model/Document.v) -- which kind of
   primary data is written for each kind of Data and which kind is read back
   for each JSON kind, collections keep their order and length, errors win
   over data and come back without data.  The value-level round trip of each
   resource is C01's (Props/C01.v).  [C02_document_roundtrip_*] compose them
   through the payload skeleton for documents of soft resources without
   errors: the primary data comes back as the same kind, collections with the
   same length and order, each resource the same ([same_soft]: type, ID,
   every attribute value, every relationship's IDs), the included resources
   all come back (in the marshaled order, a permutation of the original) and
   meta comes back as the same map.  [C02_error_object_roundtrip] /
   [C02_error_document_roundtrip]: every error object comes back member by
   member (the eight members; links, source and meta as the same maps) and an
   error document comes back without data, with the same errors and meta.
   [C02_document_roundtrip_*_any]: the same composition for resources of
   either implementation, given that each one round-trips by itself
   ([roundtrips]: C01_soft_resource_roundtrip / C01_wrapped_resource_roundtrip
   provide exactly that) -- collections may mix soft and struct-backed
   members.  [C02_document_roundtrip_identifier(s)]: identifier documents come
   back as what UnmarshalDocument makes of type/id objects -- one resource per
   identifier, in order, of the identifier's type, with its id and no other
   value ([bare_resource]); a nil identifier list comes back as no data. *)
From JV Require Import Model.Base Model.GoTime Gen.TypeGo Model.Schema Model.Value
  Model.Json Model.Resource Model.Marshal Model.Unmarshal Model.Document
  Model.SoftRes Proofs.C03Facts Proofs.C02Facts Proofs.C01Full Proofs.C02Full Proofs.C02Errors Proofs.C02Generic Proofs.C02Idents.

Theorem C02_written_kind_partial : forall e d fields dj,
  marshal_data e d fields = Ok (Some dj) ->
  match d_data d with
  | DNil => dj = JNull
  | DRes _ | DIdent _ => exists m, dj = JObj m
  | DCol _ l => exists js, dj = JArr js /\ length js = length l
  | DIdents true _ => dj = JNull
  | DIdents false l => exists js, dj = JArr js /\ length js = length l
  | DUnknown => False
  end.
Proof. exact marshal_data_kind. Qed.
Print Assumptions C02_written_kind_partial.

Theorem C02_read_kind_partial : forall e s j u,
  unmarshal_document e s j = Ok u ->
  exists k, dec_payske j = Some k /\
    match p_data k with
    | Some (JObj m) => exists r, u_data u = URes r /\ unmarshal_resource e s (JObj m) = Ok r
    | Some (JArr l) => exists rs, u_data u = UCol rs /\ unmarshal_each e s l = Ok rs /\ length rs = length l
    | Some JNull => u_data u = UNil /\ u_errors u = []
    | Some _ => False
    | None => u_data u = UNil /\ u_errors u = p_errors k
    end.
Proof. exact unmarshal_document_kind. Qed.
Print Assumptions C02_read_kind_partial.

Theorem C02_collection_order_partial : forall e s js rs,
  Forall2 (fun j r => unmarshal_resource e s j = Ok r) js rs ->
  unmarshal_each e s js = Ok rs.
Proof. exact unmarshal_each_order. Qed.
Print Assumptions C02_collection_order_partial.

Theorem C02_errors_win_partial : forall e d fields self j,
  d_errors d <> [] -> marshal_document e d fields self = Ok j ->
  jhas "data" j = false /\ jhas "included" j = false /\
  jmember "errors" j = Some (JArr (map error_json (d_errors d))).
Proof. exact errors_win. Qed.
Print Assumptions C02_errors_win_partial.

Theorem C02_errors_read_without_data_partial : forall e s j k,
  dec_payske j = Some k -> p_data k = None -> p_included k = [] ->
  unmarshal_document e s j = Ok (mkUDoc UNil (p_errors k) [] (p_meta k)).
Proof. exact unmarshal_errors_document. Qed.
Print Assumptions C02_errors_read_without_data_partial.

(* ---- the composed round trip (documents of soft resources, no errors) ---- *)
Theorem C02_document_roundtrip_resource : forall e sc fields self d incl,
  d_included d = map RSoft incl -> Forall (rt_ok e sc fields (d_reldata d)) incl ->
  d_errors d = [] -> forall sr,
  d_data d = DRes (RSoft sr) -> rt_ok e sc fields (d_reldata d) sr ->
  exists j u r', marshal_document e d fields self = Ok j /\
                 unmarshal_document e sc j = Ok u /\
                 u_data u = URes (RSoft r') /\ same_soft sr r' /\ rest_ok d incl u.
Proof. exact doc_roundtrip_resource. Qed.
Print Assumptions C02_document_roundtrip_resource.

Theorem C02_document_roundtrip_collection : forall e sc fields self d incl,
  d_included d = map RSoft incl -> Forall (rt_ok e sc fields (d_reldata d)) incl ->
  d_errors d = [] -> forall ct l,
  d_data d = DCol ct (map RSoft l) -> Forall (rt_ok e sc fields (d_reldata d)) l ->
  exists j u rs, marshal_document e d fields self = Ok j /\
                 unmarshal_document e sc j = Ok u /\
                 u_data u = UCol (map RSoft rs) /\ Forall2 same_soft l rs /\ rest_ok d incl u.
Proof. exact doc_roundtrip_collection. Qed.
Print Assumptions C02_document_roundtrip_collection.

Theorem C02_document_roundtrip_nil : forall e sc fields self d incl,
  d_included d = map RSoft incl -> Forall (rt_ok e sc fields (d_reldata d)) incl ->
  d_errors d = [] -> d_data d = DNil ->
  exists j u, marshal_document e d fields self = Ok j /\
              unmarshal_document e sc j = Ok u /\ u_data u = UNil /\ rest_ok d incl u.
Proof. exact doc_roundtrip_nil. Qed.
Print Assumptions C02_document_roundtrip_nil.

(* ---- either implementation: resources that round-trip one by one ---- *)
Theorem C02_document_roundtrip_resource_any : forall e sc fields self d incl',
  Forall2 (roundtrips e sc fields (d_reldata d) (d_prepath d)) (sort_included (d_included d)) incl' ->
  d_errors d = [] -> forall r r',
  d_data d = DRes r -> roundtrips e sc fields (d_reldata d) (d_prepath d) r r' ->
  exists j u, marshal_document e d fields self = Ok j /\
              unmarshal_document e sc j = Ok u /\ u_data u = URes r' /\ rest_ok_gen d incl' u.
Proof. exact doc_roundtrip_resource_any. Qed.
Print Assumptions C02_document_roundtrip_resource_any.

Theorem C02_document_roundtrip_collection_any : forall e sc fields self d incl',
  Forall2 (roundtrips e sc fields (d_reldata d) (d_prepath d)) (sort_included (d_included d)) incl' ->
  d_errors d = [] -> forall ct l l',
  d_data d = DCol ct l -> Forall2 (roundtrips e sc fields (d_reldata d) (d_prepath d)) l l' ->
  exists j u, marshal_document e d fields self = Ok j /\
              unmarshal_document e sc j = Ok u /\ u_data u = UCol l' /\ rest_ok_gen d incl' u.
Proof. exact doc_roundtrip_collection_any. Qed.
Print Assumptions C02_document_roundtrip_collection_any.

(* ---- identifier documents ---- *)
Theorem C02_document_roundtrip_identifier : forall e sc fields self d incl,
  d_included d = map RSoft incl -> Forall (rt_ok e sc fields (d_reldata d)) incl ->
  d_errors d = [] -> forall i,
  d_data d = DIdent i -> ident_ok sc i ->
  exists j u, marshal_document e d fields self = Ok j /\
              unmarshal_document e sc j = Ok u /\
              u_data u = URes (bare_resource sc i) /\ rest_ok d incl u.
Proof. exact doc_roundtrip_identifier. Qed.
Print Assumptions C02_document_roundtrip_identifier.

Theorem C02_document_roundtrip_identifiers : forall e sc fields self d incl,
  d_included d = map RSoft incl -> Forall (rt_ok e sc fields (d_reldata d)) incl ->
  d_errors d = [] -> forall l,
  d_data d = DIdents false l -> Forall (ident_ok sc) l ->
  exists j u, marshal_document e d fields self = Ok j /\
              unmarshal_document e sc j = Ok u /\
              u_data u = UCol (map (bare_resource sc) l) /\ rest_ok d incl u.
Proof. exact doc_roundtrip_identifiers. Qed.
Print Assumptions C02_document_roundtrip_identifiers.

Theorem C02_document_roundtrip_nil_identifiers : forall e sc fields self d incl,
  d_included d = map RSoft incl -> Forall (rt_ok e sc fields (d_reldata d)) incl ->
  d_errors d = [] -> forall l,
  d_data d = DIdents true l ->
  exists j u, marshal_document e d fields self = Ok j /\
              unmarshal_document e sc j = Ok u /\ u_data u = UNil /\ rest_ok d incl u.
Proof. exact doc_roundtrip_nil_identifiers. Qed.
Print Assumptions C02_document_roundtrip_nil_identifiers.

Theorem C02_bare_resource_reads : forall sc i,
  res_type_name (bare_resource sc i) = tname (get_type (sch_schema sc) (i_type i)) /\
  res_get (bare_resource sc i) "id" = Ok (VStr (i_id i)).
Proof. exact bare_resource_reads. Qed.
Print Assumptions C02_bare_resource_reads.

Example c02_ident_ok_example :
  ident_ok (mkSch (mkSchema [mkType "t" [] []]) []) (mkIdent "7" "t").
Proof. split; [discriminate|reflexivity]. Qed.

(* ---- error objects and error documents ---- *)
Theorem C02_error_object_roundtrip : forall er,
  NoDup (map fst (e_links er)) -> NoDup (map fst (e_source er)) -> NoDup (map fst (e_meta er)) ->
  exists er', dec_errors [error_json er] = Some [er'] /\
    e_id er' = e_id er /\ e_code er' = e_code er /\ e_status er' = e_status er /\
    e_title er' = e_title er /\ e_detail er' = e_detail er /\
    (forall k, lookup k (e_links er') = lookup k (e_links er)) /\
    (forall k, lookup k (e_source er') = lookup k (e_source er)) /\
    (forall k, lookup k (e_meta er') = lookup k (e_meta er)).
Proof. exact error_roundtrip. Qed.
Print Assumptions C02_error_object_roundtrip.

Theorem C02_error_document_roundtrip : forall e s d fields self,
  d_errors d <> [] -> Forall err_nodup (d_errors d) -> d_data d = DNil ->
  exists j u, marshal_document e d fields self = Ok j /\ unmarshal_document e s j = Ok u /\
    u_data u = UNil /\ u_included u = [] /\ Forall2 err_same (d_errors d) (u_errors u) /\
    (NoDup (map fst (d_meta d)) -> forall k, lookup k (u_meta u) = lookup k (d_meta d)).
Proof. exact error_document_roundtrip. Qed.
Print Assumptions C02_error_document_roundtrip.

(* the hypotheses are satisfiable: the example resource of C01 *)
Example c02_rt_ok_example : forall e,
  rt_ok e ex_sch [("t", soft_fields ex_type)] [("t", ["one"; "many"])] ex_res.
Proof. exact rt_ok_example. Qed.

Example c02_error_roundtrip_example :
  let er := mkErr "1" "" "404" "Not Found" "" [("about", "/x")] [] [("n", JNum "1")] in
  dec_errors [error_json er] = Some [er].
Proof. vm_compute. reflexivity. Qed.
