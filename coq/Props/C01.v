(* C01 -- Resource values survive a marshal/unmarshal round trip.
   Proved here (value level, both implementations share it): every in-domain
   attribute value printed by [json_of_value] (what MarshalResource puts in
   "attributes") is read back by [unmarshal_to_type] (what UnmarshalResource
   applies to it) as the same value -- integers exactly at every width,
   strings, booleans, times as the same instant, byte strings byte for byte,
   nil-ness preserved -- and relationship linkage printed by marshal_rel is
   read back as the same to-one ID / the same set of to-many IDs.
   [time_ok]/[bytes_ok] are the oracle hypotheses about time.Time's JSON form
   and base64 (checked on the Go side for every generated value).
   [C01_soft_resource_roundtrip] composes them through the payload skeleton
   for soft resources (every type, every resource, every prefix), and
   [C01_wrapped_resource_roundtrip] does the same for struct-backed resources
   (the loops of UnmarshalResource are a history of well-typed Set calls on
   the new struct, C17's history theorem gives what Get then returns).  Both
   are also executed on every generated resource and compared with Go. *)
From Coq Require Import Permutation.
From JV Require Import Model.Base Model.GoTime Gen.TypeGo Model.Schema Model.Value
  Model.Strconv Model.Json Model.Attr Model.SoftRes Model.Wrapper Model.Resource
  Model.Marshal Model.Unmarshal
  Proofs.C06Facts Proofs.SoftFacts Proofs.WrapperFacts Proofs.C17Facts Proofs.C01Facts Proofs.C01Full Proofs.C01Wrapped Proofs.C01WrapFacts.

Theorem C01_attr_roundtrip_partial : forall e a v,
  (1 <= acode a <= 14)%Z -> in_domain e a v ->
  exists v', unmarshal_to_type e a (json_of_value e v) = Ok v' /\ same_value v v'.
Proof. exact attr_roundtrip. Qed.
Print Assumptions C01_attr_roundtrip_partial.

Theorem C01_to_one_roundtrip_partial : forall id ty,
  option_map i_id (dec_identifier (if String.eqb id "" then JNull else identifier_json id ty)) = Some id.
Proof. exact to_one_roundtrip. Qed.
Print Assumptions C01_to_one_roundtrip_partial.

Theorem C01_to_many_roundtrip_partial : forall ids ty,
  exists l, dec_identifiers (JArr (map (fun i => identifier_json i ty) (isort String.ltb ids))) = Some l /\
            Permutation (ids_of l) ids.
Proof. exact to_many_roundtrip. Qed.
Print Assumptions C01_to_many_roundtrip_partial.

(** The resource-level round trip, for soft resources: marshaling with every
    field selected and relationship data requested, then unmarshaling against
    the schema that holds the type, yields a resource of the same type with
    the same ID, the same value for every attribute ([same_value]: integers
    exactly, times as instants, nil-ness kept) and the same related IDs for
    every relationship (to-many as sets).  Struct-backed resources share the
    value-level theorems above; see C01_wrapped_resource_roundtrip below. *)
Theorem C01_soft_resource_roundtrip : forall e sc sr prepath reldata want,
  let t := s_type sr in
  wf_res_type t -> tname t <> "" ->
  get_type (sch_schema sc) (tname t) = t ->
  lookup (tname t) (sch_wrapped sc) = None ->
  (forall k a, lookup k (tattrs t) = Some a -> in_domain e a (soft_get sr k)) ->
  (forall k x, lookup k (trels t) = Some x -> rel_value_ok sr x) ->
  lookup (tname t) reldata = Some want ->
  (forall k, In k (map fst (trels t)) -> In k want) ->
  exists j r',
    marshal_resource e (RSoft sr) prepath (soft_fields t) reldata = Ok j /\
    unmarshal_resource e sc j = Ok (RSoft r') /\
    s_type r' = t /\
    soft_get r' "id" = soft_get sr "id" /\
    (forall k a, lookup k (tattrs t) = Some a -> same_value (soft_get sr k) (soft_get r' k)) /\
    (forall k x, lookup k (trels t) = Some x -> same_rel (soft_get sr k) (soft_get r' k)).
Proof. exact soft_resource_roundtrip. Qed.
Print Assumptions C01_soft_resource_roundtrip.

(** The resource-level round trip for struct-backed resources.  [w] is a
    wrapped struct whose descriptor is accepted (wstate_ok: unique json and Go
    names, tagged exported fields, values aligned), whose slots have the Go
    types its attributes and relationships declare and hold in-domain values
    ([reading_ok]: a nil pointer, or a value of the property's domain); the
    schema maps the type name to the same struct.  What Get reads afterwards
    is the same reading ([same_reading]: nil stays nil, integers exactly,
    times as instants ...), relationship IDs the same (to-many as sets). *)
Theorem C01_wrapped_resource_roundtrip : forall e sc w prepath reldata want,
  wstate_ok w ->
  wf_res_type (mkType (w_typ w) (w_attrs w) (w_rels w)) ->
  w_typ w <> "" ->
  get_type (sch_schema sc) (w_typ w) = mkType (w_typ w) (w_attrs w) (w_rels w) ->
  lookup (w_typ w) (sch_wrapped sc) = Some (w_desc w) ->
  wrap_new (w_desc w) = Ok (mkWrapper (w_desc w) (zero_vals (w_desc w)) (w_typ w) (w_attrs w) (w_rels w)) ->
  (forall n a, In (n, a) (w_attrs w) ->
     exists f v0, slot_value w n = Some (f, v0) /\ sf_type f = GTAttr (acode a) (anull a) /\
                  reading_ok e a (read_slot v0)) ->
  (forall n x, In (n, x) (w_rels w) ->
     exists f v0, slot_value w n = Some (f, v0) /\ sf_type f = slot_type_of_rel x /\
                  (if to_one x then exists s, v0 = VStr s else exists nn l, v0 = VStrs nn l)) ->
  lookup (w_typ w) reldata = Some want ->
  (forall k, In k (map fst (w_rels w)) -> In k want) ->
  exists j w',
    marshal_resource e (RWrap w) prepath (soft_fields (mkType (w_typ w) (w_attrs w) (w_rels w))) reldata = Ok j /\
    unmarshal_resource e sc j = Ok (RWrap w') /\
    w_typ w' = w_typ w /\ w_attrs w' = w_attrs w /\ w_rels w' = w_rels w /\
    res_get (RWrap w') "id" = res_get (RWrap w) "id" /\
    (forall n a, In (n, a) (w_attrs w) ->
       exists rv rv', res_get (RWrap w) n = Ok rv /\ res_get (RWrap w') n = Ok rv' /\ same_reading rv rv') /\
    (forall n x, In (n, x) (w_rels w) ->
       exists v v', res_get (RWrap w) n = Ok v /\ res_get (RWrap w') n = Ok v' /\ same_rel v v').
Proof. exact wrapped_resource_roundtrip. Qed.
Print Assumptions C01_wrapped_resource_roundtrip.

(* the typing half of those hypotheses is what Wrap guarantees: for a struct
   that Wrap accepts (unique json names, aligned values) every attribute of
   the wrapper sits in a slot of the Go type it declares, every relationship
   in a string / string-list slot *)
Theorem C01_wrap_attr_slots : forall d vals w,
  wrap d vals = Ok w -> good_desc d -> length vals = length d ->
  forall n a, In (n, a) (w_attrs w) ->
  exists f v0, slot_value w n = Some (f, v0) /\ sf_type f = GTAttr (acode a) (anull a) /\
               In (f, v0) (combine d vals) /\ sf_api f = "attr".
Proof. exact wrap_attr_slot. Qed.
Print Assumptions C01_wrap_attr_slots.

Theorem C01_wrap_rel_slots : forall d vals w,
  wrap d vals = Ok w -> good_desc d -> length vals = length d ->
  forall n x, In (n, x) (w_rels w) ->
  exists f v0, slot_value w n = Some (f, v0) /\ sf_type f = slot_type_of_rel x /\
               In (f, v0) (combine d vals).
Proof. exact wrap_rel_slot. Qed.
Print Assumptions C01_wrap_rel_slots.

(* its hypotheses are satisfiable: a struct with an ID, a string and a nil
   *int8 attribute, an empty to-one and a two-element to-many relationship *)
Example c01_wrapped_example : forall e,
  exists j w',
    marshal_resource e (RWrap exw) "/api" (soft_fields (mkType (w_typ exw) (w_attrs exw) (w_rels exw)))
                     [("things", ["one"; "many"])] = Ok j /\
    unmarshal_resource e exw_sch j = Ok (RWrap w') /\
    w_typ w' = w_typ exw /\ w_attrs w' = w_attrs exw /\ w_rels w' = w_rels exw /\
    res_get (RWrap w') "id" = res_get (RWrap exw) "id" /\
    (forall n a, In (n, a) (w_attrs exw) ->
       exists rv rv', res_get (RWrap exw) n = Ok rv /\ res_get (RWrap w') n = Ok rv' /\ same_reading rv rv') /\
    (forall n x, In (n, x) (w_rels exw) ->
       exists v v', res_get (RWrap exw) n = Ok v /\ res_get (RWrap w') n = Ok v' /\ same_rel v v').
Proof. exact exw_roundtrip. Qed.

(* non-vacuity of the hypotheses: a type with an attribute of each flavour and
   both kinds of relationship, a resource holding boundary values *)
Example c01_roundtrip_premises : c01_example_premises.
Proof. exact c01_example_premises_hold. Qed.

(* non-vacuity: the boundary values the property names are in the domain *)
Example c01_domain_examples : forall e,
  in_domain e (mkAttr "a" 11 false) (VInt 11 18446744073709551615) /\
  in_domain e (mkAttr "a" 3 true) (VPtr 3 (Some (VInt 3 (-128)))) /\
  in_domain e (mkAttr "a" 6 true) (VPtr 6 None) /\
  in_domain e (mkAttr "a" 1 false) (VStr "") /\
  (bytes_ok e [] -> in_domain e (mkAttr "a" 14 false) (VBytes true [])).
Proof.
  intros e. split; [cbn; repeat split|]. split; [cbn; repeat split|]. split; [reflexivity|].
  split; [reflexivity|]. intros Hb. cbn. repeat split; auto.
Qed.
