(* C01 -- Resource values survive a marshal/unmarshal round trip.
   Proved here (value level, both implementations share it): every in-domain
   attribute value printed by [json_of_value] (what MarshalResource puts in
   "attributes") is read back by [unmarshal_to_type] (what UnmarshalResource
   applies to it) as the same value -- integers exactly at every width,
   strings, booleans, times as the same instant, byte strings byte for byte,
   nil-ness preserved -- and relationship linkage printed by marshal_rel is
   read back as the same to-one ID / the same set of to-many IDs.
   [time_ok]/[bytes_ok] are the oracle hypotheses about time.Time's JSON form
   and base64 (checked on the Go side for every generated value).
   NOT YET PROVED (kept visible): the composition through the resource
   skeleton -- [C01_roundtrip_full] below is only validated by the
   correspondence run (marshal_resource / unmarshal_resource are executed on
   every generated resource of both implementations and compared with Go). *)
From Coq Require Import Permutation.
From JV Require Import Model.Base Model.GoTime Gen.TypeGo Model.Schema Model.Value
  Model.Strconv Model.Json Model.Attr Model.Marshal Model.Unmarshal
  Proofs.C06Facts Proofs.C01Facts.

Theorem C01_attr_roundtrip_partial : forall e a v,
  (1 <= acode a <= 14)%Z -> in_domain e a v ->
  exists v', unmarshal_to_type e a (json_of_value e v) = Ok v' /\ same_value v v'.
Proof. exact attr_roundtrip. Qed.
Print Assumptions C01_attr_roundtrip_partial.

Theorem C01_to_one_roundtrip_partial : forall id ty,
  option_map i_id (dec_identifier (if String.eqb id "" then JNull else identifier_json id ty)) = Some id.
Proof. exact to_one_roundtrip. Qed.
Print Assumptions C01_to_one_roundtrip_partial.

Theorem C01_to_many_roundtrip_partial : forall ids ty,
  exists l, dec_identifiers (JArr (map (fun i => identifier_json i ty) (isort String.ltb ids))) = Some l /\
            Permutation (ids_of l) ids.
Proof. exact to_many_roundtrip. Qed.
Print Assumptions C01_to_many_roundtrip_partial.

(* The full statement, for reference (not proved in this development yet):
   Definition C01_roundtrip_full := forall e s t r pre j,
     in_schema s t -> resource_of_type r t -> values_in_domain e r ->
     marshal_resource e r pre (all_fields t) (all_reldata t) = Ok j ->
     exists r', unmarshal_resource e s j = Ok r' /\ res_type_name r' = tname t /\
                res_get r' "id" = res_get r "id" /\
                forall f, is_field t f -> same (res_get r f) (res_get r' f). *)

(* non-vacuity: the boundary values the property names are in the domain *)
Example c01_domain_examples : forall e,
  in_domain e (mkAttr "a" 11 false) (VInt 11 18446744073709551615) /\
  in_domain e (mkAttr "a" 3 true) (VPtr 3 (Some (VInt 3 (-128)))) /\
  in_domain e (mkAttr "a" 6 true) (VPtr 6 None) /\
  in_domain e (mkAttr "a" 1 false) (VStr "") /\
  (bytes_ok e [] -> in_domain e (mkAttr "a" 14 false) (VBytes true [])).
Proof.
  intros e. split; [cbn; repeat split|]. split; [cbn; repeat split|]. split; [reflexivity|].
  split; [reflexivity|]. intros Hb. cbn. repeat split; auto.
Qed.
