(* C12 — A built schema can be shared by concurrent requests.

   What is proved (partial: the Go memory model and the scheduler are not
   modelled; an "interleaving" is a sequence of whole operations):

   1. c12_listed_operations_reach_no_writer — over the write-effect table the
      translator regenerates from /repo on every run: no function reachable
      from the listed operations writes schema state, except the tolerated
      nil-map initialisation of a soft resource's own Type value.
   2. c12_static_check_is_sound — the closure computation behind 1 covers
      every call path (unbounded length).
   3. c12_read_only_threads_partial — for every number of threads, every
      sequence of read-only operations per thread and every schedule: the
      shared state is never changed, no write access happens, and each result
      is what its operation returns on the initial state alone.
   4. c12_queries_are_read_only — the modelled schema queries are such
      operations. *)
From JV Require Import Model.Base Model.Schema Model.Shared Model.Effects Model.C12 Gen.EffectsGo Proofs.C12Facts.

Theorem c12_listed_operations_reach_no_writer : c12_static fn_effects = true.
Proof. exact c12_static_holds. Qed.
Print Assumptions c12_listed_operations_reach_no_writer.

Theorem c12_static_check_is_sound : forall tbl,
  c12_static tbl = true ->
  forall f n w, In f c12_roots -> reachable tbl (f, false) n -> In w (node_writes tbl n) ->
  In (fst n, w) c12_tolerated.
Proof. exact c12_static_sound. Qed.
Print Assumptions c12_static_check_is_sound.

Theorem c12_read_only_threads_partial :
  forall (St Rs : Type) (sched : list nat) (threads : list (list (@sop St Rs))) (s0 : St),
  all_read_only threads ->
  let t' := run_schedule sched threads (mkTrace s0 [] 0) in
  tr_state t' = s0 /\ tr_writes t' = 0 /\
  (forall tid r, In (tid, r) (tr_results t') ->
     exists o, In o (nth tid threads []) /\ r = fst (fst (o s0))).
Proof. exact read_only_threads. Qed.
Print Assumptions c12_read_only_threads_partial.

Theorem c12_queries_are_read_only : forall threads : list (list qop),
  all_read_only (map (map q_sop) threads).
Proof. exact queries_read_only. Qed.
Print Assumptions c12_queries_are_read_only.

(** non-vacuity: two threads, an interleaved schedule, results in the trace *)
Example c12_example :
  let s := mkSchema [mkType "a" [] []] in
  run_c12 s [[QHas "a"; QRels]; [QHas "b"]] [0; 1; 0]%Z =
  OL [OL [OL [OB true; OL []]; OL [OB false]]; OL [OC "type" [OS "a"; OL []; OL []]]; OZ 0].
Proof. exact c12_example_holds. Qed.
