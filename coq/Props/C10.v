(* C10 -- Filters evaluate according to their logical and comparison semantics.
   [is_allowed] mirrors Filter.IsAllowed / checkVal (Model/Filter.v); the
   scalar tables check_str/int/uint/bool/time/bytes/in are GENERATED from
   filter.go on every run.  [sem] is the tree read as logic, written from the
   property text; [wt_filter r f]: every leaf's operand can be read from [r]
   and the filter value has exactly its Go type (string vs string list for
   in / has). *)
From JV Require Import Model.Base Model.GoTime Gen.TypeGo Gen.FilterGo Model.Schema Model.Value
  Model.Resource Model.Filter Proofs.C10Facts.

Theorem C10_sem : forall r f, wt_filter r f -> is_allowed f r = Ok (sem r f).
Proof. exact is_allowed_sem. Qed.
Print Assumptions C10_sem.

(* 'and' holds iff all children hold (true when empty), 'or' iff some child
   holds (false when empty): [sem] is forallb / existsb by definition; the
   comparison operators follow the kind's natural order: *)
Theorem C10_trichotomy : forall c,
  (sem_cmp "<" c = true /\ sem_cmp "=" c = false /\ sem_cmp ">" c = false) \/
  (sem_cmp "<" c = false /\ sem_cmp "=" c = true /\ sem_cmp ">" c = false) \/
  (sem_cmp "<" c = false /\ sem_cmp "=" c = false /\ sem_cmp ">" c = true).
Proof. exact sem_cmp_trichotomy. Qed.
Print Assumptions C10_trichotomy.

Theorem C10_complement : forall c,
  sem_cmp "!=" c = negb (sem_cmp "=" c) /\
  sem_cmp "<=" c = (sem_cmp "<" c || sem_cmp "=" c) /\
  sem_cmp ">=" c = (sem_cmp ">" c || sem_cmp "=" c).
Proof. exact sem_cmp_complement. Qed.
Print Assumptions C10_complement.

Theorem C10_unknown_operator : forall op c,
  String.eqb op "=" = false -> String.eqb op "!=" = false -> String.eqb op "<" = false ->
  String.eqb op "<=" = false -> String.eqb op ">" = false -> String.eqb op ">=" = false ->
  sem_cmp op c = false.
Proof. exact sem_cmp_unknown. Qed.
Print Assumptions C10_unknown_operator.

(* byte strings are ordered lexicographically, with Eq exactly on equal contents *)
Theorem C10_bytes_eq : forall a b, bytes_cmp a b = Eq <-> a = b.
Proof. exact bytes_cmp_eq. Qed.
Print Assumptions C10_bytes_eq.

(* a nil value equals only nil and is never ordered *)
Theorem C10_nil_equals_only_nil : forall k k' x,
  sem_leaf "=" (VPtr k None) (VPtr k' None) = true /\
  sem_leaf "=" (VPtr k None) (VPtr k' (Some x)) = false /\
  sem_leaf "=" (VPtr k (Some x)) (VPtr k' None) = false.
Proof. exact nil_equals_only_nil. Qed.
Print Assumptions C10_nil_equals_only_nil.

Theorem C10_nil_never_ordered : forall op k k' x,
  String.eqb op "=" = false -> String.eqb op "!=" = false ->
  sem_leaf op (VPtr k None) (VPtr k' x) = false /\ sem_leaf op (VPtr k x) (VPtr k' None) = false.
Proof. exact nil_never_ordered. Qed.
Print Assumptions C10_nil_never_ordered.

(* the verdict does not depend on which implementation holds the values: it
   is a function of the operands read through the Resource interface *)
Theorem C10_impl_independent : forall r1 r2 f,
  (forall field, filter_operand r1 field = filter_operand r2 field) ->
  is_allowed f r1 = is_allowed f r2.
Proof. exact is_allowed_operands. Qed.
Print Assumptions C10_impl_independent.

Example c10_bytes_order :
  sem_base "<" (VBytes false [2; 1]%Z) (VBytes false [1; 2]%Z) = false /\
  sem_base ">" (VBytes false [2; 1]%Z) (VBytes false [1; 2]%Z) = true /\
  sem_base "<" (VBytes false [1]%Z) (VBytes false [1; 0]%Z) = true.
Proof. repeat split; reflexivity. Qed.
