(* C18 -- Copies and new instances are independent of their source.
   Storage model (Model/Heap.v): slices live in heap cells referred to by
   address; [hcopy] mirrors SoftResource.Copy / copyData and Wrapper.Copy
   (every slice gets fresh storage), [hstep] the operations of the property:
   Set (the caller's slice is fresh storage), Set of the id, a write through
   a slice obtained from Get, and the in-place sorts done by marshaling and
   filtering.  [inv]: all addresses are allocated and the two resources share
   no storage.  Type level (Model/TypeHeap.v): a soft resource points to its
   Type, whose maps are shared by everything pointing to the same Type value;
   Copy and New allocate a fresh Type (Type.Copy) -- [C18_type_*]: adding or
   removing fields of one's type never reaches the other's. *)
From JV Require Import Model.Base Model.GoTime Gen.TypeGo Model.Schema Model.Value
  Model.Heap Model.TypeHeap Proofs.C18Facts Proofs.C18Types.

(* Copy yields the same readings and no shared storage *)
Theorem C18_copy_equal_and_separate : forall h r h' c,
  hcopy h r = (h', c) -> bounded h r ->
  inv (mkHS h' r c) /\ reads h' c = reads h r /\ reads h' r = reads h r.
Proof. exact hcopy_spec. Qed.
Print Assumptions C18_copy_equal_and_separate.

(* one operation on either side: storage stays separate and nothing read
   from the other side changes *)
Theorem C18_step_independent : forall st o,
  inv st -> inv (hstep st o) /\ other_reads (hstep st o) (op_target o) = other_reads st (op_target o).
Proof. exact step_frame. Qed.
Print Assumptions C18_step_independent.

(* every history of operations on one side leaves every reading of the other
   side unchanged *)
Theorem C18_history_independent : forall who ops st,
  inv st -> Forall (fun o => op_target o = who) ops ->
  inv (hrun st ops) /\ other_reads (hrun st ops) who = other_reads st who.
Proof. exact run_frame. Qed.
Print Assumptions C18_history_independent.

(* no history, on whichever sides, ever makes the two share storage *)
Theorem C18_never_shared : forall ops st, inv st -> inv (hrun st ops).
Proof. exact run_inv. Qed.
Print Assumptions C18_never_shared.

(* the source built by Set calls satisfies the premise of Copy *)
Theorem C18_built_source_bounded : forall zero sets id,
  (forall a, In a (flat_map (fun kv : str * slot => slot_addrs (snd kv)) zero) -> False) ->
  bounded (fst (hbuild zero sets id)) (snd (hbuild zero sets id)).
Proof. exact hbuild_bounded. Qed.
Print Assumptions C18_built_source_bounded.

(* type level: Copy / New give the same type in another cell ... *)
Theorem C18_type_copy_separate : forall t,
  tinv (tinit t) /\
  tcell (ts_heap (tinit t)) (ts_src (tinit t)) = t /\ tcell (ts_heap (tinit t)) (ts_other (tinit t)) = t.
Proof. exact tinit_inv. Qed.
Print Assumptions C18_type_copy_separate.

(* ... and every history of AddAttr / AddRel / RemoveField on one side leaves
   the other side's type as it was *)
Theorem C18_type_history_independent : forall who ops st,
  tinv st -> Forall (fun o => top_target o = who) ops ->
  tinv (trun st ops) /\ other_type (trun st ops) who = other_type st who.
Proof. exact trun_frame. Qed.
Print Assumptions C18_type_history_independent.

Example c18_example :
  let st := hinit [("b", SBytes None); ("many", SStrs None)]
                  [("b", NBytes (Some [1; 2; 3]%Z)); ("many", NStrs (Some ["b"; "a"]))] "1" in
  let st' := hrun st [HMut true "b" 0 99%Z ""; HSort true ["many"]] in
  hread (hs_heap st') (hs_src st') "b" = Some (RBytes (Some [1; 2; 3]%Z)) /\
  hread (hs_heap st') (hs_src st') "many" = Some (RStrs (Some ["b"; "a"])) /\
  hread (hs_heap st') (hs_cpy st') "b" = Some (RBytes (Some [99; 2; 3]%Z)) /\
  hread (hs_heap st') (hs_cpy st') "many" = Some (RStrs (Some ["a"; "b"])).
Proof. vm_compute. repeat split. Qed.
