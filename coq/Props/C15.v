(* C15 -- Schema.Check finds every dangling or unreciprocated relationship.
   [coherent] is written from the property text (Proofs/C15Facts.v): every
   relationship's target type exists (a type of that non-empty name is in the
   schema) and every relationship naming an inverse is declared from its own
   type and some relationship of the target type names it back.  Schemas are
   arbitrary values: duplicate type names, map keys unrelated to names, any
   FromType. *)
From JV Require Import Model.Base Gen.TypeGo Model.Schema Model.C15 Proofs.C15Facts.

Theorem C15_sound_complete : forall s, check s = [] <-> coherent s.
Proof. exact check_nil_iff_coherent. Qed.
Print Assumptions C15_sound_complete.

Theorem C15_each_offender_reported : forall s t k r,
  In t (types s) -> In (k, r) (trels t) -> ~ rel_ok s t r ->
  exists e, In e (check_rel s t r) /\ In e (check s).
Proof. exact offending_reported. Qed.
Print Assumptions C15_each_offender_reported.

Theorem C15_at_least_one_error_each : forall s, offending_count s <= length (check s).
Proof. exact check_length_ge. Qed.
Print Assumptions C15_at_least_one_error_each.

Theorem C15_offending_count_meaning : forall s t r, rel_okb s t r = true <-> rel_ok s t r.
Proof. exact rel_okb_spec. Qed.
Print Assumptions C15_offending_count_meaning.

(* Check never panics and never modifies the schema: [check] is a total
   function of the schema value returning only the error list; the Go side of
   this statement (no panic, deep snapshot unchanged) is in the correspondence
   run. *)

Example c15_coherent_example :
  let r := mkRel "a" "x" true "b" "y" false in
  let s := mkSchema [mkType "a" [] [("x", r)]; mkType "b" [] [("y", rel_invert r)]] in
  check s = [] /\ coherent s.
Proof.
  cbn zeta. split; [vm_compute; reflexivity|].
  apply check_nil_iff_coherent. vm_compute. reflexivity.
Qed.

Example c15_offending_example :
  let s := mkSchema [mkType "a" [] [("x", mkRel "zz" "x" true "nope" "y" false)]] in
  check s = [ErrTarget "x" "a"; ErrFromType "x" "a"] /\ offending_count s = 1.
Proof. vm_compute. split; reflexivity. Qed.
