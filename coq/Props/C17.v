(* C17 -- Resources read back what was written, whichever implementation.
   [soft_*]: Model/SoftRes.v (soft_resource.go); [wrapper_*]: Model/Wrapper.v
   (wrapper.go; reflect as data).  A history is a list of (key, value) Set
   calls.  [set_ok] / [wrapper_op_ok]: the value has exactly the declared Go
   type, or is the untyped nil (nullable attributes / any struct field); the id
   is given a string. *)
From Coq Require Import Lia.
From JV Require Import Model.Base Model.GoTime Gen.TypeGo Model.Schema Model.Value
  Model.SoftRes Model.Wrapper Model.Resource Model.Equal
  Proofs.C14Facts Proofs.SoftFacts Proofs.WrapperFacts Proofs.C17Facts Proofs.EqualFacts Proofs.C17Equal.

(* Soft resources: after any history, Get returns the value most recently
   set, or the kind's zero value (nil pointer for nullable attributes, "" /
   empty list for relationships) if never set. *)
Theorem C17_soft_history : forall t ops f,
  wf_res_type t -> Forall (soft_op_ok t) ops -> is_field t f ->
  soft_get (soft_run (soft_new t) ops) f =
  match last_set ops f with
  | Some v => stored t f v
  | None => field_zero t f
  end.
Proof. exact soft_history. Qed.
Print Assumptions C17_soft_history.

Theorem C17_soft_id : forall t ops,
  wf_res_type t -> Forall (soft_op_ok t) ops ->
  soft_get (soft_run (soft_new t) ops) "id" =
  match last_set ops "id" with Some v => v | None => VStr "" end.
Proof. intros t ops Hw Ho. exact (soft_history_id_gen ops (soft_new t) Hw Ho). Qed.
Print Assumptions C17_soft_id.

Theorem C17_soft_fresh : forall t f,
  wf_res_type t -> is_field t f ->
  soft_get (soft_new t) f = field_zero t f /\ s_type (soft_new t) = t /\
  soft_get (soft_new t) "id" = VStr "".
Proof. intros t f Hw Hf. split; [apply soft_new_get; assumption|split; reflexivity]. Qed.
Print Assumptions C17_soft_fresh.

(* Wrapped structs: no well-typed history panics, and Get returns the value
   most recently set (a nil pointer reading as nil) or what the struct held. *)
Theorem C17_wrapper_history : forall ops w,
  wstate_ok w -> Forall (wrapper_op_ok (w_desc w) (w_vals w)) ops ->
  exists w', wrapper_run w ops = Ok w' /\ wstate_ok w' /\ w_desc w' = w_desc w /\
    forall f, f <> "" ->
      wrapper_get w' f =
      match last_set ops f with
      | Some v => if String.eqb f "id" then Ok v
                  else match slot_value w f with
                       | Some (fd, _) => Ok (read_slot (stored_w fd v))
                       | None => Panic
                       end
      | None => wrapper_get w f
      end.
Proof. exact wrapper_history_gen. Qed.
Print Assumptions C17_wrapper_history.

(* The two implementations are indistinguishable under the canonical reading
   (nil pointer = nil, nil slice = empty slice): the value stored by the same
   Set, and the zero value of a never-set field, read the same on both. *)
Theorem C17_same_stored_attr : forall t f a fd v,
  lookup f (tattrs t) = Some a -> (1 <= acode a <= 14)%Z -> sf_type fd = slot_type_of_attr a ->
  canon (stored t f v) = canon (read_slot (stored_w fd v)).
Proof. exact canon_stored_attr. Qed.
Print Assumptions C17_same_stored_attr.

Theorem C17_same_stored_rel : forall t f r fd v,
  lookup f (tattrs t) = None -> lookup f (trels t) = Some r -> sf_type fd = slot_type_of_rel r ->
  canon (stored t f v) = canon (read_slot (stored_w fd v)).
Proof. exact canon_stored_rel. Qed.
Print Assumptions C17_same_stored_rel.

Theorem C17_same_zero_attr : forall a,
  (1 <= acode a <= 14)%Z ->
  canon (zero_value (acode a) (anull a)) = canon (read_slot (go_zero (slot_type_of_attr a))).
Proof. exact canon_zero_attr. Qed.
Print Assumptions C17_same_zero_attr.

Theorem C17_same_zero_rel : forall r,
  canon (if to_one r then VStr "" else VStrs false []) =
  canon (read_slot (go_zero (slot_type_of_rel r))).
Proof. exact canon_zero_rel. Qed.
Print Assumptions C17_same_zero_rel.

(* Equality helpers.  Reflexive on readable resources; compare type names and
   (strict form) ids.  The FULL statement "never hold between resources that
   differ in field names" and symmetry are FALSE of the code: Equal pairs the
   fields by position after sorting and never compares their names (recorded
   finding equal-ignores-field-names; pinned by TestEqual). *)
Theorem C17_equal_refl : forall r, readable r -> equal r r = Ok true.
Proof. exact equal_refl. Qed.
Print Assumptions C17_equal_refl.

Theorem C17_equal_partial_type_name : forall r1 r2,
  equal r1 r2 = Ok true -> res_type_name r1 = res_type_name r2.
Proof. exact equal_type_name. Qed.
Print Assumptions C17_equal_partial_type_name.

Theorem C17_equal_strict_partial_id : forall r1 r2,
  equal_strict r1 r2 = Ok true ->
  exists s, res_get r1 "id" = Ok (VStr s) /\ res_get r2 "id" = Ok (VStr s) /\ equal r1 r2 = Ok true.
Proof. exact equal_strict_id. Qed.
Print Assumptions C17_equal_strict_partial_id.

(* Under the guard "both resources expose the same attributes and
   relationships" (the part of the full statement that is true of the code):
   Equal holds only between resources of the same type name whose every field
   reads equal -- two nil values count as equal, two empty to-many
   relationships too. *)
Theorem C17_equal_sound_same_fields_partial : forall r1 r2,
  sorted_attrs r1 = sorted_attrs r2 -> sorted_rels r1 = sorted_rels r2 ->
  equal r1 r2 = Ok true ->
  res_type_name r1 = res_type_name r2 /\
  Forall (attr_agree r1 r2) (sorted_attrs r1) /\
  Forall (rel_agree r1 r2) (sorted_rels r1).
Proof. exact equal_sound_same_fields. Qed.
Print Assumptions C17_equal_sound_same_fields_partial.

Theorem C17_equal_sound_refuted :
  exists r1 r2, equal r1 r2 = Ok true /\ map fst (res_attrs r1) <> map fst (res_attrs r2).
Proof. exact equal_sound_refuted. Qed.
Print Assumptions C17_equal_sound_refuted.

Theorem C17_equal_sym_refuted :
  exists r1 r2, equal r1 r2 = Ok true /\ equal r2 r1 = Ok false.
Proof. exact equal_sym_refuted. Qed.
Print Assumptions C17_equal_sym_refuted.

(* non-vacuity *)
Example c17_type : type :=
  mkType "t" [("n", mkAttr "n" 3 false); ("p", mkAttr "p" 14 true)]
             [("one", mkRel "t" "one" true "u" "" false); ("many", mkRel "t" "many" false "u" "" false)].

Example c17_premises :
  wf_res_type c17_type /\
  Forall (soft_op_ok c17_type)
         [("n", VInt 3 (-128)); ("p", VNil); ("many", VStrs false ["b"; "a"]); ("id", VStr "7")] /\
  is_field c17_type "p".
Proof.
  assert (W : wf_res_type c17_type).
  { split; [|split; [|split]].
    - split; split.
      + cbn. repeat constructor; cbn; intuition discriminate.
      + intros k a [H|[H|[]]]; inversion H; subst; cbn; unfold valid_code; cbn;
          repeat split; try discriminate; lia.
      + cbn. repeat constructor; cbn; intuition discriminate.
      + intros k r [H|[H|[]]]; inversion H; subst; cbn; repeat split; discriminate.
    - cbn. intros n [H|[H|[]]] [H'|[H'|[]]]; subst; discriminate.
    - cbn. intros [H|[H|[]]]; discriminate.
    - cbn. intros [H|[H|[]]]; discriminate. }
  split; [exact W|]. split; [|left; cbn; auto].
  unfold soft_op_ok, set_ok, is_field.
  apply Forall_cons; [|apply Forall_cons; [|apply Forall_cons; [|apply Forall_cons; [|apply Forall_nil]]]]; cbn.
  - split; [|right; left; auto].
    right. left. exists (mkAttr "n" 3 false). split; [reflexivity|left; reflexivity].
  - split; [|right; left; auto].
    right. left. exists (mkAttr "p" 14 true). split; [reflexivity|right; split; reflexivity].
  - split; [|right; right; auto].
    right. right. exists (mkRel "t" "many" false "u" "" false). split; [reflexivity|].
    right. split; [reflexivity|eauto].
  - split; [|left; reflexivity]. left. split; [reflexivity|eauto].
Qed.
