(* C09 -- Range returns exactly the selected, filtered, sorted page.
   [range_with sorter] mirrors Range (Model/Range.v): ID selection, the filter
   (Model/Filter.v, C10), sort.Sort abstracted as ANY [sorter] returning a
   permutation (Go's algorithm is unstable), the page window on unsigned
   integers.  [less] mirrors sortedResources.Less case by case, including the
   kinds it has no case for (recorded finding less-skips-uint64-family). *)
From Coq Require Import Permutation Sorted.
From JV Require Import Model.Base Model.GoTime Gen.TypeGo Model.Schema Model.Value
  Model.Resource Model.Filter Model.Range Proofs.C09Facts Proofs.C09Order Proofs.C09Select.

(* the result is the window [num*size, (num+1)*size) of the sorted selection *)
Theorem C09_window : forall sorter c ids f rules size num kept,
  selected c ids f = Ok kept ->
  range_with sorter c ids f rules size num = Ok (window (sorter (less rules) kept) size num).
Proof. exact range_is_window. Qed.
Print Assumptions C09_window.

(* the selection: resources whose id is listed (all if the list is empty) ... *)
Theorem C09_select : forall c ids r,
  ids <> [] -> (In r (select_ids c ids) <-> In r c /\ In (id_of r) ids).
Proof. exact select_ids_In. Qed.
Print Assumptions C09_select.

(* "exactly": for an ID list without repetition (the property quantifies over ID
   subsets) the selection is the sub-list of the collection, order kept, whose IDs
   are listed - every selected resource once ... *)
Theorem C09_select_once : forall c ids,
  NoDup ids -> ids <> [] -> select_ids c ids = List.filter (listed ids) c.
Proof. exact select_ids_once. Qed.
Print Assumptions C09_select_once.

Theorem C09_select_keeps_ids_unique : forall c ids,
  NoDup ids -> NoDup (map id_of c) -> NoDup (map id_of (select_ids c ids)).
Proof. exact select_ids_nodup. Qed.
Print Assumptions C09_select_keeps_ids_unique.

(* ... and the hypothesis is needed: an ID listed twice selects its resource
   twice (Range's selection loop has no break); outside the property's domain *)
Theorem C09_select_repeated_id_twice : forall r,
  select_ids [r] [id_of r; id_of r] = [r; r].
Proof. exact select_ids_twice. Qed.
Print Assumptions C09_select_repeated_id_twice.

(* ... and that the filter allows *)
Theorem C09_filter : forall f l kept,
  filter_allowed f l = Ok kept ->
  forall r, In r kept <-> In r l /\ is_allowed f r = Ok true.
Proof. exact filter_allowed_spec. Qed.
Print Assumptions C09_filter.

(* consecutive pages partition the matching resources, for every sorter that
   returns a permutation *)
Theorem C09_pages_partition : forall sorter,
  (forall lt l, Permutation (sorter lt l) l) ->
  forall c ids f rules size (m : nat) kept,
  selected c ids f = Ok kept -> (0 < size)%Z ->
  (Z.of_nat (length kept) <= Z.of_nat m * size)%Z ->
  exists pages,
    Forall2 (fun k p => range_with sorter c ids f rules size (Z.of_nat k) = Ok p) (seq 0 m) pages /\
    Permutation (List.concat pages) kept.
Proof. exact range_pages_partition. Qed.
Print Assumptions C09_pages_partition.

Theorem C09_page_members : forall sorter,
  (forall lt l, Permutation (sorter lt l) l) ->
  forall c ids f rules size num kept page,
  selected c ids f = Ok kept ->
  range_with sorter c ids f rules size num = Ok page -> incl page kept.
Proof. exact range_page_members. Qed.
Print Assumptions C09_page_members.

Theorem C09_size_zero : forall sorter c ids f rules num kept,
  selected c ids f = Ok kept -> range_with sorter c ids f rules 0 num = Ok [].
Proof. exact range_size_zero. Qed.
Print Assumptions C09_size_zero.

(* the order is irreflexive; when it is a strict total order on the selected
   resources (rules containing id, unique ids), two sorted permutations of
   them coincide: the result does not depend on the sorting algorithm nor on
   the initial order of the collection *)
Theorem C09_less_irreflexive : forall rules a, less rules a a = false.
Proof. exact less_irrefl. Qed.
Print Assumptions C09_less_irreflexive.

Theorem C09_unique_sorted_partial : forall (lt : resource -> resource -> bool) dom,
  (forall a, lt a a = false) ->
  (forall a b, In a dom -> In b dom -> lt a b = true \/ a = b \/ lt b a = true) ->
  forall l1 l2, incl l1 dom -> incl l2 dom ->
  StronglySorted (fun a b => lt b a = false) l1 ->
  StronglySorted (fun a b => lt b a = false) l2 ->
  Permutation l1 l2 -> l1 = l2.
Proof. intros lt dom H1 H2. exact (sorted_unique_on lt dom H2). Qed.
Print Assumptions C09_unique_sorted_partial.

(* Less is a strict weak order -- irreflexive, transitive, with a transitive
   "neither before the other" -- on every collection whose sorting attributes
   are well typed ([rule_typed]: the rule is on id, or every resource reads a
   value of one attribute type for it).  This is what sort.Sort needs in order
   to return a sorted list. *)
Theorem C09_less_strict_weak_order : forall dom rules,
  Forall (rule_typed dom) (effective_rules rules) ->
  (forall a, less rules a a = false) /\
  (forall a b d, In a dom -> In b dom -> In d dom ->
     less rules a b = true -> less rules b d = true -> less rules a d = true) /\
  (forall a b d, In a dom -> In b dom -> In d dom ->
     less rules a b = false -> less rules b a = false ->
     less rules b d = false -> less rules d b = false ->
     less rules a d = false /\ less rules d a = false).
Proof. exact less_strict_weak_order. Qed.
Print Assumptions C09_less_strict_weak_order.

(* When the rules mention id (an empty rule list sorts by id) and the selected
   resources have distinct ids, Less is total on them and two sorted
   permutations coincide: the page does not depend on the sorting algorithm
   nor on the initial order of the collection.  No typing hypothesis. *)
Theorem C09_sorted_result_unique : forall rules dom,
  rules_have_id rules ->
  (forall a b, In a dom -> In b dom -> id_of a = id_of b -> a = b) ->
  forall l1 l2, incl l1 dom -> incl l2 dom ->
  StronglySorted (fun a b => less rules b a = false) l1 ->
  StronglySorted (fun a b => less rules b a = false) l2 ->
  Permutation l1 l2 -> l1 = l2.
Proof. exact sorted_result_unique. Qed.
Print Assumptions C09_sorted_result_unique.

Theorem C09_empty_rules_sort_by_id : rules_have_id [].
Proof. exact empty_rules_have_id. Qed.

Example c09_window_example :
  window [1; 2; 3; 4; 5]%Z 2 0 = [1; 2]%Z /\ window [1; 2; 3; 4; 5]%Z 2 2 = [5]%Z /\
  window [1; 2; 3; 4; 5]%Z 2 3 = [] /\ window [1; 2; 3]%Z 9223372036854775808 0 = [1; 2; 3]%Z /\
  window [1; 2; 3]%Z 0 0 = [].
Proof. vm_compute. repeat split. Qed.
