(* C16 -- Two-way relationships have one canonical representative.
   Property theorems only: each is closed by [exact] of a lemma proved in
   Proofs/C16Facts.v and followed by Print Assumptions.  [rel_invert],
   [rel_normalize], [rel_string] and [rel_less] are the definitions GENERATED
   from /repo's type.go and schema.go on every run. *)
From Coq Require Import Permutation Sorted.
From JV Require Import Model.Base Gen.TypeGo Gen.SchemaGo Model.Schema Model.C16
  Proofs.C16Facts.

Theorem C16_inv_inv : forall r, rel_invert (rel_invert r) = r.
Proof. exact invert_involutive. Qed.
Print Assumptions C16_inv_inv.

Theorem C16_norm_idem : forall r, rel_normalize (rel_normalize r) = rel_normalize r.
Proof. exact normalize_idempotent. Qed.
Print Assumptions C16_norm_idem.

Theorem C16_norm_either : forall r,
  rel_normalize r = r \/ rel_normalize r = rel_invert r.
Proof. exact normalize_either. Qed.
Print Assumptions C16_norm_either.

Theorem C16_norm_oneway : forall r, to_name r = "" -> rel_normalize r = r.
Proof. exact normalize_oneway. Qed.
Print Assumptions C16_norm_oneway.

(* [two_way r]: both names non-empty.  [degenerate r]: same type and same name
   on both ends with different cardinalities (excluded by the property:
   "a relationship that is its own inverse ... is outside the domain" is its
   equal-cardinality sibling, for which the law holds trivially). *)
Theorem C16_norm_pair : forall r,
  two_way r -> ~ degenerate r -> rel_normalize r = rel_normalize (rel_invert r).
Proof. exact normalize_pair. Qed.
Print Assumptions C16_norm_pair.

Theorem C16_string_pair : forall r,
  two_way r -> ~ degenerate r -> rel_string r = rel_string (rel_invert r).
Proof. exact string_pair. Qed.
Print Assumptions C16_string_pair.

(* Schema.Rels: every owned relationship is listed exactly once, through its
   normal form; nothing else is listed; two owned relationships share an
   entry only if they are equal or inverse of each other; the list is sorted
   by the generated [rel_less], a strict total order. *)
Theorem C16_rels_once : forall s r,
  owns s r -> count_occ rel_dec (schema_rels s) (rel_normalize r) = 1.
Proof. exact schema_rels_lists_once. Qed.
Print Assumptions C16_rels_once.

Theorem C16_rels_only : forall s n,
  In n (schema_rels s) <-> exists r, owns s r /\ n = rel_normalize r.
Proof. intros s n. rewrite schema_rels_In. apply norm_rels_owns. Qed.
Print Assumptions C16_rels_only.

Theorem C16_rels_share : forall r1 r2,
  rel_normalize r1 = rel_normalize r2 -> r1 = r2 \/ r1 = rel_invert r2.
Proof. exact normalize_injective_up_to_inverse. Qed.
Print Assumptions C16_rels_share.

Theorem C16_rels_sorted : forall s,
  StronglySorted (fun a b => rel_less b a = false) (schema_rels s).
Proof. exact schema_rels_sorted. Qed.
Print Assumptions C16_rels_sorted.

Theorem C16_less_strict_total :
  (forall a, rel_less a a = false) /\
  (forall a b c, rel_less a b = true -> rel_less b c = true -> rel_less a c = true) /\
  (forall a b, rel_less a b = true \/ a = b \/ rel_less b a = true).
Proof. exact (conj rel_less_irrefl (conj rel_less_trans rel_less_total)). Qed.
Print Assumptions C16_less_strict_total.

(* Order of construction: any permutation of the types and any iteration
   order of each type's relationship map give the same list. *)
Theorem C16_rels_order_independent : forall ts ts1 ts2,
  Permutation ts ts1 -> same_types ts1 ts2 ->
  schema_rels (mkSchema ts) = schema_rels (mkSchema ts2).
Proof. exact schema_rels_order_independent. Qed.
Print Assumptions C16_rels_order_independent.

(* Non-vacuity: an ordinary self-referential pair is two-way and not
   degenerate; a coherent two-type schema lists its pair once. *)
Example c16_parent_children :
  let r := mkRel "dir" "parent" true "dir" "children" false in
  two_way r /\ ~ degenerate r /\
  rel_normalize r = mkRel "dir" "children" false "dir" "parent" true.
Proof.
  cbn. split; [split; discriminate|]. split; [|reflexivity].
  intros [_ [H _]]. discriminate.
Qed.

Example c16_rels_example :
  let a := mkRel "a" "bc" true "ab" "c" false in
  let s := mkSchema [mkType "ab" [] [("c", rel_invert a)]; mkType "a" [] [("bc", a)]] in
  schema_rels s = [a].
Proof. vm_compute. reflexivity. Qed.
