(* C04 -- Sparse fieldsets and relationship data are honoured exactly.
   About [marshal_attrs] / [marshal_rels] / [marshal_rel] / [marshal_all]
   (Model/Marshal.v, Model/Document.v), for ARBITRARY selections [fields]
   (unknown names, "id", duplicates, empty) and requests [want]. *)
From Coq Require Import Permutation.
From JV Require Import Model.Base Model.GoTime Gen.TypeGo Model.Schema Model.Value
  Model.Json Model.Resource Model.Marshal Model.Unmarshal Model.Document
  Proofs.C03Facts Proofs.C04Facts.

(* attribute names present = the type's attributes that the selection lists *)
Theorem C04_attrs_exact : forall e r fields attrs l,
  marshal_attrs e r fields attrs [] = Ok l ->
  forall n, In n (map fst l) <->
            exists k a, In (k, a) attrs /\ aname a = n /\ mem_str n fields = true.
Proof.
  intros e r fields attrs l H n. rewrite (marshal_attrs_keys e r fields attrs [] l H n).
  cbn. tauto.
Qed.
Print Assumptions C04_attrs_exact.

Theorem C04_rels_exact : forall r prepath tn id fields want rels l,
  marshal_rels r prepath tn id fields want rels [] = Ok l ->
  forall n, In n (map fst l) <->
            exists k x, In (k, x) rels /\ from_name x = n /\ mem_str n fields = true.
Proof.
  intros r prepath tn id fields want rels l H n.
  rewrite (marshal_rels_keys r prepath tn id fields want rels [] l H n). cbn. tauto.
Qed.
Print Assumptions C04_rels_exact.

(* a relationship carries a data member iff the document asks for its data *)
Theorem C04_data_iff_requested : forall r prepath tn id fields want rels l n j,
  marshal_rels r prepath tn id fields want rels [] = Ok l ->
  In (n, j) l -> jhas "data" j = mem_str n want.
Proof.
  intros r prepath tn id fields want rels l n j H Hin.
  destruct (marshal_rels_members r prepath tn id fields want rels [] l ltac:(constructor) H) as [_ Hm].
  destruct (Hm n j Hin) as [[]|[k [x [_ [_ Hr]]]]].
  eapply marshal_rel_data_iff. exact Hr.
Qed.
Print Assumptions C04_data_iff_requested.

(* a data member lists exactly the related IDs with the target type (null for
   an empty to-one) *)
Theorem C04_data_to_one : forall r prepath tn id x j,
  to_one x = true -> marshal_rel r prepath tn id true x = Ok j ->
  exists rid0, get_str r (from_name x) = Ok rid0 /\
    jmember "data" j = Some (if String.eqb rid0 "" then JNull else identifier_json rid0 (to_type x)).
Proof. exact marshal_rel_data_to_one. Qed.
Print Assumptions C04_data_to_one.

Theorem C04_data_to_many : forall r prepath tn id x j,
  to_one x = false -> marshal_rel r prepath tn id true x = Ok j ->
  exists ids sorted, get_strs r (from_name x) = Ok ids /\ Permutation sorted ids /\
    jmember "data" j = Some (JArr (map (fun i => identifier_json i (to_type x)) sorted)).
Proof. exact marshal_rel_data_to_many. Qed.
Print Assumptions C04_data_to_many.

(* a type without a selection entry exposes no attribute and no relationship *)
Theorem C04_no_entry_nothing : forall e r prepath tn id want fields,
  lookup tn fields = None ->
  marshal_attrs e r (fields_for fields tn) (res_attrs r) [] = Ok [] /\
  marshal_rels r prepath tn id (fields_for fields tn) want (res_rels r) [] = Ok [].
Proof.
  intros e r prepath tn id want fields H. rewrite (fields_for_missing _ _ H).
  split; [apply marshal_attrs_no_selection|apply marshal_rels_no_selection].
Qed.
Print Assumptions C04_no_entry_nothing.

(* in a document every resource object -- primary, collection member,
   included -- is marshaled with the selection of its own type *)
Theorem C04_document_each : forall e l prepath fields reldata js,
  marshal_all e l prepath fields reldata = Ok js ->
  Forall2 (fun r j => marshal_resource e r prepath (fields_for fields (res_type_name r)) reldata = Ok j) l js.
Proof. exact marshal_all_each. Qed.
Print Assumptions C04_document_each.
