(* C06 -- Unmarshaling is faithful: accepted values are the payload's values.
   [unmarshal_to_type] mirrors Attr.UnmarshalToType (type.go) on the JSON
   token tree of the raw message (Model/Attr.v); [parse_int]/[parse_uint] are
   strconv.ParseInt/ParseUint in base 10 (Model/Strconv.v); [lit_value] reads
   an optional sign and decimal digits without any bound; [tparse]/[b64dec]
   are the oracle functions for time.Time's UnmarshalJSON and base64
   (encoding/json), arbitrary in every theorem below. *)
From Coq Require Import Lia.
From JV Require Import Model.Base Model.GoTime Gen.TypeGo Model.Schema Model.Value
  Model.Strconv Model.Json Model.Attr Model.SoftRes Model.Wrapper Model.Resource Model.Unmarshal
  Model.Marshal Proofs.StrconvFacts Proofs.SoftFacts Proofs.WrapperFacts Proofs.C06Facts Proofs.C06Resource
  Proofs.C05Mixed Proofs.C14Facts Proofs.C01Facts Proofs.C01Full Proofs.C01Wrapped Proofs.C06Remarshal Proofs.C06RemarshalW.

(* integers: accepted only within the declared width and signedness, stored unchanged *)
Theorem C06_int : forall e a lit v,
  is_int_kind (acode a) = true ->
  unmarshal_to_type e a (JNum lit) = Ok v ->
  exists z, lit_value lit = Some z /\ in_range (acode a) z = true /\
            v = wrap_null a (VInt (acode a) z).
Proof. exact unmarshal_int_faithful. Qed.
Print Assumptions C06_int.

(* null: the FULL statement "accepted only for nullable attributes" is false
   for non-nullable bytes (recorded finding null-accepted-nonnullable-bytes). *)
Theorem C06_null_partial : forall e a v,
  acode a <> 14%Z -> unmarshal_to_type e a JNull = Ok v ->
  anull a = true /\ v = zero_value (acode a) true.
Proof. exact unmarshal_null_partial. Qed.
Print Assumptions C06_null_partial.

Theorem C06_null_refuted : forall e,
  exists a, anull a = false /\ unmarshal_to_type e a JNull = Ok (VBytes true []).
Proof. exact unmarshal_null_bytes_refuted. Qed.
Print Assumptions C06_null_refuted.

Theorem C06_null_all_cases : forall e a v,
  unmarshal_to_type e a JNull = Ok v ->
  (anull a = true /\ v = zero_value (acode a) true) \/
  (anull a = false /\ acode a = 14%Z /\ v = VBytes true []).
Proof. exact unmarshal_null. Qed.
Print Assumptions C06_null_all_cases.

(* strings, booleans, times, byte strings: the stored value is the token's denotation *)
Theorem C06_string : forall e a j v,
  acode a = 1%Z -> j <> JNull -> unmarshal_to_type e a j = Ok v ->
  exists s esc, j = JStr s esc /\ v = wrap_null a (VStr s).
Proof. exact unmarshal_string. Qed.
Print Assumptions C06_string.

Theorem C06_bool : forall e a j v,
  acode a = 12%Z -> j <> JNull -> unmarshal_to_type e a j = Ok v ->
  exists b, j = JBool b /\ v = wrap_null a (VBool b).
Proof. exact unmarshal_bool. Qed.
Print Assumptions C06_bool.

Theorem C06_time : forall e a j v,
  acode a = 13%Z -> j <> JNull -> unmarshal_to_type e a j = Ok v ->
  exists s t, j = JStr s false /\ tparse e s = Some t /\ v = wrap_null a (VTime t).
Proof. exact unmarshal_time. Qed.
Print Assumptions C06_time.

Theorem C06_bytes : forall e a s esc v,
  acode a = 14%Z -> unmarshal_to_type e a (JStr s esc) = Ok v ->
  exists b, b64dec e s = Some b /\ v = wrap_null a (VBytes false b).
Proof. exact unmarshal_bytes_string. Qed.
Print Assumptions C06_bytes.

(* the stored value has exactly the Go type the attribute declares *)
Theorem C06_typed : forall e a j v,
  (1 <= acode a <= 14)%Z -> unmarshal_to_type e a j = Ok v ->
  kind_of_value v = (acode a, anull a).
Proof. exact unmarshal_typed. Qed.
Print Assumptions C06_typed.

(* decimal printing and parsing are inverse at every width (used by C01) *)
Theorem C06_print_parse_signed : forall z bits,
  (- 2 ^ (bits - 1) <= z < 2 ^ (bits - 1))%Z -> parse_int (itoa z) bits = Some z.
Proof. exact parse_int_itoa. Qed.
Print Assumptions C06_print_parse_signed.

Theorem C06_print_parse_unsigned : forall z bits,
  (0 <= z < 2 ^ bits)%Z -> parse_uint (utoa z) bits = Some z.
Proof. exact parse_uint_utoa. Qed.
Print Assumptions C06_print_parse_unsigned.

Theorem C06_int_roundtrip : forall e a z,
  is_int_kind (acode a) = true -> in_range (acode a) z = true ->
  unmarshal_to_type e a (JNum (itoa z)) = Ok (wrap_null a (VInt (acode a) z)).
Proof. exact unmarshal_int_roundtrip. Qed.
Print Assumptions C06_int_roundtrip.

(* Resource level (soft types): whenever a payload is accepted, every attribute
   present in its attributes object holds exactly what [unmarshal_to_type]
   gives for its JSON value (the theorems above say what that is), every
   relationship with a data member holds exactly the IDs listed (in the
   payload's order), every field absent from the payload -- or a relationship
   without data -- holds its zero value, and the id is the payload's.
   [dec_resske] is the tree-level model of decoding the skeleton (later
   duplicates win, case-folded names); [k_attrs k] / [k_rels k] are "the
   attributes / relationships present in the payload". *)
Theorem C06_resource_values : forall e s j r,
  sch_wrapped s = [] ->
  (forall k, dec_resske j = Some k -> wf_res_type (get_type (sch_schema s) (k_type k))) ->
  unmarshal_resource e s j = Ok (RSoft r) ->
  exists k, dec_resske j = Some k /\
    let t := get_type (sch_schema s) (k_type k) in
    s_type r = t /\ soft_get r "id" = VStr (k_id k) /\
    (forall n jv, lookup n (k_attrs k) = Some jv ->
       exists a v, lookup n (tattrs t) = Some a /\ unmarshal_to_type e a jv = Ok v /\ soft_get r n = v) /\
    (forall n a, lookup n (tattrs t) = Some a -> lookup n (k_attrs k) = None ->
       soft_get r n = zero_value (acode a) (anull a)) /\
    (forall n rs dj, lookup n (k_rels k) = Some rs -> rs_data rs = Some dj ->
       exists x, lookup n (trels t) = Some x /\
         (if to_one x then exists i, dec_identifier dj = Some i /\ soft_get r n = VStr (i_id i)
          else exists l, dec_identifiers dj = Some l /\ soft_get r n = VStrs false (ids_of l))) /\
    (forall n x, lookup n (trels t) = Some x ->
       (forall rs, lookup n (k_rels k) = Some rs -> rs_data rs = None) ->
       soft_get r n = if to_one x then VStr "" else VStrs false []).
Proof. exact accepted_resource_values. Qed.
Print Assumptions C06_resource_values.

(* The same for struct-backed types ([sch_ok]: structs Wrap accepts, schema
   types the built ones): the result is a struct whose Get reads, for every
   attribute present, what [unmarshal_to_type] gives (a nil pointer reading
   as nil: [read_slot]), for every relationship with data the IDs listed, the
   payload's id, and for every other field what the zero struct reads. *)
Theorem C06_resource_values_wrapped : forall e s j r d,
  sch_ok s ->
  (forall k, dec_resske j = Some k ->
     lookup (tname (get_type (sch_schema s) (k_type k))) (sch_wrapped s) = Some d) ->
  unmarshal_resource e s j = Ok r ->
  exists k w', dec_resske j = Some k /\ r = RWrap w' /\
    let t := get_type (sch_schema s) (k_type k) in
    wrapper_get w' "id" = Ok (VStr (k_id k)) /\
    (forall n jv, lookup n (k_attrs k) = Some jv ->
       exists a v, lookup n (tattrs t) = Some a /\ unmarshal_to_type e a jv = Ok v /\
                   wrapper_get w' n = Ok (read_slot v)) /\
    (forall n rs dj, lookup n (k_rels k) = Some rs -> rs_data rs = Some dj ->
       exists x, lookup n (trels t) = Some x /\
         (if to_one x then exists i, dec_identifier dj = Some i /\ wrapper_get w' n = Ok (VStr (i_id i))
          else exists l, dec_identifiers dj = Some l /\ wrapper_get w' n = Ok (VStrs false (ids_of l)))) /\
    (forall w0, wrap d (zero_vals d) = Ok w0 ->
       forall n, n <> "" -> n <> "id" -> lookup n (k_attrs k) = None ->
       (forall rs, lookup n (k_rels k) = Some rs -> rs_data rs = None) ->
       wrapper_get w' n = wrapper_get w0 n).
Proof. exact accepted_resource_values_wrapped. Qed.
Print Assumptions C06_resource_values_wrapped.

(* Re-marshaling (soft types): the resource an accepted payload gives is
   marshaled, with every field selected and relationship data requested, into
   JSON that is accepted again and decodes to the same type, the same id, the
   same value for every attribute ([same_value]: integers exactly, times as
   instants, nil-ness kept) and the same related IDs for every relationship --
   i.e. the re-marshaled members are the same JSON values as the payload's,
   "same" meaning: they decode alike.  [env_ok_value]: the standard-library
   round trips (time.Format/Parse, base64) hold on the stored values -- oracle
   hypotheses, as in C01.  [C06_remarshal_wrapped] below is the same for
   struct-backed types; the byte-level comparison is the Go denotation oracle's. *)
Theorem C06_remarshal : forall e s j r prepath reldata want,
  sch_wrapped s = [] ->
  (forall k, dec_resske j = Some k -> wf_res_type (get_type (sch_schema s) (k_type k))) ->
  unmarshal_resource e s j = Ok (RSoft r) ->
  let t := s_type r in
  (forall n a, lookup n (tattrs t) = Some a -> env_ok_value e (soft_get r n)) ->
  lookup (tname t) reldata = Some want ->
  (forall n, In n (map fst (trels t)) -> In n want) ->
  exists j' r',
    marshal_resource e (RSoft r) prepath (soft_fields t) reldata = Ok j' /\
    unmarshal_resource e s j' = Ok (RSoft r') /\
    s_type r' = t /\
    soft_get r' "id" = soft_get r "id" /\
    (forall n a, lookup n (tattrs t) = Some a -> same_value (soft_get r n) (soft_get r' n)) /\
    (forall n x, lookup n (trels t) = Some x -> same_rel (soft_get r n) (soft_get r' n)).
Proof. exact remarshal_accepted. Qed.
Print Assumptions C06_remarshal.

(* Re-marshaling, struct-backed types ([sch_ok]; the struct registered for a
   type carries that type's name): the struct an accepted payload fills is
   marshaled into JSON that is accepted again and reads the same id, the same
   value for every attribute ([same_reading]: nil stays nil) and the same
   related IDs.  The stdlib round trips hold on what the struct reads. *)
Theorem C06_remarshal_wrapped : forall e s j r d prepath reldata want,
  sch_ok s ->
  (forall k, dec_resske j = Some k ->
     let t := get_type (sch_schema s) (k_type k) in
     lookup (tname t) (sch_wrapped s) = Some d /\ wf_res_type t /\ struct_type_name d = tname t) ->
  unmarshal_resource e s j = Ok r ->
  (forall n v, res_get r n = Ok v -> env_ok_value e v) ->
  (forall k, dec_resske j = Some k ->
     lookup (k_type k) reldata = Some want /\
     forall n, In n (map fst (trels (get_type (sch_schema s) (k_type k)))) -> In n want) ->
  exists w' j' w'', r = RWrap w' /\
    marshal_resource e (RWrap w') prepath
      (soft_fields (mkType (w_typ w') (w_attrs w') (w_rels w'))) reldata = Ok j' /\
    unmarshal_resource e s j' = Ok (RWrap w'') /\
    w_typ w'' = w_typ w' /\ w_attrs w'' = w_attrs w' /\ w_rels w'' = w_rels w' /\
    res_get (RWrap w'') "id" = res_get (RWrap w') "id" /\
    (forall n a, In (n, a) (w_attrs w') ->
       exists rv rv', res_get (RWrap w') n = Ok rv /\ res_get (RWrap w'') n = Ok rv' /\ same_reading rv rv') /\
    (forall n x, In (n, x) (w_rels w') ->
       exists v v', res_get (RWrap w') n = Ok v /\ res_get (RWrap w'') n = Ok v' /\ same_rel v v').
Proof. exact remarshal_accepted_wrapped. Qed.
Print Assumptions C06_remarshal_wrapped.

Example c06_remarshal_wrapped_example :
  let e := tbl_env [] [] [] [] in
  let j := JObj [("type", jstr "things"); ("id", jstr "7");
                 ("attributes", JObj [("n", JNull); ("a", jstr "x")]);
                 ("relationships", JObj [("many", JObj [("data", JArr [JObj [("id", jstr "u1"); ("type", jstr "u")]])])])] in
  sch_ok exw_sch /\ is_ok (unmarshal_resource e exw_sch j) = true /\
  lookup "things" (sch_wrapped exw_sch) = Some exw_desc /\ struct_type_name exw_desc = "things".
Proof. cbn zeta. split; [exact (proj1 exw_sch_ok)|]. vm_compute. repeat split. Qed.

(* non-vacuity of C06_remarshal: an accepted payload meeting its hypotheses *)
Definition c06_type : type :=
  mkType "t" [("n", mkAttr "n" 3 false); ("s", mkAttr "s" 1 true)] [("r", mkRel "t" "r" true "t" "" false)].
Definition c06_sch : sch := mkSch (mkSchema [c06_type]) [].
Definition c06_payload : json :=
  JObj [("id", JStr "i1" false); ("type", JStr "t" false);
        ("attributes", JObj [("n", JNum "-128"); ("s", JNull)]);
        ("relationships", JObj [("r", JObj [("data", JObj [("id", JStr "i2" false); ("type", JStr "t" false)])])])].
Definition c06_env : stdenv := tbl_env [] [] [] [].
Lemma c06_type_wf : wf_res_type c06_type.
Proof.
  unfold wf_res_type, wf_type, wf_attrs, wf_rels, c06_type. cbn [tattrs trels map fst].
  split; [split; split|].
  - repeat constructor; cbn; intuition discriminate.
  - intros k a [H|[H|[]]]; injection H as <- <-; cbn; (split; [reflexivity|]); (split; [discriminate|]); unfold valid_code; lia.
  - repeat constructor; cbn; intuition discriminate.
  - intros k a [H|[]]; injection H as <- <-; cbn; (split; [reflexivity|]); split; discriminate.
  - split; [|split]; cbn; [intros n [<-|[<-|[]]] [H|[]]; discriminate H|intuition discriminate|intuition discriminate].
Qed.
Example c06_remarshal_example :
  exists r, unmarshal_resource c06_env c06_sch c06_payload = Ok (RSoft r) /\
    (forall k, dec_resske c06_payload = Some k -> wf_res_type (get_type (sch_schema c06_sch) (k_type k))) /\
    (forall n a, lookup n (tattrs (s_type r)) = Some a -> env_ok_value c06_env (soft_get r n)) /\
    lookup (tname (s_type r)) [("t", ["r"])] = Some ["r"].
Proof.
  eexists. split; [vm_compute; reflexivity|]. split.
  - intros k Hk. vm_compute in Hk. injection Hk as <-. exact c06_type_wf.
  - split; [|reflexivity]. intros n a. cbn [s_type tattrs lookup].
    destruct (String.eqb n "n") eqn:E1; [apply String.eqb_eq in E1; subst n; intros _; exact I|].
    destruct (String.eqb n "s") eqn:E2; [apply String.eqb_eq in E2; subst n; intros _; exact I|]. discriminate.
Qed.

(* non-vacuity and the boundary cases the property names *)
Example c06_int8_edges : forall e,
  unmarshal_to_type e (mkAttr "f" 3 false) (JNum "-128") = Ok (VInt 3 (-128)) /\
  unmarshal_to_type e (mkAttr "f" 3 false) (JNum "128") = Err /\
  unmarshal_to_type e (mkAttr "f" 3 false) (JNum "300") = Err /\
  unmarshal_to_type e (mkAttr "f" 11 true) (JNum "18446744073709551615")
    = Ok (VPtr 11 (Some (VInt 11 18446744073709551615))) /\
  unmarshal_to_type e (mkAttr "f" 11 false) (JNum "18446744073709551616") = Err /\
  unmarshal_to_type e (mkAttr "f" 5 false) (JNum "4294967297") = Err /\
  unmarshal_to_type e (mkAttr "f" 2 false) (JNum "1.0") = Err /\
  unmarshal_to_type e (mkAttr "f" 1 false) JNull = Err.
Proof. intros e. vm_compute. repeat split. Qed.
