From JV Require Import Model.Base Model.C06.
Theorem C06_placeholder : True. Proof. exact I. Qed.
Print Assumptions C06_placeholder.
