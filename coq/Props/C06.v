(* C06 -- Unmarshaling is faithful: accepted values are the payload's values.
   [unmarshal_to_type] mirrors Attr.UnmarshalToType (type.go) on the JSON
   token tree of the raw message (Model/Attr.v); [parse_int]/[parse_uint] are
   strconv.ParseInt/ParseUint in base 10 (Model/Strconv.v); [lit_value] reads
   an optional sign and decimal digits without any bound; [tparse]/[b64dec]
   are the oracle functions for time.Time's UnmarshalJSON and base64
   (encoding/json), arbitrary in every theorem below. *)
From JV Require Import Model.Base Model.GoTime Gen.TypeGo Model.Schema Model.Value
  Model.Strconv Model.Json Model.Attr Proofs.StrconvFacts Proofs.C06Facts.

(* integers: accepted only within the declared width and signedness, stored unchanged *)
Theorem C06_int : forall e a lit v,
  is_int_kind (acode a) = true ->
  unmarshal_to_type e a (JNum lit) = Ok v ->
  exists z, lit_value lit = Some z /\ in_range (acode a) z = true /\
            v = wrap_null a (VInt (acode a) z).
Proof. exact unmarshal_int_faithful. Qed.
Print Assumptions C06_int.

(* null: the FULL statement "accepted only for nullable attributes" is false
   for non-nullable bytes (recorded finding null-accepted-nonnullable-bytes). *)
Theorem C06_null_partial : forall e a v,
  acode a <> 14%Z -> unmarshal_to_type e a JNull = Ok v ->
  anull a = true /\ v = zero_value (acode a) true.
Proof. exact unmarshal_null_partial. Qed.
Print Assumptions C06_null_partial.

Theorem C06_null_refuted : forall e,
  exists a, anull a = false /\ unmarshal_to_type e a JNull = Ok (VBytes true []).
Proof. exact unmarshal_null_bytes_refuted. Qed.
Print Assumptions C06_null_refuted.

Theorem C06_null_all_cases : forall e a v,
  unmarshal_to_type e a JNull = Ok v ->
  (anull a = true /\ v = zero_value (acode a) true) \/
  (anull a = false /\ acode a = 14%Z /\ v = VBytes true []).
Proof. exact unmarshal_null. Qed.
Print Assumptions C06_null_all_cases.

(* strings, booleans, times, byte strings: the stored value is the token's denotation *)
Theorem C06_string : forall e a j v,
  acode a = 1%Z -> j <> JNull -> unmarshal_to_type e a j = Ok v ->
  exists s esc, j = JStr s esc /\ v = wrap_null a (VStr s).
Proof. exact unmarshal_string. Qed.
Print Assumptions C06_string.

Theorem C06_bool : forall e a j v,
  acode a = 12%Z -> j <> JNull -> unmarshal_to_type e a j = Ok v ->
  exists b, j = JBool b /\ v = wrap_null a (VBool b).
Proof. exact unmarshal_bool. Qed.
Print Assumptions C06_bool.

Theorem C06_time : forall e a j v,
  acode a = 13%Z -> j <> JNull -> unmarshal_to_type e a j = Ok v ->
  exists s t, j = JStr s false /\ tparse e s = Some t /\ v = wrap_null a (VTime t).
Proof. exact unmarshal_time. Qed.
Print Assumptions C06_time.

Theorem C06_bytes : forall e a s esc v,
  acode a = 14%Z -> unmarshal_to_type e a (JStr s esc) = Ok v ->
  exists b, b64dec e s = Some b /\ v = wrap_null a (VBytes false b).
Proof. exact unmarshal_bytes_string. Qed.
Print Assumptions C06_bytes.

(* the stored value has exactly the Go type the attribute declares *)
Theorem C06_typed : forall e a j v,
  (1 <= acode a <= 14)%Z -> unmarshal_to_type e a j = Ok v ->
  kind_of_value v = (acode a, anull a).
Proof. exact unmarshal_typed. Qed.
Print Assumptions C06_typed.

(* decimal printing and parsing are inverse at every width (used by C01) *)
Theorem C06_print_parse_signed : forall z bits,
  (- 2 ^ (bits - 1) <= z < 2 ^ (bits - 1))%Z -> parse_int (itoa z) bits = Some z.
Proof. exact parse_int_itoa. Qed.
Print Assumptions C06_print_parse_signed.

Theorem C06_print_parse_unsigned : forall z bits,
  (0 <= z < 2 ^ bits)%Z -> parse_uint (utoa z) bits = Some z.
Proof. exact parse_uint_utoa. Qed.
Print Assumptions C06_print_parse_unsigned.

Theorem C06_int_roundtrip : forall e a z,
  is_int_kind (acode a) = true -> in_range (acode a) z = true ->
  unmarshal_to_type e a (JNum (itoa z)) = Ok (wrap_null a (VInt (acode a) z)).
Proof. exact unmarshal_int_roundtrip. Qed.
Print Assumptions C06_int_roundtrip.

(* non-vacuity and the boundary cases the property names *)
Example c06_int8_edges : forall e,
  unmarshal_to_type e (mkAttr "f" 3 false) (JNum "-128") = Ok (VInt 3 (-128)) /\
  unmarshal_to_type e (mkAttr "f" 3 false) (JNum "128") = Err /\
  unmarshal_to_type e (mkAttr "f" 3 false) (JNum "300") = Err /\
  unmarshal_to_type e (mkAttr "f" 11 true) (JNum "18446744073709551615")
    = Ok (VPtr 11 (Some (VInt 11 18446744073709551615))) /\
  unmarshal_to_type e (mkAttr "f" 11 false) (JNum "18446744073709551616") = Err /\
  unmarshal_to_type e (mkAttr "f" 5 false) (JNum "4294967297") = Err /\
  unmarshal_to_type e (mkAttr "f" 2 false) (JNum "1.0") = Err /\
  unmarshal_to_type e (mkAttr "f" 1 false) JNull = Err.
Proof. intros e. vm_compute. repeat split. Qed.
