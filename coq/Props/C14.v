(* C14 -- Schema editing keeps the schema well-formed and is all-or-nothing.
   [step] mirrors AddType / RemoveType / AddAttr / RemoveAttr / AddRel /
   RemoveRel / AddTwoWayRel of schema.go and type.go (Model/C14.v); a history
   is a list of operations folded from any well-formed schema.  The model has
   no panic branch: none of the (repaired) Go loops indexes or asserts; "no
   call has panicked" is checked on the Go side of the correspondence.
   [op_ok]: the argument of AddType is itself a well-formed type (a type
   built by the library's own operations, or empty). *)
From JV Require Import Model.Base Gen.TypeGo Model.Schema Model.C14 Proofs.C14Facts.

(* every reachable schema is well-formed: unique non-empty type names,
   attribute / relationship names unique and non-empty within their type and
   equal to their map key, valid attribute kinds, non-empty target types *)
Theorem C14_invariant : forall ops s,
  wf_schema s -> Forall op_ok ops -> wf_schema (run s ops).
Proof. exact run_wf. Qed.
Print Assumptions C14_invariant.

Theorem C14_invariant_from_empty : forall ops,
  Forall op_ok ops -> wf_schema (run (mkSchema []) ops).
Proof. intros ops H. apply run_wf; [exact wf_empty|exact H]. Qed.
Print Assumptions C14_invariant_from_empty.

(* lookups agree with the list of types (for every schema value) *)
Theorem C14_lookups_agree : forall s,
  (forall n, has_type s n = true <-> exists t, In t (types s) /\ tname t = n) /\
  (forall n, has_type s n = false -> get_type s n = empty_type) /\
  (NoDup (map tname (types s)) -> forall t, In t (types s) -> get_type s (tname t) = t).
Proof. exact lookups_agree. Qed.
Print Assumptions C14_lookups_agree.

(* an edit that returns an error leaves the schema exactly as it was *)
Theorem C14_atomic : forall s o, fst (step s o) = false -> snd (step s o) = s.
Proof. exact step_atomic. Qed.
Print Assumptions C14_atomic.

(* removing something absent is a no-op *)
Theorem C14_remove_absent_type : forall s n,
  has_type s n = false -> step s (OpRemoveType n) = (true, s).
Proof. intros s n H. cbn. rewrite (remove_type_absent s n H). reflexivity. Qed.
Print Assumptions C14_remove_absent_type.

Theorem C14_remove_absent_attr : forall s n an,
  (forall t, In t (types s) -> tname t = n -> attr_name_used t an = false) ->
  step s (OpRemoveAttr n an) = (true, s).
Proof. intros s n an H. cbn. rewrite (remove_attr_absent s n an H). reflexivity. Qed.
Print Assumptions C14_remove_absent_attr.

Theorem C14_remove_absent_rel : forall s n rn,
  (forall t, In t (types s) -> tname t = n -> rel_name_used t rn = false) ->
  step s (OpRemoveRel n rn) = (true, s).
Proof. intros s n rn H. cbn. rewrite (remove_rel_absent s n rn H). reflexivity. Qed.
Print Assumptions C14_remove_absent_rel.

(* a two-way relationship whose types exist and whose names are free
   succeeds, in either direction and within a single type, and leaves each
   side holding the relationship and its inverse.  [names_free_for]: both
   types are found, both names non-empty and unused on their side, and the
   relationship is not its own inverse (same type and same name on both ends:
   outside the property's domain). *)
Theorem C14_two_way_ok : forall s r ta tb,
  wf_schema s -> names_free_for s r ta tb ->
  exists s', step s (OpAddTwoWayRel r) = (true, s') /\ wf_schema s' /\
    lookup (from_name r) (trels (get_type s' (from_type r))) = Some r /\
    lookup (to_name r) (trels (get_type s' (to_type r))) = Some (rel_invert r).
Proof. exact two_way_ok. Qed.
Print Assumptions C14_two_way_ok.

(* non-vacuity: the premises are met by ordinary schemas, in the
   non-normalised direction and within a single type *)
Example c14_two_way_larger_end :
  let s := run (mkSchema []) [OpAddType (mkType "a" [] []); OpAddType (mkType "b" [] [])] in
  let r := mkRel "b" "x" true "a" "y" false in
  wf_schema s /\ names_free_for s r (mkType "b" [] []) (mkType "a" [] []) /\
  fst (step s (OpAddTwoWayRel r)) = true.
Proof.
  cbn zeta. split; [apply run_wf; [exact wf_empty|]|].
  - assert (W : forall n, wf_type (mkType n [] [])).
    { intros n. split; (split; cbn; [constructor|tauto]). }
    apply Forall_cons; [apply W|apply Forall_cons; [apply W|apply Forall_nil]].
  - split; [|vm_compute; reflexivity].
    unfold names_free_for. vm_compute.
    repeat split; try discriminate. intros [H _]; discriminate.
Qed.

Example c14_two_way_same_type :
  let s := run (mkSchema []) [OpAddType (mkType "dir" [] [])] in
  let r := mkRel "dir" "parent" true "dir" "children" false in
  names_free_for s r (mkType "dir" [] []) (mkType "dir" [] []) /\
  run s [OpAddTwoWayRel r] =
    mkSchema [mkType "dir" [] [("children", rel_invert r); ("parent", r)]].
Proof.
  cbn zeta. split; [|vm_compute; reflexivity].
  unfold names_free_for. vm_compute.
  repeat split; try discriminate. intros [_ H]; discriminate.
Qed.

Example c14_failed_edit_changes_nothing :
  let s := run (mkSchema []) [OpAddType (mkType "a" [] []); OpAddAttr "a" (mkAttr "x" 1 false)] in
  step s (OpAddAttr "a" (mkAttr "x" 99 true)) = (false, s) /\
  step s (OpAddTwoWayRel (mkRel "a" "p" true "zz" "q" false)) = (false, s).
Proof. vm_compute. split; reflexivity. Qed.
