(* C17: what Equal guarantees when both resources have the same fields. *)
From Coq Require Import Lia.
From JV Require Import Model.Base Model.GoTime Gen.TypeGo Model.Schema Model.Value
  Model.SoftRes Model.Wrapper Model.Resource Model.Equal.
Open Scope list_scope.

Definition attr_agree (r1 r2 : resource) (a : attr) : Prop :=
  exists v1 v2, res_get r1 (aname a) = Ok v1 /\ res_get r2 (aname a) = Ok v2 /\
                (deep_equal v1 v2 = true \/ (is_nil_value v1 = true /\ is_nil_value v2 = true)).

Definition rel_agree (r1 r2 : resource) (x : rel) : Prop :=
  exists v1 v2, res_get r1 (from_name x) = Ok v1 /\ res_get r2 (from_name x) = Ok v2 /\
    match v1, v2 with
    | VStr s1, VStr s2 => s1 = s2
    | VStrs n1 l1, VStrs n2 l2 => (l1 = [] /\ l2 = []) \/ deep_equal v1 v2 = true
    | _, _ => False
    end.

Lemma equal_attrs_same r1 r2 (l : list attr) :
  equal_attrs r1 r2 (combine l l) = Ok true -> Forall (attr_agree r1 r2) l.
Proof.
  induction l as [|a l IH]; cbn; intros H; [constructor|].
  destruct (res_get r1 (aname a)) as [v1| |] eqn:E1; cbn [bind] in H; try discriminate.
  destruct (res_get r2 (aname a)) as [v2| |] eqn:E2; cbn [bind] in H; try discriminate.
  destruct (deep_equal v1 v2) eqn:Ed.
  - constructor; [|apply IH; exact H]. exists v1, v2. auto.
  - destruct (is_nil_value v1) eqn:En1; [|discriminate].
    cbn [bind] in H.
    destruct (is_nil_value v2) eqn:En2; [|discriminate].
    constructor; [|apply IH; exact H]. exists v1, v2. auto.
Qed.

Lemma length_zero_nil {A} (l : list A) : Nat.eqb (length l) 0 = true -> l = [].
Proof. destruct l; [reflexivity|discriminate]. Qed.

Lemma equal_rels_same r1 r2 (l : list rel) :
  equal_rels r1 r2 (combine l l) = Ok true -> Forall (rel_agree r1 r2) l.
Proof.
  induction l as [|x l IH]; cbn; intros H; [constructor|].
  rewrite Bool.eqb_reflx in H. cbn [negb] in H.
  destruct (res_get r1 (from_name x)) as [v1| |] eqn:E1; cbn [bind] in H; try discriminate.
  destruct (res_get r2 (from_name x)) as [v2| |] eqn:E2; cbn [bind] in H; try discriminate.
  destruct (to_one x).
  - destruct v1 as [| s1 | | | | | |]; try discriminate. destruct v2 as [| s2 | | | | | |]; try discriminate.
    destruct (String.eqb_spec s1 s2) as [->|N]; [|discriminate].
    constructor; [|apply IH; exact H]. exists (VStr s2), (VStr s2). auto.
  - destruct v1 as [| | | | | | |n1 l1]; try discriminate. destruct v2 as [| | | | | | |n2 l2]; try discriminate.
    destruct (negb (Nat.eqb (length l1) 0) || negb (Nat.eqb (length l2) 0)) eqn:Ee.
    + destruct (deep_equal (VStrs n1 l1) (VStrs n2 l2)) eqn:Ed; [|discriminate].
      constructor; [|apply IH; exact H]. exists (VStrs n1 l1), (VStrs n2 l2). auto.
    + apply Bool.orb_false_iff in Ee. destruct Ee as [Ea Eb].
      apply Bool.negb_false_iff in Ea, Eb. apply length_zero_nil in Ea, Eb.
      constructor; [|apply IH; exact H]. exists (VStrs n1 l1), (VStrs n2 l2). auto.
Qed.

(** Equal between resources exposing the same attributes and relationships
    means: same type name, and every field reads equal (two nil values of any
    nullable kind count as equal; two empty to-many relationships too). *)
Theorem equal_sound_same_fields r1 r2 :
  sorted_attrs r1 = sorted_attrs r2 -> sorted_rels r1 = sorted_rels r2 ->
  equal r1 r2 = Ok true ->
  res_type_name r1 = res_type_name r2 /\
  Forall (attr_agree r1 r2) (sorted_attrs r1) /\
  Forall (rel_agree r1 r2) (sorted_rels r1).
Proof.
  intros Ha Hr. unfold equal.
  destruct (String.eqb_spec (res_type_name r1) (res_type_name r2)) as [Hn|N]; [|discriminate].
  cbn [negb]. rewrite <- Ha, <- Hr. rewrite !Nat.eqb_refl. cbn [negb].
  destruct (equal_attrs r1 r2 (combine (sorted_attrs r1) (sorted_attrs r1))) as [ok| |] eqn:E;
    cbn [bind]; try discriminate.
  destruct ok; cbn [negb]; [|discriminate]. intros H.
  split; [exact Hn|]. split; [apply equal_attrs_same; exact E|apply equal_rels_same; exact H].
Qed.

(** deep_equal is equality of the readings *)
Lemma strs_eqb_eq a : forall b, strs_eqb a b = true -> a = b.
Proof.
  induction a as [|x a IH]; intros [|y b]; cbn; try discriminate; [reflexivity|].
  intros H. apply Bool.andb_true_iff in H. destruct H as [H1 H2].
  apply String.eqb_eq in H1. subst. f_equal. apply IH. exact H2.
Qed.
