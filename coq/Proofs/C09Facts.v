(* C09: the page window partitions the sorted selection; membership; the
   result is determined by the set of selected resources when the order is
   total on them. *)
From Coq Require Import Lia Permutation Sorted.
From JV Require Import Model.Base Model.GoTime Gen.TypeGo Gen.FilterGo Model.Schema Model.Value
  Model.SoftRes Model.Wrapper Model.Resource Model.Filter Model.Range Proofs.BaseFacts.
Open Scope list_scope.

(** * The window *)
Definition window_nat {A} (l : list A) (s k : nat) : list A := firstn s (skipn (k * s) l).

Lemma skipn_skipn' {A} (a b : nat) (l : list A) : skipn a (skipn b l) = skipn (b + a) l.
Proof.
  revert l. induction b as [|b IH]; intros l; [reflexivity|].
  destruct l as [|x l]; [destruct a; reflexivity|]. cbn. apply IH.
Qed.

Lemma skipn_all' {A} n (l : list A) : length l <= n -> skipn n l = [].
Proof.
  revert l. induction n as [|n IH]; intros [|x l] H; cbn in *; try reflexivity; try lia.
  apply IH. lia.
Qed.

Lemma firstn_all' {A} n (l : list A) : length l <= n -> firstn n l = l.
Proof.
  revert l. induction n as [|n IH]; intros [|x l] H; cbn in *; try reflexivity; try lia.
  f_equal. apply IH. lia.
Qed.

(** consecutive pages concatenate to the whole list *)
Lemma pages_concat {A} (s : nat) : 0 < s -> forall m (l : list A),
  length l <= m * s ->
  List.concat (map (window_nat l s) (seq 0 m)) = l.
Proof.
  intros Hs. induction m as [|m IH]; intros l Hl.
  - cbn in *. destruct l; [reflexivity|cbn in Hl; lia].
  - cbn [seq map List.concat]. unfold window_nat at 1. cbn [Nat.mul skipn].
    rewrite <- seq_shift, map_map.
    assert (E : map (fun k => window_nat l s (S k)) (seq 0 m) = map (window_nat (skipn s l) s) (seq 0 m)).
    { apply map_ext. intros k. unfold window_nat. rewrite skipn_skipn'. reflexivity. }
    rewrite E, IH.
    + apply firstn_skipn.
    + rewrite skipn_length. cbn in Hl. lia.
Qed.

Lemma window_is_window_nat {A} (l : list A) size num :
  (0 < size)%Z -> (0 <= num)%Z ->
  window l size num = window_nat l (Z.to_nat size) (Z.to_nat num).
Proof.
  intros Hs Hn. unfold window, window_nat.
  set (total := Z.of_nat (length l)).
  destruct (Z.ltb_spec 0 size); [|lia]. cbn [andb].
  assert (Hmul : (Z.to_nat num * Z.to_nat size)%nat = Z.to_nat (num * size)).
  { rewrite Z2Nat.inj_mul by lia. reflexivity. }
  destruct (Z.leb_spec num (total / size)) as [Hle|Hgt].
  - rewrite Hmul.
    destruct (Z.le_gt_cases size total) as [Hc|Hc].
    + rewrite Z.min_l by lia. reflexivity.
    + rewrite Z.min_r by lia.
      rewrite !firstn_all'; try reflexivity; rewrite skipn_length; unfold total in *; lia.
  - (* beyond the last page: nothing left to skip to *)
    rewrite skipn_all'; [destruct (Z.to_nat size); reflexivity|].
    rewrite Hmul.
    assert (total < num * size)%Z.
    { pose proof (Z.mul_succ_div_gt total size ltac:(lia)).
      assert (size * Z.succ (total / size) <= size * num)%Z by (apply Z.mul_le_mono_nonneg_l; lia).
      lia. }
    unfold total in *. lia.
Qed.

Lemma pages_partition {A} (l : list A) size (m : nat) :
  (0 < size)%Z -> (Z.of_nat (length l) <= Z.of_nat m * size)%Z ->
  List.concat (map (fun k => window l size (Z.of_nat k)) (seq 0 m)) = l.
Proof.
  intros Hs Hm.
  rewrite (map_ext _ (window_nat l (Z.to_nat size))).
  - apply pages_concat; [lia|].
    apply Nat2Z.inj_le. rewrite Nat2Z.inj_mul, Z2Nat.id by lia. exact Hm.
  - intros k. rewrite window_is_window_nat by lia. rewrite Nat2Z.id. reflexivity.
Qed.

Lemma window_size_zero {A} (l : list A) num : window l 0 num = [].
Proof. reflexivity. Qed.

Lemma firstn_incl' {A} n (l : list A) x : In x (firstn n l) -> In x l.
Proof.
  revert l. induction n as [|n IH]; intros [|y l]; cbn; try tauto.
  intros [H|H]; [left; exact H|right; apply IH; exact H].
Qed.

Lemma skipn_incl' {A} n (l : list A) x : In x (skipn n l) -> In x l.
Proof.
  revert l. induction n as [|n IH]; intros [|y l]; cbn; try tauto.
  intros H. right. apply IH. exact H.
Qed.

Lemma window_incl {A} (l : list A) size num : incl (window l size num) l.
Proof.
  unfold window. destruct (_ && _); [|intros x []].
  intros x H. apply firstn_incl' in H. eapply skipn_incl'. exact H.
Qed.

(** * Range *)
Section Range.
  Variable sorter : (resource -> resource -> bool) -> list resource -> list resource.
  Hypothesis sorter_perm : forall lt l, Permutation (sorter lt l) l.

  Definition selected (c : list resource) (ids : list str) (f : option filter) : res (list resource) :=
    match f with Some flt => filter_allowed flt (select_ids c ids) | None => Ok (select_ids c ids) end.

  Lemma range_is_window c ids f rules size num kept :
    selected c ids f = Ok kept ->
    range_with sorter c ids f rules size num = Ok (window (sorter (less rules) kept) size num).
  Proof. unfold range_with, selected. intros ->. reflexivity. Qed.

  (** consecutive pages partition the matching resources *)
  Lemma range_pages_partition c ids f rules size (m : nat) kept :
    selected c ids f = Ok kept -> (0 < size)%Z ->
    (Z.of_nat (length kept) <= Z.of_nat m * size)%Z ->
    exists pages,
      Forall2 (fun k p => range_with sorter c ids f rules size (Z.of_nat k) = Ok p) (seq 0 m) pages /\
      Permutation (List.concat pages) kept.
  Proof.
    intros Hsel Hs Hm.
    exists (map (fun k => window (sorter (less rules) kept) size (Z.of_nat k)) (seq 0 m)). split.
    - induction (seq 0 m) as [|k ks IH]; cbn; constructor; [|exact IH].
      apply range_is_window. exact Hsel.
    - rewrite pages_partition; [apply sorter_perm|exact Hs|].
      rewrite (Permutation_length (sorter_perm (less rules) kept)). exact Hm.
  Qed.

  Lemma range_page_members c ids f rules size num kept page :
    selected c ids f = Ok kept ->
    range_with sorter c ids f rules size num = Ok page -> incl page kept.
  Proof.
    intros Hsel Hr. rewrite (range_is_window _ _ _ _ _ _ _ Hsel) in Hr. inversion Hr; subst.
    intros x Hx. apply window_incl in Hx.
    eapply Permutation_in; [apply sorter_perm|exact Hx].
  Qed.

  Lemma range_size_zero c ids f rules num kept :
    selected c ids f = Ok kept -> range_with sorter c ids f rules 0 num = Ok [].
  Proof. intros Hsel. rewrite (range_is_window _ _ _ _ _ _ _ Hsel). reflexivity. Qed.
End Range.

(** * Selection and filtering *)
Lemma select_all c : select_ids c [] = c.
Proof. reflexivity. Qed.

Lemma select_ids_In c ids r :
  ids <> [] -> (In r (select_ids c ids) <-> In r c /\ In (id_of r) ids).
Proof.
  intros Hne. destruct ids as [|i ids]; [congruence|]. unfold select_ids.
  rewrite in_flat_map. split.
  - intros [x [Hx Hin]]. apply in_flat_map in Hin. destruct Hin as [id [Hid Hr]].
    destruct (String.eqb_spec (id_of x) id) as [E|N]; [|destruct Hr].
    destruct Hr as [->|[]]. subst. auto.
  - intros [Hc Hid]. exists r. split; [exact Hc|]. apply in_flat_map. exists (id_of r).
    split; [exact Hid|]. rewrite String.eqb_refl. left; reflexivity.
Qed.

Lemma filter_allowed_spec f l kept :
  filter_allowed f l = Ok kept ->
  forall r, In r kept <-> In r l /\ is_allowed f r = Ok true.
Proof.
  revert kept. induction l as [|x l IH]; intros kept; cbn.
  - intros H; inversion H. intros r. cbn. tauto.
  - destruct (is_allowed f x) as [ok| |] eqn:E; cbn; try discriminate.
    destruct (filter_allowed f l) as [rest| |]; cbn; try discriminate.
    intros H; inversion H; subst. intros r. specialize (IH rest eq_refl r).
    destruct ok; cbn; rewrite ?IH; split.
    + intros [<-|[H1 H2]]; auto.
    + intros [[<-|H1] H2]; auto.
    + intros [H1 H2]; auto.
    + intros [[<-|H1] H2]; [congruence|auto].
Qed.

(** * The comparison *)
Lemma bytes_cmp_refl l : bytes_cmp l l = Eq.
Proof. induction l as [|x l IH]; cbn; [reflexivity|]. rewrite Z.compare_refl. exact IH. Qed.

Lemma base_vcmp_refl v : base_vcmp v v = Eq.
Proof.
  destruct v; cbn; try reflexivity.
  - apply str_compare_refl.
  - match goal with |- context [if ?c then _ else _] => destruct c end; [reflexivity|apply Z.compare_refl].
  - destruct b; reflexivity.
  - unfold time_cmp. rewrite !Z.compare_refl. reflexivity.
  - apply bytes_cmp_refl.
Qed.

Lemma vcmp_refl v : vcmp v v = Eq.
Proof.
  destruct v as [| s | k z | b | t | n bs | k o | n l]; try (exact (base_vcmp_refl _)).
  unfold vcmp.
  destruct ((k =? 11)%Z || (k =? 14)%Z || (k =? 11)%Z || (k =? 14)%Z); [reflexivity|].
  destruct o; [apply base_vcmp_refl|reflexivity].
Qed.

Lemma lex_cmp_refl rules a : lex_cmp rules a a = Eq.
Proof.
  induction rules as [|rule rules IH]; cbn; [reflexivity|].
  unfold rule_cmp. destruct (rule_name rule) as [n inv]. cbn [fst].
  destruct (String.eqb n "id").
  - rewrite str_compare_refl. destruct inv; reflexivity.
  - rewrite vcmp_refl. destruct inv; cbn; exact IH.
Qed.

Lemma less_irrefl rules a : less rules a a = false.
Proof. unfold less. rewrite lex_cmp_refl. reflexivity. Qed.

(** * Determinism: when the order is total on the selected resources, every
    sorter returning a sorted permutation returns the same list, whatever the
    initial order of the collection. *)
Section Unique.
  Variable lt : resource -> resource -> bool.
  Variable dom : list resource.
  Hypothesis lt_irrefl : forall a, lt a a = false.
  Hypothesis lt_trans : forall a b c, In a dom -> In b dom -> In c dom ->
    lt a b = true -> lt b c = true -> lt a c = true.
  Hypothesis lt_total : forall a b, In a dom -> In b dom -> lt a b = true \/ a = b \/ lt b a = true.

  Lemma sorted_unique_on l1 : forall l2,
    incl l1 dom -> incl l2 dom ->
    StronglySorted (fun a b => lt b a = false) l1 ->
    StronglySorted (fun a b => lt b a = false) l2 ->
    Permutation l1 l2 -> l1 = l2.
  Proof.
    induction l1 as [|x xs IH]; intros l2 Hd1 Hd2 H1 H2 Hp.
    - apply Permutation_nil in Hp. congruence.
    - destruct l2 as [|y ys]; [apply Permutation_sym, Permutation_nil in Hp; discriminate|].
      inversion H1 as [|? ? H1' Hall1]; subst. inversion H2 as [|? ? H2' Hall2]; subst.
      assert (x = y) as ->.
      { assert (Hx : In x (y :: ys)) by (eapply Permutation_in; [exact Hp|left; reflexivity]).
        assert (Hy : In y (x :: xs)) by (eapply Permutation_in; [symmetry; exact Hp|left; reflexivity]).
        destruct Hx as [->|Hx]; [reflexivity|]. destruct Hy as [->|Hy]; [reflexivity|].
        rewrite Forall_forall in Hall1, Hall2.
        specialize (Hall1 y Hy). specialize (Hall2 x Hx).
        destruct (lt_total x y) as [H|[H|H]]; try congruence;
          [apply Hd1; left; reflexivity|apply Hd2; left; reflexivity]. }
      f_equal. apply IH; try assumption.
      + intros z Hz. apply Hd1. right; exact Hz.
      + intros z Hz. apply Hd2. right; exact Hz.
      + eapply Permutation_cons_inv; exact Hp.
  Qed.
End Unique.
