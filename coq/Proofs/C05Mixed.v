(* C05: no panic for schemas that mix soft and struct-backed types. *)
From Coq Require Import Lia.
From JV Require Import Model.Base Model.GoTime Gen.TypeGo Model.Schema Model.Value
  Model.Json Model.Attr Model.SoftRes Model.Wrapper Model.Resource Model.Unmarshal Model.Document
  Proofs.MapFacts Proofs.SoftFacts Proofs.C06Facts Proofs.WrapperFacts Proofs.C17Facts
  Proofs.C20Facts Proofs.C20Rels Proofs.C13Facts Proofs.C05Facts Proofs.C07Fields
  Proofs.C01Wrapped Proofs.C01WrapFacts.
Open Scope list_scope.

(** a struct-backed type of the schema: the struct is one Wrap accepts, its
    type name is not itself an attr/rel tag, and the schema holds the type
    BuildType gives for it *)
Definition wrapped_entry_ok (s : sch) (tn : str) (d : structdesc) : Prop :=
  good_desc d /\ is_res_tag (struct_type_name d) = false /\
  exists w0, wrap d (zero_vals d) = Ok w0 /\
             tattrs (get_type (sch_schema s) tn) = w_attrs w0 /\
             trels (get_type (sch_schema s) tn) = w_rels w0.

Definition sch_ok (s : sch) : Prop :=
  forall tn d, lookup tn (sch_wrapped s) = Some d -> wrapped_entry_ok s tn d.

Section Wrapped.
  Variables (e : stdenv) (t : type) (d : structdesc) (w0 : wrapper).
  Hypothesis Hgood : good_desc d.
  Hypothesis Hnotag : is_res_tag (struct_type_name d) = false.
  Hypothesis Hwrap : wrap d (zero_vals d) = Ok w0.
  Hypothesis Hta : tattrs t = w_attrs w0.
  Hypothesis Htr : trels t = w_rels w0.
  Hypothesis Hnb : no_bytes t.

  Let Hlen : length (zero_vals d) = length d.
  Proof. unfold zero_vals. apply map_length. Qed.

  (** the invariant of the loops: the same struct, values aligned *)
  Definition winv (w : wrapper) : Prop := wstate_ok w /\ w_desc w = d.

  Lemma w0_inv : winv w0.
  Proof.
    split; [apply (wrap_state_ok d (zero_vals d) w0 Hwrap Hgood Hlen)|].
    apply (wrap_fields d (zero_vals d) w0 Hwrap).
  Qed.

  Lemma slot_any w n f v0 : winv w -> slot_value w0 n = Some (f, v0) ->
    exists v1, get_slot (by_json n) (w_desc w) (w_vals w) = Some (f, v1).
  Proof.
    intros [[_ Hl] Hd] Hs. unfold slot_value in Hs.
    destruct (wrap_fields d (zero_vals d) w0 Hwrap) as [H1 [H2 _]]. rewrite H1, H2 in Hs.
    rewrite Hd. apply (get_slot_field (by_json n) d (zero_vals d) (w_vals w) f v0); [|exact Hs].
    rewrite Hlen, Hl, Hd. reflexivity.
  Qed.

  (** a tagged field that is not the ID field does not carry the json name "id" *)
  Lemma tagged_not_id f : In f d -> is_res_tag (sf_api f) = true -> sf_json f <> "id" /\ sf_json f <> "".
  Proof.
    intros Hin Htag. destruct Hgood as [Hnj [_ [Hgf [f0 [Hin0 [Hname0 [Hty0 Hjson0]]]]]]].
    rewrite Forall_forall in Hgf. split; [|apply (Hgf f Hin)].
    intros E.
    assert (f = f0).
    { clear -Hnj Hin Hin0 E Hjson0. induction d as [|g l IH]; [contradiction|].
      cbn in Hnj. apply NoDup_cons_iff in Hnj. destruct Hnj as [Hg Hn].
      destruct Hin as [<-|Hin], Hin0 as [<-|Hin0]; try reflexivity.
      - exfalso. apply Hg. rewrite E, <- Hjson0. apply in_map. exact Hin0.
      - exfalso. apply Hg. rewrite Hjson0, <- E. apply in_map. exact Hin.
      - apply IH; assumption. }
    subst f0.
    (* the ID field's api tag is the type name *)
    assert (Hst : struct_type_name d = sf_api f).
    { unfold struct_type_name, find_field.
      assert (Hfind : find (fun g => String.eqb (sf_name g) "ID") d = Some f).
      { destruct Hgood as [_ [Hnn _]]. clear -Hnn Hin Hname0.
        induction d as [|g l IH]; [contradiction|]. cbn. cbn in Hnn. apply NoDup_cons_iff in Hnn. destruct Hnn as [Hg Hn].
        destruct Hin as [<-|Hin]; [rewrite Hname0; reflexivity|].
        destruct (String.eqb_spec (sf_name g) "ID") as [Eg|_]; [|apply IH; assumption].
        exfalso. apply Hg. rewrite Eg, <- Hname0. apply in_map. exact Hin. }
      rewrite Hfind, Hty0. reflexivity. }
    rewrite Hst in Hnotag. congruence.
  Qed.

  Lemma attr_key_name n a : In (n, a) (w_attrs w0) -> aname a = n.
  Proof.
    destruct (wrap_fields d (zero_vals d) w0 Hwrap) as [_ [_ [_ [H4 _]]]]. rewrite H4. intros Hin.
    destruct (build_attrs_from d n a Hin) as [f [_ [_ [_ Ha]]]].
    destruct (get_attr_type _) as [k nl]. subst a. reflexivity.
  Qed.

  Lemma set_attrs_wrapped : forall l w, winv w ->
    (exists w', set_attrs e t (RWrap w) l = Ok (RWrap w') /\ winv w') \/ set_attrs e t (RWrap w) l = Err.
  Proof.
    induction l as [|[k v] l IH]; intros w Hw; cbn [set_attrs]; [left; eauto|].
    destruct (lookup k (tattrs t)) as [a|] eqn:Ea; [|right; reflexivity].
    pose proof (lookup_In _ _ _ Ea) as Hin. rewrite Hta in Hin.
    destruct (unmarshal_to_type e a v) as [val| |] eqn:Eu; cbn [bind]; [|right; reflexivity|].
    2:{ exfalso. apply unmarshal_panic_only_bytes in Eu. apply (Hnb k a); [apply lookup_In; exact Ea|exact Eu]. }
    destruct (wrap_attr_slot d (zero_vals d) w0 Hwrap Hgood Hlen k a Hin) as [f [v0 [Hs [Hft [Hcomb Hapi]]]]].
    pose proof (attr_key_name k a Hin) as Hn.
    assert (Hf : In f d) by (apply in_combine_l in Hcomb; exact Hcomb).
    assert (Hjs : sf_json f = k).
    { unfold slot_value in Hs. apply get_slot_In in Hs. destruct Hs as [_ Hp]. unfold by_json in Hp.
      apply String.eqb_eq in Hp. symmetry. exact Hp. }
    destruct (tagged_not_id f Hf) as [Hnid Hne]; [unfold is_res_tag; rewrite Hapi; reflexivity|].
    rewrite Hjs in Hnid, Hne.
    destruct (slot_any w k f v0 Hw Hs) as [v1 Hs1].
    assert (Hvc : (1 <= acode a <= 14)%Z).
    { (* the slot's Go type is a supported attribute type *)
      destruct (wrap_fields d (zero_vals d) w0 Hwrap) as [_ [_ [_ [_ [_ Hc]]]]].
      unfold check_struct in Hc. destruct (find_field is_id_field d); [|discriminate].
      apply andb_true_iff in Hc. destruct Hc as [Hc _]. apply andb_true_iff in Hc. destruct Hc as [_ HF2].
      rewrite forallb_forall in HF2. specialize (HF2 f Hf). rewrite Hapi in HF2. cbn in HF2.
      rewrite Hft in HF2. cbn in HF2. apply andb_true_iff in HF2. destruct HF2 as [A B].
      apply Z.leb_le in A, B. lia. }
    pose proof (unmarshal_typed e a v val Hvc Eu) as Hk.
    assert (Hop : wrapper_op_ok (w_desc w) (w_vals w) (aname a, val)).
    { right. cbn [fst snd]. rewrite Hn. split; [exact Hnid|]. split; [exact Hne|].
      exists f, v1. split; [exact Hs1|]. right. rewrite Hft. apply typed_has_type; assumption. }
    destruct (wrapper_set_ok w (aname a) val (proj1 Hw) Hop) as [w1 [Hset [Hst1 [Hd1 _]]]].
    cbn [res_set]. rewrite Hset. cbn [bind].
    apply IH. split; [exact Hst1|]. rewrite Hd1. exact (proj2 Hw).
  Qed.

  Lemma rel_key_name n x : In (n, x) (w_rels w0) -> from_name x = n.
  Proof.
    destruct (wrap_fields d (zero_vals d) w0 Hwrap) as [_ [_ [_ [_ [H5 _]]]]]. intros Hin.
    destruct (build_rels_from _ d _ n x H5 Hin) as [f [_ [Hr Hj]]].
    unfold rel_of_field in Hr. destruct (split_comma (sf_api f)) as [|hd [|tg tl]]; try discriminate.
    destruct (String.eqb hd "rel"); [|discriminate]. injection Hr as <-. exact Hj.
  Qed.

  Lemma rel_slot_tagged n x f v0 : In (n, x) (w_rels w0) -> slot_value w0 n = Some (f, v0) ->
    sf_json f = n /\ n <> "id" /\ n <> "".
  Proof.
    intros Hin Hs.
    assert (Hjs : sf_json f = n).
    { unfold slot_value in Hs. apply get_slot_In in Hs. destruct Hs as [_ Hp]. unfold by_json in Hp.
      apply String.eqb_eq in Hp. symmetry. exact Hp. }
    split; [exact Hjs|].
    destruct (wrap_fields d (zero_vals d) w0 Hwrap) as [H1 [_ [_ [_ [H5 _]]]]].
    destruct (build_rels_from _ d _ n x H5 Hin) as [g [Hg [Hr Hj]]].
    (* unique json names: g is f *)
    assert (Hf : In f d).
    { unfold slot_value in Hs. apply get_slot_In in Hs. rewrite H1 in Hs. exact (proj1 Hs). }
    assert (g = f).
    { destruct Hgood as [Hnj _]. clear -Hnj Hg Hf Hj Hjs.
      induction d as [|y l IH]; [contradiction|]. cbn in Hnj. apply NoDup_cons_iff in Hnj. destruct Hnj as [Hy Hn].
      destruct Hg as [<-|Hg], Hf as [<-|Hf]; try reflexivity.
      - exfalso. apply Hy. rewrite Hj, <- Hjs. apply in_map. exact Hf.
      - exfalso. apply Hy. rewrite Hjs, <- Hj. apply in_map. exact Hg.
      - apply IH; assumption. }
    subst g.
    assert (Htag : is_res_tag (sf_api f) = true).
    { unfold rel_of_field in Hr. destruct (split_comma (sf_api f)) as [|hd [|tg tl]] eqn:Es; try discriminate.
      destruct (String.eqb_spec hd "rel") as [->|N]; [|discriminate].
      unfold is_res_tag. clear -Es.
      assert (H : forall s0 cur, split_comma_aux s0 cur = "rel" :: tg :: tl ->
                  exists rest, (cur ++ s0)%string = ("rel," ++ rest)%string).
      { induction s0 as [|c s0 IH]; intros cur; cbn; [discriminate|].
        destruct (Ascii.eqb_spec c ",") as [->|Nc].
        - intros H. injection H as Hcur _. subst cur. exists s0. reflexivity.
        - intros H. destruct (IH _ H) as [rest Hrest]. exists rest.
          rewrite sappend_assoc in Hrest. exact Hrest. }
      destruct (H (sf_api f) "" Es) as [rest Hrest]. cbn in Hrest. rewrite Hrest.
      destruct rest; vm_compute; reflexivity. }
    destruct (tagged_not_id f Hf Htag) as [A B]. rewrite Hjs in A, B. auto.
  Qed.

  Lemma set_rels_wrapped : forall l w, winv w ->
    (exists w', set_rels t (RWrap w) l = Ok (RWrap w') /\ winv w') \/ set_rels t (RWrap w) l = Err.
  Proof.
    induction l as [|[k rs] l IH]; intros w Hw; cbn [set_rels]; [left; eauto|].
    destruct (lookup k (trels t)) as [x|] eqn:Ex; [|right; reflexivity].
    pose proof (lookup_In _ _ _ Ex) as Hin. rewrite Htr in Hin.
    destruct (rs_data rs) as [dj|]; [|apply IH; exact Hw].
    destruct (wrap_rel_slot d (zero_vals d) w0 Hwrap Hgood Hlen k x Hin) as [f [v0 [Hs [Hft _]]]].
    destruct (rel_slot_tagged k x f v0 Hin Hs) as [_ [Hnid Hne]].
    pose proof (rel_key_name k x Hin) as Hn.
    destruct (slot_any w k f v0 Hw Hs) as [v1 Hs1].
    assert (Hset : forall val, value_has_type (slot_type_of_rel x) val = true ->
              (exists w', bind (res_set (RWrap w) (from_name x) val) (fun r' => set_rels t r' l) = Ok (RWrap w') /\ winv w') \/
              bind (res_set (RWrap w) (from_name x) val) (fun r' => set_rels t r' l) = Err).
    { intros val Hty.
      assert (Hop : wrapper_op_ok (w_desc w) (w_vals w) (from_name x, val)).
      { right. cbn [fst snd]. rewrite Hn. split; [exact Hnid|]. split; [exact Hne|].
        exists f, v1. split; [exact Hs1|]. right. rewrite Hft. exact Hty. }
      destruct (wrapper_set_ok w (from_name x) val (proj1 Hw) Hop) as [w1 [Hs' [Hst1 [Hd1 _]]]].
      cbn [res_set]. rewrite Hs'. cbn [bind]. apply IH. split; [exact Hst1|]. rewrite Hd1. exact (proj2 Hw). }
    unfold slot_type_of_rel in Hset.
    destruct (to_one x).
    - destruct (dec_identifier dj) as [i|]; [|right; reflexivity]. apply Hset. reflexivity.
    - destruct (dec_identifiers dj) as [is'|]; [|right; reflexivity]. apply Hset. reflexivity.
  Qed.
  (** each Set of the two loops succeeds on the struct *)
  Lemma attr_step w k a v val : winv w -> lookup k (tattrs t) = Some a -> unmarshal_to_type e a v = Ok val ->
    exists w1, res_set (RWrap w) (aname a) val = Ok (RWrap w1) /\ winv w1.
  Proof.
    intros Hw Ea Eu.
    pose proof (lookup_In _ _ _ Ea) as Hin. rewrite Hta in Hin.
    destruct (wrap_attr_slot d (zero_vals d) w0 Hwrap Hgood Hlen k a Hin) as [f [v0 [Hs [Hft [Hcomb Hapi]]]]].
    pose proof (attr_key_name k a Hin) as Hn.
    assert (Hf : In f d) by (apply in_combine_l in Hcomb; exact Hcomb).
    assert (Hjs : sf_json f = k).
    { unfold slot_value in Hs. apply get_slot_In in Hs. destruct Hs as [_ Hp]. unfold by_json in Hp.
      apply String.eqb_eq in Hp. symmetry. exact Hp. }
    destruct (tagged_not_id f Hf) as [Hnid Hne]; [unfold is_res_tag; rewrite Hapi; reflexivity|].
    rewrite Hjs in Hnid, Hne.
    destruct (slot_any w k f v0 Hw Hs) as [v1 Hs1].
    assert (Hvc : (1 <= acode a <= 14)%Z).
    { destruct (wrap_fields d (zero_vals d) w0 Hwrap) as [_ [_ [_ [_ [_ Hc]]]]].
      unfold check_struct in Hc. destruct (find_field is_id_field d); [|discriminate].
      apply andb_true_iff in Hc. destruct Hc as [Hc _]. apply andb_true_iff in Hc. destruct Hc as [_ HF2].
      rewrite forallb_forall in HF2. specialize (HF2 f Hf). rewrite Hapi in HF2. cbn in HF2.
      rewrite Hft in HF2. cbn in HF2. apply andb_true_iff in HF2. destruct HF2 as [A B].
      apply Z.leb_le in A, B. lia. }
    pose proof (unmarshal_typed e a v val Hvc Eu) as Hk.
    assert (Hop : wrapper_op_ok (w_desc w) (w_vals w) (aname a, val)).
    { right. cbn [fst snd]. rewrite Hn. split; [exact Hnid|]. split; [exact Hne|].
      exists f, v1. split; [exact Hs1|]. right. rewrite Hft. apply typed_has_type; assumption. }
    destruct (wrapper_set_ok w (aname a) val (proj1 Hw) Hop) as [w1 [Hset [Hst1 [Hd1 _]]]].
    exists w1. cbn [res_set]. rewrite Hset. split; [reflexivity|]. split; [exact Hst1|]. rewrite Hd1. exact (proj2 Hw).
  Qed.

  Lemma rel_step w k x val : winv w -> lookup k (trels t) = Some x ->
    value_has_type (slot_type_of_rel x) val = true ->
    exists w1, res_set (RWrap w) (from_name x) val = Ok (RWrap w1) /\ winv w1.
  Proof.
    intros Hw Ex Hty.
    pose proof (lookup_In _ _ _ Ex) as Hin. rewrite Htr in Hin.
    destruct (wrap_rel_slot d (zero_vals d) w0 Hwrap Hgood Hlen k x Hin) as [f [v0 [Hs [Hft _]]]].
    destruct (rel_slot_tagged k x f v0 Hin Hs) as [_ [Hnid Hne]].
    pose proof (rel_key_name k x Hin) as Hn.
    destruct (slot_any w k f v0 Hw Hs) as [v1 Hs1].
    assert (Hop : wrapper_op_ok (w_desc w) (w_vals w) (from_name x, val)).
    { right. cbn [fst snd]. rewrite Hn. split; [exact Hnid|]. split; [exact Hne|].
      exists f, v1. split; [exact Hs1|]. right. rewrite Hft. exact Hty. }
    destruct (wrapper_set_ok w (from_name x) val (proj1 Hw) Hop) as [w1 [Hs' [Hst1 [Hd1 _]]]].
    exists w1. cbn [res_set]. rewrite Hs'. split; [reflexivity|]. split; [exact Hst1|]. rewrite Hd1. exact (proj2 Hw).
  Qed.

  (** both loops stop at the same member of the payload *)
  Lemma attrs_same_class_wrapped : forall l w p, winv w ->
    class (set_attrs e t (RWrap w) l) = class (partial_attrs e t p l) /\
    forall r, set_attrs e t (RWrap w) l = Ok r -> exists w', r = RWrap w' /\ winv w'.
  Proof.
    induction l as [|[k v] l IH]; intros w p Hw; cbn [set_attrs partial_attrs].
    - split; [reflexivity|]. intros r H; injection H as <-. eauto.
    - destruct (lookup k (tattrs t)) as [a|] eqn:Ea; [|split; [reflexivity|discriminate]].
      destruct (unmarshal_to_type e a v) as [val| |] eqn:Eu; cbn [bind]; try (split; [reflexivity|discriminate]).
      destruct (attr_step w k a v val Hw Ea Eu) as [w1 [Hset Hw1]]. rewrite Hset. cbn [bind]. apply IH. exact Hw1.
  Qed.

  Lemma rels_same_class_wrapped : forall l w p, winv w ->
    class (set_rels t (RWrap w) l) = class (partial_rels t p l).
  Proof.
    induction l as [|[k rs] l IH]; intros w p Hw; cbn [set_rels partial_rels]; [reflexivity|].
    destruct (lookup k (trels t)) as [x|] eqn:Ex; [|reflexivity].
    destruct (rs_data rs) as [dj|]; [|apply IH; exact Hw].
    destruct (to_one x) eqn:Eo.
    - destruct (dec_identifier dj) as [i|]; [|reflexivity].
      destruct (rel_step w k x (VStr (i_id i)) Hw Ex) as [w1 [Hset Hw1]]; [unfold slot_type_of_rel; rewrite Eo; reflexivity|].
      rewrite Hset. cbn [bind]. apply IH. exact Hw1.
    - destruct (dec_identifiers dj) as [is'|]; [|reflexivity].
      destruct (rel_step w k x (VStrs false (ids_of is')) Hw Ex) as [w1 [Hset Hw1]]; [unfold slot_type_of_rel; rewrite Eo; reflexivity|].
      rewrite Hset. cbn [bind]. apply IH. exact Hw1.
  Qed.
  (** * what the loops store (C06 for struct-backed types) *)
  Lemma attr_step_get w k a v val : winv w -> lookup k (tattrs t) = Some a -> unmarshal_to_type e a v = Ok val ->
    exists w1, res_set (RWrap w) (aname a) val = Ok (RWrap w1) /\ winv w1 /\ aname a = k /\ k <> "" /\ k <> "id" /\
      (forall f, f <> "" -> wrapper_get w1 f = if String.eqb k f then Ok (read_slot val) else wrapper_get w f).
  Proof.
    intros Hw Ea Eu.
    pose proof (lookup_In _ _ _ Ea) as Hin. rewrite Hta in Hin.
    destruct (wrap_attr_slot d (zero_vals d) w0 Hwrap Hgood Hlen k a Hin) as [f [v0 [Hs [Hft [Hcomb Hapi]]]]].
    pose proof (attr_key_name k a Hin) as Hn.
    assert (Hf : In f d) by (apply in_combine_l in Hcomb; exact Hcomb).
    assert (Hjs : sf_json f = k).
    { unfold slot_value in Hs. apply get_slot_In in Hs. destruct Hs as [_ Hp]. unfold by_json in Hp.
      apply String.eqb_eq in Hp. symmetry. exact Hp. }
    destruct (tagged_not_id f Hf) as [Hnid Hne]; [unfold is_res_tag; rewrite Hapi; reflexivity|].
    rewrite Hjs in Hnid, Hne.
    destruct (slot_any w k f v0 Hw Hs) as [v1 Hs1].
    assert (Hvc : (1 <= acode a <= 14)%Z).
    { destruct (wrap_fields d (zero_vals d) w0 Hwrap) as [_ [_ [_ [_ [_ Hc]]]]].
      unfold check_struct in Hc. destruct (find_field is_id_field d); [|discriminate].
      apply andb_true_iff in Hc. destruct Hc as [Hc _]. apply andb_true_iff in Hc. destruct Hc as [_ HF2].
      rewrite forallb_forall in HF2. specialize (HF2 f Hf). rewrite Hapi in HF2. cbn in HF2.
      rewrite Hft in HF2. cbn in HF2. apply andb_true_iff in HF2. destruct HF2 as [A B].
      apply Z.leb_le in A, B. lia. }
    pose proof (unmarshal_typed e a v val Hvc Eu) as Hk.
    assert (Hop : wrapper_op_ok (w_desc w) (w_vals w) (aname a, val)).
    { right. cbn [fst snd]. rewrite Hn. split; [exact Hnid|]. split; [exact Hne|].
      exists f, v1. split; [exact Hs1|]. right. rewrite Hft. apply typed_has_type; assumption. }
    destruct (wrapper_set_ok w (aname a) val (proj1 Hw) Hop) as [w1 [Hset [Hst1 [Hd1 Hget]]]].
    exists w1. cbn [res_set]. rewrite Hset. split; [reflexivity|]. split; [split; [exact Hst1|rewrite Hd1; exact (proj2 Hw)]|].
    split; [exact Hn|]. split; [exact Hne|]. split; [exact Hnid|].
    intros g Hg. rewrite (Hget g Hg), Hn.
    destruct (String.eqb_spec k g) as [<-|N]; [|reflexivity].
    apply String.eqb_neq in Hnid. rewrite Hnid. unfold slot_value. rewrite Hs1.
    unfold stored_w. destruct val; try reflexivity. cbn in Hk. injection Hk as H0 _. lia.
  Qed.

  Lemma set_attrs_stores_w : forall (L : list (str * json)) (w w' : wrapper),
    winv w -> NoDup (map fst L) -> set_attrs e t (RWrap w) L = Ok (RWrap w') ->
    winv w' /\
    (forall k j, In (k, j) L -> exists a v, lookup k (tattrs t) = Some a /\
                   unmarshal_to_type e a j = Ok v /\ wrapper_get w' k = Ok (read_slot v)) /\
    (forall f, f <> "" -> ~ In f (map fst L) -> wrapper_get w' f = wrapper_get w f).
  Proof.
    induction L as [|[k j] L IH]; intros w w' Hw Hn.
    - cbn. intros H; injection H as <-. split; [exact Hw|]. split; [intros k j []|auto].
    - cbn [map fst] in Hn. apply NoDup_cons_iff in Hn. destruct Hn as [Hni Hd].
      cbn [set_attrs]. destruct (lookup k (tattrs t)) as [a|] eqn:El; [|discriminate].
      destruct (unmarshal_to_type e a j) as [v| |] eqn:Eu; cbn [bind]; try discriminate.
      destruct (attr_step_get w k a j v Hw El Eu) as [w1 [Hset [Hw1 [Hnm [Hne [Hnid Hget]]]]]].
      rewrite Hset. cbn [bind]. intros H.
      destruct (IH w1 w' Hw1 Hd H) as [Hw' [Hin Hout]].
      split; [exact Hw'|]. split.
      + intros k' j' [E|H'].
        * injection E as <- <-. exists a, v. split; [exact El|]. split; [exact Eu|].
          rewrite (Hout k Hne Hni), (Hget k Hne), String.eqb_refl. reflexivity.
        * apply (Hin k' j' H').
      + intros f Hf Hnf. rewrite (Hout f Hf) by (intros Hx; apply Hnf; right; exact Hx).
        rewrite (Hget f Hf). destruct (String.eqb_spec k f) as [->|N]; [|reflexivity].
        exfalso. apply Hnf. left; reflexivity.
  Qed.
  Lemma rel_step_get w k x val : winv w -> lookup k (trels t) = Some x ->
    value_has_type (slot_type_of_rel x) val = true -> val <> VNil ->
    exists w1, res_set (RWrap w) (from_name x) val = Ok (RWrap w1) /\ winv w1 /\ from_name x = k /\ k <> "" /\ k <> "id" /\
      (forall f, f <> "" -> wrapper_get w1 f = if String.eqb k f then Ok (read_slot val) else wrapper_get w f).
  Proof.
    intros Hw Ex Hty Hnn.
    pose proof (lookup_In _ _ _ Ex) as Hin. rewrite Htr in Hin.
    destruct (wrap_rel_slot d (zero_vals d) w0 Hwrap Hgood Hlen k x Hin) as [f [v0 [Hs [Hft _]]]].
    destruct (rel_slot_tagged k x f v0 Hin Hs) as [_ [Hnid Hne]].
    pose proof (rel_key_name k x Hin) as Hn.
    destruct (slot_any w k f v0 Hw Hs) as [v1 Hs1].
    assert (Hop : wrapper_op_ok (w_desc w) (w_vals w) (from_name x, val)).
    { right. cbn [fst snd]. rewrite Hn. split; [exact Hnid|]. split; [exact Hne|].
      exists f, v1. split; [exact Hs1|]. right. rewrite Hft. exact Hty. }
    destruct (wrapper_set_ok w (from_name x) val (proj1 Hw) Hop) as [w1 [Hs' [Hst1 [Hd1 Hget]]]].
    exists w1. cbn [res_set]. rewrite Hs'. split; [reflexivity|]. split; [split; [exact Hst1|rewrite Hd1; exact (proj2 Hw)]|].
    split; [exact Hn|]. split; [exact Hne|]. split; [exact Hnid|].
    intros g Hg. rewrite (Hget g Hg), Hn.
    destruct (String.eqb_spec k g) as [<-|N]; [|reflexivity].
    apply String.eqb_neq in Hnid. rewrite Hnid. unfold slot_value. rewrite Hs1.
    unfold stored_w. destruct val; try reflexivity. congruence.
  Qed.

  Lemma set_rels_stores_w : forall (R : list (str * relske)) (w w' : wrapper),
    winv w -> NoDup (map fst R) -> set_rels t (RWrap w) R = Ok (RWrap w') ->
    winv w' /\
    (forall k rs dj, In (k, rs) R -> rs_data rs = Some dj ->
       exists x, lookup k (trels t) = Some x /\
         (if to_one x then exists i, dec_identifier dj = Some i /\ wrapper_get w' k = Ok (VStr (i_id i))
          else exists l, dec_identifiers dj = Some l /\ wrapper_get w' k = Ok (VStrs false (ids_of l)))) /\
    (forall f, f <> "" -> (forall rs, In (f, rs) R -> rs_data rs = None) -> wrapper_get w' f = wrapper_get w f).
  Proof.
    induction R as [|[k rs] R IH]; intros w w' Hw Hn.
    - cbn. intros H; injection H as <-. split; [exact Hw|]. split; [intros k rs dj []|auto].
    - cbn [map fst] in Hn. apply NoDup_cons_iff in Hn. destruct Hn as [Hni Hd].
      cbn [set_rels]. destruct (lookup k (trels t)) as [x|] eqn:El; [|discriminate].
      destruct (rs_data rs) as [dj|] eqn:Ed.
      2:{ intros H. destruct (IH w w' Hw Hd H) as [Hw' [Hin Hout]].
          split; [exact Hw'|]. split.
          - intros k' rs' dj' [H'|H'] Hdj; [injection H' as <- <-; congruence|apply (Hin k' rs' dj' H' Hdj)].
          - intros f Hf Hnone. apply Hout; [exact Hf|]. intros rs' Hin'. apply Hnone. right; exact Hin'. }
      assert (Hstep : forall val, value_has_type (slot_type_of_rel x) val = true -> val <> VNil -> read_slot val = val ->
                bind (res_set (RWrap w) (from_name x) val) (fun r' => set_rels t r' R) = Ok (RWrap w') ->
                winv w' /\ wrapper_get w' k = Ok val /\
                (forall k' rs' dj', In (k', rs') R -> rs_data rs' = Some dj' ->
                   exists x', lookup k' (trels t) = Some x' /\
                     (if to_one x' then exists i, dec_identifier dj' = Some i /\ wrapper_get w' k' = Ok (VStr (i_id i))
                      else exists l, dec_identifiers dj' = Some l /\ wrapper_get w' k' = Ok (VStrs false (ids_of l)))) /\
                (forall f, f <> "" -> f <> k -> (forall rs', In (f, rs') R -> rs_data rs' = None) -> wrapper_get w' f = wrapper_get w f)).
      { intros val Hty Hnn Hrd H.
        destruct (rel_step_get w k x val Hw El Hty Hnn) as [w1 [Hset [Hw1 [Hnm [Hne [Hnid Hget]]]]]].
        rewrite Hset in H. cbn [bind] in H.
        destruct (IH w1 w' Hw1 Hd H) as [Hw' [Hin Hout]].
        split; [exact Hw'|]. split.
        - rewrite (Hout k Hne); [rewrite (Hget k Hne), String.eqb_refl, Hrd; reflexivity|].
          intros rs' Hin'. exfalso. apply Hni. apply in_map_iff. exists (k, rs'). auto.
        - split; [exact Hin|]. intros f Hf Hfk Hnone. rewrite (Hout f Hf Hnone), (Hget f Hf).
          destruct (String.eqb_spec k f) as [E|N]; [congruence|reflexivity]. }
      unfold slot_type_of_rel in Hstep.
      destruct (to_one x) eqn:Eo.
      + destruct (dec_identifier dj) as [i|] eqn:Ei; [|discriminate]. intros H.
        destruct (Hstep (VStr (i_id i)) eq_refl ltac:(discriminate) eq_refl H) as [Hw' [Hk [Hin Hout]]].
        split; [exact Hw'|]. split.
        * intros k' rs' dj' [H'|H'] Hdj.
          -- injection H' as <- <-. assert (dj' = dj) by congruence. subst dj'.
             exists x. split; [exact El|]. rewrite Eo. exists i. auto.
          -- apply (Hin k' rs' dj' H' Hdj).
        * intros f Hf Hnone. apply Hout; [exact Hf| |intros rs' Hin'; apply Hnone; right; exact Hin'].
          intros ->. specialize (Hnone rs (or_introl eq_refl)). congruence.
      + destruct (dec_identifiers dj) as [l|] eqn:Ei; [|discriminate]. intros H.
        destruct (Hstep (VStrs false (ids_of l)) eq_refl ltac:(discriminate) eq_refl H) as [Hw' [Hk [Hin Hout]]].
        split; [exact Hw'|]. split.
        * intros k' rs' dj' [H'|H'] Hdj.
          -- injection H' as <- <-. assert (dj' = dj) by congruence. subst dj'.
             exists x. split; [exact El|]. rewrite Eo. exists l. auto.
          -- apply (Hin k' rs' dj' H' Hdj).
        * intros f Hf Hnone. apply Hout; [exact Hf| |intros rs' Hin'; apply Hnone; right; exact Hin'].
          intros ->. specialize (Hnone rs (or_introl eq_refl)). congruence.
  Qed.
End Wrapped.

(** * UnmarshalResource *)
Lemma get_type_name s n : tname (get_type (sch_schema s) n) <> "" -> tname (get_type (sch_schema s) n) = n.
Proof. apply get_type_named. Qed.

Theorem unmarshal_resource_no_panic_mixed e s j :
  sch_ok s -> no_bytes_schema s -> unmarshal_resource e s j <> Panic.
Proof.
  intros Hok Hnb. unfold unmarshal_resource.
  destruct (dec_resske j) as [k|]; [|discriminate].
  set (t := get_type (sch_schema s) (k_type k)).
  destruct (String.eqb_spec (tname t) "") as [E|N]; [discriminate|].
  unfold type_new. destruct (lookup (tname t) (sch_wrapped s)) as [d|] eqn:El.
  - (* struct-backed *)
    destruct (Hok _ _ El) as [Hgood [Hnotag [w0 [Hwrap [Hta Htr]]]]].
    assert (Htn : tname t = k_type k) by (apply get_type_name; exact N).
    rewrite Htn in Hta, Htr. fold t in Hta, Htr.
    unfold wrap_new. rewrite Hwrap. cbn [bind].
    pose proof (w0_inv d w0 Hgood Hwrap) as Hinv0.
    assert (Hop : wrapper_op_ok (w_desc w0) (w_vals w0) ("id", VStr (k_id k))) by (left; cbn; eauto).
    destruct (wrapper_set_ok w0 "id" (VStr (k_id k)) (proj1 Hinv0) Hop) as [w1 [Hset [Hst1 [Hd1 _]]]].
    cbn [res_set]. rewrite Hset. cbn [bind].
    assert (Hinv1 : winv d w1) by (split; [exact Hst1|rewrite Hd1; exact (proj2 Hinv0)]).
    destruct (set_attrs_wrapped e t d w0 Hgood Hnotag Hwrap Hta (Hnb _) (k_attrs k) w1 Hinv1) as [[w2 [H2 Hinv2]]|H2];
      rewrite H2; cbn [bind]; [|discriminate].
    destruct (set_rels_wrapped t d w0 Hgood Hnotag Hwrap Htr (k_rels k) w2 Hinv2) as [[w3 [H3 _]]|H3];
      rewrite H3; discriminate.
  - (* soft *)
    cbn [bind res_set].
    pose proof (set_attrs_no_panic e t (k_attrs k) (Hnb _) (soft_set (soft_new t) "id" (VStr (k_id k)))) as Ha.
    destruct (set_attrs e t _ (k_attrs k)) as [r2| |] eqn:E2; cbn [bind]; [|discriminate|contradiction].
    destruct (set_attrs_soft _ _ _ _ _ E2) as [s2 ->]. apply set_rels_no_panic.
Qed.

(** * UnmarshalPartialResource never builds a struct *)
Lemma partial_attrs_no_panic e t l : no_bytes t -> forall p, partial_attrs e t p l <> Panic.
Proof.
  intros Hnb. induction l as [|[k v] l IH]; intros p; cbn; [discriminate|].
  destruct (lookup k (tattrs t)) as [a|] eqn:Ea; [|discriminate].
  destruct (unmarshal_to_type e a v) as [val| |] eqn:Eu; cbn; [apply IH|discriminate|].
  exfalso. apply unmarshal_panic_only_bytes in Eu. apply (Hnb k a); [apply lookup_In; exact Ea|exact Eu].
Qed.

Lemma partial_rels_no_panic t l : forall p, partial_rels t p l <> Panic.
Proof.
  induction l as [|[k rs] l IH]; intros p; cbn; [discriminate|].
  destruct (lookup k (trels t)) as [x|]; [|discriminate].
  destruct (rs_data rs) as [dj|]; [|apply IH].
  destruct (to_one x).
  - destruct (dec_identifier dj); [apply IH|discriminate].
  - destruct (dec_identifiers dj); [apply IH|discriminate].
Qed.

Theorem unmarshal_partial_no_panic_mixed e s j :
  no_bytes_schema s -> unmarshal_partial e s j <> Panic.
Proof.
  intros Hnb. unfold unmarshal_partial.
  destruct (dec_resske j) as [k|]; [|discriminate].
  destruct (String.eqb _ ""); [discriminate|].
  pose proof (partial_attrs_no_panic e _ (k_attrs k) (Hnb (k_type k))
                (mkSoft (mkType (tname (get_type (sch_schema s) (k_type k))) [] []) (k_id k) [])) as Ha.
  destruct (partial_attrs e _ _ (k_attrs k)) as [p1| |]; cbn [bind]; [apply partial_rels_no_panic|discriminate|contradiction].
Qed.

Lemma unmarshal_each_no_panic_mixed e s l :
  sch_ok s -> no_bytes_schema s -> unmarshal_each e s l <> Panic.
Proof.
  intros Hs Hnb. induction l as [|j l IH]; cbn; [discriminate|].
  pose proof (unmarshal_resource_no_panic_mixed e s j Hs Hnb) as Hr.
  destruct (unmarshal_resource e s j); cbn; try discriminate; try contradiction.
  destruct (unmarshal_each e s l); cbn; try discriminate. contradiction.
Qed.

Theorem unmarshal_collection_no_panic_mixed e s j :
  sch_ok s -> no_bytes_schema s -> unmarshal_collection e s j <> Panic.
Proof.
  intros Hs Hnb. unfold unmarshal_collection. destruct j; try discriminate.
  apply unmarshal_each_no_panic_mixed; assumption.
Qed.

Theorem unmarshal_document_no_panic_mixed e s j :
  sch_ok s -> no_bytes_schema s -> unmarshal_document e s j <> Panic.
Proof.
  intros Hs Hnb. unfold unmarshal_document.
  destruct (dec_payske j) as [k|]; [|discriminate].
  pose proof (unmarshal_each_no_panic_mixed e s (p_included k) Hs Hnb) as Hi.
  assert (Hfin : forall de : udata * list jerror,
            (if negb (all_identifier_shaped (p_included k)) then Err
             else bind (unmarshal_each e s (p_included k))
                       (fun incs => Ok (mkUDoc (fst de) (snd de) incs (p_meta k)))) <> Panic).
  { intros de. destruct (negb _); [discriminate|].
    destruct (unmarshal_each e s (p_included k)); cbn; try discriminate. contradiction. }
  destruct (p_data k) as [[| | | |l|m]|]; cbn [bind]; try discriminate; try apply Hfin.
  - pose proof (unmarshal_collection_no_panic_mixed e s (JArr l) Hs Hnb) as Hc.
    destruct (unmarshal_collection e s (JArr l)); cbn [bind]; try discriminate; [apply Hfin|contradiction].
  - pose proof (unmarshal_resource_no_panic_mixed e s (JObj m) Hs Hnb) as Hr.
    destruct (unmarshal_resource e s (JObj m)); cbn [bind]; try discriminate; [apply Hfin|contradiction].
Qed.

(** the guard is satisfiable by a schema holding the example struct of C01 *)
Lemma exw_sch_ok : sch_ok exw_sch /\ no_bytes_schema exw_sch.
Proof.
  split.
  - intros tn d0 Hl. cbn in Hl. destruct (String.eqb tn "things") eqn:E; [|discriminate].
    injection Hl as <-. apply String.eqb_eq in E. subst tn.
    split; [|split; [reflexivity|]].
    + split; [|split; [|split]].
      * vm_compute. repeat constructor; cbn; intuition discriminate.
      * vm_compute. repeat constructor; cbn; intuition discriminate.
      * vm_compute. repeat constructor; try discriminate.
      * exists (mkSField "ID" (GTAttr 1 false) "id" "things" true). vm_compute. intuition.
    + eexists. split; [vm_compute; reflexivity|]. split; reflexivity.
  - intros n k a Hin. unfold exw_sch in Hin. cbn [sch_schema get_type types get_type_in] in Hin.
    destruct (String.eqb (tname _) n) in Hin; [|destruct Hin].
    vm_compute in Hin. destruct Hin as [H|[H|[]]]; injection H as <- <-; discriminate.
Qed.


(** * partial and full unmarshaling accept the same payloads, struct-backed types included *)
Theorem accept_same_class_mixed e s j :
  sch_ok s -> class (unmarshal_partial e s j) = class (unmarshal_resource e s j).
Proof.
  intros Hok. unfold unmarshal_partial, unmarshal_resource.
  destruct (dec_resske j) as [k|]; [|reflexivity].
  set (t := get_type (sch_schema s) (k_type k)).
  destruct (String.eqb_spec (tname t) "") as [E|N]; [reflexivity|].
  unfold type_new. destruct (lookup (tname t) (sch_wrapped s)) as [d|] eqn:El.
  - destruct (Hok _ _ El) as [Hgood [Hnotag [w0 [Hwrap [Hta Htr]]]]].
    assert (Htn : tname t = k_type k) by (apply get_type_name; exact N).
    rewrite Htn in Hta, Htr. fold t in Hta, Htr.
    unfold wrap_new. rewrite Hwrap. cbn [bind].
    pose proof (w0_inv d w0 Hgood Hwrap) as Hinv0.
    assert (Hop : wrapper_op_ok (w_desc w0) (w_vals w0) ("id", VStr (k_id k))) by (left; cbn; eauto).
    destruct (wrapper_set_ok w0 "id" (VStr (k_id k)) (proj1 Hinv0) Hop) as [w1 [Hset [Hst1 [Hd1 _]]]].
    cbn [res_set]. rewrite Hset. cbn [bind].
    assert (Hinv1 : winv d w1) by (split; [exact Hst1|rewrite Hd1; exact (proj2 Hinv0)]).
    rewrite !class_bind.
    destruct (attrs_same_class_wrapped e t d w0 Hgood Hnotag Hwrap Hta (k_attrs k) w1
                (mkSoft (mkType (tname t) [] []) (k_id k) []) Hinv1) as [Hc Hr].
    destruct (set_attrs e t (RWrap w1) (k_attrs k)) as [r2| |] eqn:E2;
    destruct (partial_attrs e t _ (k_attrs k)) as [p2| |] eqn:E3; cbn in Hc; try discriminate; try reflexivity.
    destruct (Hr r2 eq_refl) as [w2 [-> Hinv2]].
    symmetry. apply (rels_same_class_wrapped t d w0 Hgood Hnotag Hwrap Htr (k_rels k) w2 p2 Hinv2).
  - cbn [bind res_set]. rewrite !class_bind.
    pose proof (attrs_same_class e t (k_attrs k)
                  (soft_set (soft_new t) "id" (VStr (k_id k)))
                  (mkSoft (mkType (tname t) [] []) (k_id k) [])) as Ha.
    destruct (set_attrs e t _ (k_attrs k)) as [r2| |] eqn:E2;
    destruct (partial_attrs e t _ (k_attrs k)) as [p2| |] eqn:E3; cbn in Ha; try discriminate; try reflexivity.
    destruct (set_attrs_soft _ _ _ _ _ E2) as [s2 ->].
    symmetry. apply rels_same_class.
Qed.

Theorem accept_iff_mixed e s j :
  sch_ok s ->
  (is_ok (unmarshal_partial e s j) = is_ok (unmarshal_resource e s j)) /\
  (is_panic (unmarshal_partial e s j) = is_panic (unmarshal_resource e s j)).
Proof.
  intros Hs. pose proof (accept_same_class_mixed e s j Hs) as H.
  destruct (unmarshal_partial e s j), (unmarshal_resource e s j); cbn in *; try discriminate; auto.
Qed.

(** * what an accepted payload stores in a struct (C06, struct-backed types) *)
From JV Require Import Proofs.C06Resource.

Theorem accepted_resource_values_wrapped e s j r d :
  sch_ok s ->
  (forall k, dec_resske j = Some k ->
     lookup (tname (get_type (sch_schema s) (k_type k))) (sch_wrapped s) = Some d) ->
  unmarshal_resource e s j = Ok r ->
  exists k w', dec_resske j = Some k /\ r = RWrap w' /\
    let t := get_type (sch_schema s) (k_type k) in
    wrapper_get w' "id" = Ok (VStr (k_id k)) /\
    (forall n jv, lookup n (k_attrs k) = Some jv ->
       exists a v, lookup n (tattrs t) = Some a /\ unmarshal_to_type e a jv = Ok v /\
                   wrapper_get w' n = Ok (read_slot v)) /\
    (forall n rs dj, lookup n (k_rels k) = Some rs -> rs_data rs = Some dj ->
       exists x, lookup n (trels t) = Some x /\
         (if to_one x then exists i, dec_identifier dj = Some i /\ wrapper_get w' n = Ok (VStr (i_id i))
          else exists l, dec_identifiers dj = Some l /\ wrapper_get w' n = Ok (VStrs false (ids_of l)))) /\
    (* every other field reads what the zero struct reads *)
    (forall w0, wrap d (zero_vals d) = Ok w0 ->
       forall n, n <> "" -> n <> "id" -> lookup n (k_attrs k) = None ->
       (forall rs, lookup n (k_rels k) = Some rs -> rs_data rs = None) ->
       wrapper_get w' n = wrapper_get w0 n).
Proof.
  intros Hok Hwr. unfold unmarshal_resource.
  destruct (dec_resske j) as [k|] eqn:Ek; [|discriminate].
  specialize (Hwr k eq_refl). set (t := get_type (sch_schema s) (k_type k)) in *.
  destruct (String.eqb_spec (tname t) "") as [E|N]; [discriminate|].
  unfold type_new. rewrite Hwr.
  destruct (Hok _ _ Hwr) as [Hgood [Hnotag [w0 [Hwrap [Hta Htr]]]]].
  assert (Htn : tname t = k_type k) by (apply get_type_name; exact N).
  rewrite Htn in Hta, Htr. fold t in Hta, Htr.
  unfold wrap_new. rewrite Hwrap. cbn [bind].
  pose proof (w0_inv d w0 Hgood Hwrap) as Hinv0.
  assert (Hop : wrapper_op_ok (w_desc w0) (w_vals w0) ("id", VStr (k_id k))) by (left; cbn; eauto).
  destruct (wrapper_set_ok w0 "id" (VStr (k_id k)) (proj1 Hinv0) Hop) as [w1 [Hset [Hst1 [Hd1 Hget1]]]].
  cbn [res_set]. rewrite Hset. cbn [bind].
  assert (Hinv1 : winv d w1) by (split; [exact Hst1|rewrite Hd1; exact (proj2 Hinv0)]).
  destruct (attrs_same_class_wrapped e t d w0 Hgood Hnotag Hwrap Hta (k_attrs k) w1
              (mkSoft (mkType (tname t) [] []) (k_id k) []) Hinv1) as [_ Hr2].
  destruct (set_attrs e t (RWrap w1) (k_attrs k)) as [r2| |] eqn:E2; cbn [bind]; try discriminate.
  destruct (Hr2 r2 eq_refl) as [w2 [-> Hinv2]]. intros E3.
  destruct (set_rels_wrapped t d w0 Hgood Hnotag Hwrap Htr (k_rels k) w2 Hinv2) as [[w3 [H3 Hinv3]]|H3];
    rewrite H3 in E3; [|discriminate]. injection E3 as <-.
  destruct (dec_resske_NoDup j k Ek) as [Hna Hnr].
  destruct (set_attrs_stores_w e t d w0 Hgood Hnotag Hwrap Hta (k_attrs k) w1 w2 Hinv1 Hna E2) as [_ [Hin2 Hout2]].
  destruct (set_rels_stores_w t d w0 Hgood Hnotag Hwrap Htr (k_rels k) w2 w3 Hinv2 Hnr H3) as [_ [Hin3 Hout3]].
  (* keys of the relationships object are relationship names, hence not attribute names nor "id" *)
  assert (Hrelkey : forall n rs, In (n, rs) (k_rels k) -> exists x, In (n, x) (w_rels w0)).
  { intros n rs Hin. destruct (set_rels_keys t (k_rels k) _ _ H3 n rs Hin) as [x Hx].
    exists x. rewrite <- Htr. apply lookup_In. exact Hx. }
  assert (Hrel_notid : forall n rs, In (n, rs) (k_rels k) -> n <> "id" /\ n <> "").
  { intros n rs Hin. destruct (Hrelkey n rs Hin) as [x Hx].
    destruct (wrap_rel_slot d (zero_vals d) w0 Hwrap Hgood (map_length _ _) n x Hx) as [f [v0 [Hs _]]].
    destruct (rel_slot_tagged d w0 Hgood Hnotag Hwrap n x f v0 Hx Hs) as [_ [A B]]. auto. }
  exists k, w3. split; [reflexivity|]. split; [reflexivity|]. cbn zeta. fold t.
  split; [|split; [|split]].
  - (* id: untouched by both loops *)
    rewrite (Hout3 "id") by (discriminate || (intros rs Hin; exfalso; destruct (Hrel_notid "id" rs Hin) as [A _]; congruence)).
    rewrite (Hout2 "id"); [|discriminate|].
    + rewrite (Hget1 "id") by discriminate. reflexivity.
    + intros Hin. apply in_map_iff in Hin. destruct Hin as [[n0 jv] [En Hin]]. cbn in En. subst n0.
      destruct (Hin2 "id" jv Hin) as [a [v [Ha [Hu _]]]].
      destruct (attr_step_get e t d w0 Hgood Hnotag Hwrap Hta w1 "id" a jv v Hinv1 Ha Hu) as [_ [_ [_ [_ [_ [Hnid _]]]]]].
      congruence.
  - intros n jv Hl. destruct (Hin2 n jv (lookup_In _ _ _ Hl)) as [a [v [Ha [Hu Hg]]]].
    exists a, v. split; [exact Ha|]. split; [exact Hu|].
    destruct (attr_step_get e t d w0 Hgood Hnotag Hwrap Hta w1 n a jv v Hinv1 Ha Hu) as [_ [_ [_ [_ [Hne [Hnid _]]]]]].
    rewrite (Hout3 n Hne); [exact Hg|].
    intros rs Hin. exfalso. destruct (Hrelkey n rs Hin) as [x Hx].
    (* an attribute name and a relationship name of a struct coincide: two tagged fields with one json name *)
    destruct (wrap_rel_slot d (zero_vals d) w0 Hwrap Hgood (map_length _ _) n x Hx) as [f [v0 [Hs [Hft _]]]].
    assert (Hina : In (n, a) (w_attrs w0)) by (rewrite <- Hta; apply lookup_In; exact Ha).
    destruct (wrap_attr_slot d (zero_vals d) w0 Hwrap Hgood (map_length _ _) n a Hina) as [f' [v0' [Hs' [Hft' [_ Hapi']]]]].
    assert (f' = f) by congruence. subst f'.
    (* the field is attr-tagged, so build_rels did not take it *)
    destruct (wrap_fields d (zero_vals d) w0 Hwrap) as [_ [_ [_ [_ [H5 _]]]]].
    destruct (build_rels_from _ d _ n x H5 Hx) as [g [Hg' [Hrg Hjg]]].
    assert (g = f).
    { assert (Hf : In f d).
      { unfold slot_value in Hs. apply get_slot_In in Hs.
        destruct (wrap_fields d (zero_vals d) w0 Hwrap) as [H1 _]. rewrite H1 in Hs. exact (proj1 Hs). }
      assert (Hjf : sf_json f = n).
      { unfold slot_value in Hs. apply get_slot_In in Hs. destruct Hs as [_ Hp]. unfold by_json in Hp.
        apply String.eqb_eq in Hp. symmetry. exact Hp. }
      destruct Hgood as [Hnj _]. clear -Hnj Hg' Hf Hjg Hjf.
      induction d as [|y l IH]; [contradiction|]. cbn in Hnj. apply NoDup_cons_iff in Hnj. destruct Hnj as [Hy Hn].
      destruct Hg' as [<-|Hg'], Hf as [<-|Hf]; try reflexivity.
      - exfalso. apply Hy. rewrite Hjg, <- Hjf. apply in_map. exact Hf.
      - exfalso. apply Hy. rewrite Hjf, <- Hjg. apply in_map. exact Hg'.
      - apply IH; assumption. }
    subst g. unfold rel_of_field in Hrg. rewrite Hapi' in Hrg. cbn in Hrg. discriminate.
  - intros n rs dj Hl Hd. apply (Hin3 n rs dj (lookup_In _ _ _ Hl) Hd).
  - intros w0' Hw0' n Hne Hnid Hna' Hnr'. assert (w0' = w0) by congruence. subst w0'.
    rewrite (Hout3 n Hne) by (intros rs Hin; apply Hnr'; apply In_lookup; assumption).
    rewrite (Hout2 n Hne) by (apply lookup_None_notin; exact Hna').
    rewrite (Hget1 n Hne). destruct (String.eqb_spec "id" n) as [E|_]; [congruence|reflexivity].
Qed.
