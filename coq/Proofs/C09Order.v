(* C09: sortedResources.Less compares antisymmetrically; with a rule on id and
   unique ids it is total, so the sorted result is unique. *)
From Coq Require Import Lia Permutation Sorted.
From JV Require Import Model.Base Model.GoTime Gen.TypeGo Model.Schema Model.Value
  Model.Resource Model.Filter Model.Range Proofs.BaseFacts Proofs.C09Facts.
Open Scope list_scope.

Lemma str_compare_antisym s t : String.compare t s = CompOpp (String.compare s t).
Proof.
  destruct (String.compare s t) eqn:E; cbn.
  - apply str_compare_eq in E. subst. apply str_compare_refl.
  - apply str_compare_gt_lt. exact E.
  - apply str_compare_gt_lt in E. exact E.
Qed.

Lemma bytes_cmp_antisym a : forall b, bytes_cmp b a = CompOpp (bytes_cmp a b).
Proof.
  induction a as [|x xs IH]; intros [|y ys]; cbn; try reflexivity.
  rewrite (Z.compare_antisym x y). destruct (Z.compare x y); cbn; [apply IH|reflexivity|reflexivity].
Qed.

Lemma bool_cmp_antisym a b : bool_cmp b a = CompOpp (bool_cmp a b).
Proof. destruct a, b; reflexivity. Qed.

Lemma time_cmp_antisym a b : time_cmp b a = CompOpp (time_cmp a b).
Proof.
  unfold time_cmp. rewrite (Z.compare_antisym (t_unix a) (t_unix b)).
  destruct (Z.compare (t_unix a) (t_unix b)); cbn; [apply Z.compare_antisym|reflexivity|reflexivity].
Qed.

Lemma base_vcmp_antisym a b : base_vcmp b a = CompOpp (base_vcmp a b).
Proof.
  destruct a, b; cbn; try reflexivity.
  - apply str_compare_antisym.
  - rewrite Bool.orb_comm. destruct (_ || _); [reflexivity|apply Z.compare_antisym].
  - apply bool_cmp_antisym.
  - apply time_cmp_antisym.
  - apply bytes_cmp_antisym.
Qed.

Lemma vcmp_antisym a b : vcmp b a = CompOpp (vcmp a b).
Proof.
  destruct a as [| s | k z | b0 | t | n bs | k o | n l], b as [| s' | k' z' | b0' | t' | n' bs' | k' o' | n' l'];
    try reflexivity; try (exact (base_vcmp_antisym _ _)).
  unfold vcmp.
  replace ((k' =? 11)%Z || (k' =? 14)%Z || (k =? 11)%Z || (k =? 14)%Z)
    with ((k =? 11)%Z || (k =? 14)%Z || (k' =? 11)%Z || (k' =? 14)%Z)
    by (destruct (k =? 11)%Z, (k =? 14)%Z, (k' =? 11)%Z, (k' =? 14)%Z; reflexivity).
  destruct (_ || _); [reflexivity|].
  destruct o, o'; try reflexivity. apply base_vcmp_antisym.
Qed.

Lemma flip_opp inv c : flip inv (CompOpp c) = CompOpp (flip inv c).
Proof. destruct inv, c; reflexivity. Qed.

Lemma rule_cmp_antisym rule a b : rule_cmp rule b a = CompOpp (rule_cmp rule a b).
Proof.
  unfold rule_cmp. destruct (rule_name rule) as [n inv].
  destruct (String.eqb n "id").
  - rewrite (str_compare_antisym (id_of a) (id_of b)). apply flip_opp.
  - rewrite (vcmp_antisym (sort_operand a n) (sort_operand b n)). apply flip_opp.
Qed.

Lemma lex_cmp_antisym rules a b : lex_cmp rules b a = CompOpp (lex_cmp rules a b).
Proof.
  induction rules as [|rule rules IH]; cbn; [reflexivity|].
  destruct (String.eqb (fst (rule_name rule)) "id"); [apply rule_cmp_antisym|].
  rewrite (rule_cmp_antisym rule a b). destruct (rule_cmp rule a b); cbn; [exact IH|reflexivity|reflexivity].
Qed.

(** a tie under rules that mention id means the same id *)
Lemma flip_eq inv c : flip inv c = Eq -> c = Eq.
Proof. destruct inv, c; cbn; congruence. Qed.

Lemma lex_cmp_eq_ids rules a b :
  In "id" (map (fun r => fst (rule_name r)) rules) ->
  lex_cmp rules a b = Eq -> id_of a = id_of b.
Proof.
  induction rules as [|rule rules IH]; cbn; [intros []|].
  intros Hin. destruct (String.eqb (fst (rule_name rule)) "id") eqn:E.
  - unfold rule_cmp. destruct (rule_name rule) as [n inv]. cbn [fst] in E. rewrite E.
    intros H. apply flip_eq in H. apply str_compare_eq. exact H.
  - destruct Hin as [Hin|Hin]; [apply String.eqb_neq in E; congruence|].
    destruct (rule_cmp rule a b); try discriminate. apply IH. exact Hin.
Qed.

Definition rules_have_id (rules : list str) : Prop :=
  In "id" (map (fun r => fst (rule_name r)) (effective_rules rules)).

Lemma less_total rules dom :
  rules_have_id rules ->
  (forall a b, In a dom -> In b dom -> id_of a = id_of b -> a = b) ->
  forall a b, In a dom -> In b dom -> less rules a b = true \/ a = b \/ less rules b a = true.
Proof.
  intros Hid Huniq a b Ha Hb. unfold less.
  rewrite (lex_cmp_antisym (effective_rules rules) a b).
  destruct (lex_cmp (effective_rules rules) a b) eqn:E; cbn; auto.
  right; left. apply Huniq; try assumption. exact (lex_cmp_eq_ids _ _ _ Hid E).
Qed.

Lemma less_asym rules a b : less rules a b = true -> less rules b a = false.
Proof.
  unfold less. rewrite (lex_cmp_antisym (effective_rules rules) a b).
  destruct (lex_cmp (effective_rules rules) a b); cbn; congruence.
Qed.

(** with id among the rules and unique ids, two sorted permutations of the
    selected resources are the same list *)
Theorem sorted_result_unique rules dom :
  rules_have_id rules ->
  (forall a b, In a dom -> In b dom -> id_of a = id_of b -> a = b) ->
  forall l1 l2, incl l1 dom -> incl l2 dom ->
  StronglySorted (fun a b => less rules b a = false) l1 ->
  StronglySorted (fun a b => less rules b a = false) l2 ->
  Permutation l1 l2 -> l1 = l2.
Proof.
  intros Hid Huniq. apply (sorted_unique_on (less rules) dom). apply less_total; assumption.
Qed.

(** an empty rule list sorts by id *)
Lemma empty_rules_have_id : rules_have_id [].
Proof. left. reflexivity. Qed.

(** * Strict weak order on well-typed collections *)

(** comparison functions that behave like a total preorder: antisymmetric,
    transitive on Lt, and a tie makes both sides compare alike with anything *)
Record cmp_ok {A} (D : A -> Prop) (c : A -> A -> comparison) : Prop := {
  c_anti : forall a b, c b a = CompOpp (c a b);
  c_lt : forall a b d, D a -> D b -> D d -> c a b = Lt -> c b d = Lt -> c a d = Lt;
  c_eq : forall a b d, D a -> D b -> D d -> c a b = Eq -> c a d = c b d
}.

Lemma str_cmp_ok : cmp_ok (fun _ => True) String.compare.
Proof.
  split.
  - intros a b. apply str_compare_antisym.
  - intros a b d _ _ _. apply str_compare_lt_trans.
  - intros a b d _ _ _ H. apply str_compare_eq in H. subst. reflexivity.
Qed.

Lemma z_cmp_ok : cmp_ok (fun _ => True) Z.compare.
Proof.
  split.
  - intros a b. apply Z.compare_antisym.
  - intros a b d _ _ _ H1 H2. rewrite Z.compare_lt_iff in *. lia.
  - intros a b d _ _ _ H. apply Z.compare_eq in H. subst. reflexivity.
Qed.

Lemma bool_cmp_ok : cmp_ok (fun _ => True) bool_cmp.
Proof.
  split.
  - intros a b. apply bool_cmp_antisym.
  - intros [] [] [] _ _ _; cbn; congruence.
  - intros [] [] [] _ _ _; cbn; congruence.
Qed.

Lemma time_cmp_eq a b : time_cmp a b = Eq -> t_unix a = t_unix b /\ t_nsec a = t_nsec b.
Proof.
  unfold time_cmp. destruct (Z.compare (t_unix a) (t_unix b)) eqn:E; try discriminate.
  intros H. apply Z.compare_eq in E, H. auto.
Qed.

Lemma time_cmp_ok : cmp_ok (fun _ => True) time_cmp.
Proof.
  split.
  - intros a b. apply time_cmp_antisym.
  - intros a b d _ _ _. unfold time_cmp.
    destruct (Z.compare (t_unix a) (t_unix b)) eqn:E1; try discriminate;
    destruct (Z.compare (t_unix b) (t_unix d)) eqn:E2; try discriminate; intros H1 H2.
    + apply Z.compare_eq in E1, E2. rewrite E1, E2, Z.compare_refl.
      rewrite Z.compare_lt_iff in *. lia.
    + apply Z.compare_eq in E1. rewrite E1, E2. reflexivity.
    + apply Z.compare_eq in E2. rewrite <- E2, E1. reflexivity.
    + rewrite Z.compare_lt_iff in E1, E2.
      assert (H : Z.compare (t_unix a) (t_unix d) = Lt) by (apply Z.compare_lt_iff; lia). rewrite H. reflexivity.
  - intros a b d _ _ _ H. apply time_cmp_eq in H. destruct H as [H1 H2].
    unfold time_cmp. rewrite H1, H2. reflexivity.
Qed.

Lemma bytes_cmp_eq a : forall b, bytes_cmp a b = Eq -> a = b.
Proof.
  induction a as [|x xs IH]; intros [|y ys]; cbn; try discriminate; [reflexivity|].
  destruct (Z.compare x y) eqn:E; try discriminate. intros H. apply Z.compare_eq in E. subst.
  f_equal. apply IH. exact H.
Qed.

Lemma bytes_cmp_lt_trans a : forall b d, bytes_cmp a b = Lt -> bytes_cmp b d = Lt -> bytes_cmp a d = Lt.
Proof.
  induction a as [|x xs IH]; intros [|y ys] [|z zs]; cbn; try discriminate; try reflexivity.
  destruct (Z.compare x y) eqn:E1; try discriminate;
  destruct (Z.compare y z) eqn:E2; try discriminate; intros H1 H2.
  - apply Z.compare_eq in E1, E2. subst. rewrite Z.compare_refl. eapply IH; eassumption.
  - apply Z.compare_eq in E1. subst. rewrite E2. reflexivity.
  - apply Z.compare_eq in E2. subst. rewrite E1. reflexivity.
  - rewrite Z.compare_lt_iff in E1, E2.
    assert (H : Z.compare x z = Lt) by (apply Z.compare_lt_iff; lia). rewrite H. reflexivity.
Qed.

Lemma bytes_cmp_ok : cmp_ok (fun _ => True) bytes_cmp.
Proof.
  split.
  - intros a b. apply bytes_cmp_antisym.
  - intros a b d _ _ _. apply bytes_cmp_lt_trans.
  - intros a b d _ _ _ H. apply bytes_cmp_eq in H. subst. reflexivity.
Qed.

(** values of one attribute type *)
Definition base_of_kind (k : Z) (v : value) : Prop :=
  match v with
  | VStr _ => k = 1%Z
  | VInt k' _ => k = k' /\ (2 <= k <= 11)%Z
  | VBool _ => k = 12%Z
  | VTime _ => k = 13%Z
  | VBytes _ _ => k = 14%Z
  | _ => False
  end.

Definition of_attr_type (k : Z) (nullable : bool) (v : value) : Prop :=
  if nullable then
    match v with
    | VPtr k' None => k' = k
    | VPtr k' (Some u) => k' = k /\ base_of_kind k u
    | _ => False
    end
  else base_of_kind k v.

Lemma base_vcmp_ok k : cmp_ok (base_of_kind k) base_vcmp.
Proof.
  split.
  - intros a b. apply base_vcmp_antisym.
  - intros a b d Ha Hb Hd.
    destruct a, b, d; cbn in Ha, Hb, Hd; try contradiction; try lia; cbn.
    + apply (c_lt _ _ str_cmp_ok); exact I.
    + destruct Ha as [<- Ha], Hb as [<- _], Hd as [<- _].
      rewrite Bool.orb_diag. destruct (k =? 11)%Z; [discriminate|]. apply (c_lt _ _ z_cmp_ok); exact I.
    + apply (c_lt _ _ bool_cmp_ok); exact I.
    + apply (c_lt _ _ time_cmp_ok); exact I.
    + apply (c_lt _ _ bytes_cmp_ok); exact I.
  - intros a b d Ha Hb Hd.
    destruct a, b, d; cbn in Ha, Hb, Hd; try contradiction; try lia; cbn.
    + apply (c_eq _ _ str_cmp_ok); exact I.
    + destruct Ha as [<- Ha], Hb as [<- _], Hd as [<- _].
      rewrite Bool.orb_diag. destruct (k =? 11)%Z; [reflexivity|]. apply (c_eq _ _ z_cmp_ok); exact I.
    + apply (c_eq _ _ bool_cmp_ok); exact I.
    + apply (c_eq _ _ time_cmp_ok); exact I.
    + apply (c_eq _ _ bytes_cmp_ok); exact I.
Qed.

Lemma vcmp_ok k n : cmp_ok (of_attr_type k n) vcmp.
Proof.
  pose proof (base_vcmp_ok k) as B.
  split.
  - intros a b. apply vcmp_antisym.
  - intros a b d. unfold of_attr_type. destruct n.
    + destruct a as [| | | | | |ka oa|]; try contradiction.
      destruct b as [| | | | | |kb ob|]; try contradiction.
      destruct d as [| | | | | |kd od|]; try contradiction.
      intros Ha Hb Hd.
      assert (ka = k) by (destruct oa; tauto). assert (kb = k) by (destruct ob; tauto).
      assert (kd = k) by (destruct od; tauto). subst. unfold vcmp.
      destruct ((k =? 11)%Z || (k =? 14)%Z || (k =? 11)%Z || (k =? 14)%Z) eqn:Es; [discriminate|].
      destruct oa as [ua|], ob as [ub|], od as [ud|]; try discriminate; try reflexivity.
      apply (c_lt _ _ B); tauto.
    + intros Ha Hb Hd.
      assert (E : forall x y, base_of_kind k x -> base_of_kind k y -> vcmp x y = base_vcmp x y).
      { intros x y Hx Hy. destruct x, y; cbn in Hx, Hy; try contradiction; reflexivity. }
      rewrite !E by assumption. apply (c_lt _ _ B); assumption.
  - intros a b d. unfold of_attr_type. destruct n.
    + destruct a as [| | | | | |ka oa|]; try contradiction.
      destruct b as [| | | | | |kb ob|]; try contradiction.
      destruct d as [| | | | | |kd od|]; try contradiction.
      intros Ha Hb Hd.
      assert (ka = k) by (destruct oa; tauto). assert (kb = k) by (destruct ob; tauto).
      assert (kd = k) by (destruct od; tauto). subst. unfold vcmp.
      destruct ((k =? 11)%Z || (k =? 14)%Z || (k =? 11)%Z || (k =? 14)%Z) eqn:Es; [reflexivity|].
      destruct oa as [ua|], ob as [ub|], od as [ud|]; try discriminate; try reflexivity.
      apply (c_eq _ _ B); tauto.
    + intros Ha Hb Hd.
      assert (E : forall x y, base_of_kind k x -> base_of_kind k y -> vcmp x y = base_vcmp x y).
      { intros x y Hx Hy. destruct x, y; cbn in Hx, Hy; try contradiction; reflexivity. }
      rewrite !E by assumption. apply (c_eq _ _ B); assumption.
Qed.

(** closure of [cmp_ok] under the constructions Less is made of *)
Lemma cmp_ok_opp {A} (D : A -> Prop) c : cmp_ok D c -> cmp_ok D (fun a b => CompOpp (c a b)).
Proof.
  intros [Ha Hl He]. split.
  - intros a b. rewrite (Ha a b). reflexivity.
  - intros a b d Da Db Dd H1 H2.
    assert (E1 : c b a = Lt) by (rewrite (Ha a b); destruct (c a b); cbn in *; congruence).
    assert (E2 : c d b = Lt) by (rewrite (Ha b d); destruct (c b d); cbn in *; congruence).
    pose proof (Hl d b a Dd Db Da E2 E1) as E. rewrite (Ha d a). rewrite E. reflexivity.
  - intros a b d Da Db Dd H. f_equal. apply He; try assumption. destruct (c a b); cbn in H; congruence.
Qed.

Lemma cmp_ok_flip {A} (D : A -> Prop) c inv : cmp_ok D c -> cmp_ok D (fun a b => flip inv (c a b)).
Proof. intros H. destruct inv; cbn; [apply cmp_ok_opp; exact H|exact H]. Qed.

Lemma cmp_ok_proj {A B} (f : A -> B) (D : B -> Prop) c :
  cmp_ok D c -> cmp_ok (fun a => D (f a)) (fun a b => c (f a) (f b)).
Proof.
  intros [Ha Hl He]. split.
  - intros a b. apply Ha.
  - intros a b d Da Db Dd. apply Hl; assumption.
  - intros a b d Da Db Dd. apply He; assumption.
Qed.

Lemma cmp_ok_weaken {A} (D D' : A -> Prop) c : (forall a, D' a -> D a) -> cmp_ok D c -> cmp_ok D' c.
Proof.
  intros Hi [Ha Hl He]. split.
  - exact Ha.
  - intros a b d Da Db Dd. apply Hl; auto.
  - intros a b d Da Db Dd. apply He; auto.
Qed.

Lemma cmp_ok_lex {A} (D : A -> Prop) c1 c2 :
  cmp_ok D c1 -> cmp_ok D c2 ->
  cmp_ok D (fun a b => match c1 a b with Eq => c2 a b | c => c end).
Proof.
  intros [A1 L1 E1] [A2 L2 E2]. split.
  - intros a b. rewrite (A1 a b). destruct (c1 a b); cbn; [apply A2|reflexivity|reflexivity].
  - intros a b d Da Db Dd.
    destruct (c1 a b) eqn:Hab; destruct (c1 b d) eqn:Hbd; intros H1 H2; try congruence.
    + rewrite (E1 a b d Da Db Dd Hab), Hbd. apply (L2 a b d); assumption.
    + rewrite (E1 a b d Da Db Dd Hab), Hbd. reflexivity.
    + assert (Hdb : c1 d b = Eq) by (rewrite (A1 b d), Hbd; reflexivity).
      pose proof (E1 d b a Dd Db Da Hdb) as H. rewrite (A1 a b), Hab in H. cbn in H.
      rewrite (A1 d a), H. reflexivity.
    + rewrite (L1 a b d Da Db Dd Hab Hbd). reflexivity.
  - intros a b d Da Db Dd. destruct (c1 a b) eqn:Hab; try discriminate. intros H.
    rewrite (E1 a b d Da Db Dd Hab). destruct (c1 b d); [apply E2; assumption|reflexivity|reflexivity].
Qed.

Definition rule_typed (dom : list resource) (rule : str) : Prop :=
  fst (rule_name rule) = "id" \/
  exists k nl, forall r, In r dom -> of_attr_type k nl (sort_operand r (fst (rule_name rule))).

Lemma rule_cmp_ok dom rule : rule_typed dom rule -> cmp_ok (fun r => In r dom) (rule_cmp rule).
Proof.
  intros Ht. unfold rule_cmp. destruct (rule_name rule) as [n inv] eqn:En. cbn [fst] in Ht.
  destruct (String.eqb_spec n "id") as [->|N].
  - apply cmp_ok_flip. apply (cmp_ok_weaken (fun _ => True)); [auto|].
    apply (cmp_ok_proj id_of (fun _ => True) String.compare str_cmp_ok).
  - destruct Ht as [Ht|[k [nl Ht]]]; [unfold rule_typed in Ht; rewrite En in Ht; cbn in Ht; contradiction|].
    rewrite En in Ht. cbn [fst] in Ht.
    apply cmp_ok_flip.
    apply (cmp_ok_weaken (fun r => of_attr_type k nl (sort_operand r n))); [exact Ht|].
    apply (cmp_ok_proj (fun r => sort_operand r n) (of_attr_type k nl) vcmp (vcmp_ok k nl)).
Qed.

Lemma lex_cmp_ok dom rules : Forall (rule_typed dom) rules -> cmp_ok (fun r => In r dom) (lex_cmp rules).
Proof.
  induction 1 as [|rule rules Hr _ IH]; cbn.
  - split; intros; reflexivity || discriminate.
  - destruct (String.eqb (fst (rule_name rule)) "id").
    + apply rule_cmp_ok. exact Hr.
    + apply cmp_ok_lex; [apply rule_cmp_ok; exact Hr|exact IH].
Qed.

(** Less is a strict weak order on a collection whose sorting attributes are
    well typed *)
Theorem less_strict_weak_order dom rules :
  Forall (rule_typed dom) (effective_rules rules) ->
  (forall a, less rules a a = false) /\
  (forall a b d, In a dom -> In b dom -> In d dom ->
     less rules a b = true -> less rules b d = true -> less rules a d = true) /\
  (forall a b d, In a dom -> In b dom -> In d dom ->
     less rules a b = false -> less rules b a = false ->
     less rules b d = false -> less rules d b = false ->
     less rules a d = false /\ less rules d a = false).
Proof.
  intros Ht. pose proof (lex_cmp_ok dom _ Ht) as [Ha Hl He].
  split; [apply less_irrefl|]. split.
  - intros a b d Da Db Dd. unfold less.
    destruct (lex_cmp (effective_rules rules) a b) eqn:E1; try discriminate.
    destruct (lex_cmp (effective_rules rules) b d) eqn:E2; try discriminate.
    intros _ _. rewrite (Hl a b d Da Db Dd E1 E2). reflexivity.
  - intros a b d Da Db Dd. unfold less. rewrite (Ha a b), (Ha b d), (Ha a d).
    destruct (lex_cmp (effective_rules rules) a b) eqn:E1; cbn; try discriminate.
    intros _ _. rewrite <- (He a b d Da Db Dd E1).
    destruct (lex_cmp (effective_rules rules) a d); cbn; try discriminate. auto.
Qed.
