(* C20: a struct accepted by Check can be wrapped and its type built; a
   rejected one is refused by both. *)
From Coq Require Import Lia.
From JV Require Import Model.Base Model.GoTime Gen.TypeGo Model.Schema Model.Value
  Model.Wrapper Proofs.MapFacts.
Open Scope list_scope.

(** * rejected structs *)
Lemma reject_both d vals : check_struct d = false -> build_type d = Err /\ wrap d vals = Panic.
Proof. intros H. unfold build_type, wrap. rewrite H. split; reflexivity. Qed.

(** * strings *)
Lemma sappend_nil_r s : (s ++ "")%string = s.
Proof. induction s as [|c s IH]; cbn; [reflexivity|]. rewrite IH. reflexivity. Qed.

Lemma sappend_assoc a b c : ((a ++ b) ++ c)%string = (a ++ b ++ c)%string.
Proof. induction a as [|x a IH]; cbn; [reflexivity|]. rewrite IH. reflexivity. Qed.

(** strings.Split returns a single item only when there is no comma: the
    item is the string itself *)
Lemma split_aux_single s : forall cur x, split_comma_aux s cur = [x] -> x = (cur ++ s)%string.
Proof.
  induction s as [|c s IH]; intros cur x; cbn.
  - intros H; injection H as <-. symmetry. apply sappend_nil_r.
  - destruct (Ascii.eqb c ",").
    + destruct (split_comma_aux s "") eqn:E; [|discriminate].
      (* split never returns the empty list *)
      exfalso. clear -E. revert E. generalize ""%string as cur0.
      induction s as [|c0 s0 IH0]; intros cur0; cbn; [discriminate|].
      destruct (Ascii.eqb c0 ","); [discriminate|apply IH0].
    + intros H. rewrite (IH _ _ H). rewrite sappend_assoc. reflexivity.
Qed.

Lemma split_single s x : split_comma s = [x] -> x = s.
Proof. intros H. apply split_aux_single in H. exact H. Qed.

(** * Check's relationship clause makes BuildType's / Wrap's index safe *)
Definition rel_clause (f : sfield) : bool :=
  if String.eqb (sf_api f) "rel" || String.prefix "rel," (sf_api f) then
    let parts := split_comma (sf_api f) in
    let n := length parts in
    (Nat.leb 2 n && Nat.leb n 3)
    && negb (String.eqb (nth 1 parts "") "")
    && match sf_type f with GTAttr 1 false => true | GTStrs => true | _ => false end
  else true.

Lemma rel_clause_target f : rel_clause f = true ->
  match split_comma (sf_api f) with
  | hd :: tl => String.eqb hd "rel" = true -> tl <> []
  | [] => True
  end.
Proof.
  unfold rel_clause. destruct (split_comma (sf_api f)) as [|hd tl] eqn:E; [intros _; exact I|].
  intros H Hhd Htl. subst tl. apply String.eqb_eq in Hhd. subst hd.
  apply split_single in E. rewrite <- E in H. cbn in H. discriminate.
Qed.

Lemma build_rels_some typ d :
  forallb rel_clause d = true -> forall acc, exists rels,
  fold_left (rels_step typ) d (Some acc) = Some rels.
Proof.
  induction d as [|f d IH]; intros Hall acc; cbn [fold_left]; [eauto|].
  cbn in Hall. apply andb_true_iff in Hall. destruct Hall as [Hf Hd].
  pose proof (rel_clause_target f Hf) as Ht. unfold rels_step at 2.
  destruct (split_comma (sf_api f)) as [|hd tl]; [apply IH; exact Hd|].
  destruct (String.eqb hd "rel") eqn:E; [|apply IH; exact Hd].
  destruct tl as [|target tl2]; [exfalso; exact (Ht eq_refl eq_refl)|].
  apply IH. exact Hd.
Qed.

Lemma check_rel_clause d : check_struct d = true -> forallb rel_clause d = true.
Proof.
  unfold check_struct. destruct (find_field is_id_field d); [|discriminate].
  intros H. repeat (apply andb_true_iff in H; destruct H as [H ?]).
  match goal with Hx : forallb _ d = true |- _ => exact Hx end.
Qed.

(** * accepted structs *)
Lemma accept_both d vals :
  check_struct d = true ->
  exists rels,
    build_type d = Ok (mkType (struct_type_name d) (build_attrs d) rels) /\
    wrap d vals = Ok (mkWrapper d vals (struct_type_name d) (build_attrs d) rels).
Proof.
  intros Hc. unfold build_type, wrap, build_rels. rewrite Hc. cbn [negb].
  destruct (build_rels_some (struct_type_name d) d (check_rel_clause d Hc) []) as [rels Hr].
  rewrite Hr. exists rels. split; reflexivity.
Qed.

(** the attributes of the built type come from the attr-tagged fields, with
    the kind and nullability of their Go type *)
Lemma build_attrs_from d : forall n a,
  In (n, a) (build_attrs d) ->
  exists f, In f d /\ sf_api f = "attr" /\ sf_json f = n /\
            a = (let '(k, nl) := get_attr_type (go_type_string (sf_type f)) in mkAttr n k nl).
Proof.
  unfold build_attrs.
  assert (G : forall acc n a,
            In (n, a) (fold_left (fun m f =>
                                    if String.eqb (sf_api f) "attr" then
                                      let '(k, nl) := get_attr_type (go_type_string (sf_type f)) in
                                      map_set (sf_json f) (mkAttr (sf_json f) k nl) m
                                    else m) d acc) ->
            In (n, a) acc \/
            exists f, In f d /\ sf_api f = "attr" /\ sf_json f = n /\
                      a = (let '(k, nl) := get_attr_type (go_type_string (sf_type f)) in mkAttr n k nl)).
  { induction d as [|f d IH]; intros acc n a; cbn; [auto|].
    intros H. destruct (IH _ _ _ H) as [Hacc|[f' [Hin Hrest]]].
    - destruct (String.eqb_spec (sf_api f) "attr") as [E|N]; [|left; exact Hacc].
      destruct (get_attr_type (go_type_string (sf_type f))) as [k nl] eqn:Eg.
      (* either the new binding or an older one *)
      assert (Hcases : (n, a) = (sf_json f, mkAttr (sf_json f) k nl) \/ In (n, a) acc).
      { clear -Hacc. induction acc as [|[k0 v0] acc IHa]; cbn in *.
        - destruct Hacc as [H|[]]; auto.
        - destruct (String.eqb (sf_json f) k0); cbn in Hacc.
          + destruct Hacc as [H|H]; auto.
          + destruct Hacc as [H|H]; [auto|]. destruct (IHa H); auto. }
      destruct Hcases as [Heq|Hold]; [|left; exact Hold].
      right. exists f. inversion Heq; subst. split; [left; reflexivity|]. split; [exact E|].
      split; [reflexivity|]. rewrite Eg. reflexivity.
    - right. exists f'. split; [right; exact Hin|exact Hrest]. }
  intros n a H. destruct (G [] n a H) as [[]|Hx]. exact Hx.
Qed.
