(* C11: the marshaled resource does not depend on the order in which the
   attribute and relationship maps are walked (Go's map iteration order). *)
From Coq Require Import Lia Permutation Sorted.
From JV Require Import Model.Base Model.GoTime Gen.TypeGo Model.Schema Model.Value
  Model.Strconv Model.Json Model.SoftRes Model.Wrapper Model.Resource Model.Marshal
  Proofs.BaseFacts Proofs.MapFacts Proofs.SoftFacts Proofs.C01Full.
Open Scope list_scope.

(** * Objects with the same members print the same *)
Lemma key_lt_ntrans {A} (a b c : str * A) :
  key_lt a b = false -> key_lt b c = false -> key_lt a c = false.
Proof.
  unfold key_lt. intros H1 H2.
  destruct (String.ltb (fst a) (fst c)) eqn:E; [|reflexivity].
  destruct (slt_total (fst a) (fst b)) as [H|[H|H]]; [congruence| |].
  - rewrite H in *. congruence.
  - destruct (slt_total (fst b) (fst c)) as [H'|[H'|H']]; [congruence| |].
    + rewrite <- H' in *. rewrite (slt_asym _ _ H) in E. discriminate.
    + pose proof (slt_trans _ _ _ H' H) as Hca. rewrite (slt_asym _ _ Hca) in E. discriminate.
Qed.

Lemma key_lt_asym {A} (a b : str * A) : key_lt a b = true -> key_lt b a = false.
Proof. unfold key_lt. apply slt_asym. Qed.

Lemma isort_key_sorted {A} (l : list (str * A)) :
  StronglySorted (fun a b => key_lt b a = false) (isort key_lt l).
Proof.
  induction l as [|x l IH]; cbn; [constructor|].
  apply insert_by_sorted_on; [intros a b c; apply key_lt_ntrans|intros a b; apply key_lt_asym|exact IH].
Qed.

Lemma NoDup_keys_NoDup {A} (m : list (str * A)) : NoDup (map fst m) -> NoDup m.
Proof.
  induction m as [|[k v] m IH]; cbn; intros H; [constructor|].
  inversion H as [|? ? Hn Hd]; subst. constructor; [|apply IH; exact Hd].
  intros Hin. apply Hn. apply in_map_iff. exists (k, v). auto.
Qed.

Lemma same_lookup_perm {A} (m1 m2 : list (str * A)) :
  NoDup (map fst m1) -> NoDup (map fst m2) -> (forall k, lookup k m1 = lookup k m2) ->
  Permutation m1 m2.
Proof.
  intros H1 H2 Hl. apply NoDup_Permutation; try (apply NoDup_keys_NoDup; assumption).
  intros [k v]. split; intros Hin.
  - apply lookup_In. rewrite <- Hl. apply In_lookup; assumption.
  - apply lookup_In. rewrite Hl. apply In_lookup; assumption.
Qed.

Lemma isort_same_members {A} (m1 m2 : list (str * A)) :
  NoDup (map fst m1) -> Permutation m1 m2 -> isort key_lt m1 = isort key_lt m2.
Proof.
  intros Hn Hp.
  apply (sorted_unique_on_gen key_lt m1).
  - intros [k v] [k' v'] Ha Hb. unfold key_lt. cbn.
    destruct (slt_total k k') as [H|[H|H]]; auto. subst. right; left. f_equal.
    eapply NoDup_keys_In_eq; eassumption.
  - intros x Hx. eapply Permutation_in; [apply isort_perm|exact Hx].
  - intros x Hx. eapply Permutation_in; [apply Permutation_sym; exact Hp|].
    eapply Permutation_in; [apply isort_perm|exact Hx].
  - apply isort_key_sorted.
  - apply isort_key_sorted.
  - eapply Permutation_trans; [apply isort_perm|].
    eapply Permutation_trans; [exact Hp|apply Permutation_sym, isort_perm].
Qed.

Lemma jobj_same_members (m1 m2 : list (str * json)) :
  NoDup (map fst m1) -> NoDup (map fst m2) -> (forall k, lookup k m1 = lookup k m2) ->
  jobj m1 = jobj m2.
Proof.
  intros H1 H2 Hl. unfold jobj. f_equal.
  apply (isort_same_members m1 m2 H1). apply same_lookup_perm; assumption.
Qed.

(** * fold_set over a permuted list *)
Lemma fold_set_lookup_any {A B} (nm : A -> str) (g : A -> B) (l : list (str * A)) k :
  NoDup (map (fun kv => nm (snd kv)) l) ->
  lookup k (fold_set nm g l []) =
  match find (fun kv => String.eqb k (nm (snd kv))) l with
  | Some kv => Some (g (snd kv))
  | None => None
  end.
Proof.
  intros Hn. destruct (find _ l) as [kv|] eqn:E.
  - apply find_some in E. destruct E as [Hin He]. apply String.eqb_eq in He. subst k.
    apply fold_set_lookup; assumption.
  - rewrite fold_set_lookup_other; [reflexivity|].
    intros Hin. apply in_map_iff in Hin. destruct Hin as [kv [Hk Hin]].
    pose proof (find_none _ _ E kv Hin) as Hf. cbn in Hf. rewrite <- Hk, String.eqb_refl in Hf. discriminate.
Qed.

Lemma find_perm_named {A} (nm : A -> str) (l1 l2 : list (str * A)) k :
  NoDup (map (fun kv => nm (snd kv)) l1) -> Permutation l1 l2 ->
  option_map snd (find (fun kv => String.eqb k (nm (snd kv))) l1) =
  option_map snd (find (fun kv => String.eqb k (nm (snd kv))) l2).
Proof.
  intros Hn Hp.
  assert (Hn2 : NoDup (map (fun kv => nm (snd kv)) l2))
    by (eapply Permutation_NoDup; [apply Permutation_map; exact Hp|exact Hn]).
  assert (Huniq : forall l, NoDup (map (fun kv : str * A => nm (snd kv)) l) ->
                  forall a b, In a l -> In b l -> nm (snd a) = nm (snd b) -> a = b).
  { induction l as [|x l IH]; intros Hl a b Ha Hb He; [contradiction|].
    cbn in Hl. apply NoDup_cons_iff in Hl. destruct Hl as [Hx Hl].
    destruct Ha as [<-|Ha], Hb as [<-|Hb]; try reflexivity.
    - exfalso. apply Hx. rewrite He. apply in_map_iff. exists b. auto.
    - exfalso. apply Hx. rewrite <- He. apply in_map_iff. exists a. auto.
    - apply IH; assumption. }
  destruct (find _ l1) as [a|] eqn:E1; destruct (find _ l2) as [b|] eqn:E2; cbn; try reflexivity.
  - apply find_some in E1, E2. destruct E1 as [Ha Ea], E2 as [Hb Eb].
    apply String.eqb_eq in Ea, Eb.
    assert (Hab : a = b).
    { apply (Huniq l2 Hn2); [eapply Permutation_in; eassumption|exact Hb|congruence]. }
    rewrite Hab. reflexivity.
  - apply find_some in E1. destruct E1 as [Ha Ea].
    pose proof (find_none _ _ E2 a (Permutation_in _ Hp Ha)) as Hf. cbn in Hf. congruence.
  - apply find_some in E2. destruct E2 as [Hb Eb].
    pose proof (find_none _ _ E1 b (Permutation_in _ (Permutation_sym Hp) Hb)) as Hf. cbn in Hf. congruence.
Qed.

Lemma fold_set_perm {A} (nm : A -> str) (g : A -> json) (l1 l2 : list (str * A)) :
  NoDup (map (fun kv => nm (snd kv)) l1) -> Permutation l1 l2 ->
  jobj (fold_set nm g l1 []) = jobj (fold_set nm g l2 []) /\
  (fold_set nm g l1 [] = [] <-> fold_set nm g l2 [] = []).
Proof.
  intros Hn Hp.
  assert (Hn2 : NoDup (map (fun kv => nm (snd kv)) l2))
    by (eapply Permutation_NoDup; [apply Permutation_map; exact Hp|exact Hn]).
  split.
  - apply jobj_same_members; try (apply fold_set_NoDup; constructor).
    intros k. rewrite !fold_set_lookup_any by assumption.
    pose proof (find_perm_named nm l1 l2 k Hn Hp) as H.
    destruct (find _ l1), (find _ l2); cbn in H; congruence.
  - assert (Hemp : forall l, fold_set nm g l [] = [] <-> l = []).
    { intros l. split; [|intros ->; reflexivity]. destruct l as [|kv l]; [reflexivity|]. intros H.
      assert (Hin : In (nm (snd kv)) (map fst (fold_set nm g (kv :: l) []))).
      { apply fold_set_keys. left. left. reflexivity. }
      rewrite H in Hin. contradiction. }
    rewrite !Hemp. split; intros ->.
    + apply Permutation_nil in Hp. exact Hp.
    + apply Permutation_sym, Permutation_nil in Hp. exact Hp.
Qed.

(** * marshal_attrs / marshal_rels as folds, for any resource whose reads succeed *)
Section AnyRes.
  Variables (e : stdenv) (r : resource).

  Definition attr_json_of (a : attr) : json :=
    match res_get r (aname a) with Ok v => json_of_value e v | _ => JNull end.

  Lemma marshal_attrs_fold fields : forall attrs acc,
    (forall kv, In kv attrs -> exists v, res_get r (aname (snd kv)) = Ok v) ->
    marshal_attrs e r fields attrs acc =
    Ok (fold_set aname attr_json_of (filter (fun kv => mem_str (aname (snd kv)) fields) attrs) acc).
  Proof.
    unfold fold_set. induction attrs as [|[k a] attrs IH]; intros acc H; cbn; [reflexivity|].
    destruct (mem_str (aname a) fields) eqn:Em; cbn.
    - destruct (H (k, a) (or_introl eq_refl)) as [v Hv]. cbn in Hv. unfold attr_json_of at 2. rewrite Hv. cbn.
      apply IH. intros kv Hin. apply H. right; exact Hin.
    - apply IH. intros kv Hin. apply H. right; exact Hin.
  Qed.

  Definition rel_read_ok (x : rel) : Prop :=
    if to_one x then exists s, res_get r (from_name x) = Ok (VStr s)
    else exists n l, res_get r (from_name x) = Ok (VStrs n l).

  Lemma marshal_rel_ok prepath tn id b x : rel_read_ok x -> exists j, marshal_rel r prepath tn id b x = Ok j.
  Proof.
    unfold rel_read_ok, marshal_rel. intros H. destruct b; cbn [negb]; [|eexists; reflexivity].
    destruct (to_one x).
    - destruct H as [s Hs]. unfold get_str. rewrite Hs. cbn. eexists; reflexivity.
    - destruct H as [n [l Hl]]. unfold get_strs. rewrite Hl. cbn. eexists; reflexivity.
  Qed.

  Definition rel_json_of (prepath tn id : str) (want : list str) (x : rel) : json :=
    match marshal_rel r prepath tn id (mem_str (from_name x) want) x with Ok j => j | _ => JNull end.

  Lemma marshal_rels_fold prepath tn id fields want : forall rels acc,
    (forall kv, In kv rels -> rel_read_ok (snd kv)) ->
    marshal_rels r prepath tn id fields want rels acc =
    Ok (fold_set from_name (rel_json_of prepath tn id want)
                 (filter (fun kv => mem_str (from_name (snd kv)) fields) rels) acc).
  Proof.
    unfold fold_set. induction rels as [|[k x] rels IH]; intros acc H; cbn; [reflexivity|].
    destruct (mem_str (from_name x) fields) eqn:Em; cbn.
    - destruct (marshal_rel_ok prepath tn id (mem_str (from_name x) want) x (H (k, x) (or_introl eq_refl))) as [j Hj].
      unfold rel_json_of at 2. rewrite Hj. cbn. apply IH. intros kv Hin. apply H. right; exact Hin.
    - apply IH. intros kv Hin. apply H. right; exact Hin.
  Qed.
End AnyRes.

Lemma NoDup_map_filter {A B} (f : A -> B) (p : A -> bool) (l : list A) :
  NoDup (map f l) -> NoDup (map f (filter p l)).
Proof.
  induction l as [|x l IH]; cbn; intros H; [constructor|].
  apply NoDup_cons_iff in H. destruct H as [Hx Hl]. destruct (p x); cbn; [|apply IH; exact Hl].
  constructor; [|apply IH; exact Hl]. intros Hin. apply Hx.
  apply in_map_iff in Hin. destruct Hin as [y [Hy Hin]]. apply filter_In in Hin.
  apply in_map_iff. exists y. tauto.
Qed.

Lemma Permutation_filter {A} (p : A -> bool) (l1 l2 : list A) :
  Permutation l1 l2 -> Permutation (filter p l1) (filter p l2).
Proof.
  induction 1 as [|x l1 l2 _ IH|x y l|l1 l2 l3 _ IH1 _ IH2]; cbn.
  - constructor.
  - destruct (p x); [constructor|]; exact IH.
  - destruct (p x), (p y); try reflexivity. apply perm_swap.
  - eapply Permutation_trans; eassumption.
Qed.

(** Two resources that read the same and whose attribute / relationship maps
    hold the same entries in any order marshal to the same tree. *)
Theorem marshal_resource_map_order e r1 r2 prepath fields reldata :
  res_type_name r1 = res_type_name r2 ->
  (forall k, res_get r1 k = res_get r2 k) ->
  Permutation (res_attrs r1) (res_attrs r2) ->
  Permutation (res_rels r1) (res_rels r2) ->
  NoDup (map (fun kv => aname (snd kv)) (res_attrs r1)) ->
  NoDup (map (fun kv => from_name (snd kv)) (res_rels r1)) ->
  (forall kv, In kv (res_attrs r1) -> exists v, res_get r1 (aname (snd kv)) = Ok v) ->
  (forall kv, In kv (res_rels r1) -> rel_read_ok r1 (snd kv)) ->
  marshal_resource e r1 prepath fields reldata = marshal_resource e r2 prepath fields reldata.
Proof.
  intros Htn Hget Hpa Hpr Hna Hnr Hra Hrr.
  assert (Hext_a : forall a, attr_json_of e r1 a = attr_json_of e r2 a)
    by (intros a; unfold attr_json_of; rewrite Hget; reflexivity).
  assert (Hext_r : forall pp tn id w x, rel_json_of r1 pp tn id w x = rel_json_of r2 pp tn id w x).
  { intros. unfold rel_json_of, marshal_rel, get_str, get_strs. rewrite !Hget. reflexivity. }
  unfold marshal_resource. unfold get_str. rewrite <- Hget, <- Htn.
  destruct (res_get r1 "id") as [v| |]; cbn [bind]; try reflexivity.
  destruct v; cbn [bind]; try reflexivity.
  rewrite (marshal_attrs_fold e r1 fields (res_attrs r1) [] Hra).
  rewrite (marshal_attrs_fold e r2 fields (res_attrs r2) []).
  2:{ intros kv Hin. rewrite <- Hget. apply Hra. eapply Permutation_in; [apply Permutation_sym; exact Hpa|exact Hin]. }
  cbn [bind].
  set (want := match lookup (res_type_name r1) reldata with Some l => l | None => [] end).
  rewrite (marshal_rels_fold r1 prepath (res_type_name r1) s fields want (res_rels r1) [] Hrr).
  rewrite (marshal_rels_fold r2 prepath (res_type_name r1) s fields want (res_rels r2) []).
  2:{ intros kv Hin. unfold rel_read_ok. rewrite <- !Hget. apply Hrr.
      eapply Permutation_in; [apply Permutation_sym; exact Hpr|exact Hin]. }
  cbn [bind].
  set (fa := fun kv : str * attr => mem_str (aname (snd kv)) fields).
  set (fr := fun kv : str * rel => mem_str (from_name (snd kv)) fields).
  destruct (fold_set_perm aname (attr_json_of e r1) (filter fa (res_attrs r1)) (filter fa (res_attrs r2)))
    as [HA HAe]; [apply NoDup_map_filter; exact Hna|apply Permutation_filter; exact Hpa|].
  destruct (fold_set_perm from_name (rel_json_of r1 prepath (res_type_name r1) s want)
              (filter fr (res_rels r1)) (filter fr (res_rels r2)))
    as [HR HRe]; [apply NoDup_map_filter; exact Hnr|apply Permutation_filter; exact Hpr|].
  assert (Ext : forall {A} (nm : A -> str) (g1 g2 : A -> json) l acc, (forall a, g1 a = g2 a) ->
                fold_set nm g1 l acc = fold_set nm g2 l acc).
  { intros A nm g1 g2 l. unfold fold_set. induction l as [|kv l IH]; intros acc Hg; cbn; [reflexivity|].
    rewrite Hg. apply IH. exact Hg. }
  rewrite (Ext _ aname (attr_json_of e r2) (attr_json_of e r1)) by (intros; symmetry; apply Hext_a).
  rewrite (Ext _ from_name (rel_json_of r2 prepath (res_type_name r1) s want)
               (rel_json_of r1 prepath (res_type_name r1) s want)) by (intros; symmetry; apply Hext_r).
  f_equal. f_equal. f_equal. f_equal.
  - destruct (fold_set aname (attr_json_of e r1) (filter fa (res_attrs r1)) []) as [|p l] eqn:E1';
    destruct (fold_set aname (attr_json_of e r1) (filter fa (res_attrs r2)) []) as [|p' l'] eqn:E2'; try reflexivity.
    + destruct HAe as [HAe _]. specialize (HAe eq_refl). discriminate.
    + destruct HAe as [_ HAe]. specialize (HAe eq_refl). discriminate.
    + rewrite HA. reflexivity.
  - destruct (fold_set from_name (rel_json_of r1 prepath (res_type_name r1) s want) (filter fr (res_rels r1)) []) as [|p l] eqn:E1';
    destruct (fold_set from_name (rel_json_of r1 prepath (res_type_name r1) s want) (filter fr (res_rels r2)) []) as [|p' l'] eqn:E2'; try reflexivity.
    + destruct HRe as [HRe _]. specialize (HRe eq_refl). discriminate.
    + destruct HRe as [_ HRe]. specialize (HRe eq_refl). discriminate.
    + rewrite HR. reflexivity.
Qed.
