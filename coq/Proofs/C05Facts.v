(* C05: unmarshaling never panics (outside the recorded bytes finding) and
   returns resources of schema types. *)
From Coq Require Import Lia.
From JV Require Import Model.Base Model.GoTime Gen.TypeGo Model.Schema Model.Value
  Model.Strconv Model.Json Model.Attr Model.SoftRes Model.Wrapper Model.Resource
  Model.Marshal Model.Unmarshal Model.Document
  Proofs.C06Facts Proofs.C13Facts Proofs.C07Facts Proofs.SoftFacts.
Open Scope list_scope.

(** * identifiers *)
Lemma unmarshal_identifier_no_panic s j : unmarshal_identifier s j <> Panic.
Proof.
  unfold unmarshal_identifier. destruct (dec_identifier j); [|discriminate].
  repeat match goal with |- context [if ?c then _ else _] => destruct c end; discriminate.
Qed.

Lemma unmarshal_identifier_list_no_panic s l : unmarshal_identifier_list s l <> Panic.
Proof.
  induction l as [|j l IH]; cbn; [discriminate|].
  pose proof (unmarshal_identifier_no_panic s j) as H.
  destruct j; try discriminate;
    destruct (unmarshal_identifier s _); cbn; try discriminate; try contradiction;
    destruct (unmarshal_identifier_list s l); cbn; try discriminate; contradiction.
Qed.

Lemma unmarshal_identifiers_no_panic s j : unmarshal_identifiers s j <> Panic.
Proof.
  unfold unmarshal_identifiers. destruct j; try discriminate.
  apply unmarshal_identifier_list_no_panic.
Qed.

Lemma unmarshal_identifier_on_schema s j i :
  unmarshal_identifier s j = Ok i -> has_type (sch_schema s) (i_type i) = true /\ i_id i <> "".
Proof.
  unfold unmarshal_identifier. destruct (dec_identifier j) as [i0|]; [|discriminate].
  destruct (String.eqb_spec (i_id i0) ""); [discriminate|].
  destruct (String.eqb (i_type i0) ""); [discriminate|].
  destruct (has_type (sch_schema s) (i_type i0)) eqn:E; cbn; [|discriminate].
  intros H; injection H as <-. auto.
Qed.

(** * resources: schemas of soft types without byte-string attributes *)
Definition no_bytes (t : type) : Prop := forall k a, In (k, a) (tattrs t) -> acode a <> 14%Z.
Definition no_bytes_schema (s : sch) : Prop := forall n, no_bytes (get_type (sch_schema s) n).

Lemma set_attrs_no_panic e t l : no_bytes t -> forall s0,
  set_attrs e t (RSoft s0) l <> Panic.
Proof.
  intros Hnb. induction l as [|[k v] l IH]; intros s0; cbn; [discriminate|].
  destruct (lookup k (tattrs t)) as [a|] eqn:Ea; [|discriminate].
  destruct (unmarshal_to_type e a v) as [val| |] eqn:Eu; cbn; [apply IH|discriminate|].
  exfalso. apply unmarshal_panic_only_bytes in Eu.
  apply MapFacts.lookup_In in Ea. exact (Hnb _ _ Ea Eu).
Qed.

Lemma set_rels_no_panic t l : forall s0, set_rels t (RSoft s0) l <> Panic.
Proof.
  induction l as [|[k rs] l IH]; intros s0; cbn; [discriminate|].
  destruct (lookup k (trels t)) as [x|]; [|discriminate].
  destruct (rs_data rs) as [d|]; [|apply IH].
  destruct (to_one x).
  - destruct (dec_identifier d); [cbn; apply IH|discriminate].
  - destruct (dec_identifiers d); [cbn; apply IH|discriminate].
Qed.

Lemma unmarshal_resource_no_panic e s j :
  all_soft s -> no_bytes_schema s -> unmarshal_resource e s j <> Panic.
Proof.
  intros Hs Hnb. unfold unmarshal_resource.
  destruct (dec_resske j) as [k|]; [|discriminate].
  destruct (String.eqb _ ""); [discriminate|].
  unfold type_new. rewrite Hs. cbn [lookup bind res_set].
  set (t := get_type (sch_schema s) (k_type k)).
  pose proof (set_attrs_no_panic e t (k_attrs k) (Hnb _)
                (soft_set (soft_new t) "id" (VStr (k_id k)))) as Ha.
  destruct (set_attrs e t _ (k_attrs k)) as [r2| |] eqn:E2; cbn [bind]; [|discriminate|contradiction].
  destruct (set_attrs_soft _ _ _ _ _ E2) as [s2 ->]. apply set_rels_no_panic.
Qed.

Lemma unmarshal_partial_no_panic e s j :
  all_soft s -> no_bytes_schema s -> unmarshal_partial e s j <> Panic.
Proof.
  intros Hs Hnb H.
  pose proof (accept_iff e s j Hs) as [_ Hp]. rewrite H in Hp. cbn in Hp.
  pose proof (unmarshal_resource_no_panic e s j Hs Hnb) as Hr.
  destruct (unmarshal_resource e s j); cbn in Hp; try discriminate. contradiction.
Qed.

Lemma unmarshal_each_no_panic e s l :
  all_soft s -> no_bytes_schema s -> unmarshal_each e s l <> Panic.
Proof.
  intros Hs Hnb. induction l as [|j l IH]; cbn; [discriminate|].
  pose proof (unmarshal_resource_no_panic e s j Hs Hnb) as Hr.
  destruct (unmarshal_resource e s j); cbn; try discriminate; try contradiction.
  destruct (unmarshal_each e s l); cbn; try discriminate. contradiction.
Qed.

Lemma unmarshal_collection_no_panic e s j :
  all_soft s -> no_bytes_schema s -> unmarshal_collection e s j <> Panic.
Proof.
  intros Hs Hnb. unfold unmarshal_collection. destruct j; try discriminate.
  apply unmarshal_each_no_panic; assumption.
Qed.

Lemma unmarshal_document_no_panic e s j :
  all_soft s -> no_bytes_schema s -> unmarshal_document e s j <> Panic.
Proof.
  intros Hs Hnb. unfold unmarshal_document.
  destruct (dec_payske j) as [k|]; [|discriminate].
  pose proof (unmarshal_each_no_panic e s (p_included k) Hs Hnb) as Hi.
  assert (Hfin : forall de : udata * list jerror,
            (if negb (all_identifier_shaped (p_included k)) then Err
             else bind (unmarshal_each e s (p_included k))
                       (fun incs => Ok (mkUDoc (fst de) (snd de) incs (p_meta k)))) <> Panic).
  { intros de. destruct (negb _); [discriminate|].
    destruct (unmarshal_each e s (p_included k)); cbn; try discriminate. contradiction. }
  destruct (p_data k) as [[| | | |l|m]|]; cbn [bind]; try discriminate; try apply Hfin.
  - pose proof (unmarshal_collection_no_panic e s (JArr l) Hs Hnb) as Hc.
    destruct (unmarshal_collection e s (JArr l)); cbn [bind]; try discriminate; [apply Hfin|contradiction].
  - pose proof (unmarshal_resource_no_panic e s (JObj m) Hs Hnb) as Hr.
    destruct (unmarshal_resource e s (JObj m)); cbn [bind]; try discriminate; [apply Hfin|contradiction].
Qed.

(** the recorded finding: a byte-string attribute given a number panics *)
Definition c05_schema : sch :=
  mkSch (mkSchema [mkType "t" [("b", mkAttr "b" 14 false)] []]) [].

Lemma no_panic_refuted e :
  unmarshal_resource e c05_schema
    (JObj [("id", jstr "1"); ("type", jstr "t"); ("attributes", JObj [("b", JNum "123")])]) = Panic.
Proof. reflexivity. Qed.

(** * the returned resource is of a schema type *)
Lemma soft_set_tname s k v : tname (s_type (soft_set s k v)) = tname (s_type s).
Proof. rewrite soft_set_type. reflexivity. Qed.

Lemma set_attrs_tname e t l : forall s0 r,
  set_attrs e t (RSoft s0) l = Ok r -> res_type_name r = tname (s_type s0).
Proof.
  induction l as [|[k v] l IH]; intros s0 r; cbn.
  - intros H; injection H as <-. reflexivity.
  - destruct (lookup k (tattrs t)) as [a|]; [|discriminate].
    destruct (unmarshal_to_type e a v); cbn; try discriminate.
    intros H. rewrite (IH _ _ H). apply soft_set_tname.
Qed.

Lemma set_rels_tname t l : forall s0 r,
  set_rels t (RSoft s0) l = Ok r -> res_type_name r = tname (s_type s0).
Proof.
  induction l as [|[k rs] l IH]; intros s0 r; cbn.
  - intros H; injection H as <-. reflexivity.
  - destruct (lookup k (trels t)) as [x|]; [|discriminate].
    destruct (rs_data rs) as [d|]; [|apply IH].
    destruct (to_one x).
    + destruct (dec_identifier d); [|discriminate]. cbn. intros H. rewrite (IH _ _ H). apply soft_set_tname.
    + destruct (dec_identifiers d); [|discriminate]. cbn. intros H. rewrite (IH _ _ H). apply soft_set_tname.
Qed.

Lemma unmarshal_resource_on_schema e s j r :
  all_soft s -> unmarshal_resource e s j = Ok r ->
  has_type (sch_schema s) (res_type_name r) = true.
Proof.
  intros Hs. unfold unmarshal_resource.
  destruct (dec_resske j) as [k|]; [|discriminate].
  destruct (String.eqb_spec (tname (get_type (sch_schema s) (k_type k))) "") as [E|N]; [discriminate|].
  unfold type_new. rewrite Hs. cbn [lookup bind res_set].
  set (t := get_type (sch_schema s) (k_type k)) in *.
  destruct (set_attrs e t _ (k_attrs k)) as [r2| |] eqn:E2; cbn [bind]; try discriminate.
  destruct (set_attrs_soft _ _ _ _ _ E2) as [s2 ->].
  intros H. rewrite (set_rels_tname _ _ _ _ H).
  pose proof (set_attrs_tname _ _ _ _ _ E2) as H2. cbn [res_type_name] in H2.
  rewrite H2, soft_set_tname. cbn [soft_new s_type].
  apply get_type_has. exact N.
Qed.
