(* SoftResource: get/set laws. *)
From Coq Require Import Lia.
From JV Require Import Model.Base Model.GoTime Gen.TypeGo Model.Schema Model.Value
  Model.SoftRes Proofs.BaseFacts Proofs.MapFacts Proofs.C14Facts.
Open Scope list_scope.

(** Types of resources: well-formed, attribute and relationship names
    disjoint, no field called "id". *)
Definition wf_res_type (t : type) : Prop :=
  wf_type t /\
  (forall n, In n (map fst (tattrs t)) -> ~ In n (map fst (trels t))) /\
  ~ In "id" (map fst (tattrs t)) /\ ~ In "id" (map fst (trels t)).

Definition field_zero (t : type) (f : str) : value :=
  match lookup f (tattrs t) with
  | Some a => zero_value (acode a) (anull a)
  | None => match lookup f (trels t) with
            | Some r => if to_one r then VStr "" else VStrs false []
            | None => VNil
            end
  end.

Definition is_field (t : type) (f : str) : Prop :=
  In f (map fst (tattrs t)) \/ In f (map fst (trels t)).

(** * lookup / has_key *)
Lemma has_key_lookup {A} k (m : list (str * A)) : has_key k m = true <-> lookup k m <> None.
Proof.
  induction m as [|[k0 v0] m IH]; cbn; [split; [discriminate|congruence]|].
  rewrite String.eqb_sym. destruct (String.eqb k k0); cbn; [split; [discriminate|reflexivity]|exact IH].
Qed.

Lemma has_key_false {A} k (m : list (str * A)) : has_key k m = false <-> lookup k m = None.
Proof.
  induction m as [|[k0 v0] m IH]; cbn; [tauto|].
  rewrite String.eqb_sym. destruct (String.eqb k k0); cbn; [split; discriminate|exact IH].
Qed.

Lemma has_key_In {A} k (m : list (str * A)) : has_key k m = true <-> In k (map fst m).
Proof.
  unfold has_key. rewrite existsb_exists. split.
  - intros [[k0 v] [Hin E]]. cbn in E. apply String.eqb_eq in E. subst.
    apply in_map_iff. exists (k, v). auto.
  - intros H. apply in_map_iff in H. destruct H as [[k0 v] [E Hin]]. cbn in E. subst.
    exists (k, v). split; [exact Hin|apply String.eqb_refl].
Qed.

Lemma lookup_None_notin {A} k (m : list (str * A)) : lookup k m = None <-> ~ In k (map fst m).
Proof.
  rewrite <- has_key_false, <- has_key_In. destruct (has_key k m); split; congruence.
Qed.

Lemma lookup_map_set {A} k k' (v : A) m :
  lookup k' (map_set k v m) = if String.eqb k' k then Some v else lookup k' m.
Proof.
  destruct (String.eqb_spec k' k) as [->|N].
  - apply lookup_map_set_same.
  - apply lookup_map_set_other. exact N.
Qed.

Lemma lookup_filter_key {A} (p : str -> bool) k (m : list (str * A)) :
  p k = true -> lookup k (filter (fun kv => p (fst kv)) m) = lookup k m.
Proof.
  intros Hp. induction m as [|[k0 v0] m IH]; cbn; [reflexivity|].
  destruct (p k0) eqn:E; cbn.
  - destruct (String.eqb k k0); [reflexivity|exact IH].
  - destruct (String.eqb_spec k k0) as [->|N]; [congruence|exact IH].
Qed.

Lemma mem_str_In x l : mem_str x l = true <-> In x l.
Proof.
  induction l as [|y l IH]; cbn; [split; [discriminate|tauto]|].
  rewrite orb_true_iff, IH, String.eqb_eq. split; intros [H|H]; auto.
Qed.

(** * Filling in zero values *)
Section Fill.
  Context {E : Type} (name : E -> str) (zero : E -> value).

  Definition fill (l : list E) (d : list (str * value)) : list (str * value) :=
    fold_left (fun d e => if has_key (name e) d then d else map_set (name e) (zero e) d) l d.

  Fixpoint first_named (f : str) (l : list E) : option E :=
    match l with
    | [] => None
    | e :: rest => if String.eqb (name e) f then Some e else first_named f rest
    end.

  Lemma fill_lookup l : forall d f,
    lookup f (fill l d) =
    match lookup f d with
    | Some v => Some v
    | None => option_map zero (first_named f l)
    end.
  Proof.
    induction l as [|e l IH]; intros d f; cbn.
    - destruct (lookup f d); reflexivity.
    - unfold fill in IH. rewrite IH.
      destruct (has_key (name e) d) eqn:Hk.
      + destruct (lookup f d) eqn:El; [reflexivity|].
        destruct (String.eqb_spec (name e) f) as [Ee|N]; [|reflexivity].
        apply has_key_lookup in Hk. rewrite Ee in Hk. congruence.
      + rewrite lookup_map_set. rewrite String.eqb_sym.
        destruct (String.eqb_spec (name e) f) as [Ee|N].
        * apply has_key_false in Hk. rewrite Ee in Hk. rewrite Hk. reflexivity.
        * destruct (lookup f d); reflexivity.
  Qed.
End Fill.

Lemma first_named_lookup {A} (nm : A -> str) f (m : list (str * A)) :
  (forall k a, In (k, a) m -> k = nm a) ->
  first_named (fun kv : str * A => nm (snd kv)) f m =
  option_map (fun a => (f, a)) (lookup f m).
Proof.
  induction m as [|[k a] m IH]; intros Hw; cbn; [reflexivity|].
  assert (k = nm a) by (apply Hw; left; reflexivity). subst.
  rewrite String.eqb_sym. destruct (String.eqb_spec f (nm a)) as [->|N]; [reflexivity|].
  apply IH. intros k' a' Hin. apply Hw. right; exact Hin.
Qed.

(** * The data map after check() *)
Lemma soft_fields_keys t :
  wf_type t -> soft_fields t = map fst (tattrs t) ++ map fst (trels t).
Proof.
  intros [[_ Ha] [_ Hr]]. unfold soft_fields. f_equal; apply map_ext_in; intros [k x] Hin; cbn.
  - symmetry. apply (Ha k x Hin).
  - symmetry. apply (Hr k x Hin).
Qed.

Lemma check_type s : s_type (soft_check s) = s_type s.
Proof. reflexivity. Qed.

Lemma check_id s : s_id (soft_check s) = s_id s.
Proof. reflexivity. Qed.

Lemma check_lookup s f :
  wf_res_type (s_type s) -> is_field (s_type s) f ->
  lookup f (s_data (soft_check s)) =
  Some (match lookup f (s_data s) with Some v => v | None => field_zero (s_type s) f end).
Proof.
  intros [Hwf [Hdisj _]] Hf. set (t := s_type s) in *.
  destruct Hwf as [[Hna Ha] [Hnr Hr]].
  assert (Hwf : wf_type t) by (split; split; assumption).
  unfold soft_check. cbn [s_data]. fold t.
  assert (Hin : mem_str f (soft_fields t) = true).
  { apply mem_str_In. rewrite (soft_fields_keys t Hwf). apply in_or_app. exact Hf. }
  assert (Hl : lookup f (fill_rels t (fill_attrs t (s_data s))) =
               Some (match lookup f (s_data s) with Some v => v | None => field_zero t f end)).
  { unfold fill_rels, fill_attrs.
    change (fold_left _ (trels t) ?d) with
      (fill (fun kv : str * rel => from_name (snd kv))
            (fun kv => if to_one (snd kv) then VStr "" else VStrs false []) (trels t) d).
    rewrite fill_lookup.
    change (fold_left _ (tattrs t) ?d) with
      (fill (fun kv : str * attr => aname (snd kv))
            (fun kv => zero_value (acode (snd kv)) (anull (snd kv))) (tattrs t) d).
    rewrite fill_lookup.
    destruct (lookup f (s_data s)) as [v|]; [reflexivity|].
    rewrite (first_named_lookup aname f (tattrs t)) by (intros k a Hi; apply (Ha k a Hi)).
    rewrite (first_named_lookup from_name f (trels t)) by (intros k r Hi; apply (Hr k r Hi)).
    unfold field_zero.
    destruct (lookup f (tattrs t)) as [a|] eqn:Ea; cbn; [reflexivity|].
    destruct (lookup f (trels t)) as [r|] eqn:Er; cbn; [reflexivity|].
    exfalso. apply lookup_None_notin in Ea, Er. destruct Hf; contradiction. }
  destruct (Nat.ltb _ _); [|exact Hl].
  rewrite (lookup_filter_key (fun k => mem_str k (soft_fields t))); assumption.
Qed.

(** * Get / Set laws *)
Lemma soft_get_field s f :
  wf_res_type (s_type s) -> is_field (s_type s) f ->
  soft_get s f = match lookup f (s_data s) with Some v => v | None => field_zero (s_type s) f end.
Proof.
  intros Hw Hf. unfold soft_get. rewrite check_type. pose proof Hw as Hw0.
  destruct Hw as [Hwf [Hd [Hi1 Hi2]]].
  assert (f <> "id") by (intros ->; destruct Hf; contradiction).
  apply String.eqb_neq in H. rewrite H.
  assert (Hk : has_key f (tattrs (s_type s)) || has_key f (trels (s_type s)) = true).
  { apply orb_true_iff. destruct Hf; [left|right]; apply has_key_In; assumption. }
  rewrite Hk. rewrite check_lookup; [reflexivity|exact Hw0|exact Hf].
Qed.

Lemma soft_get_id s : soft_get s "id" = VStr (s_id s).
Proof. reflexivity. Qed.

Lemma soft_set_type s k v : s_type (soft_set s k v) = s_type s.
Proof.
  unfold soft_set. rewrite check_type.
  destruct (String.eqb k "id"); [reflexivity|].
  destruct (lookup k (tattrs (s_type s))) as [a|].
  - destruct (kind_of_value v) as [kk n].
    destruct (_ && _); [reflexivity|]. destruct v; try reflexivity. destruct (anull a); reflexivity.
  - destruct (lookup k (trels (s_type s))) as [r|]; [|reflexivity].
    destruct v; try reflexivity; destruct (to_one r); reflexivity.
Qed.

(** Well-typed Set calls: the value has exactly the declared Go type, or is
    the untyped nil for a nullable attribute; a string for the id and for
    to-one relationships, a string list for to-many ones. *)
Definition set_ok (t : type) (k : str) (v : value) : Prop :=
  (k = "id" /\ exists x, v = VStr x) \/
  (exists a, lookup k (tattrs t) = Some a /\
             (kind_of_value v = (acode a, anull a) \/ (v = VNil /\ anull a = true))) \/
  (exists r, lookup k (trels t) = Some r /\
             ((to_one r = true /\ exists x, v = VStr x) \/
              (to_one r = false /\ exists n l, v = VStrs n l))).

(** What a well-typed Set stores. *)
Definition stored (t : type) (k : str) (v : value) : value :=
  match v with VNil => field_zero t k | _ => v end.

Lemma soft_set_data s k v :
  wf_res_type (s_type s) -> k <> "id" -> set_ok (s_type s) k v ->
  s_data (soft_set s k v) = map_set k (stored (s_type s) k v) (s_data (soft_check s)) /\
  s_id (soft_set s k v) = s_id s.
Proof.
  intros Hw Hk Hok. unfold soft_set. rewrite check_type, check_id.
  apply String.eqb_neq in Hk. rewrite Hk.
  destruct Hw as [Hwf [Hdisj _]].
  destruct Hok as [[-> _]|[[a [Ea Hv]]|[r [Er Hv]]]].
  - rewrite String.eqb_refl in Hk. discriminate.
  - rewrite Ea. destruct Hv as [Hv|[-> Hn]].
    + rewrite Hv. rewrite Z.eqb_refl, Bool.eqb_reflx. cbn [andb s_data s_id].
      split; [|reflexivity]. f_equal. unfold stored. destruct v; try reflexivity.
      (* VNil cannot have an attribute kind *)
      cbn in Hv. injection Hv as H0 H1.
      destruct Hwf as [[_ Ha] _]. apply lookup_In in Ea.
      destruct (Ha _ _ Ea) as [_ [_ Hc]]. unfold valid_code in Hc. lia.
    + cbn [kind_of_value]. rewrite Hn.
      destruct (Z.eqb_spec (acode a) 0) as [E0|E0].
      * destruct Hwf as [[_ Ha] _]. apply lookup_In in Ea.
        destruct (Ha _ _ Ea) as [_ [_ Hc]]. unfold valid_code in Hc. lia.
      * cbn [andb s_data s_id]. split; [|reflexivity].
        unfold stored, field_zero. rewrite Ea, Hn. reflexivity.
  - assert (Ea : lookup k (tattrs (s_type s)) = None).
    { apply lookup_None_notin. intros Hin. apply (Hdisj k Hin).
      apply in_map_iff. exists (k, r). split; [reflexivity|apply lookup_In; exact Er]. }
    rewrite Ea, Er.
    destruct Hv as [[Ho [x ->]]|[Ho [n [l ->]]]]; rewrite Ho; cbn; split; reflexivity.
Qed.

Lemma soft_get_set_same s k v :
  wf_res_type (s_type s) -> is_field (s_type s) k -> set_ok (s_type s) k v ->
  soft_get (soft_set s k v) k = stored (s_type s) k v.
Proof.
  intros Hw Hf Hok.
  assert (Hk : k <> "id").
  { destruct Hw as [_ [_ [H1 H2]]]. intros ->. destruct Hf; contradiction. }
  destruct (soft_set_data s k v Hw Hk Hok) as [Hd _].
  rewrite soft_get_field; rewrite soft_set_type; try assumption.
  rewrite Hd, lookup_map_set_same. reflexivity.
Qed.

Lemma soft_get_set_other s k v f :
  wf_res_type (s_type s) -> is_field (s_type s) f -> f <> k -> k <> "id" ->
  set_ok (s_type s) k v ->
  soft_get (soft_set s k v) f = soft_get s f.
Proof.
  intros Hw Hf Hne Hk Hok.
  destruct (soft_set_data s k v Hw Hk Hok) as [Hd _].
  rewrite soft_get_field; rewrite soft_set_type; try assumption.
  rewrite Hd, lookup_map_set_other by exact Hne.
  rewrite check_lookup by assumption.
  rewrite soft_get_field by assumption. reflexivity.
Qed.

Lemma soft_set_id s x f :
  soft_get (soft_set s "id" (VStr x)) "id" = VStr x /\
  (wf_res_type (s_type s) -> is_field (s_type s) f ->
   soft_get (soft_set s "id" (VStr x)) f = soft_get s f).
Proof.
  split; [reflexivity|]. intros Hw Hf.
  assert (Ht : s_type (soft_set s "id" (VStr x)) = s_type s) by reflexivity.
  rewrite soft_get_field; rewrite Ht; try assumption.
  change (s_data (soft_set s "id" (VStr x))) with (s_data (soft_check s)).
  rewrite check_lookup by assumption.
  rewrite soft_get_field by assumption. reflexivity.
Qed.

Lemma soft_get_set_id_other s k v :
  wf_res_type (s_type s) -> k <> "id" -> set_ok (s_type s) k v ->
  soft_get (soft_set s k v) "id" = soft_get s "id".
Proof.
  intros Hw Hk Hok. rewrite !soft_get_id.
  destruct (soft_set_data s k v Hw Hk Hok) as [_ Hi]. rewrite Hi. reflexivity.
Qed.

Lemma soft_new_get t f :
  wf_res_type t -> is_field t f -> soft_get (soft_new t) f = field_zero t f.
Proof. intros Hw Hf. rewrite soft_get_field by assumption. reflexivity. Qed.
