(* C03: Include never makes a type/ID pair appear twice; shape of the
   marshaled document. *)
From Coq Require Import Lia.
From JV Require Import Model.Base Model.GoTime Gen.TypeGo Model.Schema Model.Value
  Model.Strconv Model.Json Model.SoftRes Model.Wrapper Model.Resource Model.Marshal
  Model.Unmarshal Model.Document.
Open Scope list_scope.

(** * Include *)
Definition readable_id (r : resource) : Prop := get_str r "id" = Ok (rid r).

Definition key_of (r : resource) : str := (rid r ++ " " ++ res_type_name r)%string.

Definition primary (d : document) : list resource :=
  match d_data d with DRes r => [r] | DCol _ l => l | _ => [] end.

Definition all_keys (d : document) : list str :=
  map key_of (primary d) ++ map key_of (d_included d).

Lemma inc_key_readable r : readable_id r -> inc_key r = Ok (key_of r).
Proof. intros H. unfold inc_key. rewrite H. reflexivity. Qed.

Lemma has_inc_key_spec k l :
  Forall readable_id l ->
  exists b, has_inc_key k l = Ok b /\ (b = true <-> In k (map key_of l)).
Proof.
  induction 1 as [|r l Hr _ IH]; cbn.
  - exists false. split; [reflexivity|]. split; [discriminate|tauto].
  - rewrite (inc_key_readable r Hr). cbn.
    destruct (String.eqb_spec k (key_of r)) as [->|N].
    + exists true. split; [reflexivity|]. split; auto.
    + destruct IH as [b [Hb Hiff]]. exists b. split; [exact Hb|].
      rewrite Hiff. split; [auto|]. intros [E|H]; [congruence|exact H].
Qed.

Lemma include_spec d r :
  Forall readable_id (primary d) -> Forall readable_id (d_included d) -> readable_id r ->
  exists d', include d r = Ok d' /\ d_data d' = d_data d /\
    ((In (key_of r) (all_keys d) /\ d_included d' = d_included d) \/
     (~ In (key_of r) (all_keys d) /\ d_included d' = d_included d ++ [r])).
Proof.
  intros Hp Hi Hr. unfold include. rewrite (inc_key_readable r Hr). cbn [bind].
  assert (Hprim : exists b,
            match d_data d with
            | DRes dr => bind (inc_key dr) (fun k => Ok (String.eqb k (key_of r)))
            | DCol _ l => has_inc_key (key_of r) l
            | _ => Ok false
            end = Ok b /\ (b = true <-> In (key_of r) (map key_of (primary d)))).
  { unfold primary in *. destruct (d_data d) as [|dr|ct l| | |].
    - exists false. split; [reflexivity|]. cbn. split; [discriminate|tauto].
    - inversion Hp as [|? ? Hdr _]; subst. rewrite (inc_key_readable dr Hdr). cbn.
      exists (String.eqb (key_of dr) (key_of r)). split; [reflexivity|].
      rewrite String.eqb_eq. split; [intros ->; auto|intros [H|[]]; auto].
    - apply has_inc_key_spec. exact Hp.
    - exists false. split; [reflexivity|]. cbn. split; [discriminate|tauto].
    - exists false. split; [reflexivity|]. cbn. split; [discriminate|tauto].
    - exists false. split; [reflexivity|]. cbn. split; [discriminate|tauto]. }
  destruct Hprim as [b [Hb Hbiff]]. rewrite Hb. cbn [bind].
  destruct b.
  - exists d. split; [reflexivity|]. split; [reflexivity|]. left. split; [|reflexivity].
    unfold all_keys. apply in_or_app. left. apply Hbiff. reflexivity.
  - destruct (has_inc_key_spec (key_of r) (d_included d) Hi) as [b2 [Hb2 Hb2iff]].
    rewrite Hb2. cbn [bind]. destruct b2.
    + exists d. split; [reflexivity|]. split; [reflexivity|]. left. split; [|reflexivity].
      unfold all_keys. apply in_or_app. right. apply Hb2iff. reflexivity.
    + eexists. split; [reflexivity|]. split; [reflexivity|]. right. split; [|reflexivity].
      unfold all_keys. intros H. apply in_app_or in H. destruct H as [H|H].
      * apply Hbiff in H. discriminate.
      * apply Hb2iff in H. discriminate.
Qed.

Lemma NoDup_app_snoc {A} (l1 l2 : list A) x :
  NoDup (l1 ++ l2) -> ~ In x (l1 ++ l2) -> NoDup (l1 ++ l2 ++ [x]).
Proof.
  intros Hn Hx. rewrite app_assoc.
  induction (l1 ++ l2) as [|a l IH]; cbn in *.
  - constructor; [tauto|constructor].
  - inversion Hn as [|? ? Ha Hd]; subst. constructor.
    + rewrite in_app_iff. cbn. intros [H|[H|[]]]; [contradiction|]. apply Hx. left. symmetry. exact H.
    + apply IH; [exact Hd|]. intros H. apply Hx. right. exact H.
Qed.

Lemma include_keeps_nodup d r d' :
  Forall readable_id (primary d) -> Forall readable_id (d_included d) -> readable_id r ->
  NoDup (all_keys d) -> include d r = Ok d' ->
  NoDup (all_keys d') /\ primary d' = primary d /\ Forall readable_id (d_included d').
Proof.
  intros Hp Hi Hr Hn He.
  destruct (include_spec d r Hp Hi Hr) as [d2 [He2 [Hdata Hcases]]].
  rewrite He in He2. injection He2 as <-.
  assert (Hprim : primary d' = primary d) by (unfold primary; rewrite Hdata; reflexivity).
  destruct Hcases as [[_ Hinc]|[Hnot Hinc]].
  - unfold all_keys. rewrite Hprim, Hinc. auto.
  - split; [|split; [exact Hprim|]].
    + unfold all_keys in *. rewrite Hprim, Hinc, map_app. cbn [map].
      apply NoDup_app_snoc; assumption.
    + rewrite Hinc. apply Forall_app. split; [exact Hi|]. constructor; [exact Hr|constructor].
Qed.

(** every history of Include calls *)
Fixpoint include_all (d : document) (l : list resource) : res document :=
  match l with
  | [] => Ok d
  | r :: rest => bind (include d r) (fun d' => include_all d' rest)
  end.

Lemma include_all_nodup l : forall d,
  Forall readable_id (primary d) -> Forall readable_id (d_included d) -> Forall readable_id l ->
  NoDup (all_keys d) ->
  exists d', include_all d l = Ok d' /\ NoDup (all_keys d') /\ primary d' = primary d.
Proof.
  induction l as [|r l IH]; intros d Hp Hi Hl Hn.
  - exists d. cbn. auto.
  - inversion Hl as [|? ? Hr Hl']; subst.
    destruct (include_spec d r Hp Hi Hr) as [d1 [He1 _]].
    destruct (include_keeps_nodup d r d1 Hp Hi Hr Hn He1) as [Hn1 [Hp1 Hi1]].
    destruct (IH d1) as [d' [He' [Hn' Hp']]]; try assumption.
    { rewrite Hp1. exact Hp. }
    exists d'. cbn. rewrite He1. cbn. split; [exact He'|]. split; [exact Hn'|congruence].
Qed.

(** a type/ID pair determines the key *)
Lemma same_pair_same_key r1 r2 :
  rid r1 = rid r2 -> res_type_name r1 = res_type_name r2 -> key_of r1 = key_of r2.
Proof. unfold key_of. intros -> ->. reflexivity. Qed.

(** * Shape of the output *)
Definition jmember (k : str) (j : json) : option json :=
  match j with JObj m => lookup k m | _ => None end.
Definition jhas (k : str) (j : json) : bool :=
  match jmember k j with Some _ => true | None => false end.

Lemma marshal_document_shape e d fields self j :
  marshal_document e d fields self = Ok j ->
  jhas "jsonapi" j = true /\
  jmember "links" j = Some (JObj [("self", jstr self)]) /\
  (jhas "data" j && jhas "errors" j = false) /\
  (jhas "included" j = true -> jhas "data" j = true).
Proof.
  unfold marshal_document.
  destruct (marshal_data e d fields) as [data| |]; cbn [bind]; try discriminate.
  destruct (match d_included d, data with
            | _ :: _, Some _ => _ | _, _ => _ end) as [incs| |]; cbn [bind]; try discriminate.
  intros H. injection H as <-.
  destruct (d_errors d) as [|e0 es]; destruct data as [dj|]; destruct incs as [|i0 is0];
    destruct (d_meta d) as [|m0 ms]; cbn; repeat split; try reflexivity; try discriminate.
Qed.

Lemma marshal_rel_shape r prepath tn id want x j :
  marshal_rel r prepath tn id want x = Ok j ->
  jmember "links" j = Some (rel_links prepath tn id (from_name x)) /\
  (jmember "data" j = None \/
   jmember "data" j = Some JNull \/
   (exists rid0, jmember "data" j = Some (identifier_json rid0 (to_type x))) \/
   (exists ids, jmember "data" j = Some (JArr (map (fun i => identifier_json i (to_type x)) ids)))).
Proof.
  unfold marshal_rel. destruct want; cbn [negb].
  - destruct (to_one x).
    + destruct (get_str r (from_name x)) as [rid0| |]; cbn [bind]; try discriminate.
      intros H; injection H as <-. split; [reflexivity|].
      destruct (String.eqb rid0 ""); [right; left; reflexivity|right; right; left; eexists; reflexivity].
    + destruct (get_strs r (from_name x)) as [ids| |]; cbn [bind]; try discriminate.
      intros H; injection H as <-. split; [reflexivity|]. right; right; right. eexists. reflexivity.
  - intros H; injection H as <-. split; [reflexivity|left; reflexivity].
Qed.

Lemma rel_links_shape prepath tn id rel :
  jmember "self" (rel_links prepath tn id rel)
    = Some (jstr (self_link prepath tn id ++ "/relationships/" ++ rel)%string) /\
  jmember "related" (rel_links prepath tn id rel)
    = Some (jstr (self_link prepath tn id ++ "/" ++ rel)%string).
Proof. split; reflexivity. Qed.

Lemma marshal_resource_shape e r prepath fields reldata j :
  marshal_resource e r prepath fields reldata = Ok j ->
  exists id, get_str r "id" = Ok id /\
    jmember "id" j = Some (jstr id) /\
    jmember "type" j = Some (jstr (res_type_name r)) /\
    jmember "links" j = Some (JObj [("self", jstr (self_link prepath (res_type_name r) id))]).
Proof.
  unfold marshal_resource.
  destruct (get_str r "id") as [id| |]; cbn [bind]; try discriminate.
  destruct (marshal_attrs _ _ _ _ _) as [attrs| |]; cbn [bind]; try discriminate.
  destruct (marshal_rels _ _ _ _ _ _ _ _) as [rels| |]; cbn [bind]; try discriminate.
  intros H; injection H as <-. exists id. split; [reflexivity|].
  destruct attrs, rels; cbn; repeat split; reflexivity.
Qed.

(** the self link is the prefix, the type and the id *)
Lemma self_link_spec prepath tn id :
  id <> "" -> tn <> "" ->
  self_link prepath tn id =
  ((if has_suffix_slash prepath then prepath else prepath ++ "/") ++ tn ++ "/" ++ id)%string.
Proof.
  intros H1 H2. unfold self_link.
  apply String.eqb_neq in H1, H2. rewrite H1, H2. reflexivity.
Qed.
