(* C15: Check returns no error exactly for coherent schemas, and at least one
   error per offending relationship. *)
From Coq Require Import Lia.
From JV Require Import Model.Base Gen.TypeGo Model.Schema Model.C15 Proofs.BaseFacts.

(** * Specification, written from the property text *)
Definition target_exists (s : schema) (r : rel) : Prop :=
  to_type r <> "" /\ exists t', In t' (types s) /\ tname t' = to_type r.

Definition reciprocated (s : schema) (r : rel) : Prop :=
  exists k' r', In (k', r') (trels (get_type s (to_type r)))
                /\ to_name r' = from_name r /\ from_name r' = to_name r.

Definition rel_ok (s : schema) (t : type) (r : rel) : Prop :=
  target_exists s r /\
  (to_name r <> "" -> from_type r = tname t /\ reciprocated s r).

Definition coherent (s : schema) : Prop :=
  forall t k r, In t (types s) -> In (k, r) (trels t) -> rel_ok s t r.

(** * get_type *)
Lemma get_type_in_name ts n :
  tname (get_type_in ts n) = n \/ (tname (get_type_in ts n) = "" /\ forall t, In t ts -> tname t <> n).
Proof.
  induction ts as [|t ts IH]; cbn; [right; split; [reflexivity|tauto]|].
  destruct (String.eqb (tname t) n) eqn:E.
  - left. apply String.eqb_eq. exact E.
  - destruct IH as [IH|[IH1 IH2]]; [left; exact IH|].
    right. split; [exact IH1|]. intros t' [<-|H]; [apply String.eqb_neq; exact E|auto].
Qed.

Lemma get_type_in_In ts n :
  tname (get_type_in ts n) <> "" -> In (get_type_in ts n) ts.
Proof.
  induction ts as [|t ts IH]; cbn; [congruence|].
  destruct (String.eqb (tname t) n); auto.
Qed.

Lemma target_exists_iff s r :
  target_exists s r <-> tname (get_type s (to_type r)) <> "".
Proof.
  unfold target_exists, get_type. split.
  - intros [Hne [t' [Hin Hn]]].
    destruct (get_type_in_name (types s) (to_type r)) as [H|[_ H]].
    + congruence.
    + exfalso. eapply H; eauto.
  - intros H.
    destruct (get_type_in_name (types s) (to_type r)) as [H'|[H' _]]; [|congruence].
    split; [congruence|].
    exists (get_type_in (types s) (to_type r)). split; [|exact H'].
    apply get_type_in_In. exact H.
Qed.

Lemma reciprocated_iff s r :
  reciprocated s r <->
  existsb (fun kv => points_back r (snd kv)) (trels (get_type s (to_type r))) = true.
Proof.
  unfold reciprocated, points_back. rewrite existsb_exists. split.
  - intros [k' [r' [Hin [H1 H2]]]]. exists (k', r'). split; [exact Hin|]. cbn.
    rewrite H1, H2, !String.eqb_refl. reflexivity.
  - intros [[k' r'] [Hin H]]. cbn in H. apply andb_true_iff in H. destruct H as [H1 H2].
    apply String.eqb_eq in H1, H2. exists k', r'. auto.
Qed.

(** * One relationship *)
Lemma check_rel_nil_iff s t r : check_rel s t r = [] <-> rel_ok s t r.
Proof.
  unfold check_rel, rel_ok. rewrite target_exists_iff, reciprocated_iff.
  destruct (String.eqb (tname (get_type s (to_type r))) "") eqn:E1.
  - apply String.eqb_eq in E1. split; [discriminate|]. intros [H _]. congruence.
  - apply String.eqb_neq in E1. cbn.
    destruct (String.eqb (to_name r) "") eqn:E2.
    + apply String.eqb_eq in E2. split; [|reflexivity]. intros _. split; [exact E1|congruence].
    + apply String.eqb_neq in E2.
      destruct (String.eqb (from_type r) (tname t)) eqn:E3; cbn.
      * apply String.eqb_eq in E3.
        destruct (existsb _ _) eqn:E4.
        -- split; [|reflexivity]. intros _. auto.
        -- split; [discriminate|]. intros [_ H]. destruct (H E2) as [_ H']. congruence.
      * apply String.eqb_neq in E3. split; [discriminate|].
        intros [_ H]. destruct (H E2) as [H' _]. congruence.
Qed.

(** * The whole schema *)
Lemma flat_map_nil {A B} (f : A -> list B) l :
  flat_map f l = [] <-> forall x, In x l -> f x = [].
Proof.
  induction l as [|a l IH]; cbn; [tauto|].
  split.
  - intros H. apply app_eq_nil in H. destruct H as [H1 H2].
    intros x [<-|Hx]; [exact H1|]. apply IH; assumption.
  - intros H. rewrite (H a (or_introl eq_refl)). cbn. apply IH. auto.
Qed.

Lemma check_nil_iff_coherent s : check s = [] <-> coherent s.
Proof.
  unfold check, coherent. rewrite flat_map_nil. split.
  - intros H t k r Ht Hr. apply check_rel_nil_iff.
    specialize (H t Ht). rewrite flat_map_nil in H. exact (H (k, r) Hr).
  - intros H t Ht. apply flat_map_nil. intros [k r] Hr. cbn.
    apply check_rel_nil_iff. eauto.
Qed.

(** Every error produced for one relationship is in the result. *)
Lemma check_rel_incl s t k r :
  In t (types s) -> In (k, r) (trels t) -> incl (check_rel s t r) (check s).
Proof.
  intros Ht Hr e He. unfold check. apply in_flat_map. exists t. split; [exact Ht|].
  apply in_flat_map. exists (k, r). auto.
Qed.

Lemma offending_reported s t k r :
  In t (types s) -> In (k, r) (trels t) -> ~ rel_ok s t r ->
  exists e, In e (check_rel s t r) /\ In e (check s).
Proof.
  intros Ht Hr Hn. destruct (check_rel s t r) as [|e l] eqn:E.
  - exfalso. apply Hn. apply check_rel_nil_iff. exact E.
  - exists e. split; [left; reflexivity|].
    eapply check_rel_incl; eauto. rewrite E. left; reflexivity.
Qed.

(** Counting: at least one error per offending relationship occurrence. *)
Definition rel_okb (s : schema) (t : type) (r : rel) : bool :=
  match check_rel s t r with [] => true | _ => false end.

Lemma rel_okb_spec s t r : rel_okb s t r = true <-> rel_ok s t r.
Proof.
  unfold rel_okb. rewrite <- check_rel_nil_iff.
  destruct (check_rel s t r); split; congruence.
Qed.

Definition offending_count (s : schema) : nat :=
  list_sum (map (fun t => length (filter (fun kv => negb (rel_okb s t (snd kv))) (trels t))) (types s)).

Lemma length_flat_map {A B} (f : A -> list B) l :
  length (flat_map f l) = list_sum (map (fun x => length (f x)) l).
Proof.
  induction l as [|a l IH]; [reflexivity|].
  cbn [flat_map map]. rewrite app_length, IH. reflexivity.
Qed.

Lemma list_sum_le {A} (f g : A -> nat) l :
  (forall x, In x l -> f x <= g x) -> list_sum (map f l) <= list_sum (map g l).
Proof.
  induction l as [|a l IH]; intros H; [cbn; lia|].
  pose proof (H a (or_introl eq_refl)).
  assert (list_sum (map f l) <= list_sum (map g l)) by (apply IH; intros; apply H; right; assumption).
  unfold list_sum in *. cbn [map fold_right]. lia.
Qed.

Lemma check_length_ge s : offending_count s <= length (check s).
Proof.
  unfold offending_count, check. rewrite length_flat_map.
  apply list_sum_le. intros t _. rewrite length_flat_map.
  induction (trels t) as [|[k r] l IH]; [cbn; lia|].
  cbn [filter map snd list_sum fold_right]. unfold list_sum in IH.
  unfold rel_okb at 1. destruct (check_rel s t r) eqn:E; cbn [negb length]; lia.
Qed.
