(* C13: partial unmarshaling accepts exactly what full unmarshaling accepts
   (soft types), and reports the payload's fields. *)
From Coq Require Import Lia.
From JV Require Import Model.Base Model.GoTime Gen.TypeGo Model.Schema Model.Value
  Model.Strconv Model.Json Model.Attr Model.SoftRes Model.Wrapper Model.Resource
  Model.Unmarshal Model.C14.
Open Scope list_scope.

Definition class {A} (r : res A) : nat :=
  match r with Ok _ => 0 | Err => 1 | Panic => 2 end.

Lemma class_bind {A B} (r : res A) (f : A -> res B) :
  class (bind r f) = match r with Ok a => class (f a) | Err => 1 | Panic => 2 end.
Proof. destruct r; reflexivity. Qed.

(** Both loops walk the same list and stop at the same member. *)
Lemma attrs_same_class e t l : forall (s : soft) (p : soft),
  class (set_attrs e t (RSoft s) l) = class (partial_attrs e t p l).
Proof.
  induction l as [|[k v] l IH]; intros s p; cbn; [reflexivity|].
  destruct (lookup k (tattrs t)) as [a|]; [|reflexivity].
  destruct (unmarshal_to_type e a v); cbn; try reflexivity.
  apply IH.
Qed.

Lemma rels_same_class t l : forall (s : soft) (p : soft),
  class (set_rels t (RSoft s) l) = class (partial_rels t p l).
Proof.
  induction l as [|[k rs] l IH]; intros s p; cbn; [reflexivity|].
  destruct (lookup k (trels t)) as [x|]; [|reflexivity].
  destruct (rs_data rs) as [d|]; [|apply IH].
  destruct (to_one x).
  - destruct (dec_identifier d); [cbn; apply IH|reflexivity].
  - destruct (dec_identifiers d); [cbn; apply IH|reflexivity].
Qed.

Lemma set_attrs_soft e t l : forall s r,
  set_attrs e t (RSoft s) l = Ok r -> exists s', r = RSoft s'.
Proof.
  induction l as [|[k v] l IH]; intros s r; cbn.
  - intros H; inversion H. eauto.
  - destruct (lookup k (tattrs t)) as [a|]; [|discriminate].
    destruct (unmarshal_to_type e a v); cbn; try discriminate. apply IH.
Qed.

(** Schemas all of whose types are soft (no NewFunc). *)
Definition all_soft (s : sch) : Prop := sch_wrapped s = [].

Lemma accept_same_class e s j :
  all_soft s -> class (unmarshal_partial e s j) = class (unmarshal_resource e s j).
Proof.
  intros Hs. unfold unmarshal_partial, unmarshal_resource.
  destruct (dec_resske j) as [k|]; [|reflexivity].
  destruct (String.eqb _ ""); [reflexivity|].
  unfold type_new. rewrite Hs. cbn [lookup bind res_set].
  set (t := get_type (sch_schema s) (k_type k)).
  rewrite !class_bind.
  pose proof (attrs_same_class e t (k_attrs k)
                (soft_set (soft_new t) "id" (VStr (k_id k)))
                (mkSoft (mkType (tname t) [] []) (k_id k) [])) as Ha.
  destruct (set_attrs e t _ (k_attrs k)) as [r2| |] eqn:E2;
  destruct (partial_attrs e t _ (k_attrs k)) as [p2| |] eqn:E3; cbn in Ha; try discriminate; try reflexivity.
  destruct (set_attrs_soft _ _ _ _ _ E2) as [s2 ->].
  symmetry. apply rels_same_class.
Qed.

Lemma accept_iff e s j :
  all_soft s ->
  (is_ok (unmarshal_partial e s j) = is_ok (unmarshal_resource e s j)) /\
  (is_panic (unmarshal_partial e s j) = is_panic (unmarshal_resource e s j)).
Proof.
  intros Hs. pose proof (accept_same_class e s j Hs) as H.
  destruct (unmarshal_partial e s j), (unmarshal_resource e s j); cbn in *; try discriminate; auto.
Qed.

(** The partial type's name is the schema type's name. *)
Lemma partial_attrs_tname e t l : forall p p',
  partial_attrs e t p l = Ok p' -> tname (s_type p') = tname (s_type p).
Proof.
  induction l as [|[k v] l IH]; intros p p'; cbn.
  - intros H; inversion H. reflexivity.
  - destruct (lookup k (tattrs t)) as [a|]; [|discriminate].
    destruct (unmarshal_to_type e a v) as [val| |]; cbn; try discriminate.
    intros H. rewrite (IH _ _ H).
    assert (Hs : forall s k v, tname (s_type (soft_set s k v)) = tname (s_type s)).
    { intros s0 k0 v0. unfold soft_set. cbn.
      destruct (String.eqb k0 "id"); [reflexivity|].
      destruct (lookup k0 (tattrs (s_type s0))) as [a0|].
      - destruct (kind_of_value v0) as [kk n]. destruct (_ && _); [reflexivity|].
        destruct v0; try reflexivity. destruct (anull a0); reflexivity.
      - destruct (lookup k0 (trels (s_type s0))) as [r0|]; [|reflexivity].
        destruct v0; try reflexivity; destruct (to_one r0); reflexivity. }
    rewrite Hs. cbn. unfold type_add_attr. destruct (type_check_attr _ _); reflexivity.
Qed.

Lemma partial_rels_tname t l : forall p p',
  partial_rels t p l = Ok p' -> tname (s_type p') = tname (s_type p).
Proof.
  assert (Hs : forall s k v, tname (s_type (soft_set s k v)) = tname (s_type s)).
  { intros s0 k0 v0. unfold soft_set. cbn.
    destruct (String.eqb k0 "id"); [reflexivity|].
    destruct (lookup k0 (tattrs (s_type s0))) as [a0|].
    - destruct (kind_of_value v0) as [kk n]. destruct (_ && _); [reflexivity|].
      destruct v0; try reflexivity. destruct (anull a0); reflexivity.
    - destruct (lookup k0 (trels (s_type s0))) as [r0|]; [|reflexivity].
      destruct v0; try reflexivity; destruct (to_one r0); reflexivity. }
  induction l as [|[k rs] l IH]; intros p p'; cbn.
  - intros H; inversion H. reflexivity.
  - destruct (lookup k (trels t)) as [x|]; [|discriminate].
    destruct (rs_data rs) as [d|]; [|apply IH].
    destruct (to_one x).
    + destruct (dec_identifier d); [|discriminate]. intros H. rewrite (IH _ _ H), Hs. cbn.
      unfold type_add_rel. destruct (type_check_rel _ _); reflexivity.
    + destruct (dec_identifiers d); [|discriminate]. intros H. rewrite (IH _ _ H), Hs. cbn.
      unfold type_add_rel. destruct (type_check_rel _ _); reflexivity.
Qed.

Lemma partial_type_name e s j p :
  unmarshal_partial e s j = Ok p ->
  exists k, dec_resske j = Some k /\
            tname (s_type p) = tname (get_type (sch_schema s) (k_type k)) /\
            tname (s_type p) <> "".
Proof.
  unfold unmarshal_partial. destruct (dec_resske j) as [k|]; [|discriminate].
  destruct (String.eqb_spec (tname (get_type (sch_schema s) (k_type k))) "") as [E|N]; [discriminate|].
  destruct (partial_attrs _ _ _ _) as [p1| |] eqn:E1; cbn; try discriminate.
  intros H. exists k. split; [reflexivity|].
  rewrite (partial_rels_tname _ _ _ _ H), (partial_attrs_tname _ _ _ _ _ E1). cbn. auto.
Qed.

(** * The partial type holds exactly the fields present in the payload *)
From JV Require Import Proofs.MapFacts Proofs.C14Facts Proofs.SoftFacts.

Lemma soft_set_type_eq s k v : s_type (soft_set s k v) = s_type s.
Proof. apply soft_set_type. Qed.

Lemma add_attr_keys pt a n :
  aname a <> "" -> valid_code (acode a) ->
  (In n (map fst (tattrs (snd (type_add_attr pt a)))) <->
   n = aname a \/ In n (map fst (tattrs pt))) \/
  (attr_name_used pt (aname a) = true /\ tattrs (snd (type_add_attr pt a)) = tattrs pt).
Proof.
  intros Hn Hv. unfold type_add_attr, type_check_attr.
  apply String.eqb_neq in Hn. rewrite Hn. apply valid_code_iff in Hv. rewrite Hv. cbn [negb andb].
  destruct (attr_name_used pt (aname a)) eqn:E; cbn [negb snd tattrs].
  - right. auto.
  - left. apply map_set_keys.
Qed.

Definition attrs_from (t : type) (m : list (str * attr)) : Prop :=
  forall k a, In (k, a) m -> lookup k (tattrs t) = Some a.

Lemma partial_attrs_spec e t l : wf_type t -> forall p p',
  attrs_from t (tattrs (s_type p)) -> NoDup (map fst (tattrs (s_type p))) ->
  partial_attrs e t p l = Ok p' ->
  attrs_from t (tattrs (s_type p')) /\ NoDup (map fst (tattrs (s_type p'))) /\
  trels (s_type p') = trels (s_type p) /\
  forall n, In n (map fst (tattrs (s_type p'))) <->
            In n (map fst (tattrs (s_type p))) \/ In n (map fst l).
Proof.
  intros Hwf. induction l as [|[k v] l IH]; intros p p' Hfrom Hnd; cbn [partial_attrs].
  - intros H; inversion H; subst. repeat split; auto. intros [?|[]]; assumption.
  - destruct (lookup k (tattrs t)) as [a|] eqn:Ea; [|discriminate].
    destruct (unmarshal_to_type e a v) as [val| |]; cbn [bind]; try discriminate.
    intros H.
    pose proof Hwf as Hwf'. unfold wf_type, wf_attrs in Hwf'. destruct Hwf' as [[Hna Ha] Hr]. pose proof (lookup_In _ _ _ Ea) as Hin.
    destruct (Ha _ _ Hin) as [Hk [Hne Hvc]]. subst k.
    set (nt := snd (type_add_attr (s_type p) a)) in *.
    assert (Hnt_from : attrs_from t (tattrs nt)).
    { unfold nt, type_add_attr. destruct (type_check_attr (s_type p) a); cbn; [|exact Hfrom].
      intros k0 a0 Hi. apply (map_set_In _ _ _ _ _ Hnd) in Hi.
      destruct Hi as [[-> ->]|[_ Hi]]; [exact Ea|apply Hfrom; exact Hi]. }
    assert (Hnt_nd : NoDup (map fst (tattrs nt))).
    { unfold nt, type_add_attr. destruct (type_check_attr (s_type p) a); cbn; [|exact Hnd].
      apply map_set_NoDup. exact Hnd. }
    assert (Hnt_rels : trels nt = trels (s_type p)).
    { unfold nt, type_add_attr. destruct (type_check_attr (s_type p) a); reflexivity. }
    specialize (IH (soft_set (mkSoft nt (s_id p) (s_data p)) (aname a) val) p').
    rewrite soft_set_type_eq in IH. cbn [s_type] in IH.
    destruct (IH Hnt_from Hnt_nd H) as [H1 [H2 [H3 H4]]].
    split; [exact H1|]. split; [exact H2|]. split; [congruence|].
    intros n. rewrite H4. cbn [map fst].
    destruct (add_attr_keys (s_type p) a n Hne Hvc) as [Hkeys|[Hused Hsame]]; fold nt in Hkeys || fold nt in Hsame.
    + rewrite Hkeys. cbn. intuition.
    + fold nt in Hsame. rewrite Hsame. cbn.
      assert (In (aname a) (map fst (tattrs (s_type p)))).
      { unfold attr_name_used in Hused. apply existsb_exists in Hused.
        destruct Hused as [[k0 a0] [Hi0 He0]]. cbn in He0. apply String.eqb_eq in He0.
        pose proof (Hfrom _ _ Hi0) as Hl. apply lookup_In in Hl.
        destruct (Ha _ _ Hl) as [-> _]. rewrite <- He0.
        apply in_map_iff. exists (aname a0, a0). auto. }
      split; intros Hx; intuition; subst; auto.
Qed.

Lemma partial_rels_attrs t l : forall p p',
  partial_rels t p l = Ok p' -> tattrs (s_type p') = tattrs (s_type p).
Proof.
  induction l as [|[k rs] l IH]; intros p p'; cbn.
  - intros H; inversion H. reflexivity.
  - destruct (lookup k (trels t)) as [x|]; [|discriminate].
    destruct (rs_data rs) as [d|]; [|apply IH].
    assert (Ht : tattrs (snd (type_add_rel (s_type p) x)) = tattrs (s_type p)).
    { unfold type_add_rel. destruct (type_check_rel _ _); reflexivity. }
    destruct (to_one x).
    + destruct (dec_identifier d); [|discriminate]. intros H.
      rewrite (IH _ _ H), soft_set_type_eq. exact Ht.
    + destruct (dec_identifiers d); [|discriminate]. intros H.
      rewrite (IH _ _ H), soft_set_type_eq. exact Ht.
Qed.

(** Attributes of the partial type: exactly the keys of the payload's
    attributes object, each with the schema's definition. *)
Lemma partial_attrs_exact e s j p :
  unmarshal_partial e s j = Ok p ->
  exists k, dec_resske j = Some k /\
    (wf_type (get_type (sch_schema s) (k_type k)) ->
     (forall n, In n (map fst (tattrs (s_type p))) <-> In n (map fst (k_attrs k))) /\
     (forall n a, In (n, a) (tattrs (s_type p)) ->
                  lookup n (tattrs (get_type (sch_schema s) (k_type k))) = Some a)).
Proof.
  unfold unmarshal_partial. destruct (dec_resske j) as [k|]; [|discriminate].
  destruct (String.eqb _ ""); [discriminate|].
  destruct (partial_attrs _ _ _ _) as [p1| |] eqn:E1; cbn [bind]; try discriminate.
  intros H. exists k. split; [reflexivity|]. intros Hwf.
  set (t := get_type (sch_schema s) (k_type k)) in *.
  assert (H0 : attrs_from t (tattrs (s_type (mkSoft (mkType (tname t) [] []) (k_id k) [])))).
  { unfold attrs_from. cbn. intros ? ? []. }
  assert (H1 : NoDup (map fst (tattrs (s_type (mkSoft (mkType (tname t) [] []) (k_id k) []))))) by constructor.
  destruct (partial_attrs_spec e t (k_attrs k) Hwf _ _ H0 H1 E1) as [Hfrom [_ [_ Hkeys]]].
  rewrite (partial_rels_attrs _ _ _ _ H). split.
  - intros n. rewrite Hkeys. cbn. tauto.
  - exact Hfrom.
Qed.
