(* C04: sparse fieldsets and relationship data are honoured exactly. *)
From Coq Require Import Lia Permutation.
From JV Require Import Model.Base Model.GoTime Gen.TypeGo Model.Schema Model.Value
  Model.Strconv Model.Json Model.SoftRes Model.Wrapper Model.Resource Model.Marshal
  Model.Unmarshal Model.Document Proofs.BaseFacts Proofs.MapFacts Proofs.C03Facts.
Open Scope list_scope.

(** attribute members: exactly the type's attributes that the selection lists *)
Lemma marshal_attrs_keys e r fields attrs : forall acc l,
  marshal_attrs e r fields attrs acc = Ok l ->
  forall n, In n (map fst l) <->
            In n (map fst acc) \/
            (exists k a, In (k, a) attrs /\ aname a = n /\ mem_str n fields = true).
Proof.
  induction attrs as [|[k a] attrs IH]; intros acc l; cbn.
  - intros H; injection H as <-. intros n. split; [auto|]. intros [H|[? [? [[] _]]]]; exact H.
  - destruct (mem_str (aname a) fields) eqn:Em.
    + destruct (res_get r (aname a)) as [v| |]; cbn [bind]; try discriminate.
      intros H n. rewrite (IH _ _ H n), map_set_keys. split.
      * intros [[->|Hacc]|[k' [a' [Hin [Hn Hm]]]]].
        -- right. exists k, a. split; [left; reflexivity|auto].
        -- left. exact Hacc.
        -- right. exists k', a'. split; [right; exact Hin|auto].
      * intros [Hacc|[k' [a' [[Heq|Hin] [Hn Hm]]]]].
        -- left. right. exact Hacc.
        -- inversion Heq; subst. left. left. reflexivity.
        -- right. exists k', a'. auto.
    + intros H n. rewrite (IH _ _ H n). split.
      * intros [Hacc|[k' [a' [Hin [Hn Hm]]]]]; [left; exact Hacc|].
        right. exists k', a'. split; [right; exact Hin|auto].
      * intros [Hacc|[k' [a' [[Heq|Hin] [Hn Hm]]]]]; [left; exact Hacc| |].
        -- inversion Heq; subst. congruence.
        -- right. exists k', a'. auto.
Qed.

(** relationship members *)
Lemma marshal_rels_keys r prepath tn id fields want rels : forall acc l,
  marshal_rels r prepath tn id fields want rels acc = Ok l ->
  forall n, In n (map fst l) <->
            In n (map fst acc) \/
            (exists k x, In (k, x) rels /\ from_name x = n /\ mem_str n fields = true).
Proof.
  induction rels as [|[k x] rels IH]; intros acc l; cbn.
  - intros H; injection H as <-. intros n. split; [auto|]. intros [H|[? [? [[] _]]]]; exact H.
  - destruct (mem_str (from_name x) fields) eqn:Em.
    + destruct (marshal_rel _ _ _ _ _ _) as [j| |]; cbn [bind]; try discriminate.
      intros H n. rewrite (IH _ _ H n), map_set_keys. split.
      * intros [[->|Hacc]|[k' [x' [Hin [Hn Hm]]]]].
        -- right. exists k, x. split; [left; reflexivity|auto].
        -- left. exact Hacc.
        -- right. exists k', x'. split; [right; exact Hin|auto].
      * intros [Hacc|[k' [x' [[Heq|Hin] [Hn Hm]]]]].
        -- left. right. exact Hacc.
        -- inversion Heq; subst. left. left. reflexivity.
        -- right. exists k', x'. auto.
    + intros H n. rewrite (IH _ _ H n). split.
      * intros [Hacc|[k' [x' [Hin [Hn Hm]]]]]; [left; exact Hacc|].
        right. exists k', x'. split; [right; exact Hin|auto].
      * intros [Hacc|[k' [x' [[Heq|Hin] [Hn Hm]]]]]; [left; exact Hacc| |].
        -- inversion Heq; subst. congruence.
        -- right. exists k', x'. auto.
Qed.

(** every relationship member was produced by marshal_rel with
    want = "the document asks for this relationship's data" *)
Lemma marshal_rels_members r prepath tn id fields want rels : forall acc l,
  NoDup (map fst acc) ->
  marshal_rels r prepath tn id fields want rels acc = Ok l ->
  NoDup (map fst l) /\
  forall n j, In (n, j) l ->
    In (n, j) acc \/
    exists k x, In (k, x) rels /\ from_name x = n /\
                marshal_rel r prepath tn id (mem_str n want) x = Ok j.
Proof.
  induction rels as [|[k x] rels IH]; intros acc l Hnd; cbn.
  - intros H; injection H as <-. split; [exact Hnd|auto].
  - destruct (mem_str (from_name x) fields).
    + destruct (marshal_rel _ _ _ _ _ _) as [j0| |] eqn:Ej; cbn [bind]; try discriminate.
      intros H. destruct (IH _ _ (map_set_NoDup _ _ _ Hnd) H) as [Hnd' Hmem].
      split; [exact Hnd'|]. intros n j Hin. destruct (Hmem n j Hin) as [Hacc|[k' [x' [Hin' Hrest]]]].
      * apply (map_set_In _ _ _ _ _ Hnd) in Hacc. destruct Hacc as [[-> ->]|[_ Hacc]].
        -- right. exists k, x. split; [left; reflexivity|split; [reflexivity|exact Ej]].
        -- left. exact Hacc.
      * right. exists k', x'. split; [right; exact Hin'|exact Hrest].
    + intros H. destruct (IH _ _ Hnd H) as [Hnd' Hmem]. split; [exact Hnd'|].
      intros n j Hin. destruct (Hmem n j Hin) as [Hacc|[k' [x' [Hin' Hrest]]]]; [left; exact Hacc|].
      right. exists k', x'. split; [right; exact Hin'|exact Hrest].
Qed.

(** a relationship carries a data member iff its data is asked for *)
Lemma marshal_rel_data_iff r prepath tn id want x j :
  marshal_rel r prepath tn id want x = Ok j -> jhas "data" j = want.
Proof.
  unfold marshal_rel. destruct want; cbn [negb].
  - destruct (to_one x).
    + destruct (get_str r (from_name x)); cbn [bind]; try discriminate.
      intros H; injection H as <-. reflexivity.
    + destruct (get_strs r (from_name x)); cbn [bind]; try discriminate.
      intros H; injection H as <-. reflexivity.
  - intros H; injection H as <-. reflexivity.
Qed.

(** what the data member lists *)
Lemma marshal_rel_data_to_one r prepath tn id x j :
  to_one x = true -> marshal_rel r prepath tn id true x = Ok j ->
  exists rid0, get_str r (from_name x) = Ok rid0 /\
    jmember "data" j = Some (if String.eqb rid0 "" then JNull else identifier_json rid0 (to_type x)).
Proof.
  intros Ho. unfold marshal_rel. cbn [negb]. rewrite Ho.
  destruct (get_str r (from_name x)) as [rid0| |]; cbn [bind]; try discriminate.
  intros H; injection H as <-. exists rid0. split; reflexivity.
Qed.

Lemma marshal_rel_data_to_many r prepath tn id x j :
  to_one x = false -> marshal_rel r prepath tn id true x = Ok j ->
  exists ids sorted, get_strs r (from_name x) = Ok ids /\ Permutation sorted ids /\
    jmember "data" j = Some (JArr (map (fun i => identifier_json i (to_type x)) sorted)).
Proof.
  intros Ho. unfold marshal_rel. cbn [negb]. rewrite Ho.
  destruct (get_strs r (from_name x)) as [ids| |]; cbn [bind]; try discriminate.
  intros H; injection H as <-. exists ids, (isort String.ltb ids).
  split; [reflexivity|]. split; [apply isort_perm|reflexivity].
Qed.

(** a type without a selection entry exposes nothing *)
Lemma marshal_attrs_no_selection e r attrs : forall acc,
  marshal_attrs e r [] attrs acc = Ok acc.
Proof. induction attrs as [|[k a] attrs IH]; intros acc; cbn; [reflexivity|apply IH]. Qed.

Lemma marshal_rels_no_selection r prepath tn id want rels : forall acc,
  marshal_rels r prepath tn id [] want rels acc = Ok acc.
Proof. induction rels as [|[k x] rels IH]; intros acc; cbn; [reflexivity|apply IH]. Qed.

(** every resource object of a document is marshaled with the selection of
    ITS OWN type *)
Lemma marshal_all_each e l prepath fields reldata js :
  marshal_all e l prepath fields reldata = Ok js ->
  Forall2 (fun r j => marshal_resource e r prepath (fields_for fields (res_type_name r)) reldata = Ok j) l js.
Proof.
  revert js. induction l as [|r l IH]; intros js; cbn.
  - intros H; injection H as <-. constructor.
  - destruct (marshal_resource _ _ _ _ _) as [j| |] eqn:Ej; cbn [bind]; try discriminate.
    destruct (marshal_all e l prepath fields reldata) as [js'| |]; cbn [bind]; try discriminate.
    intros H; injection H as <-. constructor; [exact Ej|apply IH; reflexivity].
Qed.

Lemma fields_for_missing fields tn : lookup tn fields = None -> fields_for fields tn = [].
Proof. intros H. unfold fields_for. rewrite H. reflexivity. Qed.
