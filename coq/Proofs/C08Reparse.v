(* C08: giving the decoded text of String() back to NewSimpleURL / NewURL. *)
From Coq Require Import Lia Permutation Sorted.
From JV Require Import Model.Base Model.GoTime Gen.TypeGo Model.Schema Model.Value
  Model.Strconv Model.Json Model.Url Model.UrlParse Proofs.BaseFacts Proofs.SoftFacts Proofs.StrconvFacts
  Proofs.C07Facts Proofs.C07Fields Proofs.C08Facts Proofs.C08Strings Proofs.C08Parse Proofs.C08Rules.
Open Scope string_scope.

(** a name that can stand in a comma-separated list *)
Definition tok (f : str) : Prop := f <> "" /\ all_chars (is_not ",") f = true.
(** a path fragment *)
Definition frag_ok (f : str) : Prop := f <> "" /\ all_chars (is_not "/") f = true.

Lemma parse_comma_joined x l : Forall tok (x :: l) -> parse_comma_list (join "," (x :: l)) = x :: l.
Proof.
  intros H. unfold parse_comma_list. rewrite split_char_join.
  - apply non_empty_id. eapply Forall_impl; [|exact H]. intros a [Ha _]. exact Ha.
  - eapply Forall_impl; [|exact H]. intros a [_ Ha]. exact Ha.
Qed.

Lemma parse_fragments_joined x l : Forall frag_ok (x :: l) -> parse_fragments ("/" ++ join "/" (x :: l)) = x :: l.
Proof.
  intros H. unfold parse_fragments, split_char. cbn [append]. rewrite split_on_sep.
  change (split_on "/" (join "/" (x :: l)) "") with (split_char "/" (join "/" (x :: l))).
  rewrite split_char_join.
  - change (non_empty ("" :: x :: l)) with (non_empty (x :: l)). apply non_empty_id.
    eapply Forall_impl; [|exact H]. intros a [Ha _]. exact Ha.
  - eapply Forall_impl; [|exact H]. intros a [_ Ha]. exact Ha.
Qed.

(** * record updates *)
Definition su_set_fields (su : simple_url) F :=
  mkSU (su_fragments su) (su_route su) F (su_filter su) (su_rules su) (su_page su) (su_include su).
Definition su_set_filter (su : simple_url) f :=
  mkSU (su_fragments su) (su_route su) (su_fields su) f (su_rules su) (su_page su) (su_include su).
Definition su_set_rules (su : simple_url) r :=
  mkSU (su_fragments su) (su_route su) (su_fields su) (su_filter su) r (su_page su) (su_include su).
Definition su_set_page (su : simple_url) p :=
  mkSU (su_fragments su) (su_route su) (su_fields su) (su_filter su) (su_rules su) p (su_include su).

(** * one parameter at a time *)
Lemma fields_name_cond k : k <> "" ->
  has_prefix "fields[" (fields_name k) && has_suffix "]" (fields_name k)
  && Nat.ltb 8 (String.length (fields_name k)) = true.
Proof.
  intros Hk. unfold fields_name, has_prefix. rewrite prefix_app.
  replace ("fields[" ++ k ++ "]") with (("fields[" ++ k) ++ "]") by apply sapp_assoc.
  rewrite has_suffix_app. rewrite !slen_app. cbn [andb].
  apply Nat.ltb_lt. destruct k; [contradiction|]. cbn. lia.
Qed.

Lemma fields_name_substr k : substr (fields_name k) 7 (String.length (fields_name k) - 8) = k.
Proof.
  unfold substr, fields_name. rewrite !slen_app.
  replace (String.length "fields[" + (String.length k + String.length "]") - 8) with (String.length k)
    by (cbn; lia).
  exact (substring_mid "fields[" k "]").
Qed.

Lemma sp_fields k v rest fo su x l :
  k <> "" -> parse_comma_list v = x :: l ->
  simple_params ((fields_name k, [v]) :: rest) fo su
  = simple_params rest fo (su_set_fields su (map_set k (x :: l) (su_fields su))).
Proof.
  intros Hk Hv. cbn [simple_params first_value]. rewrite (fields_name_cond k Hk), fields_name_substr, Hv.
  reflexivity.
Qed.

Lemma sp_filter v rest fo su :
  simple_params (("filter", [v]) :: rest) fo su
  = match fo with
    | FOErr => Err
    | FOLabel l => simple_params rest fo (su_set_filter su (FPLabel l))
    | FOFilter m => simple_params rest fo (su_set_filter su (FPFilter m))
    end.
Proof. reflexivity. Qed.

Definition page_of_text (v : str) : pageval := match atoi v with Some z => PInt z | None => PStr v end.

Lemma sp_page_number v rest fo su :
  simple_params (("page[number]", [v]) :: rest) fo su
  = simple_params rest fo (if String.eqb v "" then su
                           else su_set_page su (map_set "number" (page_of_text v) (su_page su))).
Proof. reflexivity. Qed.

Lemma sp_page_size v rest fo su :
  simple_params (("page[size]", [v]) :: rest) fo su
  = simple_params rest fo (if String.eqb v "" then su
                           else su_set_page su (map_set "size" (page_of_text v) (su_page su))).
Proof. reflexivity. Qed.

Lemma sp_sort v rest fo su :
  simple_params (("sort", [v]) :: rest) fo su
  = simple_params rest fo (su_set_rules su (su_rules su ++ (parse_comma_list v ++ []))%list).
Proof. reflexivity. Qed.

(** * all the fields parameters *)
Lemma map_set_fresh {A} k (v : A) m : ~ In k (map fst m) -> map_set k v m = (m ++ [(k, v)])%list.
Proof.
  induction m as [|[k' v'] m IH]; cbn; [reflexivity|]. intros H.
  destruct (String.eqb_spec k k') as [E|N]; [exfalso; apply H; left; symmetry; exact E|].
  rewrite IH; [reflexivity|]. intros Hin. apply H. right. exact Hin.
Qed.

Definition sorted_entry (kv : str * list str) : str * list str := (fst kv, isort String.ltb (snd kv)).
Definition fdec (kv : str * list str) : str * str :=
  (fields_name (fst kv), join "," (isort String.ltb (snd kv))).
Definition entry_good (kv : str * list str) : Prop :=
  fst kv <> "" /\ snd kv <> [] /\ Forall tok (snd kv).

Lemma sp_fields_all fs : forall rest fo su,
  Forall entry_good fs -> NoDup (map fst (su_fields su) ++ map fst fs)%list ->
  simple_params (map one_value (map fdec fs) ++ rest)%list fo su
  = simple_params rest fo (su_set_fields su (su_fields su ++ map sorted_entry fs)%list).
Proof.
  induction fs as [|[k v] fs IH]; intros rest fo su Hg Hn.
  - cbn [map app]. rewrite app_nil_r. destruct su; reflexivity.
  - inversion Hg as [|? ? [Hk [Hv Ht]] Hg']; subst. cbn [fst snd] in *.
    destruct (isort_nonempty v Hv) as [x [l E]].
    assert (Ht' : Forall tok (x :: l)).
    { rewrite <- E. apply Forall_forall. intros a Ha. rewrite Forall_forall in Ht. apply Ht.
      eapply Permutation_in; [apply isort_perm|exact Ha]. }
    cbn [map app]. unfold fdec at 1, one_value at 1. cbn [fst snd]. rewrite E.
    rewrite (sp_fields k _ _ fo su x l Hk (parse_comma_joined x l Ht')).
    rewrite map_set_fresh.
    2:{ cbn [map fst] in Hn. apply NoDup_remove_2 in Hn. intros Hin. apply Hn. apply in_or_app. left. exact Hin. }
    rewrite IH; [|exact Hg'|].
    + unfold su_set_fields. cbn [su_fields su_fragments su_route su_filter su_rules su_page su_include].
      cbn [map]. change (sorted_entry (k, v)) with (k, isort String.ltb v).
      rewrite E, <- app_assoc. reflexivity.
    + unfold su_set_fields. cbn [su_fields]. rewrite map_app. cbn [map fst]. rewrite <- app_assoc. exact Hn.
Qed.

(** * page values *)
Definition page_ok (v : pageval) : Prop :=
  match v with
  | PInt z => (- 2 ^ 63 <= z < 2 ^ 63)%Z
  | PStr t => t <> "" /\ atoi t = None
  end.

Lemma itoa_nonempty z : itoa z <> "".
Proof.
  unfold itoa. destruct (z <? 0)%Z; [discriminate|].
  destruct (utoa_head z) as [c [r [E _]]]. rewrite E. discriminate.
Qed.

Lemma page_text_back v : page_ok v -> page_text v <> "" /\ page_of_text (page_text v) = v.
Proof.
  destruct v as [z|t]; cbn [page_ok page_text]; intros H.
  - split; [apply itoa_nonempty|]. unfold page_of_text, atoi. rewrite parse_int_itoa; [reflexivity|lia].
  - destruct H as [H1 H2]. split; [exact H1|]. unfold page_of_text. rewrite H2. reflexivity.
Qed.

(** * the other parameters *)
Definition dec_filter (f : filterparam) (label_json : str) : list (str * str) :=
  match f with
  | FPFilter m => [("filter", m)]
  | FPLabel l => if String.eqb l "" then [] else [("filter", label_json)]
  | FPNone => []
  end.

Definition dec_page (u : url) : list (str * str) :=
  if u_iscol u then
    ((match lookup "number" (p_page (u_params u)) with
      | Some v => [("page[number]", page_text v)] | None => [] end)
     ++ (match lookup "size" (p_page (u_params u)) with
         | Some v => [("page[size]", page_text v)] | None => [] end))%list
  else [].

Definition dec_sort (rs : list str) : list (str * str) :=
  match rs with [] => [] | x :: l => [("sort", join "," (x :: l))] end.

Lemma dec_params_parts u lj :
  dec_params u lj
  = (map fdec (sort_fields (p_fields (u_params u))) ++ dec_filter (p_filter (u_params u)) lj
     ++ dec_page u ++ dec_sort (p_rules (u_params u)))%list.
Proof. reflexivity. Qed.

(** what the second parse holds for the filter: an empty label is no filter *)
Definition filter_back (f : filterparam) : filterparam :=
  match f with FPLabel l => if String.eqb l "" then FPNone else FPLabel l | x => x end.

(** the filter oracle of the second parse: decoding the printed filter text
    gives the filter / label the URL holds (json.Marshal then Unmarshal of a
    Filter or of a string; checked on the Go side for every generated URL) *)
Definition fo_agrees (f : filterparam) (fo : filter_oracle) : Prop :=
  match f with
  | FPFilter m => fo = FOFilter m
  | FPLabel l => l = "" \/ fo = FOLabel l
  | FPNone => True
  end.

Lemma sp_filter_part f lj fo rest fr rt F r p i :
  fo_agrees f fo ->
  simple_params (map one_value (dec_filter f lj) ++ rest)%list fo (mkSU fr rt F FPNone r p i)
  = simple_params rest fo (mkSU fr rt F (filter_back f) r p i).
Proof.
  destruct f as [|l|m]; cbn [dec_filter filter_back fo_agrees].
  - reflexivity.
  - destruct (String.eqb_spec l "") as [E|N]; [reflexivity|].
    intros [E| ->]; [contradiction|]. cbn [map app]. unfold one_value. cbn [fst snd]. rewrite sp_filter. reflexivity.
  - intros ->. cbn [map app]. unfold one_value. cbn [fst snd]. rewrite sp_filter. reflexivity.
Qed.

Definition page_back (u : url) : list (str * pageval) :=
  if u_iscol u then
    ((match lookup "number" (p_page (u_params u)) with Some v => [("number", v)] | None => [] end)
     ++ (match lookup "size" (p_page (u_params u)) with Some v => [("size", v)] | None => [] end))%list
  else [].

Definition pages_ok (u : url) : Prop :=
  u_iscol u = true -> forall w v, w = "number" \/ w = "size" ->
  lookup w (p_page (u_params u)) = Some v -> page_ok v.

Lemma sp_page_part u fo rest fr rt F f r i :
  pages_ok u ->
  simple_params (map one_value (dec_page u) ++ rest)%list fo (mkSU fr rt F f r [] i)
  = simple_params rest fo (mkSU fr rt F f r (page_back u) i).
Proof.
  unfold pages_ok, dec_page, page_back. intros H. destruct (u_iscol u); [|reflexivity].
  specialize (H eq_refl).
  destruct (lookup "number" _) as [v1|] eqn:E1; destruct (lookup "size" _) as [v2|] eqn:E2;
    cbn [map app]; unfold one_value; cbn [fst snd].
  - destruct (page_text_back v1 (H "number" v1 (or_introl eq_refl) E1)) as [N1 B1].
    destruct (page_text_back v2 (H "size" v2 (or_intror eq_refl) E2)) as [N2 B2].
    rewrite sp_page_number. apply String.eqb_neq in N1. rewrite N1, B1.
    rewrite sp_page_size. apply String.eqb_neq in N2. rewrite N2, B2. reflexivity.
  - destruct (page_text_back v1 (H "number" v1 (or_introl eq_refl) E1)) as [N1 B1].
    rewrite sp_page_number. apply String.eqb_neq in N1. rewrite N1, B1. reflexivity.
  - destruct (page_text_back v2 (H "size" v2 (or_intror eq_refl) E2)) as [N2 B2].
    rewrite sp_page_size. apply String.eqb_neq in N2. rewrite N2, B2. reflexivity.
  - reflexivity.
Qed.

Lemma sp_sort_part rs fo fr rt F f p i :
  Forall tok rs ->
  simple_params (map one_value (dec_sort rs) ++ [])%list fo (mkSU fr rt F f [] p i)
  = Ok (mkSU fr rt F f rs p i).
Proof.
  destruct rs as [|x l]; intros H; [reflexivity|].
  cbn [dec_sort map app]. unfold one_value. cbn [fst snd]. rewrite sp_sort.
  rewrite (parse_comma_joined x l H). cbn [su_rules app]. rewrite app_nil_r. reflexivity.
Qed.

(** * NewSimpleURL on the decoded text *)
Definition su_back (u : url) : simple_url :=
  mkSU (u_fragments u) (deduce_route (u_fragments u))
       (map sorted_entry (sort_fields (p_fields (u_params u))))
       (filter_back (p_filter (u_params u))) (p_rules (u_params u)) (page_back u) [].

Lemma sort_fields_perm (fs : list (str * list str)) : Permutation (sort_fields fs) fs.
Proof. apply isort_perm. Qed.

Lemma new_simple_url_back u lj fo x l :
  u_fragments u = x :: l -> Forall frag_ok (x :: l) ->
  Forall entry_good (p_fields (u_params u)) -> NoDup (map fst (p_fields (u_params u))) ->
  Forall tok (p_rules (u_params u)) -> pages_ok u -> fo_agrees (p_filter (u_params u)) fo ->
  new_simple_url ("/" ++ join "/" (x :: l)) (map one_value (dec_params u lj)) fo = Ok (su_back u).
Proof.
  intros Hfr Hfo Hg Hn Hr Hp Ha. unfold new_simple_url.
  rewrite (parse_fragments_joined x l Hfo), dec_params_parts, !map_app.
  rewrite sp_fields_all.
  - cbn [su_fields app]. unfold su_set_fields.
    cbn [su_fragments su_route su_filter su_rules su_page su_include].
    rewrite (sp_filter_part _ lj fo _ _ _ _ _ _ _ Ha).
    rewrite (sp_page_part u fo _ _ _ _ _ _ _ Hp).
    rewrite <- (app_nil_r (map one_value (dec_sort _))).
    rewrite (sp_sort_part _ fo _ _ _ _ _ _ Hr).
    unfold su_back. rewrite Hfr. reflexivity.
  - apply Forall_sort_fields. exact Hg.
  - cbn [su_fields map app]. eapply Permutation_NoDup; [|exact Hn].
    apply Permutation_map. apply Permutation_sym, sort_fields_perm.
Qed.

(** * NewURL: the part that depends on the fragments only *)
Definition url_head (s : schema) (fr : list str) : option (bool * str * str * str * rel) :=
  match fr with
  | [] => None
  | f0 :: _ =>
      let typ := get_type s f0 in
      if String.eqb (tname typ) "" then None
      else
        let n := length fr in
        if Nat.leb 3 n then
          match lookup (nth_str fr (n - 1)) (trels typ) with
          | None => None
          | Some r =>
              if negb (has_type s (to_type r)) then None
              else Some (negb (to_one r), to_type r, "",
                         (if Nat.eqb n 3 then "related" else if Nat.eqb n 4 then "self" else ""), r)
          end
        else Some (Nat.eqb n 1, tname typ, (if Nat.eqb n 2 then nth_str fr 1 else ""), "", zero_rel)
  end.

Lemma new_url_head s su :
  new_url s su =
  match url_head s (su_fragments su) with
  | None => Err
  | Some (c, rt, id, k, r) =>
      bind (new_params s su rt)
           (fun p => Ok (mkUrl (su_fragments su) (su_route su) c rt id k r p))
  end.
Proof.
  unfold new_url, url_head. destruct (su_fragments su) as [|f0 fr]; [reflexivity|].
  destruct (String.eqb (tname (get_type s f0)) ""); [reflexivity|].
  destruct (Nat.leb 3 (length (f0 :: fr))); [|reflexivity].
  destruct (lookup _ _) as [r|]; [|reflexivity].
  destruct (negb (has_type s (to_type r))); reflexivity.
Qed.

(** * NewParams on the second parse *)
Definition set_entry (m : list (str * list str)) (kv : str * list str) := map_set (fst kv) (snd kv) m.

Lemma filter_eqb_notin f (l : list str) : ~ In f l -> filter (String.eqb f) l = [].
Proof.
  induction l as [|y l IH]; intros H; [reflexivity|]. cbn [filter].
  destruct (String.eqb_spec f y) as [E|N]; [exfalso; apply H; left; symmetry; exact E|].
  apply IH. intros Hin. apply H. right. exact Hin.
Qed.

Lemma filter_eqb_nodup f (l : list str) : NoDup l -> In f l -> filter (String.eqb f) l = [f].
Proof.
  induction l as [|x l IH]; intros Hn Hin; [destruct Hin|]. inversion Hn as [|? ? Hx Hl]; subst.
  cbn [filter]. destruct (String.eqb_spec f x) as [E|N].
  - subst x. rewrite (filter_eqb_notin f l Hx). reflexivity.
  - destruct Hin as [E|Hin]; [symmetry in E; contradiction|]. apply IH; assumption.
Qed.

Definition sel_of (s : schema) (t : str) (fs : list str) : list str :=
  flat_map (fun f => if String.eqb f "id" then ["id"]
                     else filter (String.eqb f) (type_fields (get_type s t))) fs.

Lemma sel_of_id s t fs :
  NoDup (type_fields (get_type s t)) ->
  (forall f, In f fs -> f = "id" \/ In f (type_fields (get_type s t))) ->
  sel_of s t fs = fs.
Proof.
  intros Hn. unfold sel_of. induction fs as [|f fs IH]; intros H; [reflexivity|]. cbn [flat_map].
  rewrite IH by (intros g Hg; apply H; right; exact Hg).
  destruct (String.eqb_spec f "id") as [E|N]; [subst f; reflexivity|].
  destruct (H f (or_introl eq_refl)) as [E|Hin]; [contradiction|].
  rewrite (filter_eqb_nodup f _ Hn Hin). reflexivity.
Qed.

Lemma NoDup_has_dup l : NoDup l -> has_dup l = false.
Proof.
  induction 1 as [|x l Hx Hl IH]; [reflexivity|]. cbn [has_dup]. rewrite IH, orb_false_r.
  destruct (mem_str x l) eqn:E; [|reflexivity]. exfalso. apply Hx. apply mem_str_In. exact E.
Qed.

(** an entry the second parse accepts as it stands *)
Definition entry_stable (s : schema) (kv : str * list str) : Prop :=
  tname (get_type s (fst kv)) <> "" /\ NoDup (snd kv) /\
  NoDup (type_fields (get_type s (fst kv))) /\
  forall f, In f (snd kv) -> f = "id" \/ In f (type_fields (get_type s (fst kv))).

Lemma apply_fields_stable s rt F : forall m,
  Forall (entry_stable s) F -> apply_fields s rt F m = Ok (fold_left set_entry F m).
Proof.
  induction F as [|[t fs] F IH]; intros m H; [reflexivity|].
  inversion H as [|? ? [Ht [Hn [Hnt Hin]]] H']; subst. cbn [fst snd] in *.
  cbn [apply_fields fold_left]. apply String.eqb_neq in Ht. rewrite Ht, andb_false_r.
  fold (sel_of s t fs). rewrite (sel_of_id s t fs Hnt Hin), (NoDup_has_dup fs Hn).
  apply IH. exact H'.
Qed.

Lemma default_fields_id s m : Forall (fun kv => snd kv <> []) m -> default_fields s m = m.
Proof.
  unfold default_fields. induction m as [|[k v] m IH]; intros H; [reflexivity|].
  inversion H as [|? ? Hv Hm]; subst. cbn [map fst snd] in *. rewrite (IH Hm).
  destruct v; [contradiction|reflexivity].
Qed.

(** folding [set_entry] over entries with fresh, distinct keys appends them *)
Lemma fold_set_fresh F : forall m,
  NoDup (map fst m ++ map fst F)%list -> fold_left set_entry F m = (m ++ F)%list.
Proof.
  induction F as [|[k v] F IH]; intros m H; cbn [fold_left]; [rewrite app_nil_r; reflexivity|].
  unfold set_entry at 2. cbn [fst snd]. cbn [map fst] in H. rewrite map_set_fresh.
  - rewrite IH; [rewrite <- app_assoc; reflexivity|].
    rewrite map_app. cbn [map fst]. rewrite <- app_assoc. exact H.
  - apply NoDup_remove_2 in H. intros Hin. apply H. apply in_or_app. left. exact Hin.
Qed.

Lemma NoDup_app_l {A} (l l' : list A) : NoDup (l ++ l') -> NoDup l.
Proof.
  induction l as [|x l IH]; cbn; intros H; [constructor|]. inversion H as [|? ? Hx Hl]; subst.
  constructor; [|apply IH; exact Hl]. intros Hin. apply Hx. apply in_or_app. left. exact Hin.
Qed.

(** starting from the placeholder of the resource type, which is one of the keys *)
Lemma fold_set_from_rt rt F :
  NoDup (map fst F) -> In rt (map fst F) ->
  Permutation (fold_left set_entry F [(rt, [])]) F.
Proof.
  intros Hn Hin. apply in_map_iff in Hin. destruct Hin as [[k v] [E Hin]]. cbn in E. subst k.
  apply in_split in Hin. destruct Hin as [A [B ->]].
  rewrite map_app in Hn. cbn [map fst] in Hn.
  rewrite fold_left_app. cbn [fold_left].
  rewrite (fold_set_fresh A).
  2:{ cbn [map fst app]. constructor.
      - intros H. apply NoDup_remove_2 in Hn. apply Hn. apply in_or_app. left. exact H.
      - apply NoDup_app_l in Hn. exact Hn. }
  unfold set_entry at 2. cbn [fst snd app map_set]. rewrite String.eqb_refl.
  rewrite (fold_set_fresh B).
  2:{ cbn [map fst app]. eapply Permutation_NoDup; [|exact Hn]. symmetry. apply Permutation_middle. }
  cbn [app]. apply Permutation_middle.
Qed.

(** * the URL of the second parse *)
Definition fields_back (u : url) : list (str * list str) :=
  fold_left set_entry (map sorted_entry (sort_fields (p_fields (u_params u)))) [(u_restype u, [])].

Definition url_back (u : url) : url :=
  mkUrl (u_fragments u) (deduce_route (u_fragments u)) (u_iscol u) (u_restype u) (u_resid u)
        (u_relkind u) (u_rel u)
        (mkParams (fields_back u) (filter_back (p_filter (u_params u))) (p_rules (u_params u))
                  (page_back u) []).

(** what the proof needs of a URL value (every URL that NewURL returns for a
    well-named schema has it: C08Origin.v) *)
Record url_wf (s : schema) (u : url) : Prop := {
  wf_frags : exists x l, u_fragments u = x :: l /\ Forall frag_ok (x :: l);
  wf_head : url_head s (u_fragments u)
            = Some (u_iscol u, u_restype u, u_resid u, u_relkind u, u_rel u);
  wf_rt : u_restype u <> "" /\ In (u_restype u) (map fst (p_fields (u_params u)));
  wf_keys : NoDup (map fst (p_fields (u_params u)));
  wf_good : Forall entry_good (p_fields (u_params u));
  wf_stable : Forall (entry_stable s) (p_fields (u_params u));
  wf_rules_tok : Forall tok (p_rules (u_params u));
  wf_rules : (if is_collection s (u_fragments u)
              then sorting_rules (get_type s (u_restype u)) (p_rules (u_params u)) else [])
             = p_rules (u_params u);
  wf_pages : pages_ok u
}.

Lemma new_params_no_include s su rt :
  su_include su = [] ->
  new_params s su rt =
  bind (apply_fields s rt (su_fields su) (if String.eqb rt "" then [] else map_set rt [] []))
       (fun fields3 =>
          Ok (mkParams (default_fields s fields3) (su_filter su)
                       (if is_collection s (su_fragments su)
                        then sorting_rules (get_type s rt) (su_rules su) else [])
                       (su_page su) [])).
Proof. intros E. unfold new_params. rewrite E. reflexivity. Qed.

Lemma sorted_entry_stable s kv : entry_stable s kv -> entry_stable s (sorted_entry kv).
Proof.
  destruct kv as [k v]. unfold entry_stable, sorted_entry. cbn [fst snd].
  intros [H1 [H2 [H3 H4]]]. split; [exact H1|]. split.
  - eapply Permutation_NoDup; [apply Permutation_sym, isort_perm|exact H2].
  - split; [exact H3|]. intros f Hf. apply H4. eapply Permutation_in; [apply isort_perm|exact Hf].
Qed.

Lemma sorted_entries_keys fs : map fst (map sorted_entry fs) = map fst fs.
Proof. rewrite map_map. reflexivity. Qed.

Lemma fields_back_perm s u : url_wf s u ->
  Permutation (fields_back u) (map sorted_entry (sort_fields (p_fields (u_params u)))).
Proof.
  intros W. unfold fields_back. apply fold_set_from_rt.
  - rewrite sorted_entries_keys. eapply Permutation_NoDup; [|exact (wf_keys s u W)].
    apply Permutation_map, Permutation_sym, sort_fields_perm.
  - rewrite sorted_entries_keys. eapply Permutation_in; [|exact (proj2 (wf_rt s u W))].
    apply Permutation_map, Permutation_sym, sort_fields_perm.
Qed.

Lemma new_url_back s u : url_wf s u -> new_url s (su_back u) = Ok (url_back u).
Proof.
  intros W. rewrite new_url_head. cbn [su_back su_fragments su_route]. rewrite (wf_head s u W).
  rewrite new_params_no_include by reflexivity.
  cbn [su_back su_fields su_filter su_rules su_page su_fragments].
  destruct (wf_rt s u W) as [Hrt Hin]. apply String.eqb_neq in Hrt. rewrite Hrt. cbn [map_set].
  rewrite apply_fields_stable.
  2:{ apply Forall_forall. intros kv Hkv. apply in_map_iff in Hkv. destruct Hkv as [kv0 [<- Hkv0]].
      apply sorted_entry_stable. pose proof (wf_stable s u W) as Hs. rewrite Forall_forall in Hs.
      apply Hs. eapply Permutation_in; [apply sort_fields_perm|exact Hkv0]. }
  cbn [bind]. fold (fields_back u). rewrite default_fields_id.
  2:{ apply Forall_forall. intros kv Hkv.
      apply (Permutation_in _ (fields_back_perm s u W)) in Hkv.
      apply in_map_iff in Hkv. destruct Hkv as [[k v] [<- Hkv0]]. unfold sorted_entry. cbn [fst snd].
      pose proof (wf_good s u W) as Hg. rewrite Forall_forall in Hg.
      assert (Hk : In (k, v) (p_fields (u_params u)))
        by (eapply Permutation_in; [apply sort_fields_perm|exact Hkv0]).
      destruct (Hg _ Hk) as [_ [Hv _]]. cbn [snd] in Hv.
      destruct (isort_nonempty v Hv) as [x [l E]]. rewrite E. discriminate. }
  rewrite (wf_rules s u W). reflexivity.
Qed.

(** * the second URL prints the same text *)
Lemma insert_by_map_key (g : str * list str -> str * list str) x l :
  (forall a, fst (g a) = fst a) ->
  insert_by (fun a b => String.ltb (fst a) (fst b)) (g x) (map g l)
  = map g (insert_by (fun a b => String.ltb (fst a) (fst b)) x l).
Proof.
  unfold str in *. intros Hg. induction l as [|y l IH]; [reflexivity|]. cbn [map insert_by].
  cbv beta. rewrite !Hg. destruct (String.ltb (fst x) (fst y)); cbn [map]; [reflexivity|]. rewrite IH. reflexivity.
Qed.

Lemma sort_fields_map_key g fs :
  (forall a, fst (g a) = fst a) -> sort_fields (map g fs) = map g (sort_fields fs).
Proof.
  intros Hg. unfold sort_fields. induction fs as [|x fs IH]; [reflexivity|]. cbn [map isort].
  rewrite IH. apply insert_by_map_key. exact Hg.
Qed.

Lemma field_param_sorted kv : field_param (sorted_entry kv) = field_param kv.
Proof. destruct kv as [k v]. unfold sorted_entry. cbn [fst snd]. apply field_param_perm, isort_perm. Qed.

Lemma fields_text_back s u : url_wf s u ->
  map field_param (sort_fields (fields_back u)) = map field_param (sort_fields (p_fields (u_params u))).
Proof.
  intros W.
  assert (Hn : NoDup (map fst (fields_back u))).
  { eapply Permutation_NoDup; [apply Permutation_map, Permutation_sym, (fields_back_perm s u W)|].
    rewrite sorted_entries_keys. eapply Permutation_NoDup; [|exact (wf_keys s u W)].
    apply Permutation_map, Permutation_sym, sort_fields_perm. }
  change sort_fields with (isort fields_lt).
  rewrite (fields_sort_perm _ _ Hn (fields_back_perm s u W)).
  change (isort fields_lt) with sort_fields.
  rewrite sort_fields_map_key by reflexivity.
  assert (E : sort_fields (sort_fields (p_fields (u_params u))) = sort_fields (p_fields (u_params u))).
  { change sort_fields with (isort fields_lt). apply fields_sort_perm; [|apply isort_perm].
    eapply Permutation_NoDup; [|exact (wf_keys s u W)].
    apply Permutation_map, Permutation_sym, isort_perm. }
  rewrite E, map_map. apply map_ext. intros kv. apply field_param_sorted.
Qed.

Lemma url_params_text_back s u lj : url_wf s u ->
  url_params_text (url_back u) lj = url_params_text u lj.
Proof.
  intros W. unfold url_params_text. cbn zeta.
  cbn [url_back u_params p_fields p_filter p_rules p_page u_iscol].
  rewrite (fields_text_back s u W). f_equal. f_equal.
  - destruct (p_filter (u_params u)) as [|l|m]; cbn [filter_back]; try reflexivity.
    destruct (String.eqb l "") eqn:E; [reflexivity|]. rewrite E. reflexivity.
  - f_equal. unfold page_back. destruct (u_iscol u); [|reflexivity].
    destruct (lookup "number" (p_page (u_params u))) as [v1|];
      destruct (lookup "size" (p_page (u_params u))) as [v2|]; reflexivity.
Qed.

Theorem url_string_back s u lj : url_wf s u -> url_string (url_back u) lj = url_string u lj.
Proof.
  intros W. rewrite !url_string_eq, (url_params_text_back s u lj W). reflexivity.
Qed.
