(* C17: every history of well-typed Set calls reads back the last value
   written (or the zero value), for both implementations, which are
   indistinguishable under the canonical reading. *)
From Coq Require Import Lia.
From JV Require Import Model.Base Model.GoTime Gen.TypeGo Model.Schema Model.Value
  Model.SoftRes Model.Wrapper Model.Resource Proofs.BaseFacts Proofs.MapFacts
  Proofs.C14Facts Proofs.SoftFacts Proofs.WrapperFacts.
Open Scope list_scope.

(** The value of the last Set on [f], if any. *)
Fixpoint last_set (ops : list (str * value)) (f : str) : option value :=
  match ops with
  | [] => None
  | (k, v) :: rest =>
      match last_set rest f with
      | Some x => Some x
      | None => if String.eqb k f then Some v else None
      end
  end.

(** * Soft resources *)
Definition soft_run (s : soft) (ops : list (str * value)) : soft :=
  fold_left (fun s kv => soft_set s (fst kv) (snd kv)) ops s.

Definition soft_op_ok (t : type) (kv : str * value) : Prop :=
  set_ok t (fst kv) (snd kv) /\ (fst kv = "id" \/ is_field t (fst kv)).

Lemma soft_run_type ops : forall s, s_type (soft_run s ops) = s_type s.
Proof.
  induction ops as [|[k v] ops IH]; intros s; [reflexivity|].
  unfold soft_run in *. cbn [fold_left fst snd]. rewrite IH. apply soft_set_type.
Qed.

Lemma soft_get_set_any s k v f :
  wf_res_type (s_type s) -> soft_op_ok (s_type s) (k, v) -> is_field (s_type s) f ->
  soft_get (soft_set s k v) f = if String.eqb k f then stored (s_type s) k v else soft_get s f.
Proof.
  intros Hw [Hok Hk] Hf. cbn in Hok, Hk.
  assert (Hfid : f <> "id").
  { destruct Hw as [_ [_ [H1 H2]]]. intros ->. destruct Hf; contradiction. }
  destruct (String.eqb_spec k f) as [->|N].
  - apply soft_get_set_same; assumption.
  - destruct Hk as [->|Hk].
    + destruct Hok as [[_ [x ->]]|[[a [Ea _]]|[r [Er _]]]].
      * apply soft_set_id; assumption.
      * exfalso. destruct Hw as [_ [_ [H1 _]]]. apply H1.
        apply in_map_iff. exists ("id", a). split; [reflexivity|apply lookup_In; exact Ea].
      * exfalso. destruct Hw as [_ [_ [_ H2]]]. apply H2.
        apply in_map_iff. exists ("id", r). split; [reflexivity|apply lookup_In; exact Er].
    + apply soft_get_set_other; try assumption.
      * intros E. apply N. symmetry. exact E.
      * destruct Hw as [_ [_ [H1 H2]]]. intros ->. destruct Hk; contradiction.
Qed.

Lemma soft_history_gen ops : forall s f,
  wf_res_type (s_type s) -> Forall (soft_op_ok (s_type s)) ops -> is_field (s_type s) f ->
  soft_get (soft_run s ops) f =
  match last_set ops f with
  | Some v => stored (s_type s) f v
  | None => soft_get s f
  end.
Proof.
  induction ops as [|[k v] ops IH]; intros s f Hw Hops Hf; cbn [soft_run fold_left last_set fst snd].
  - reflexivity.
  - inversion Hops as [|? ? Hop Hops']; subst.
    change (fold_left _ ops ?x) with (soft_run x ops).
    rewrite IH; rewrite ?soft_set_type; try assumption.
    destruct (last_set ops f); [reflexivity|].
    rewrite soft_get_set_any by assumption.
    destruct (String.eqb_spec k f) as [->|]; reflexivity.
Qed.

Lemma soft_history t ops f :
  wf_res_type t -> Forall (soft_op_ok t) ops -> is_field t f ->
  soft_get (soft_run (soft_new t) ops) f =
  match last_set ops f with
  | Some v => stored t f v
  | None => field_zero t f
  end.
Proof.
  intros Hw Hops Hf. rewrite (soft_history_gen ops (soft_new t) f Hw Hops Hf).
  destruct (last_set ops f); [reflexivity|]. apply soft_new_get; assumption.
Qed.

(** The id: the last string given, "" when never set. *)
Lemma soft_history_id_gen ops : forall s,
  wf_res_type (s_type s) -> Forall (soft_op_ok (s_type s)) ops ->
  soft_get (soft_run s ops) "id" =
  match last_set ops "id" with Some v => v | None => VStr (s_id s) end.
Proof.
  induction ops as [|[k v] ops IH]; intros s Hw Hops; cbn [soft_run fold_left last_set fst snd].
  - reflexivity.
  - inversion Hops as [|? ? [Hok Hk] Hops']; subst. cbn in Hok, Hk.
    change (fold_left _ ops ?x) with (soft_run x ops).
    rewrite IH; rewrite ?soft_set_type; try assumption.
    destruct (last_set ops "id"); [reflexivity|].
    destruct (String.eqb_spec k "id") as [->|N].
    + destruct Hok as [[_ [x ->]]|[[a [Ea _]]|[r [Er _]]]]; [reflexivity| |].
      * exfalso. destruct Hw as [_ [_ [H1 _]]]. apply H1.
        apply in_map_iff. exists ("id", a). split; [reflexivity|apply lookup_In; exact Ea].
      * exfalso. destruct Hw as [_ [_ [_ H2]]]. apply H2.
        apply in_map_iff. exists ("id", r). split; [reflexivity|apply lookup_In; exact Er].
    + pose proof (soft_get_set_id_other s k v Hw N Hok) as H. rewrite !soft_get_id in H.
      injection H as H. rewrite H. reflexivity.
Qed.

(** * Wrapped structs *)
Fixpoint wrapper_run (w : wrapper) (ops : list (str * value)) : res wrapper :=
  match ops with
  | [] => Ok w
  | (k, v) :: rest => bind (wrapper_set w k v) (fun w' => wrapper_run w' rest)
  end.

Definition wrapper_op_ok (d : structdesc) (vals0 : list value) (kv : str * value) : Prop :=
  (fst kv = "id" /\ exists x, snd kv = VStr x) \/
  (fst kv <> "id" /\ fst kv <> "" /\
   exists f v0, get_slot (by_json (fst kv)) d vals0 = Some (f, v0) /\ wset_ok f (snd kv)).

(** Which field a key designates depends on the descriptor only. *)
Lemma get_slot_field p d : forall vals vals' f v,
  length vals = length vals' -> get_slot p d vals = Some (f, v) ->
  exists v', get_slot p d vals' = Some (f, v').
Proof.
  induction d as [|f0 d IH]; intros [|v0 vals] [|v0' vals'] f v Hl; cbn in *; try discriminate.
  destruct (p f0).
  - intros H; inversion H; subst. eauto.
  - apply IH. lia.
Qed.

Definition wstate_ok (w : wrapper) : Prop :=
  good_desc (w_desc w) /\ length (w_vals w) = length (w_desc w).

Lemma wrapper_set_ok w k v :
  wstate_ok w -> wrapper_op_ok (w_desc w) (w_vals w) (k, v) ->
  exists w', wrapper_set w k v = Ok w' /\ wstate_ok w' /\ w_desc w' = w_desc w /\
    (forall f, f <> "" -> wrapper_get w' f =
       if String.eqb k f then
         (if String.eqb f "id" then Ok v
          else match slot_value w f with
               | Some (fd, _) => Ok (read_slot (stored_w fd v))
               | None => Panic
               end)
       else wrapper_get w f).
Proof.
  intros [Hg Hl] Hop. destruct Hop as [[Hk [x Hv]]|[Hid [Hne [fd [v0 [Hs Hok]]]]]]; cbn in *; subst.
  - destruct (wrapper_set_id_spec w x Hg Hl) as [w' [Hset [Hd [Hl' [Hgid Hoth]]]]].
    exists w'. split; [exact Hset|]. split; [split; [rewrite Hd; exact Hg|exact Hl']|].
    split; [exact Hd|]. intros f Hf.
    destruct (String.eqb_spec "id" f) as [<-|N]; [exact Hgid|].
    apply Hoth; [exact Hf|]. intros E. apply N. symmetry. exact E.
  - destruct (wrapper_get_set_same w k v fd v0 Hg Hne Hid Hs Hok) as [w' [Hset [Hd Hget]]].
    exists w'. split; [exact Hset|].
    assert (Hl' : length (w_vals w') = length (w_desc w')).
    { destruct (wrapper_set_field_spec w k v fd v0 Hg Hne Hs Hok) as [w2 [Hset2 [Hd2 [_ [_ [_ Hv2]]]]]].
      unfold wrapper_set in Hset. apply String.eqb_neq in Hid. rewrite Hid in Hset.
      rewrite Hset2 in Hset. injection Hset as <-. rewrite Hd2, Hv2, set_slot_length. exact Hl. }
    split; [split; [rewrite Hd; exact Hg|exact Hl']|]. split; [exact Hd|].
    intros f Hf. destruct (String.eqb_spec k f) as [<-|N].
    + apply String.eqb_neq in Hid. rewrite Hid. unfold slot_value. rewrite Hs. exact Hget.
    + destruct (String.eqb_spec f "id") as [->|Nid].
      * (* the id is untouched by a Set on another key *)
        unfold wrapper_set in Hset. apply String.eqb_neq in Hid. rewrite Hid in Hset.
        destruct (wrapper_set_field_spec w k v fd v0 Hg Hne Hs Hok) as [w2 [Hset2 [Hd2 [_ [_ [_ Hv2]]]]]].
        rewrite Hset2 in Hset. injection Hset as <-.
        unfold wrapper_get. cbn [String.eqb Ascii.eqb Bool.eqb]. unfold wrapper_get_id.
        rewrite Hd2, Hv2. f_equal. f_equal.
        change (fun f => String.eqb (sf_name f) "ID") with by_name_id.
        rewrite get_set_slot_other; [reflexivity|].
        intros g Hin Hp. unfold by_json in Hp. apply String.eqb_eq in Hp.
        unfold by_name_id. apply String.eqb_neq. intros Ename.
        (* the field named ID has json tag "id", but k <> "id" *)
        destruct Hg as [Hj [Hn [_ [f0 [Hin0 [Hname0 [_ Hjson0]]]]]]].
        assert (g = f0).
        { clear -Hn Hin Hin0 Ename Hname0. induction (w_desc w) as [|g' d IH]; [destruct Hin|].
          cbn in Hn. inversion Hn as [|? ? Hn1 Hn2]; subst.
          destruct Hin as [->|Hin], Hin0 as [->|Hin0]; try reflexivity.
          - exfalso. apply Hn1. rewrite Ename, <- Hname0. apply in_map. exact Hin0.
          - exfalso. apply Hn1. rewrite Hname0, <- Ename. apply in_map. exact Hin.
          - apply IH; assumption. }
        subst. rewrite Hjson0 in Hid. cbn in Hid. discriminate.
      * destruct (wrapper_get_set_other w k v fd v0 f Hg Hne Hid Hf Nid) as [w2 [Hset2 Hget2]]; try assumption.
        { intros E. apply N. symmetry. exact E. }
        rewrite Hset in Hset2. injection Hset2 as <-. exact Hget2.
Qed.

Lemma wrapper_history_gen ops : forall w,
  wstate_ok w -> Forall (wrapper_op_ok (w_desc w) (w_vals w)) ops ->
  exists w', wrapper_run w ops = Ok w' /\ wstate_ok w' /\ w_desc w' = w_desc w /\
    forall f, f <> "" ->
      wrapper_get w' f =
      match last_set ops f with
      | Some v => if String.eqb f "id" then Ok v
                  else match slot_value w f with
                       | Some (fd, _) => Ok (read_slot (stored_w fd v))
                       | None => Panic
                       end
      | None => wrapper_get w f
      end.
Proof.
  induction ops as [|[k v] ops IH]; intros w Hw Hops.
  - exists w. cbn. repeat split; try apply Hw.
  - inversion Hops as [|? ? Hop Hops']; subst.
    destruct (wrapper_set_ok w k v Hw Hop) as [w1 [Hset [Hw1 [Hd1 Hget1]]]].
    assert (Hops1 : Forall (wrapper_op_ok (w_desc w1) (w_vals w1)) ops).
    { rewrite Forall_forall in *. intros [k' v'] Hin. specialize (Hops' _ Hin).
      destruct Hops' as [Hi|[Hi [Hne [fd [v0 [Hs Hok]]]]]]; [left; exact Hi|right].
      split; [exact Hi|]. split; [exact Hne|]. cbn in *.
      destruct Hw as [_ Hl]. destruct Hw1 as [_ Hl1].
      assert (Hlen : length (w_vals w) = length (w_vals w1)) by (rewrite Hl, Hl1, Hd1; reflexivity).
      destruct (get_slot_field _ _ _ (w_vals w1) _ _ Hlen Hs) as [v0' Hs'].
      exists fd, v0'. rewrite Hd1. auto. }
    destruct (IH w1 Hw1 Hops1) as [w' [Hrun [Hw' [Hd' Hget']]]].
    exists w'. cbn [wrapper_run]. rewrite Hset. cbn [bind]. split; [exact Hrun|].
    split; [exact Hw'|]. split; [congruence|].
    intros f Hf. rewrite (Hget' f Hf). cbn [last_set].
    destruct (last_set ops f) as [x|].
    + destruct (String.eqb f "id"); [reflexivity|].
      (* the slot's field depends on the descriptor only *)
      unfold slot_value. rewrite Hd1.
      destruct Hw as [_ Hl]. destruct Hw1 as [_ Hl1].
      assert (Hlen : length (w_vals w) = length (w_vals w1)) by (rewrite Hl, Hl1, Hd1; reflexivity).
      destruct (get_slot (by_json f) (w_desc w) (w_vals w1)) as [[fd vv]|] eqn:E1.
      * destruct (get_slot_field _ _ _ (w_vals w) _ _ (eq_sym Hlen) E1) as [v0' ->].
        reflexivity.
      * destruct (get_slot (by_json f) (w_desc w) (w_vals w)) as [[fd vv]|] eqn:E2; [|reflexivity].
        destruct (get_slot_field _ _ _ (w_vals w1) _ _ Hlen E2) as [v0' E3].
        congruence.
    + rewrite (Hget1 f Hf). destruct (String.eqb k f); reflexivity.
Qed.

(** * Indistinguishable under the canonical reading *)
Lemma canon_read_slot v : canon (read_slot v) = canon v.
Proof. destruct v as [| | | | | |k [v0|]|]; reflexivity. Qed.

(** The Go type of the struct field that carries a schema field. *)
Definition slot_type_of_attr (a : attr) : gotype := GTAttr (acode a) (anull a).
Definition slot_type_of_rel (r : rel) : gotype := if to_one r then GTAttr 1 false else GTStrs.

Lemma canon_zero_attr a :
  (1 <= acode a <= 14)%Z ->
  canon (zero_value (acode a) (anull a)) = canon (read_slot (go_zero (slot_type_of_attr a))).
Proof.
  intros Hr. unfold zero_value, slot_type_of_attr, go_zero.
  destruct (Z.leb_spec 1 (acode a)); [|lia]. destruct (Z.leb_spec (acode a) 14); [|lia]. cbn [andb].
  destruct (anull a); [reflexivity|].
  destruct (Z.eqb_spec (acode a) 14) as [E|E]; [rewrite E; reflexivity|].
  rewrite canon_read_slot. reflexivity.
Qed.

Lemma canon_zero_rel r :
  canon (if to_one r then VStr "" else VStrs false []) =
  canon (read_slot (go_zero (slot_type_of_rel r))).
Proof. unfold slot_type_of_rel. destruct (to_one r); reflexivity. Qed.

Lemma canon_stored_attr t f a fd v :
  lookup f (tattrs t) = Some a -> (1 <= acode a <= 14)%Z -> sf_type fd = slot_type_of_attr a ->
  canon (stored t f v) = canon (read_slot (stored_w fd v)).
Proof.
  intros Ea Hr Ht. rewrite canon_read_slot. unfold stored, stored_w.
  destruct v; try reflexivity.
  unfold field_zero. rewrite Ea, Ht.
  rewrite <- (canon_read_slot (go_zero (slot_type_of_attr a))). apply canon_zero_attr. exact Hr.
Qed.

Lemma canon_stored_rel t f r fd v :
  lookup f (tattrs t) = None -> lookup f (trels t) = Some r -> sf_type fd = slot_type_of_rel r ->
  canon (stored t f v) = canon (read_slot (stored_w fd v)).
Proof.
  intros Ea Er Ht. rewrite canon_read_slot. unfold stored, stored_w.
  destruct v; try reflexivity.
  unfold field_zero. rewrite Ea, Er, Ht.
  rewrite <- (canon_read_slot (go_zero (slot_type_of_rel r))). apply canon_zero_rel.
Qed.
