(* C08: the sorting rules a URL holds are a fixed point of the rule
   normalisation in NewParams: giving them back (as String() does, in the
   sort parameter) yields the same list. *)
From Coq Require Import Lia Permutation.
From JV Require Import Model.Base Model.GoTime Gen.TypeGo Model.Schema Model.Value
  Model.Url Proofs.BaseFacts Proofs.SoftFacts Proofs.C07Facts.
Open Scope list_scope.

Section Rules.
  Variable attrs : list str.

  Definition smatch (a : str) (r : str) : bool := String.eqb (strip_minus r) a.
  Definition accepted (r : str) : Prop := strip_minus r = "id" \/ In (strip_minus r) attrs.

  (** no two rules name the same field *)
  Fixpoint sdistinct (l : list str) : Prop :=
    match l with
    | [] => True
    | r :: rest => existsb (smatch (strip_minus r)) rest = false /\ sdistinct rest
    end.

  Lemma sdistinct_app l1 l2 :
    sdistinct (l1 ++ l2) <->
    sdistinct l1 /\ sdistinct l2 /\ forall r, In r l1 -> existsb (smatch (strip_minus r)) l2 = false.
  Proof.
    induction l1 as [|x l1 IH]; cbn.
    - split; [intros H; repeat split; [exact H|intros r []]|tauto].
    - rewrite existsb_app, orb_false_iff, IH. split.
      + intros [[H1 H2] [H3 [H4 H5]]]. repeat split; try assumption.
        intros r [<-|Hr]; [exact H2|apply H5; exact Hr].
      + intros [[H1 H2] [H3 H4]]. repeat split; try assumption.
        * apply H4. left; reflexivity.
        * intros r Hr. apply H4. right; exact Hr.
  Qed.

  Lemma existsb_smatch_false a l :
    existsb (smatch a) l = false <-> forall r, In r l -> strip_minus r <> a.
  Proof.
    induction l as [|x l IH]; cbn; [split; [intros _ r []|reflexivity]|].
    rewrite orb_false_iff, IH. unfold smatch at 1. rewrite seqb_neq. split.
    - intros [H1 H2] r [<-|Hr]; [exact H1|apply H2; exact Hr].
    - intros H. split; [apply H; left; reflexivity|intros r Hr; apply H; right; exact Hr].
  Qed.

  (** walking a list of acceptable, pairwise distinct rules that are new to
      the accumulator appends it unchanged *)
  Lemma requested_rules_keeps l : forall acc,
    Forall accepted l -> sdistinct l ->
    (forall r, In r l -> existsb (smatch (strip_minus r)) acc = false) ->
    requested_rules attrs l acc = acc ++ l.
  Proof.
    induction l as [|x l IH]; intros acc Ha Hd Hn; cbn [requested_rules]; [rewrite app_nil_r; reflexivity|].
    inversion Ha as [|? ? Hx Hl]; subst. destruct Hd as [Hd1 Hd2].
    assert (E1 : existsb (fun r => String.eqb (strip_minus r) (strip_minus x)) acc = false).
    { apply (Hn x). left; reflexivity. }
    rewrite E1.
    assert (Hnext : requested_rules attrs l (acc ++ [x]) = (acc ++ [x]) ++ l).
    { apply IH; [exact Hl|exact Hd2|].
      intros r Hr. rewrite existsb_app, (Hn r (or_intror Hr)). cbn. rewrite orb_false_r.
      unfold smatch. apply seqb_neq. intros E.
      apply (proj1 (existsb_smatch_false _ _) Hd1 r Hr). symmetry. exact E. }
    destruct (String.eqb_spec (strip_minus x) "id") as [E|N].
    - rewrite Hnext, <- app_assoc. reflexivity.
    - destruct Hx as [Hx|Hx]; [contradiction|].
      rewrite (proj2 (mem_str_In _ _) Hx), Hnext, <- app_assoc. reflexivity.
  Qed.

  (** what [requested_rules] returns is acceptable and pairwise distinct *)
  Lemma requested_rules_inv rules : forall acc,
    Forall accepted acc -> sdistinct acc ->
    Forall accepted (requested_rules attrs rules acc) /\ sdistinct (requested_rules attrs rules acc).
  Proof.
    induction rules as [|rule rules IH]; intros acc Ha Hd; cbn [requested_rules]; [split; assumption|].
    destruct (existsb _ acc) eqn:Ee; [apply IH; assumption|].
    assert (Hd' : sdistinct (acc ++ [rule])).
    { apply sdistinct_app. split; [exact Hd|]. split; [cbn; auto|].
      intros r Hr. cbn. rewrite orb_false_r. unfold smatch. apply seqb_neq.
      intros E. apply (proj1 (existsb_smatch_false _ _) Ee r Hr). symmetry. exact E. }
    destruct (String.eqb_spec (strip_minus rule) "id") as [E|N].
    - apply IH; [|exact Hd']. apply Forall_app. split; [exact Ha|]. constructor; [left; exact E|constructor].
    - destruct (mem_str (strip_minus rule) attrs) eqn:Em; [|apply IH; assumption].
      apply IH; [|exact Hd']. apply Forall_app. split; [exact Ha|].
      constructor; [right; apply mem_str_In; exact Em|constructor].
  Qed.

  (** the hygiene the fixed point needs: distinct attribute names, none
      starting with '-', none called "id" *)
  Hypothesis attrs_nodup : NoDup attrs.
  Hypothesis attrs_plain : forall a, In a attrs -> strip_minus a = a /\ a <> "id".

  Lemma sdistinct_plain l : NoDup l -> (forall a, In a l -> strip_minus a = a) -> sdistinct l.
  Proof.
    induction l as [|x l IH]; intros Hn Hp; cbn; [exact I|].
    inversion Hn as [|? ? Hx Hl]; subst. split.
    - apply existsb_smatch_false. intros r Hr. rewrite (Hp r (or_intror Hr)), (Hp x (or_introl eq_refl)).
      intros ->. contradiction.
    - apply IH; [exact Hl|]. intros a Ha. apply Hp. right; exact Ha.
  Qed.

  Definition rules_of (rules : list str) : list str :=
    let req := requested_rules attrs rules [] in
    let restr := isort String.ltb
                   (filter (fun a => negb (existsb (fun r => String.eqb (strip_minus r) a) req)) attrs) in
    let all := req ++ restr in
    if existsb (fun r => String.eqb (strip_minus r) "id") req then all else all ++ ["id"].

  Lemma rules_of_shape rules :
    Forall accepted (rules_of rules) /\ sdistinct (rules_of rules) /\
    existsb (fun r => String.eqb (strip_minus r) "id") (rules_of rules) = true /\
    (forall a, In a attrs -> existsb (smatch a) (rules_of rules) = true).
  Proof.
    unfold rules_of.
    set (req := requested_rules attrs rules []).
    set (flt := filter (fun a => negb (existsb (fun r => String.eqb (strip_minus r) a) req)) attrs).
    set (restr := isort String.ltb flt).
    destruct (requested_rules_inv rules [] (Forall_nil _) I) as [Hra Hrd]. fold req in Hra, Hrd.
    assert (Hin : forall a, In a restr <-> In a attrs /\ existsb (smatch a) req = false).
    { intros a. unfold restr. split.
      - intros H. apply (Permutation_in _ (isort_perm _ _)) in H. apply filter_In in H.
        destruct H as [H1 H2]. split; [exact H1|]. apply negb_true_iff in H2. exact H2.
      - intros [H1 H2]. apply (Permutation_in _ (Permutation_sym (isort_perm _ _))).
        apply filter_In. split; [exact H1|]. apply negb_true_iff. exact H2. }
    assert (Hsa : Forall accepted restr).
    { apply Forall_forall. intros a Ha. apply Hin in Ha. right.
      rewrite (proj1 (attrs_plain a (proj1 Ha))). exact (proj1 Ha). }
    assert (Hsd : sdistinct restr).
    { apply sdistinct_plain.
      - unfold restr. eapply Permutation_NoDup; [apply Permutation_sym, isort_perm|].
        apply NoDup_filter. exact attrs_nodup.
      - intros a Ha. apply Hin in Ha. apply attrs_plain. exact (proj1 Ha). }
    assert (Hcross : forall r, In r req -> existsb (smatch (strip_minus r)) restr = false).
    { intros r Hr. apply existsb_smatch_false. intros a Ha E. apply Hin in Ha. destruct Ha as [Ha1 Ha2].
      rewrite (proj1 (attrs_plain a Ha1)) in E.
      apply (proj1 (existsb_smatch_false _ _) Ha2 r Hr). symmetry. exact E. }
    assert (Hall : sdistinct (req ++ restr)) by (apply sdistinct_app; auto).
    assert (Hcover : forall a, In a attrs -> existsb (smatch a) (req ++ restr) = true).
    { intros a Ha. rewrite existsb_app. destruct (existsb (smatch a) req) eqn:E; [reflexivity|].
      cbn. apply existsb_exists. exists a. split; [apply Hin; auto|].
      unfold smatch. rewrite (proj1 (attrs_plain a Ha)). apply String.eqb_refl. }
    destruct (existsb (fun r => String.eqb (strip_minus r) "id") req) eqn:Eid.
    - split; [apply Forall_app; auto|]. split; [exact Hall|]. split; [|exact Hcover].
      rewrite existsb_app. change (existsb (smatch "id") req || existsb (smatch "id") restr = true).
      unfold smatch at 1. rewrite Eid. reflexivity.
    - split; [apply Forall_app; split; [apply Forall_app; auto|constructor; [left; reflexivity|constructor]]|].
      split.
      + apply sdistinct_app. split; [exact Hall|]. split; [cbn; auto|].
        intros r Hr. cbn [existsb]. rewrite orb_false_r. unfold smatch.
        change (strip_minus "id") with "id". apply seqb_neq. intros E0; symmetry in E0; revert E0.
        apply in_app_or in Hr. destruct Hr as [Hr|Hr].
        * intros E. exact (proj1 (existsb_smatch_false "id" req) Eid r Hr E).
        * apply Hin in Hr. rewrite (proj1 (attrs_plain r (proj1 Hr))). intros E.
          exact (proj2 (attrs_plain r (proj1 Hr)) E).
      + split.
        * rewrite existsb_app. cbn. rewrite orb_true_r. reflexivity.
        * intros a Ha. rewrite existsb_app, (Hcover a Ha). reflexivity.
  Qed.

  Lemma rules_of_fixed rules : rules_of (rules_of rules) = rules_of rules.
  Proof.
    destruct (rules_of_shape rules) as [Ha [Hd [Hid Hcov]]].
    set (R := rules_of rules) in *.
    unfold rules_of at 1.
    assert (E : requested_rules attrs R [] = R).
    { rewrite (requested_rules_keeps R [] Ha Hd); [reflexivity|]. intros r _. reflexivity. }
    rewrite E, Hid.
    assert (Ef : filter (fun a => negb (existsb (fun r => String.eqb (strip_minus r) a) R)) attrs = []).
    { clear - Hcov. induction attrs as [|a l IH]; [reflexivity|]. cbn [filter].
      assert (Ha : existsb (smatch a) R = true) by (apply Hcov; left; reflexivity).
      unfold smatch in Ha. rewrite Ha. cbn. apply IH. intros b Hb. apply Hcov. right; exact Hb. }
    rewrite Ef. cbn. apply app_nil_r.
  Qed.
End Rules.

Definition attr_names (t : type) : list str := map (fun kv => aname (snd kv)) (tattrs t).

Lemma sorting_rules_is t rules : sorting_rules t rules = rules_of (attr_names t) rules.
Proof. reflexivity. Qed.

Theorem sorting_rules_fixed_point t rules :
  NoDup (attr_names t) ->
  (forall a, In a (attr_names t) -> strip_minus a = a /\ a <> "id") ->
  sorting_rules t (sorting_rules t rules) = sorting_rules t rules.
Proof.
  intros Hn Hp. rewrite !sorting_rules_is. apply rules_of_fixed; assumption.
Qed.

(** without the hygiene it fails: an attribute called "-a" *)
Lemma sorting_rules_fixed_point_needs_plain_names :
  let t := mkType "t" [("-a", mkAttr "-a" 1 false)] [] in
  sorting_rules t (sorting_rules t []) <> sorting_rules t [].
Proof. vm_compute. discriminate. Qed.
