(* Decimal printing and parsing are inverse on every width. *)
From Coq Require Import Lia DecimalString DecimalN DecimalPos Decimal.
From JV Require Import Model.Base Model.Strconv.

Lemma N_to_uint_nonnil n : N.to_uint n <> Nil.
Proof.
  destruct n; cbn; [discriminate|]. apply DecimalPos.Unsigned.to_uint_nonnil.
Qed.

Lemma parse_udec_utoa z : (0 <= z)%Z -> parse_udec (utoa z) = Some z.
Proof.
  intros Hz. unfold parse_udec, utoa.
  rewrite NilZero.usu by apply N_to_uint_nonnil. cbn.
  rewrite DecimalN.Unsigned.of_to. f_equal. apply Z2N.id. exact Hz.
Qed.

Lemma parse_udec_nonneg s z : parse_udec s = Some z -> (0 <= z)%Z.
Proof.
  unfold parse_udec. destruct (NilZero.uint_of_string s); cbn; [|discriminate].
  intros Hr; inversion Hr. apply N2Z.is_nonneg.
Qed.

(** The first character of a printed natural is a digit. *)
Lemma string_of_uint_head d :
  d <> Nil -> exists c r, NilEmpty.string_of_uint d = String c r /\
                          Ascii.eqb c "-" = false /\ Ascii.eqb c "+" = false.
Proof.
  destruct d; intros H; try congruence; cbn; eexists _, _; (split; [reflexivity|split; reflexivity]).
Qed.

Lemma utoa_head z : exists c r, utoa z = String c r /\
                                Ascii.eqb c "-" = false /\ Ascii.eqb c "+" = false.
Proof.
  unfold utoa.
  pose proof (N_to_uint_nonnil (Z.to_N z)) as H.
  replace (NilZero.string_of_uint (N.to_uint (Z.to_N z)))
    with (NilEmpty.string_of_uint (N.to_uint (Z.to_N z))).
  - apply string_of_uint_head. exact H.
  - destruct (N.to_uint (Z.to_N z)); try reflexivity. congruence.
Qed.

Lemma parse_uint_utoa z bits :
  (0 <= z < 2 ^ bits)%Z -> parse_uint (utoa z) bits = Some z.
Proof.
  intros [H1 H2]. unfold parse_uint. rewrite parse_udec_utoa by exact H1.
  destruct (Z.ltb_spec z (2 ^ bits)); [reflexivity|lia].
Qed.

Lemma parse_uint_range s bits z : parse_uint s bits = Some z -> (0 <= z < 2 ^ bits)%Z.
Proof.
  unfold parse_uint. destruct (parse_udec s) as [z'|] eqn:E; [|discriminate].
  destruct (Z.ltb_spec z' (2 ^ bits)); [|discriminate].
  intros Hr; inversion Hr; subst. split; [eapply parse_udec_nonneg; exact E|assumption].
Qed.

Lemma parse_int_neg body bits :
  parse_int (String "-" body) bits =
  match parse_udec body with
  | Some z => if (z <=? 2 ^ (bits - 1))%Z then Some (- z)%Z else None
  | None => None
  end.
Proof. reflexivity. Qed.

Lemma parse_int_plain c r bits :
  Ascii.eqb c "-" = false -> Ascii.eqb c "+" = false ->
  parse_int (String c r) bits =
  match parse_udec (String c r) with
  | Some z => if (z <? 2 ^ (bits - 1))%Z then Some z else None
  | None => None
  end.
Proof. intros H1 H2. unfold parse_int. rewrite H1, H2. reflexivity. Qed.

Lemma parse_int_itoa z bits :
  (- 2 ^ (bits - 1) <= z < 2 ^ (bits - 1))%Z -> parse_int (itoa z) bits = Some z.
Proof.
  intros [H1 H2]. unfold itoa. destruct (Z.ltb_spec z 0) as [Hn|Hn].
  - rewrite parse_int_neg, parse_udec_utoa by lia.
    destruct (Z.leb_spec (- z) (2 ^ (bits - 1))); [f_equal; lia|lia].
  - destruct (utoa_head z) as [c [r [E [Hm Hp]]]].
    rewrite E, (parse_int_plain _ _ _ Hm Hp), <- E, parse_udec_utoa by lia.
    destruct (Z.ltb_spec z (2 ^ (bits - 1))); [reflexivity|lia].
Qed.

Lemma parse_int_range s bits z :
  (1 <= bits)%Z ->
  parse_int s bits = Some z -> (- 2 ^ (bits - 1) <= z < 2 ^ (bits - 1))%Z.
Proof.
  intros Hb. unfold parse_int. destruct s as [|c rest]; [discriminate|].
  destruct (parse_udec _) as [z'|] eqn:E; [|discriminate].
  pose proof (parse_udec_nonneg _ _ E) as Hz.
  assert (0 < 2 ^ (bits - 1))%Z as Hp by (apply Z.pow_pos_nonneg; lia).
  destruct (Ascii.eqb c "-").
  - destruct (Z.leb_spec z' (2 ^ (bits - 1))); [|discriminate].
    intros Hr; inversion Hr; subst. lia.
  - destruct (Z.ltb_spec z' (2 ^ (bits - 1))); [|discriminate].
    intros Hr; inversion Hr; subst. lia.
Qed.

(** What an accepted literal denotes: an optional sign followed by decimal
    digits, read without any bound. *)
Definition lit_value (s : str) : option Z :=
  match s with
  | EmptyString => None
  | String c rest =>
      if Ascii.eqb c "-" then option_map Z.opp (parse_udec rest)
      else if Ascii.eqb c "+" then parse_udec rest
      else parse_udec s
  end.

Lemma parse_int_lit_value s bits z : parse_int s bits = Some z -> lit_value s = Some z.
Proof.
  unfold parse_int, lit_value. destruct s as [|c rest]; [discriminate|].
  destruct (Ascii.eqb c "-") eqn:Em; cbn [orb].
  - destruct (parse_udec rest) as [z'|]; [|discriminate]. cbn.
    destruct (Z.leb z' _); [|discriminate]. intros Hr; inversion Hr; reflexivity.
  - destruct (Ascii.eqb c "+") eqn:Ep;
      (destruct (parse_udec _) as [z'|]; [|discriminate]);
      (destruct (Z.ltb z' _); [|discriminate]); intros Hr; inversion Hr; reflexivity.
Qed.

Lemma parse_uint_lit_value s bits z : parse_uint s bits = Some z -> parse_udec s = Some z.
Proof.
  unfold parse_uint. destruct (parse_udec s) as [z'|]; [|discriminate].
  destruct (Z.ltb z' _); [|discriminate]. intros Hr; inversion Hr; reflexivity.
Qed.
