(* C02: the document-level round trip for any resources that round-trip one
   by one (soft: C01_soft_resource_roundtrip; struct-backed:
   C01_wrapped_resource_roundtrip). *)
From Coq Require Import Lia Permutation.
From JV Require Import Model.Base Model.GoTime Gen.TypeGo Model.Schema Model.Value
  Model.Strconv Model.Json Model.Attr Model.SoftRes Model.Wrapper Model.Resource Model.C14
  Model.Marshal Model.Unmarshal Model.Document
  Proofs.BaseFacts Proofs.MapFacts Proofs.SoftFacts Proofs.C01Full Proofs.C02Facts Proofs.C02Full.
Open Scope list_scope.

Section Generic.
  Variables (e : stdenv) (sc : sch) (fields : list (str * list str)) (reldata : list (str * list str))
            (prepath : str).

  (** [r] marshals to a payload that unmarshals to [r'] *)
  Definition roundtrips (r r' : resource) : Prop :=
    exists j, marshal_resource e r prepath (fields_for fields (res_type_name r)) reldata = Ok j /\
              unmarshal_resource e sc j = Ok r'.

  Lemma all_roundtrip_gen : forall l l', Forall2 roundtrips l l' ->
    exists js, marshal_all e l prepath fields reldata = Ok js /\
               unmarshal_each e sc js = Ok l' /\ all_identifier_shaped js = true /\ length js = length l.
  Proof.
    induction 1 as [|r r' l l' [j [Hm Hu]] _ IH].
    - exists []. repeat split; reflexivity.
    - destruct IH as [js [Hms [Hus [Hid Hlen]]]].
      exists (j :: js). cbn [marshal_all unmarshal_each all_identifier_shaped length].
      rewrite Hm, Hms, Hu, Hus. cbn [bind].
      destruct (marshaled_resource_shape _ _ _ _ _ _ Hm) as [_ [i Hi]]. rewrite Hi.
      repeat split; try assumption. rewrite Hlen. reflexivity.
  Qed.
End Generic.

Section DocGeneric.
  Variables (e : stdenv) (sc : sch) (fields : list (str * list str)) (self : str).
  Variable d : document.
  Variable incl' : list resource.     (* what the included resources come back as, in marshaled order *)
  Hypothesis Hinc : Forall2 (roundtrips e sc fields (d_reldata d) (d_prepath d)) (sort_included (d_included d)) incl'.
  Hypothesis Herr : d_errors d = [].

  Definition rest_ok_gen (u : udoc) : Prop :=
    u_errors u = [] /\ u_included u = incl' /\
    (NoDup (map fst (d_meta d)) -> forall k, lookup k (u_meta u) = lookup k (d_meta d)).

  Lemma doc_roundtrip_any dj (data' : udata) :
    marshal_data e d fields = Ok (Some dj) ->
    (match dj with
     | JObj m => exists r, unmarshal_resource e sc (JObj m) = Ok r /\ data' = URes r
     | JArr l => exists c, unmarshal_collection e sc (JArr l) = Ok c /\ data' = UCol c
     | JNull => data' = UNil
     | _ => False
     end) ->
    exists j u, marshal_document e d fields self = Ok j /\
                unmarshal_document e sc j = Ok u /\ u_data u = data' /\ rest_ok_gen u.
  Proof.
    intros Hd Hback.
    destruct (all_roundtrip_gen e sc fields (d_reldata d) (d_prepath d) _ _ Hinc) as [js [Hm [Hu [Hi Hlen]]]].
    assert (Hincs : (match d_included d with
                     | [] => Ok []
                     | _ :: _ => marshal_all e (sort_included (d_included d)) (d_prepath d) fields (d_reldata d)
                     end) = Ok js).
    { destruct (d_included d) as [|i0 il] eqn:Ei; [|exact Hm].
      cbn in Hm. exact Hm. }
    rewrite (marshal_document_explicit e d fields self dj js Hd Herr Hincs).
    eexists. eexists. split; [reflexivity|].
    unfold unmarshal_document. rewrite dec_payske_marshaled. cbn [p_data p_errors p_included p_meta].
    rewrite Hi. cbn [negb]. rewrite Hu. cbn [bind].
    destruct dj as [| | | | l | m]; try contradiction.
    - subst data'. split; [reflexivity|]. split; [reflexivity|]. split; [reflexivity|]. split; [reflexivity|].
      intros Hn k. apply meta_roundtrip. exact Hn.
    - destruct Hback as [c [Hc ->]]. rewrite Hc. cbn [bind]. split; [reflexivity|]. split; [reflexivity|].
      split; [reflexivity|]. split; [reflexivity|]. intros Hn k. apply meta_roundtrip. exact Hn.
    - destruct Hback as [r [Hr ->]]. rewrite Hr. cbn [bind]. split; [reflexivity|]. split; [reflexivity|].
      split; [reflexivity|]. split; [reflexivity|]. intros Hn k. apply meta_roundtrip. exact Hn.
  Qed.

  (** a single resource of either implementation *)
  Theorem doc_roundtrip_resource_any r r' :
    d_data d = DRes r -> roundtrips e sc fields (d_reldata d) (d_prepath d) r r' ->
    exists j u, marshal_document e d fields self = Ok j /\
                unmarshal_document e sc j = Ok u /\ u_data u = URes r' /\ rest_ok_gen u.
  Proof.
    intros Hdata [dj [Hm Hu]].
    destruct (marshaled_resource_shape _ _ _ _ _ _ Hm) as [[m ->] _].
    apply (doc_roundtrip_any (JObj m) (URes r')).
    - unfold marshal_data. rewrite Hdata, Hm. reflexivity.
    - exists r'. auto.
  Qed.

  (** a collection mixing both implementations: same length, same order *)
  Theorem doc_roundtrip_collection_any ct l l' :
    d_data d = DCol ct l -> Forall2 (roundtrips e sc fields (d_reldata d) (d_prepath d)) l l' ->
    exists j u, marshal_document e d fields self = Ok j /\
                unmarshal_document e sc j = Ok u /\ u_data u = UCol l' /\ rest_ok_gen u.
  Proof.
    intros Hdata Hall.
    destruct (all_roundtrip_gen e sc fields (d_reldata d) (d_prepath d) l l' Hall) as [js [Hm [Hu _]]].
    apply (doc_roundtrip_any (JArr js) (UCol l')).
    - unfold marshal_data. rewrite Hdata, Hm. reflexivity.
    - exists l'. split; [exact Hu|reflexivity].
  Qed.
End DocGeneric.
