(* C20: the relationships of the built type are exactly the rel-tagged
   fields; the attributes exactly the attr-tagged ones. *)
From Coq Require Import Lia.
From JV Require Import Model.Base Model.GoTime Gen.TypeGo Model.Schema Model.Value
  Model.Wrapper Proofs.MapFacts Proofs.SoftFacts Proofs.C20Facts Proofs.C07Fields.
Open Scope list_scope.

(** the relationship a rel-tagged field declares *)
Definition rel_of_field (typ : str) (f : sfield) : option rel :=
  match split_comma (sf_api f) with
  | hd :: target :: tl2 =>
      if String.eqb hd "rel" then
        Some (mkRel typ (sf_json f) (negb (String.eqb (go_type_string (sf_type f)) "[]string")) target
                    (match tl2 with [x] => x | _ => "" end) false)
      else None
  | _ => None
  end.

Lemma rels_step_spec typ m f m' :
  rels_step typ (Some m) f = Some m' ->
  match rel_of_field typ f with
  | Some x => m' = map_set (sf_json f) x m
  | None => m' = m
  end.
Proof.
  unfold rels_step, rel_of_field.
  destruct (split_comma (sf_api f)) as [|hd tl]; [intros H; injection H as <-; reflexivity|].
  destruct (String.eqb hd "rel").
  - destruct tl as [|target tl2]; [discriminate|]. intros H; injection H as <-. reflexivity.
  - intros H; injection H as <-. destruct tl; reflexivity.
Qed.

Lemma fold_rels_none typ d : fold_left (rels_step typ) d None = None.
Proof. induction d as [|f d IH]; cbn; [reflexivity|exact IH]. Qed.

Lemma build_rels_from_gen typ d : forall acc rels,
  fold_left (rels_step typ) d (Some acc) = Some rels ->
  forall n x, In (n, x) rels ->
  In (n, x) acc \/ exists f, In f d /\ rel_of_field typ f = Some x /\ sf_json f = n.
Proof.
  induction d as [|f d IH]; intros acc rels; cbn [fold_left].
  - intros H; injection H as <-. auto.
  - destruct (rels_step typ (Some acc) f) as [m'|] eqn:E; [|rewrite fold_rels_none; discriminate].
    intros H n x Hin. destruct (IH _ _ H n x Hin) as [Hacc|[f' [Hf' Hr]]].
    + apply rels_step_spec in E. destruct (rel_of_field typ f) as [x0|] eqn:Er.
      * subst m'. apply map_set_In_weak in Hacc. destruct Hacc as [[-> ->]|Hold]; [|left; exact Hold].
        right. exists f. split; [left; reflexivity|split; [exact Er|reflexivity]].
      * subst m'. left; exact Hacc.
    + right. exists f'. split; [right; exact Hf'|exact Hr].
Qed.

(** every relationship of the built type comes from a rel-tagged field ... *)
Lemma build_rels_from typ d rels n x :
  build_rels typ d = Some rels -> In (n, x) rels ->
  exists f, In f d /\ rel_of_field typ f = Some x /\ sf_json f = n.
Proof.
  intros H Hin. destruct (build_rels_from_gen typ d [] rels H n x Hin) as [[]|Hx]. exact Hx.
Qed.

(** ... and every rel-tagged field gives one (a later field with the same json
    name would overwrite it: Check forbids that) *)
Lemma build_rels_complete_gen typ d : forall acc rels,
  fold_left (rels_step typ) d (Some acc) = Some rels ->
  forall f x, In f d -> rel_of_field typ f = Some x -> In (sf_json f) (map fst rels).
Proof.
  induction d as [|g d IH]; intros acc rels; cbn [fold_left]; [intros _ f x []|].
  destruct (rels_step typ (Some acc) g) as [m'|] eqn:E; [|rewrite fold_rels_none; discriminate].
  intros H f x [<-|Hin] Hr.
  - apply rels_step_spec in E. rewrite Hr in E. subst m'.
    assert (G : forall d0 acc0 rels0 k, fold_left (rels_step typ) d0 (Some acc0) = Some rels0 ->
                In k (map fst acc0) -> In k (map fst rels0)).
    { clear. induction d0 as [|g0 d0 IH0]; intros acc0 rels0 k; cbn [fold_left].
      - intros H; injection H as <-. auto.
      - destruct (rels_step typ (Some acc0) g0) as [m0|] eqn:E0; [|rewrite fold_rels_none; discriminate].
        intros H Hk. apply (IH0 _ _ _ H). apply rels_step_spec in E0.
        destruct (rel_of_field typ g0); subst m0; [apply map_set_keys; right; exact Hk|exact Hk]. }
    apply (G _ _ _ _ H). apply map_set_keys. left; reflexivity.
  - apply (IH _ _ H f x Hin Hr).
Qed.

Lemma build_rels_complete typ d rels f x :
  build_rels typ d = Some rels -> In f d -> rel_of_field typ f = Some x -> In (sf_json f) (map fst rels).
Proof. intros H. apply (build_rels_complete_gen typ d [] rels H). Qed.

(** every attr-tagged field gives an attribute of the built type *)
Lemma build_attrs_complete d f : In f d -> sf_api f = "attr" -> In (sf_json f) (map fst (build_attrs d)).
Proof.
  unfold build_attrs.
  set (step := fun (m : list (str * attr)) (f0 : sfield) =>
                 if String.eqb (sf_api f0) "attr"
                 then let '(k, n) := get_attr_type (go_type_string (sf_type f0)) in
                      map_set (sf_json f0) (mkAttr (sf_json f0) k n) m
                 else m).
  assert (Keep : forall d0 acc k, In k (map fst acc) -> In k (map fst (fold_left step d0 acc))).
  { induction d0 as [|g d0 IH]; intros acc k Hk; cbn [fold_left]; [exact Hk|].
    apply IH. unfold step. destruct (String.eqb (sf_api g) "attr"); [|exact Hk].
    destruct (get_attr_type _) as [kk nn]. apply map_set_keys. right; exact Hk. }
  intros Hin Hapi. generalize (@nil (str * attr)) as acc.
  induction d as [|g d IH]; intros acc; [contradiction|]. cbn [fold_left].
  destruct Hin as [<-|Hin]; [|apply IH; exact Hin].
  apply Keep. unfold step. rewrite Hapi. cbn.
  destruct (get_attr_type _) as [kk nn]. apply map_set_keys. left; reflexivity.
Qed.

Lemma tagged_fields_all_present typ d rels :
  build_rels typ d = Some rels ->
  (forall f, In f d -> sf_api f = "attr" -> In (sf_json f) (map fst (build_attrs d))) /\
  (forall f x, In f d -> rel_of_field typ f = Some x -> In (sf_json f) (map fst rels)).
Proof.
  intros H. split.
  - intros f. exact (build_attrs_complete d f).
  - intros f x. exact (build_rels_complete typ d rels f x H).
Qed.
