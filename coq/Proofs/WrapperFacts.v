(* Wrapper: get/set laws on struct descriptors whose tagged fields are
   exported and have distinct json names. *)
From Coq Require Import Lia.
From JV Require Import Model.Base Model.GoTime Gen.TypeGo Model.Schema Model.Value
  Model.Wrapper Proofs.BaseFacts.
Open Scope list_scope.

(** * Slots *)
Lemma get_set_slot_same p d : forall vals nv f v,
  get_slot p d vals = Some (f, v) ->
  get_slot p d (set_slot p d vals nv) = Some (f, nv f).
Proof.
  induction d as [|f0 d IH]; intros [|v0 vals] nv f v; cbn; try discriminate.
  destruct (p f0) eqn:E; cbn; rewrite ?E.
  - intros H; inversion H; subst. reflexivity.
  - apply IH.
Qed.

Lemma get_set_slot_other p q d : forall vals nv,
  (forall f, In f d -> p f = true -> q f = false) ->
  get_slot q d (set_slot p d vals nv) = get_slot q d vals.
Proof.
  induction d as [|f0 d IH]; intros [|v0 vals] nv Hpq; cbn; try reflexivity.
  destruct (p f0) eqn:E; cbn.
  - rewrite (Hpq f0 (or_introl eq_refl) E). reflexivity.
  - destruct (q f0); [reflexivity|]. apply IH. intros f Hin. apply Hpq. right; exact Hin.
Qed.

Lemma get_slot_In p d : forall vals f v,
  get_slot p d vals = Some (f, v) -> In f d /\ p f = true.
Proof.
  induction d as [|f0 d IH]; intros [|v0 vals] f v; cbn; try discriminate.
  destruct (p f0) eqn:E.
  - intros H; inversion H; subst. auto.
  - intros H. destruct (IH _ _ _ H). auto.
Qed.

Lemma set_slot_length p d : forall vals nv, length (set_slot p d vals nv) = length vals.
Proof.
  induction d as [|f0 d IH]; intros [|v0 vals] nv; cbn; try reflexivity.
  destruct (p f0); cbn; [reflexivity|]. rewrite IH. reflexivity.
Qed.

(** * Descriptors the laws are stated for *)
Definition good_field (f : sfield) : Prop :=
  sf_exported f = true /\ sf_api f <> "" /\ sf_json f <> "".

Definition good_desc (d : structdesc) : Prop :=
  NoDup (map sf_json d) /\ NoDup (map sf_name d) /\ Forall good_field d /\
  exists f0, In f0 d /\ sf_name f0 = "ID" /\ sf_type f0 = GTAttr 1 false /\ sf_json f0 = "id".

Definition by_json (k : str) (f : sfield) : bool := String.eqb k (sf_json f).
Definition by_json_api (k : str) (f : sfield) : bool :=
  String.eqb k (sf_json f) && negb (String.eqb (sf_api f) "").
Definition by_name_id (f : sfield) : bool := String.eqb (sf_name f) "ID".

Lemma by_json_api_eq d k vals :
  Forall good_field d -> get_slot (by_json_api k) d vals = get_slot (by_json k) d vals.
Proof.
  revert vals. induction d as [|f0 d IH]; intros [|v0 vals] Hg; cbn; try reflexivity.
  inversion Hg as [|? ? [_ [Ha _]] Hg']; subst.
  unfold by_json_api at 1, by_json at 1.
  apply String.eqb_neq in Ha. rewrite Ha. cbn. rewrite Bool.andb_true_r.
  destruct (String.eqb k (sf_json f0)); [reflexivity|]. apply IH. exact Hg'.
Qed.

(** What reading a slot returns: a nil pointer reads as the untyped nil. *)
Definition read_slot (v : value) : value :=
  match v with VPtr _ None => VNil | _ => v end.

Definition slot_value (w : wrapper) (k : str) : option (sfield * value) :=
  get_slot (by_json k) (w_desc w) (w_vals w).

Lemma wrapper_get_field_spec w k :
  good_desc (w_desc w) -> k <> "" ->
  wrapper_get_field w k =
  match slot_value w k with
  | Some (f, v) => Ok (read_slot v)
  | None => Panic
  end.
Proof.
  intros [_ [_ [Hg _]]] Hk. unfold wrapper_get_field, slot_value.
  apply String.eqb_neq in Hk. rewrite Hk.
  change (fun f => String.eqb k (sf_json f) && negb (String.eqb (sf_api f) "")) with (by_json_api k).
  rewrite by_json_api_eq by exact Hg.
  destruct (get_slot (by_json k) (w_desc w) (w_vals w)) as [[f v]|] eqn:E; [|reflexivity].
  apply get_slot_In in E. destruct E as [Hin _].
  rewrite Forall_forall in Hg. destruct (Hg f Hin) as [He _]. rewrite He. cbn.
  destruct v as [| | | | | |k0 [v0|]|]; reflexivity.
Qed.

(** What a well-typed Set stores in the slot. *)
Definition stored_w (f : sfield) (v : value) : value :=
  match v with VNil => go_zero (sf_type f) | _ => v end.

Definition wset_ok (f : sfield) (v : value) : Prop :=
  v = VNil \/ value_has_type (sf_type f) v = true.

Lemma wrapper_set_field_spec w k v f v0 :
  good_desc (w_desc w) -> k <> "" -> slot_value w k = Some (f, v0) -> wset_ok f v ->
  exists w', wrapper_set_field w k v = Ok w' /\
             w_desc w' = w_desc w /\ w_typ w' = w_typ w /\
             w_attrs w' = w_attrs w /\ w_rels w' = w_rels w /\
             w_vals w' = set_slot (by_json k) (w_desc w) (w_vals w) (fun f => stored_w f v).
Proof.
  intros [_ [_ [Hg _]]] Hk Hs Hok. unfold wrapper_set_field, slot_value in *.
  apply String.eqb_neq in Hk. rewrite Hk.
  change (fun f => String.eqb k (sf_json f)) with (by_json k). rewrite Hs.
  pose proof (get_slot_In _ _ _ _ _ Hs) as [Hin _].
  rewrite Forall_forall in Hg. destruct (Hg f Hin) as [He _]. rewrite He. cbn [negb].
  destruct Hok as [->|Ht].
  - eexists. split; [reflexivity|]. cbn. repeat split.
  - destruct v; try (rewrite Ht; eexists; split; [reflexivity|]; cbn; repeat split).
    (* VNil has no Go type *)
    destruct (sf_type f); discriminate.
Qed.

Lemma by_json_disjoint d k k' :
  k <> k' -> forall f, In f d -> by_json k f = true -> by_json k' f = false.
Proof.
  intros N f _ H. unfold by_json in *. apply String.eqb_eq in H. subst.
  apply String.eqb_neq. intros E. apply N. symmetry. exact E.
Qed.

(** Get after Set, same field / other field. *)
Lemma wrapper_get_set_same w k v f v0 :
  good_desc (w_desc w) -> k <> "" -> k <> "id" ->
  slot_value w k = Some (f, v0) -> wset_ok f v ->
  exists w', wrapper_set w k v = Ok w' /\ w_desc w' = w_desc w /\
             wrapper_get w' k = Ok (read_slot (stored_w f v)).
Proof.
  intros Hg Hk Hid Hs Hok.
  destruct (wrapper_set_field_spec w k v f v0 Hg Hk Hs Hok) as [w' [Hset [Hd [_ [_ [_ Hv]]]]]].
  exists w'. unfold wrapper_set, wrapper_get.
  apply String.eqb_neq in Hid. rewrite Hid. split; [exact Hset|]. split; [exact Hd|].
  rewrite wrapper_get_field_spec; [|rewrite Hd; exact Hg|exact Hk].
  unfold slot_value. rewrite Hd, Hv.
  rewrite (get_set_slot_same _ _ _ _ _ _ Hs). reflexivity.
Qed.

Lemma wrapper_get_set_other w k v f v0 k' :
  good_desc (w_desc w) -> k <> "" -> k <> "id" -> k' <> "" -> k' <> "id" -> k' <> k ->
  slot_value w k = Some (f, v0) -> wset_ok f v ->
  exists w', wrapper_set w k v = Ok w' /\ wrapper_get w' k' = wrapper_get w k'.
Proof.
  intros Hg Hk Hid Hk' Hid' Hne Hs Hok.
  destruct (wrapper_set_field_spec w k v f v0 Hg Hk Hs Hok) as [w' [Hset [Hd [_ [_ [_ Hv]]]]]].
  exists w'. unfold wrapper_set, wrapper_get.
  apply String.eqb_neq in Hid, Hid'. rewrite Hid, Hid'. split; [exact Hset|].
  rewrite !wrapper_get_field_spec; try assumption; [|rewrite Hd; exact Hg].
  unfold slot_value. rewrite Hd, Hv.
  rewrite get_set_slot_other; [reflexivity|].
  apply by_json_disjoint. intros E. apply Hne. symmetry. exact E.
Qed.

(** The id is stored in the ID field and does not touch the others. *)
Lemma id_slot_first d vals f0 :
  NoDup (map sf_json d) -> NoDup (map sf_name d) -> length vals = length d ->
  In f0 d -> sf_name f0 = "ID" -> sf_json f0 = "id" ->
  exists v, get_slot by_name_id d vals = Some (f0, v) /\ get_slot (by_json "id") d vals = Some (f0, v).
Proof.
  revert vals. induction d as [|f d IH]; intros [|v vals] Hj Hn Hl Hin Hname Hjson; cbn [get_slot map length In] in *; try tauto; try discriminate.
  inversion Hj as [|? ? Hj1 Hj2]; inversion Hn as [|? ? Hn1 Hn2]; subst.
  destruct Hin as [->|Hin].
  - unfold by_name_id, by_json. rewrite Hname, Hjson. cbn. eauto.
  - assert (by_name_id f = false).
    { unfold by_name_id. apply String.eqb_neq. intros E. apply Hn1. rewrite E, <- Hname.
      apply in_map. exact Hin. }
    assert (by_json "id" f = false).
    { unfold by_json. apply String.eqb_neq. intros E. apply Hj1. rewrite <- E, <- Hjson.
      apply in_map. exact Hin. }
    rewrite H, H0. apply IH; auto.
Qed.

Lemma wrapper_set_id_spec w x :
  good_desc (w_desc w) -> length (w_vals w) = length (w_desc w) ->
  exists w', wrapper_set w "id" (VStr x) = Ok w' /\ w_desc w' = w_desc w /\
             length (w_vals w') = length (w_desc w') /\
             wrapper_get w' "id" = Ok (VStr x) /\
             forall k, k <> "" -> k <> "id" -> wrapper_get w' k = wrapper_get w k.
Proof.
  intros Hg Hl. pose proof Hg as [Hj [Hn [Hgf [f0 [Hin [Hname [Hty Hjson]]]]]]].
  destruct (id_slot_first _ _ f0 Hj Hn Hl Hin Hname Hjson) as [v [S1 S2]].
  unfold wrapper_set. cbn [String.eqb Ascii.eqb Bool.eqb].
  unfold wrapper_set_id. change (fun f => String.eqb (sf_name f) "ID") with by_name_id.
  rewrite S1, Hty. cbn [bind].
  set (w1 := mkWrapper _ _ _ _ _).
  assert (Hg1 : good_desc (w_desc w1)) by exact Hg.
  assert (S2' : slot_value w1 "id" = Some (f0, VStr x)).
  { unfold slot_value, w1. cbn [w_desc w_vals].
    destruct (id_slot_first _ (set_slot by_name_id (w_desc w) (w_vals w) (fun _ => VStr x)) f0 Hj Hn
                (eq_trans (set_slot_length _ _ _ _) Hl) Hin Hname Hjson) as [v' [S1' S2']].
    rewrite (get_set_slot_same _ _ _ (fun _ => VStr x) _ _ S1) in S1'. inversion S1'; subst. exact S2'. }
  assert (Hok : wset_ok f0 (VStr x)) by (right; rewrite Hty; reflexivity).
  destruct (wrapper_set_field_spec w1 "id" (VStr x) f0 (VStr x) Hg1 ltac:(discriminate) S2' Hok)
    as [w' [Hset [Hd [_ [_ [_ Hv]]]]]].
  exists w'. split; [exact Hset|]. split; [exact Hd|].
  split; [rewrite Hd, Hv, set_slot_length; cbn; rewrite set_slot_length; exact Hl|].
  split.
  - unfold wrapper_get. cbn [String.eqb Ascii.eqb Bool.eqb]. unfold wrapper_get_id.
    change (fun f => String.eqb (sf_name f) "ID") with by_name_id.
    rewrite Hd, Hv. cbn [w_desc w_vals w1].
    destruct (id_slot_first _ (set_slot (by_json "id") (w_desc w)
                (set_slot by_name_id (w_desc w) (w_vals w) (fun _ => VStr x)) (fun f => stored_w f (VStr x))) f0 Hj Hn)
      as [v' [S1' S2'']]; try assumption.
    { rewrite !set_slot_length. exact Hl. }
    unfold slot_value in S2'. cbn [w_desc w_vals w1] in S2'.
    rewrite (get_set_slot_same _ _ _ (fun f => stored_w f (VStr x)) _ _ S2') in S2''.
    inversion S2''; subst. rewrite S1', Hty. reflexivity.
  - intros k Hk Hid. unfold wrapper_get. apply String.eqb_neq in Hid. rewrite Hid.
    rewrite !wrapper_get_field_spec; try assumption; [|rewrite Hd; exact Hg].
    unfold slot_value. rewrite Hd, Hv. cbn [w_desc w_vals w1].
    rewrite get_set_slot_other.
    + rewrite get_set_slot_other; [reflexivity|].
      intros f Hinf Hp. unfold by_name_id, by_json in *. apply String.eqb_eq in Hp.
      (* the only field named ID is f0, whose json tag is "id" *)
      assert (f = f0).
      { clear -Hn Hinf Hin Hp Hname. induction (w_desc w) as [|g d IH]; [destruct Hinf|].
        cbn in Hn. inversion Hn as [|? ? Hn1 Hn2]; subst.
        destruct Hinf as [->|Hinf], Hin as [->|Hin]; try reflexivity.
        - exfalso. apply Hn1. rewrite Hp, <- Hname. apply in_map. exact Hin.
        - exfalso. apply Hn1. rewrite Hname, <- Hp. apply in_map. exact Hinf.
        - apply IH; assumption. }
      subst. rewrite Hjson. exact Hid.
    + apply by_json_disjoint. intros E. rewrite <- E in Hid. cbn in Hid. discriminate.
Qed.
