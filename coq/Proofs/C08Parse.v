(* C08: what url.Parse / Query() (Model/UrlParse.v) make of the text that
   URL.String() prints: the path decodes to the fragments, the query to one
   value per printed parameter. *)
From Coq Require Import Lia Permutation.
From JV Require Import Model.Base Model.GoTime Gen.TypeGo Model.Schema Model.Value
  Model.Strconv Model.Json Model.Url Model.UrlParse Proofs.BaseFacts Proofs.C08Facts Proofs.C08Strings.
Open Scope string_scope.

(** * characters that survive in printed text *)
(** neither a control byte nor one of  # ? & = ;  *)
Definition qsafe (c : ascii) : bool :=
  negb (is_ctl c) && is_not "#" c && is_not "?" c && is_not "&" c && is_not "=" c && is_not ";" c.
(** neither a control byte nor one of  # ? /  *)
Definition psafe (c : ascii) : bool :=
  negb (is_ctl c) && is_not "#" c && is_not "?" c && is_not "/" c.

Lemma qesc_char_safe c : all_chars qsafe (qesc_char c) = true.
Proof. destruct c as [[] [] [] [] [] [] [] []]; reflexivity. Qed.

Lemma pesc_char_safe c : all_chars psafe (pesc_char c) = true.
Proof. destruct c as [[] [] [] [] [] [] [] []]; reflexivity. Qed.

Lemma query_escape_safe s : all_chars qsafe (query_escape s) = true.
Proof.
  induction s as [|c s IH]; [reflexivity|].
  rewrite query_escape_cons, all_chars_app, qesc_char_safe, IH. reflexivity.
Qed.

Lemma path_escape_safe s : all_chars psafe (path_escape s) = true.
Proof.
  induction s as [|c s IH]; [reflexivity|].
  rewrite path_escape_cons, all_chars_app, pesc_char_safe, IH. reflexivity.
Qed.

Lemma qsafe_parts c : qsafe c = true ->
  is_ctl c = false /\ is_not "#" c = true /\ is_not "?" c = true /\ is_not "&" c = true
  /\ is_not "=" c = true /\ is_not ";" c = true.
Proof.
  unfold qsafe. intros H. repeat (apply andb_true_iff in H; destruct H as [H ?]).
  apply negb_true_iff in H. repeat split; assumption.
Qed.

Lemma psafe_parts c : psafe c = true ->
  is_ctl c = false /\ is_not "#" c = true /\ is_not "?" c = true /\ is_not "/" c = true.
Proof.
  unfold psafe. intros H. repeat (apply andb_true_iff in H; destruct H as [H ?]).
  apply negb_true_iff in H. repeat split; assumption.
Qed.

(** * unescaping text made of escaped pieces and literals *)
Lemma option_map_app a (o : option string) :
  option_map (String a) o = option_map (append (String a "")) o.
Proof. destruct o; reflexivity. Qed.

Lemma option_map_comp (f g : string -> string) (o : option string) :
  option_map f (option_map g o) = option_map (fun x => f (g x)) o.
Proof. destruct o; reflexivity. Qed.

Lemma unescape_query_app a rest :
  unescape true (query_escape a ++ rest) = option_map (append a) (unescape true rest).
Proof.
  induction a as [|c a IH].
  - cbn. destruct (unescape true rest); reflexivity.
  - rewrite query_escape_cons, sapp_assoc, qesc_char_undo, IH, option_map_comp. reflexivity.
Qed.

Lemma unescape_path_app a rest :
  unescape false (path_escape a ++ rest) = option_map (append a) (unescape false rest).
Proof.
  induction a as [|c a IH].
  - cbn. destruct (unescape false rest); reflexivity.
  - rewrite path_escape_cons, sapp_assoc, pesc_char_undo, IH, option_map_comp. reflexivity.
Qed.

(** literal text without '%' (and, in a query, without '+') stays *)
Definition plainc (b : bool) (c : ascii) : bool := is_not "%" c && negb (b && Ascii.eqb c "+").

Lemma unescape_plain b lit rest :
  all_chars (plainc b) lit = true ->
  unescape b (lit ++ rest) = option_map (append lit) (unescape b rest).
Proof.
  induction lit as [|c lit IH]; intros H.
  - cbn. destruct (unescape b rest); reflexivity.
  - cbn [all_chars] in H. apply andb_true_iff in H. destruct H as [H1 H2].
    unfold plainc in H1. apply andb_true_iff in H1. destruct H1 as [Ha Hb].
    unfold is_not in Ha. apply negb_true_iff in Ha. apply negb_true_iff in Hb.
    cbn [append unescape]. rewrite Ha, Hb, (IH H2), option_map_comp. reflexivity.
Qed.

Lemma unescape_pct b h l a a' rest :
  unhex h = Some a -> unhex l = Some a' ->
  unescape b (String "%" (String h (String l rest)))
  = option_map (String (ascii_of_N (a * 16 + a'))) (unescape b rest).
Proof. intros H1 H2. cbn [unescape]. rewrite Ascii.eqb_refl, H1, H2. reflexivity. Qed.

Lemma unescape_lbracket b rest : unescape b ("%5B" ++ rest) = option_map (String "[") (unescape b rest).
Proof. exact (unescape_pct b "5" "B" 5 11 rest eq_refl eq_refl). Qed.
Lemma unescape_rbracket b rest : unescape b ("%5D" ++ rest) = option_map (String "]") (unescape b rest).
Proof. exact (unescape_pct b "5" "D" 5 13 rest eq_refl eq_refl). Qed.
Lemma unescape_comma b rest : unescape b ("%2C" ++ rest) = option_map (String ",") (unescape b rest).
Proof. exact (unescape_pct b "2" "C" 2 12 rest eq_refl eq_refl). Qed.

Lemma unescape_true_nil : unescape true "" = Some "".
Proof. reflexivity. Qed.

(** a comma-joined list of escaped names decodes to the comma-joined names *)
Lemma unescape_joined x l :
  unescape true (join "%2C" (map query_escape (x :: l))) = Some (join "," (x :: l)).
Proof.
  revert x. induction l as [|y l IH]; intros x.
  - cbn [map join]. rewrite <- (sapp_nil_r (query_escape x)), unescape_query_app. cbn.
    rewrite sapp_nil_r. reflexivity.
  - change (map query_escape (x :: y :: l)) with (query_escape x :: query_escape y :: map query_escape l).
    rewrite join_cons2, unescape_query_app, unescape_comma.
    change (query_escape y :: map query_escape l) with (map query_escape (y :: l)).
    rewrite IH, join_cons2. reflexivity.
Qed.

Lemma joined_safe x l : all_chars qsafe (join "%2C" (map query_escape (x :: l))) = true.
Proof.
  revert x. induction l as [|y l IH]; intros x.
  - cbn [map join]. apply query_escape_safe.
  - change (map query_escape (x :: y :: l)) with (query_escape x :: map query_escape (y :: l)).
    change (map query_escape (y :: l)) with (query_escape y :: map query_escape l) at 1.
    rewrite join_cons2, !all_chars_app, query_escape_safe.
    change (query_escape y :: map query_escape l) with (map query_escape (y :: l)).
    rewrite IH. reflexivity.
Qed.

(** * one printed parameter *)
(** [param_of txt k v]: [txt] is  key=value  in escaped form, decoding to
    name [k] and value [v] *)
Definition param_of (txt : string) (k v : str) : Prop :=
  exists kt vt, txt = kt ++ String "=" vt /\
    all_chars qsafe kt = true /\ all_chars qsafe vt = true /\ kt <> "" /\
    unescape true kt = Some k /\ unescape true vt = Some v.

Definition qsafe_eq (c : ascii) : bool :=
  negb (is_ctl c) && is_not "#" c && is_not "?" c && is_not "&" c && is_not ";" c.

Lemma qsafe_weak c : qsafe c = true -> qsafe_eq c = true.
Proof.
  intros H. destruct (qsafe_parts c H) as [H1 [H2 [H3 [H4 [H5 H6]]]]].
  unfold qsafe_eq. rewrite H1, H2, H3, H4, H6. reflexivity.
Qed.

Lemma param_of_safe txt k v : param_of txt k v -> all_chars qsafe_eq txt = true.
Proof.
  intros [kt [vt [-> [Hk [Hv _]]]]].
  rewrite all_chars_app. cbn [all_chars].
  rewrite (all_chars_weaken _ _ _ qsafe_weak Hk), (all_chars_weaken _ _ _ qsafe_weak Hv). reflexivity.
Qed.

Lemma parse_pair_param m txt k v : param_of txt k v -> parse_pair m txt = add_value k v m.
Proof.
  intros [kt [vt [-> [Hk [Hv [Hne [Uk Uv]]]]]]]. unfold parse_pair.
  assert (Hs : contains_char ";" (kt ++ String "=" vt) = false).
  { apply contains_char_false. rewrite all_chars_app. cbn [all_chars].
    rewrite (all_chars_weaken qsafe (is_not ";") kt), (all_chars_weaken qsafe (is_not ";") vt); auto;
      intros c Hc; apply qsafe_parts in Hc; tauto. }
  rewrite Hs.
  destruct (String.eqb_spec (kt ++ String "=" vt) "") as [E|_].
  { destruct kt; [contradiction|discriminate]. }
  rewrite cut_at_app.
  - rewrite Uk, Uv. reflexivity.
  - apply (all_chars_weaken qsafe); [|exact Hk]. intros c Hc. apply qsafe_parts in Hc. tauto.
Qed.

(** the parameters URL.String prints *)
Lemma fold_joinsep l :
  fold_right (fun f acc => query_escape f ++ "%2C" ++ acc) "" l = joinsep "%2C" (map query_escape l).
Proof. unfold joinsep. induction l as [|x l IH]; cbn [fold_right map]; [reflexivity|]. rewrite IH. reflexivity. Qed.

Definition fields_name (k : str) : str := "fields[" ++ k ++ "]".

Lemma field_param_of k l x l0 :
  isort String.ltb l = x :: l0 ->
  param_of (field_param (k, l)) (fields_name k) (join "," (x :: l0)).
Proof.
  intros E. unfold field_param. cbn [fst snd]. rewrite E, fold_joinsep.
  exists ("fields%5B" ++ query_escape k ++ "%5D"), (join "%2C" (map query_escape (x :: l0))).
  split.
  { change (map query_escape (x :: l0)) with (query_escape x :: map query_escape l0).
    replace ("fields%5B" ++ query_escape k ++ "%5D=" ++ joinsep "%2C" (query_escape x :: map query_escape l0))
      with (("fields%5B" ++ query_escape k ++ "%5D=") ++ joinsep "%2C" (query_escape x :: map query_escape l0)).
    - rewrite chop_prefixed_joinsep by reflexivity.
      change "%5D=" with ("%5D" ++ "=") at 1.
      rewrite !sapp_assoc. reflexivity.
    - rewrite !sapp_assoc. reflexivity. }
  split.
  { rewrite !all_chars_app, query_escape_safe. reflexivity. }
  split; [apply joined_safe|]. split; [discriminate|]. split; [|apply unescape_joined].
  change ("fields%5B" ++ query_escape k ++ "%5D") with ("fields" ++ "%5B" ++ query_escape k ++ "%5D").
  rewrite unescape_plain by reflexivity.
  rewrite unescape_lbracket, unescape_query_app.
  rewrite <- (sapp_nil_r "%5D"), unescape_rbracket. cbn [unescape option_map].
  unfold fields_name. reflexivity.
Qed.

Lemma simple_param_of name v :
  all_chars qsafe name = true -> all_chars (plainc true) name = true -> name <> "" ->
  param_of (name ++ "=" ++ query_escape v) name v.
Proof.
  intros Hs Hp Hn. exists name, (query_escape v). split; [reflexivity|].
  split; [exact Hs|]. split; [apply query_escape_safe|]. split; [exact Hn|]. split.
  - rewrite <- (sapp_nil_r name) at 1. rewrite unescape_plain by exact Hp. cbn. rewrite sapp_nil_r. reflexivity.
  - rewrite <- (sapp_nil_r (query_escape v)), unescape_query_app. cbn. rewrite sapp_nil_r. reflexivity.
Qed.

Lemma filter_param_of v : param_of ("filter=" ++ query_escape v) "filter" v.
Proof. apply (simple_param_of "filter" v); [reflexivity|reflexivity|discriminate]. Qed.

Lemma page_param_of (which : str) v :
  all_chars qsafe which = true -> all_chars (plainc true) which = true ->
  param_of ("page%5B" ++ which ++ "%5D=" ++ query_escape v) ("page[" ++ which ++ "]") v.
Proof.
  intros Hs Hp. exists ("page%5B" ++ which ++ "%5D"), (query_escape v). split.
  { change "%5D=" with ("%5D" ++ "="). rewrite !sapp_assoc. reflexivity. }
  split; [rewrite !all_chars_app, Hs; reflexivity|].
  split; [apply query_escape_safe|]. split; [discriminate|]. split.
  - change ("page%5B" ++ which ++ "%5D") with ("page" ++ "%5B" ++ which ++ "%5D").
    rewrite unescape_plain by reflexivity. rewrite unescape_lbracket, unescape_plain by exact Hp.
    rewrite <- (sapp_nil_r "%5D"), unescape_rbracket. reflexivity.
  - rewrite <- (sapp_nil_r (query_escape v)), unescape_query_app. cbn. rewrite sapp_nil_r. reflexivity.
Qed.

Lemma sort_param_of x l :
  param_of ("sort=" ++ join "%2C" (map query_escape (x :: l))) "sort" (join "," (x :: l)).
Proof.
  exists "sort", (join "%2C" (map query_escape (x :: l))). split; [reflexivity|].
  split; [reflexivity|]. split; [apply joined_safe|]. split; [discriminate|].
  split; [reflexivity|apply unescape_joined].
Qed.

(** * the whole text *)
(** the parameters in printed order, and what they decode to *)
Definition url_params_text (u : url) (label_json : str) : list string :=
  let p := u_params u in
  (map field_param (sort_fields (p_fields p))
   ++ (match p_filter p with
       | FPFilter m => [("filter=" ++ query_escape m)%string]
       | FPLabel l => if String.eqb l "" then [] else [("filter=" ++ query_escape label_json)%string]
       | FPNone => []
       end)
   ++ (if u_iscol u then
         (match lookup "number" (p_page p) with
          | Some v => [("page%5Bnumber%5D=" ++ query_escape (page_text v))%string] | None => [] end)
         ++ (match lookup "size" (p_page p) with
             | Some v => [("page%5Bsize%5D=" ++ query_escape (page_text v))%string] | None => [] end)
       else [])
   ++ (match p_rules p with
       | [] => []
       | rs => [("sort=" ++ join "%2C" (map query_escape rs))%string]
       end))%list.

Definition url_path_text (u : url) : string :=
  chop 1 ("/" ++ joinsep "/" (map path_escape (u_fragments u))).

Lemma fold_path_joinsep l :
  fold_right (fun p acc => path_escape p ++ "/" ++ acc) "" l = joinsep "/" (map path_escape l).
Proof. unfold joinsep. induction l as [|x l IH]; cbn [fold_right map]; [reflexivity|]. rewrite IH. reflexivity. Qed.

Lemma url_string_eq u lj :
  url_string u lj = url_path_text u ++ chop 1 ("?" ++ joinsep "&" (url_params_text u lj)).
Proof.
  unfold url_string, url_path_text, url_params_text. cbn zeta. rewrite fold_path_joinsep. reflexivity.
Qed.

Definition dec_params (u : url) (label_json : str) : list (str * str) :=
  let p := u_params u in
  (map (fun kv => (fields_name (fst kv), join "," (isort String.ltb (snd kv)))) (sort_fields (p_fields p))
   ++ (match p_filter p with
       | FPFilter m => [("filter", m)]
       | FPLabel l => if String.eqb l "" then [] else [("filter", label_json)]
       | FPNone => []
       end)
   ++ (if u_iscol u then
         (match lookup "number" (p_page p) with
          | Some v => [("page[number]", page_text v)] | None => [] end)
         ++ (match lookup "size" (p_page p) with
             | Some v => [("page[size]", page_text v)] | None => [] end)
       else [])
   ++ (match p_rules p with
       | [] => []
       | rs => [("sort", join "," rs)]
       end))%list.

Definition P2 (txt : string) (kv : str * str) : Prop := param_of txt (fst kv) (snd kv).

Lemma isort_nonempty (l : list str) : l <> [] -> exists x l0, isort String.ltb l = x :: l0.
Proof.
  intros H. destruct (isort String.ltb l) as [|x l0] eqn:E; [|exists x, l0; reflexivity].
  exfalso. apply H. apply Permutation_nil. pose proof (isort_perm String.ltb l) as Hp.
  rewrite E in Hp. exact Hp.
Qed.

Lemma fields_params_of (fs : list (str * list str)) :
  Forall (fun kv => snd kv <> []) fs ->
  Forall2 P2 (map field_param fs)
             (map (fun kv => (fields_name (fst kv), join "," (isort String.ltb (snd kv)))) fs).
Proof.
  induction fs as [|[k l] fs IH]; intros H; cbn [map]; [constructor|].
  inversion H as [|? ? Hx Hl]; subst. constructor; [|apply IH; exact Hl].
  cbn [fst snd] in *. destruct (isort_nonempty l Hx) as [x [l0 E]].
  unfold P2. cbn [fst snd]. rewrite E. apply field_param_of. exact E.
Qed.

Lemma Forall_sort_fields (P : str * list str -> Prop) fs : Forall P fs -> Forall P (sort_fields fs).
Proof.
  intros H. apply Forall_forall. intros x Hx. rewrite Forall_forall in H. apply H.
  eapply Permutation_in; [apply isort_perm|exact Hx].
Qed.

Lemma params_text_dec u lj :
  Forall (fun kv => snd kv <> []) (p_fields (u_params u)) ->
  Forall2 P2 (url_params_text u lj) (dec_params u lj).
Proof.
  intros Hf. unfold url_params_text, dec_params. cbn zeta.
  apply Forall2_app; [apply fields_params_of, Forall_sort_fields; exact Hf|].
  apply Forall2_app.
  { destruct (p_filter (u_params u)) as [|l|m].
    - constructor.
    - destruct (String.eqb l ""); [constructor|]. constructor; [apply filter_param_of|constructor].
    - constructor; [apply filter_param_of|constructor]. }
  apply Forall2_app.
  { destruct (u_iscol u); [|constructor]. apply Forall2_app.
    - destruct (lookup "number" _) as [v|]; [|constructor].
      constructor; [|constructor]. exact (page_param_of "number" (page_text v) eq_refl eq_refl).
    - destruct (lookup "size" _) as [v|]; [|constructor].
      constructor; [|constructor]. exact (page_param_of "size" (page_text v) eq_refl eq_refl). }
  destruct (p_rules (u_params u)) as [|r rs]; [constructor|].
  constructor; [apply sort_param_of|constructor].
Qed.

(** parseQuery over the printed parameters *)
Definition add_kv (m : list (str * list str)) (kv : str * str) := add_value (fst kv) (snd kv) m.

Lemma fold_parse_pairs txts kvs : Forall2 P2 txts kvs ->
  forall m, fold_left parse_pair txts m = fold_left add_kv kvs m.
Proof.
  induction 1 as [|t kv txts kvs Hp _ IH]; intros m; cbn [fold_left]; [reflexivity|].
  rewrite (parse_pair_param m t _ _ Hp). apply IH.
Qed.

Lemma add_value_fresh k v m : ~ In k (map fst m) -> add_value k v m = (m ++ [(k, [v])])%list.
Proof.
  induction m as [|[k' vs] m IH]; cbn; [reflexivity|]. intros H.
  destruct (String.eqb_spec k k') as [E|N]; [exfalso; apply H; left; symmetry; exact E|].
  rewrite IH; [reflexivity|]. intros Hin. apply H. right. exact Hin.
Qed.

Definition one_value (kv : str * str) : str * list str := (fst kv, [snd kv]).

Lemma fold_add_kv kvs : forall m,
  NoDup (map fst m ++ map fst kvs)%list ->
  fold_left add_kv kvs m = (m ++ map one_value kvs)%list.
Proof.
  induction kvs as [|[k v] kvs IH]; intros m H; cbn [fold_left map]; [rewrite app_nil_r; reflexivity|].
  unfold add_kv at 2. cbn [fst snd]. cbn [map fst] in H.
  rewrite add_value_fresh.
  - rewrite IH.
    + rewrite <- app_assoc. reflexivity.
    + rewrite map_app. cbn [map fst]. rewrite <- app_assoc. exact H.
  - apply NoDup_remove_2 in H. intros Hin. apply H. apply in_or_app. left. exact Hin.
Qed.

Lemma parse_query_printed x txts kvs :
  Forall2 P2 (x :: txts) kvs -> NoDup (map fst kvs) ->
  parse_query (join "&" (x :: txts)) = map one_value kvs.
Proof.
  intros H2 Hn. unfold parse_query. rewrite split_char_join.
  - rewrite (fold_parse_pairs _ _ H2), fold_add_kv; [reflexivity|exact Hn].
  - clear Hn. revert H2. generalize (x :: txts). intros l H2. induction H2 as [|t kv l kvs Hp _ IH]; constructor; [|exact IH].
    apply (all_chars_weaken qsafe_eq); [|exact (param_of_safe _ _ _ Hp)].
    intros c Hc. unfold qsafe_eq in Hc. repeat (apply andb_true_iff in Hc; destruct Hc as [Hc ?]). assumption.
Qed.

(** url.Parse on  path?query  *)
Definition rsafe (c : ascii) : bool := negb (is_ctl c) && is_not "#" c && is_not "?" c.

Lemma parse_raw_path P path :
  all_chars rsafe P = true -> unescape false P = Some path ->
  parse_raw P = Ok (path, []).
Proof.
  intros Hs Hu. unfold parse_raw.
  rewrite (cut_at_none "#" P).
  2:{ apply (all_chars_weaken rsafe); [|exact Hs]. intros c Hc. unfold rsafe in Hc.
      repeat (apply andb_true_iff in Hc; destruct Hc as [Hc ?]). assumption. }
  rewrite has_ctl_false.
  2:{ apply (all_chars_weaken rsafe); [|exact Hs]. intros c Hc. unfold rsafe in Hc.
      repeat (apply andb_true_iff in Hc; destruct Hc as [Hc ?]). assumption. }
  rewrite (cut_at_none "?" P).
  2:{ apply (all_chars_weaken rsafe); [|exact Hs]. intros c Hc. unfold rsafe in Hc.
      repeat (apply andb_true_iff in Hc; destruct Hc as [Hc ?]). assumption. }
  rewrite Hu. reflexivity.
Qed.

Definition hsafe (c : ascii) : bool := negb (is_ctl c) && is_not "#" c.

Lemma qsafe_eq_hsafe c : qsafe_eq c = true -> hsafe c = true.
Proof.
  intros Hc. unfold qsafe_eq in Hc. repeat (apply andb_true_iff in Hc; destruct Hc as [Hc ?]).
  unfold hsafe. rewrite Hc. assumption.
Qed.

Lemma parse_raw_query P q path :
  all_chars rsafe P = true -> all_chars hsafe q = true -> unescape false P = Some path ->
  parse_raw (P ++ "?" ++ q) = Ok (path, parse_query q).
Proof.
  intros Hs Hq Hu. unfold parse_raw.
  assert (Hnh : all_chars (is_not "#") (P ++ "?" ++ q) = true).
  { rewrite all_chars_app. cbn [append all_chars].
    rewrite (all_chars_weaken rsafe (is_not "#") P), (all_chars_weaken hsafe (is_not "#") q); auto.
    - intros c Hc. unfold hsafe in Hc. repeat (apply andb_true_iff in Hc; destruct Hc as [Hc ?]). assumption.
    - intros c Hc. unfold rsafe in Hc. repeat (apply andb_true_iff in Hc; destruct Hc as [Hc ?]). assumption. }
  rewrite (cut_at_none "#" _ Hnh).
  rewrite has_ctl_false.
  2:{ rewrite all_chars_app. cbn [append all_chars].
      rewrite (all_chars_weaken rsafe (fun c => negb (is_ctl c)) P), (all_chars_weaken hsafe (fun c => negb (is_ctl c)) q); auto.
      - intros c Hc. unfold hsafe in Hc. repeat (apply andb_true_iff in Hc; destruct Hc as [Hc ?]). assumption.
      - intros c Hc. unfold rsafe in Hc. repeat (apply andb_true_iff in Hc; destruct Hc as [Hc ?]). assumption. }
  change (P ++ "?" ++ q) with (P ++ String "?" q).
  rewrite cut_at_app.
  2:{ apply (all_chars_weaken rsafe); [|exact Hs]. intros c Hc. unfold rsafe in Hc.
      repeat (apply andb_true_iff in Hc; destruct Hc as [Hc ?]). assumption. }
  rewrite Hu. reflexivity.
Qed.

(** the path *)
Lemma path_joined_safe x l : all_chars rsafe ("/" ++ join "/" (map path_escape (x :: l))) = true.
Proof.
  assert (W : forall s, all_chars rsafe (path_escape s) = true).
  { intros s. apply (all_chars_weaken psafe); [|apply path_escape_safe].
    intros c Hc. destruct (psafe_parts c Hc) as [H1 [H2 [H3 _]]]. unfold rsafe. rewrite H1, H2, H3. reflexivity. }
  cbn [append all_chars]. change (rsafe "/") with true. cbn [andb].
  revert x. induction l as [|y l IH]; intros x.
  - cbn [map join]. apply W.
  - change (map path_escape (x :: y :: l)) with (path_escape x :: path_escape y :: map path_escape l).
    rewrite join_cons2, !all_chars_app, W.
    change (path_escape y :: map path_escape l) with (map path_escape (y :: l)).
    rewrite IH. reflexivity.
Qed.

Lemma unescape_path_joined x l :
  unescape false (join "/" (map path_escape (x :: l))) = Some (join "/" (x :: l)).
Proof.
  revert x. induction l as [|y l IH]; intros x.
  - cbn [map join]. rewrite <- (sapp_nil_r (path_escape x)), unescape_path_app. cbn.
    rewrite sapp_nil_r. reflexivity.
  - change (map path_escape (x :: y :: l)) with (path_escape x :: path_escape y :: map path_escape l).
    rewrite join_cons2, unescape_path_app, (unescape_plain false "/") by reflexivity.
    change (path_escape y :: map path_escape l) with (map path_escape (y :: l)).
    rewrite IH, join_cons2. reflexivity.
Qed.

Lemma url_path_text_eq u x l : u_fragments u = x :: l ->
  url_path_text u = "/" ++ join "/" (map path_escape (x :: l)).
Proof.
  intros E. unfold url_path_text. rewrite E.
  change (map path_escape (x :: l)) with (path_escape x :: map path_escape l).
  apply chop_prefixed_joinsep. reflexivity.
Qed.

(** String() parses into the fragments' path and one value per printed
    parameter, in printed order *)
Theorem parse_raw_url_string u lj x l :
  u_fragments u = x :: l ->
  Forall (fun kv => snd kv <> []) (p_fields (u_params u)) ->
  NoDup (map fst (dec_params u lj)) ->
  parse_raw (url_string u lj) = Ok ("/" ++ join "/" (x :: l), map one_value (dec_params u lj)).
Proof.
  intros Hfr Hf Hn. rewrite url_string_eq, (url_path_text_eq u x l Hfr).
  pose proof (params_text_dec u lj Hf) as H2.
  assert (Hu : unescape false ("/" ++ join "/" (map path_escape (x :: l))) = Some ("/" ++ join "/" (x :: l))).
  { rewrite (unescape_plain false "/") by reflexivity. rewrite unescape_path_joined. reflexivity. }
  remember (dec_params u lj) as kvs0 eqn:Ek.
  destruct (url_params_text u lj) as [|t txts] eqn:Et.
  - inversion H2; subst. cbn [joinsep fold_right map].
    change (chop 1 ("?" ++ "")) with "". rewrite sapp_nil_r.
    apply parse_raw_path; [apply path_joined_safe|exact Hu].
  - rewrite (chop_prefixed_joinsep "?" "&" t txts 1 eq_refl).
    rewrite parse_raw_query with (path := "/" ++ join "/" (x :: l)); [|apply path_joined_safe| |exact Hu].
    + rewrite (parse_query_printed t txts _ H2 Hn). reflexivity.
    + clear Hn Et Ek. revert H2. generalize kvs0. generalize t.
      induction txts as [|t2 txts IH]; intros t1 kvs H2.
      * inversion H2 as [|? kv ? ? Hp Hrest]; subst. cbn [join].
        exact (all_chars_weaken _ _ _ qsafe_eq_hsafe (param_of_safe _ _ _ Hp)).
      * inversion H2 as [|? kv ? kvs' Hp Hrest]; subst. rewrite join_cons2, !all_chars_app.
        rewrite (all_chars_weaken _ _ _ qsafe_eq_hsafe (param_of_safe _ _ _ Hp)).
        rewrite (IH t2 kvs' Hrest). reflexivity.
Qed.
