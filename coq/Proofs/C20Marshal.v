(* C20: marshaling an instance of an accepted struct never panics. *)
From Coq Require Import Lia.
From JV Require Import Model.Base Model.GoTime Gen.TypeGo Model.Schema Model.Value Model.Strconv Model.Json
  Model.SoftRes Model.Wrapper Model.Resource Model.Marshal Proofs.MapFacts Proofs.SoftFacts Proofs.WrapperFacts
  Proofs.C20Facts Proofs.C20Safe Proofs.C20Rels Proofs.C20Copy.
Open Scope list_scope.

Section Accepted.
  Variable d : structdesc.
  Hypothesis Hc : check_struct d = true.
  Hypothesis Hnd : NoDup (map sf_name d).
  Variable vals : list value.
  Hypothesis Hl : length vals = length d.
  Hypothesis Hty : Forall2 slot_typed d vals.
  Variables (typ : str) (attrs : list (str * attr)) (rels : list (str * rel)).
  Let w := mkWrapper d vals typ attrs rels.
  Variable e : stdenv.

  Lemma marshal_attrs_ok fields l :
    (forall n a, In (n, a) l -> (decl d n \/ n = "id") /\ aname a = n) ->
    forall acc, exists out, marshal_attrs e (RWrap w) fields l acc = Ok out.
  Proof.
    induction l as [|[n a] l IH]; intros H acc; cbn [marshal_attrs]; [eauto|].
    destruct (mem_str (aname a) fields); [|apply IH; intros n' a' Hin; apply H; right; exact Hin].
    destruct (H n a (or_introl eq_refl)) as [[Hd| ->] Hn]; rewrite Hn; cbn [res_get].
    - destruct (get_decl d vals typ attrs rels n Hc Hnd Hl Hd) as [g [v0 [_ [_ [_ [_ Hget]]]]]].
      fold w in Hget. rewrite Hget. cbn [bind]. apply IH. intros n' a' Hin. apply H. right. exact Hin.
    - unfold wrapper_get. cbn [String.eqb Ascii.eqb Bool.eqb bind]. apply IH. intros n' a' Hin. apply H. right. exact Hin.
  Qed.

  Lemma marshal_rel_ok typ0 prepath tn id want n x :
    from_name x = n ->
    ((exists f, In f d /\ tagged f = true /\ sf_json f = n /\ rel_of_field typ0 f = Some x) \/
     (n = "id" /\ to_one x = true)) ->
    exists j, marshal_rel (RWrap w) prepath tn id want x = Ok j.
  Proof.
    intros Hfn [[f [Hf [Htf [Hjf Hr]]]]|[-> H1]]; unfold marshal_rel; destruct (negb want); eauto.
    2:{ rewrite H1, Hfn. unfold get_str. cbn [res_get]. unfold wrapper_get. cbn [String.eqb Ascii.eqb Bool.eqb bind]. eauto. }
    assert (Hd : decl d n) by (exists f; auto).
    destruct (get_decl d vals typ attrs rels n Hc Hnd Hl Hd) as [g [v0 [Hs [Hg [Ht [Hj Hget]]]]]].
    fold w in Hget.
    assert (g = f).
    { apply (names_ok_unique d ["id"] (check_names_ok d Hc)); try assumption. rewrite Hj, Hjf. reflexivity. }
    subst g. destruct (get_slot_typed _ _ _ _ _ Hty Hs Ht) as [Hvt Hvk].
    destruct (rel_field_type d Hc f Hf Htf typ0 x Hr) as [[Et E1]|[Et E1]]; rewrite E1, Hfn.
    - rewrite Et in Hvt. destruct (typed_string v0 Hvt Hvk) as [s ->].
      unfold get_str. cbn [res_get]. rewrite Hget. cbn [bind read_slot]. eauto.
    - rewrite Et in Hvt. destruct (typed_strs v0 Hvt) as [nn [l ->]].
      unfold get_strs. cbn [res_get]. rewrite Hget. cbn [bind read_slot]. eauto.
  Qed.

  Lemma marshal_rels_ok typ0 prepath tn id fields want l :
    (forall n x, In (n, x) l -> from_name x = n /\
       ((exists f, In f d /\ tagged f = true /\ sf_json f = n /\ rel_of_field typ0 f = Some x) \/
        (n = "id" /\ to_one x = true))) ->
    forall acc, exists out, marshal_rels (RWrap w) prepath tn id fields want l acc = Ok out.
  Proof.
    induction l as [|[n x] l IH]; intros H acc; cbn [marshal_rels]; [eauto|].
    destruct (mem_str (from_name x) fields); [|apply IH; intros n' x' Hin; apply H; right; exact Hin].
    destruct (H n x (or_introl eq_refl)) as [Hfn Hcase].
    destruct (marshal_rel_ok typ0 prepath tn id (mem_str (from_name x) want) n x Hfn Hcase) as [j Ej].
    rewrite Ej. cbn [bind]. apply IH. intros n' x' Hin. apply H. right. exact Hin.
  Qed.
End Accepted.

Theorem marshal_checked_ok e d vals w prepath fields reldata :
  check_struct d = true -> NoDup (map sf_name d) ->
  length vals = length d -> Forall2 slot_typed d vals ->
  wrap d vals = Ok w ->
  exists j, marshal_resource e (RWrap w) prepath fields reldata = Ok j.
Proof.
  intros Hc Hnd Hl Hty Hw.
  destruct (accept_both d vals Hc) as [rels [_ Hw']]. rewrite Hw in Hw'. injection Hw' as ->.
  assert (Hrels : build_rels (struct_type_name d) d = Some rels).
  { unfold wrap in Hw. rewrite Hc in Hw. cbn [negb] in Hw.
    destruct (build_rels (struct_type_name d) d); [|discriminate]. injection Hw as <-. reflexivity. }
  unfold marshal_resource.
  assert (Eid : get_str (RWrap (mkWrapper d vals (struct_type_name d) (build_attrs d) rels)) "id"
                = Ok (wrapper_get_id (mkWrapper d vals (struct_type_name d) (build_attrs d) rels))) by reflexivity.
  rewrite Eid. cbn [bind res_attrs res_rels res_type_name w_attrs w_rels w_typ].
  destruct (marshal_attrs_ok d Hc Hnd vals Hl (struct_type_name d) (build_attrs d) rels e fields (build_attrs d)
              (fun n a Hin => attr_decl d Hc Hnd n a Hin) []) as [oa Ea].
  rewrite Ea. cbn [bind].
  match goal with |- context [marshal_rels ?r ?pp ?tn ?id ?fs ?want ?l ?acc] =>
    destruct (marshal_rels_ok d Hc Hnd vals Hl Hty (struct_type_name d) (build_attrs d) rels (struct_type_name d)
                pp tn id fs want l
                (fun n x Hin => rel_decl d Hc Hnd (struct_type_name d) rels n x Hrels Hin) acc) as [orl Er]
  end.
  rewrite Er. cbn [bind]. eauto.
Qed.
