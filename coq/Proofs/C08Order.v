(* C08, second clause: the URL does not depend on the order in which
   differently named query parameters are met (Go's map iteration order over
   url.Values). *)
From Coq Require Import Lia Permutation.
From JV Require Import Model.Base Model.GoTime Gen.TypeGo Model.Schema Model.Value
  Model.Strconv Model.Json Model.Url Model.UrlParse Proofs.BaseFacts Proofs.SoftFacts
  Proofs.C07Facts Proofs.C07Fields Proofs.C08Facts Proofs.C08Strings Proofs.C08Parse
  Proofs.C08Reparse Proofs.C08Origin Proofs.PermFold.
Open Scope string_scope.

(** * one parameter = one step *)
Inductive kind : Type :=
| KFields (rt : str) | KPage (arg : str) | KFilter | KSort | KInclude | KBad.

Definition fields_cond (name : str) : bool :=
  has_prefix "fields[" name && has_suffix "]" name && Nat.ltb 8 (String.length name).
Definition page_cond (name : str) : bool :=
  has_prefix "page[" name && has_suffix "]" name && Nat.ltb 6 (String.length name).

Definition kind_of (name : str) : kind :=
  if fields_cond name then KFields (substr name 7 (String.length name - 8))
  else if page_cond name then KPage (substr name 5 (String.length name - 6))
  else if String.eqb name "filter" then KFilter
  else if String.eqb name "sort" then KSort
  else if String.eqb name "include" then KInclude
  else KBad.

Definition apply_kind (fo : filter_oracle) (su : simple_url) (k : kind) (vs : list str) : res simple_url :=
  let v := first_value vs in
  match k with
  | KFields rt =>
      Ok (match parse_comma_list v with
          | [] => su
          | fs => mkSU (su_fragments su) (su_route su) (map_set rt fs (su_fields su))
                       (su_filter su) (su_rules su) (su_page su) (su_include su)
          end)
  | KPage arg =>
      Ok (if String.eqb v "" then su
          else mkSU (su_fragments su) (su_route su) (su_fields su) (su_filter su) (su_rules su)
                    (map_set arg (match atoi v with Some z => PInt z | None => PStr v end) (su_page su))
                    (su_include su))
  | KFilter =>
      match fo with
      | FOErr => Err
      | FOLabel l => Ok (mkSU (su_fragments su) (su_route su) (su_fields su) (FPLabel l) (su_rules su) (su_page su) (su_include su))
      | FOFilter m => Ok (mkSU (su_fragments su) (su_route su) (su_fields su) (FPFilter m) (su_rules su) (su_page su) (su_include su))
      end
  | KSort =>
      Ok (mkSU (su_fragments su) (su_route su) (su_fields su) (su_filter su)
               (su_rules su ++ flat_map parse_comma_list vs)%list (su_page su) (su_include su))
  | KInclude =>
      Ok (mkSU (su_fragments su) (su_route su) (su_fields su) (su_filter su)
               (su_rules su) (su_page su) (su_include su ++ flat_map parse_comma_list vs)%list)
  | KBad => Err
  end.

Definition sp_step (fo : filter_oracle) (su : simple_url) (nv : str * list str) : res simple_url :=
  apply_kind fo su (kind_of (fst nv)) (snd nv).

Lemma simple_params_foldr values fo : forall su,
  simple_params values fo su = foldr (sp_step fo) (Ok su) values.
Proof.
  induction values as [|[name vs] values IH]; intros su; [reflexivity|].
  rewrite foldr_cons. cbn [simple_params bind]. unfold sp_step, kind_of. cbn [fst snd].
  fold (fields_cond name). fold (page_cond name).
  destruct (fields_cond name); [cbn [apply_kind]; apply IH|].
  destruct (page_cond name); [cbn [apply_kind]; apply IH|].
  destruct (String.eqb name "filter").
  { cbn [apply_kind]. destruct fo; [rewrite foldr_err; reflexivity|apply IH|apply IH]. }
  destruct (String.eqb name "sort"); [cbn [apply_kind]; apply IH|].
  destruct (String.eqb name "include"); [cbn [apply_kind]; apply IH|].
  cbn [apply_kind]. rewrite foldr_err. reflexivity.
Qed.

(** * a name determines its kind and the kind determines the name *)
Lemma prefix_inv p : forall s, String.prefix p s = true -> exists r, s = p ++ r.
Proof.
  induction p as [|c p IH]; intros s H; [exists s; reflexivity|].
  destruct s as [|d s]; [discriminate|]. cbn [String.prefix] in H.
  destruct (ascii_dec c d) as [->|N]; [|discriminate].
  destruct (IH s H) as [r ->]. exists r. reflexivity.
Qed.

Lemma string_of_list_app a b :
  string_of_list_ascii (a ++ b)%list = string_of_list_ascii a ++ string_of_list_ascii b.
Proof. induction a as [|c a IH]; cbn; [reflexivity|rewrite IH; reflexivity]. Qed.

Lemma has_suffix_inv c s : has_suffix (String c "") s = true -> exists r, s = r ++ String c "".
Proof.
  unfold has_suffix. cbn [list_ascii_of_string rev app].
  intros H. destruct (rev (list_ascii_of_string s)) as [|d l] eqn:E; [discriminate|].
  cbn [has_suffix_rev] in H. apply andb_true_iff in H. destruct H as [H _].
  apply Ascii.eqb_eq in H. subst d.
  exists (string_of_list_ascii (rev l)).
  assert (E2 : list_ascii_of_string s = (rev l ++ [c])%list).
  { rewrite <- (rev_involutive (list_ascii_of_string s)), E. reflexivity. }
  rewrite <- (string_of_list_ascii_of_string s), E2, string_of_list_app. reflexivity.
Qed.

Lemma bracket_name_inv (pre : str) name :
  has_prefix pre name && has_suffix "]" name && Nat.ltb (S (String.length pre)) (String.length name) = true ->
  exists m, name = pre ++ m ++ "]".
Proof.
  intros H. apply andb_true_iff in H. destruct H as [H H3]. apply andb_true_iff in H. destruct H as [H1 H2].
  destruct (prefix_inv _ _ H1) as [rest ->]. apply Nat.ltb_lt in H3. rewrite slen_app in H3.
  destruct (has_suffix_inv _ _ H2) as [r Hr].
  (* the last character of pre ++ rest is the last character of rest *)
  assert (Hrest : exists m, rest = m ++ "]").
  { assert (Hl : String.length rest >= 1) by lia. clear H1 H2 H3. revert r Hr.
    induction pre as [|c pre IH]; intros r Hr; cbn [append] in Hr.
    - exists r. exact Hr.
    - destruct r as [|d r]; cbn [append] in Hr.
      + injection Hr as _ Hr. destruct pre; [|discriminate]. cbn in Hr. subst rest. cbn in Hl. lia.
      + injection Hr as _ Hr. exact (IH r Hr). }
  destruct Hrest as [m ->]. exists m. reflexivity.
Qed.

Lemma fields_cond_name name : fields_cond name = true ->
  name = fields_name (substr name 7 (String.length name - 8)).
Proof.
  intros H. destruct (bracket_name_inv "fields[" name H) as [m E].
  rewrite E at 2 3. fold (fields_name m). rewrite fields_name_substr. exact E.
Qed.

Definition page_name (a : str) : str := "page[" ++ a ++ "]".

Lemma page_name_substr a : substr (page_name a) 5 (String.length (page_name a) - 6) = a.
Proof.
  unfold substr, page_name. rewrite !slen_app.
  replace (String.length "page[" + (String.length a + String.length "]") - 6) with (String.length a)
    by (cbn; lia).
  exact (substring_mid "page[" a "]").
Qed.

Lemma page_cond_name name : page_cond name = true ->
  name = page_name (substr name 5 (String.length name - 6)).
Proof.
  intros H. destruct (bracket_name_inv "page[" name H) as [m E].
  rewrite E at 2 3. fold (page_name m). rewrite page_name_substr. exact E.
Qed.

Lemma kind_of_inj n1 n2 : kind_of n1 = kind_of n2 -> kind_of n1 <> KBad -> n1 = n2.
Proof.
  unfold kind_of.
  destruct (fields_cond n1) eqn:F1.
  { destruct (fields_cond n2) eqn:F2.
    - intros H _. injection H as H. rewrite (fields_cond_name n1 F1), (fields_cond_name n2 F2), H. reflexivity.
    - destruct (page_cond n2); [discriminate|]. destruct (String.eqb n2 "filter"); [discriminate|].
      destruct (String.eqb n2 "sort"); [discriminate|]. destruct (String.eqb n2 "include"); discriminate. }
  destruct (page_cond n1) eqn:P1.
  { destruct (fields_cond n2); [discriminate|]. destruct (page_cond n2) eqn:P2.
    - intros H _. injection H as H. rewrite (page_cond_name n1 P1), (page_cond_name n2 P2), H. reflexivity.
    - destruct (String.eqb n2 "filter"); [discriminate|].
      destruct (String.eqb n2 "sort"); [discriminate|]. destruct (String.eqb n2 "include"); discriminate. }
  destruct (String.eqb_spec n1 "filter") as [->|N1].
  { destruct (fields_cond n2); [discriminate|]. destruct (page_cond n2); [discriminate|].
    destruct (String.eqb_spec n2 "filter") as [->|N2]; [reflexivity|].
    destruct (String.eqb n2 "sort"); [discriminate|]. destruct (String.eqb n2 "include"); discriminate. }
  destruct (String.eqb_spec n1 "sort") as [->|N1'].
  { destruct (fields_cond n2); [discriminate|]. destruct (page_cond n2); [discriminate|].
    destruct (String.eqb n2 "filter"); [discriminate|].
    destruct (String.eqb_spec n2 "sort") as [->|N2]; [reflexivity|]. destruct (String.eqb n2 "include"); discriminate. }
  destruct (String.eqb_spec n1 "include") as [->|N1''].
  { destruct (fields_cond n2); [discriminate|]. destruct (page_cond n2); [discriminate|].
    destruct (String.eqb n2 "filter"); [discriminate|]. destruct (String.eqb n2 "sort"); [discriminate|].
    destruct (String.eqb_spec n2 "include") as [->|N2]; [reflexivity|discriminate]. }
  intros _ H. exfalso. apply H. reflexivity.
Qed.

(** * maps up to order *)
Definition meq {A} (m1 m2 : list (str * A)) : Prop := forall k, lookup k m1 = lookup k m2.

Lemma lookup_map_set {A} k (v : A) m k' :
  lookup k' (map_set k v m) = if String.eqb k' k then Some v else lookup k' m.
Proof.
  induction m as [|[k0 v0] m IH]; cbn [map_set lookup]; [reflexivity|].
  destruct (String.eqb_spec k k0) as [E|N]; cbn [lookup].
  - subst k0. destruct (String.eqb k' k); reflexivity.
  - rewrite IH. destruct (String.eqb_spec k' k0) as [E0|N0]; [|reflexivity].
    subst k0. destruct (String.eqb_spec k' k) as [E1|N1]; [symmetry in E1; contradiction|reflexivity].
Qed.

Lemma meq_refl {A} (m : list (str * A)) : meq m m.
Proof. intros k. reflexivity. Qed.

Lemma meq_trans {A} (m1 m2 m3 : list (str * A)) : meq m1 m2 -> meq m2 m3 -> meq m1 m3.
Proof. intros H1 H2 k. rewrite H1. apply H2. Qed.

Lemma meq_map_set {A} k (v : A) m1 m2 : meq m1 m2 -> meq (map_set k v m1) (map_set k v m2).
Proof. intros H k'. rewrite !lookup_map_set, H. reflexivity. Qed.

Lemma map_set_comm {A} k1 k2 (v1 v2 : A) m : k1 <> k2 ->
  meq (map_set k1 v1 (map_set k2 v2 m)) (map_set k2 v2 (map_set k1 v1 m)).
Proof.
  intros N k. rewrite !lookup_map_set.
  destruct (String.eqb_spec k k1) as [E1|N1]; destruct (String.eqb_spec k k2) as [E2|N2]; try reflexivity.
  exfalso. apply N. rewrite <- E1, <- E2. reflexivity.
Qed.

Definition su_eq (a b : simple_url) : Prop :=
  su_fragments a = su_fragments b /\ su_route a = su_route b /\ meq (su_fields a) (su_fields b) /\
  su_filter a = su_filter b /\ su_rules a = su_rules b /\ meq (su_page a) (su_page b) /\
  su_include a = su_include b.

Lemma su_eq_refl a : su_eq a a.
Proof. unfold su_eq. repeat split; auto using meq_refl. Qed.

Lemma su_eq_trans a b c : su_eq a b -> su_eq b c -> su_eq a c.
Proof.
  unfold su_eq. intros [A1 [A2 [A3 [A4 [A5 [A6 A7]]]]]] [B1 [B2 [B3 [B4 [B5 [B6 B7]]]]]].
  repeat split; try congruence; eapply meq_trans; eassumption.
Qed.

Lemma apply_kind_respects fo a b k vs : su_eq a b -> req su_eq (apply_kind fo a k vs) (apply_kind fo b k vs).
Proof.
  intros [A1 [A2 [A3 [A4 [A5 [A6 A7]]]]]].
  destruct k as [rt|arg| | | |]; cbn [apply_kind req].
  - destruct (parse_comma_list (first_value vs)); unfold su_eq; cbn; repeat split; auto using meq_map_set.
  - destruct (String.eqb (first_value vs) ""); unfold su_eq; cbn; repeat split; auto using meq_map_set.
  - destruct fo; cbn [req]; [exact I| |]; unfold su_eq; cbn; repeat split; auto.
  - unfold su_eq; cbn; repeat split; auto. rewrite A5. reflexivity.
  - unfold su_eq; cbn; repeat split; auto. rewrite A7. reflexivity.
  - exact I.
Qed.

Lemma kind_eq_dec (k1 k2 : kind) : {k1 = k2} + {k1 <> k2}.
Proof. decide equality; apply string_dec. Qed.

Lemma apply_kind_commute fo a k1 vs1 k2 vs2 :
  k1 <> k2 \/ k1 = KBad ->
  req su_eq (bind (apply_kind fo a k1 vs1) (fun s => apply_kind fo s k2 vs2))
            (bind (apply_kind fo a k2 vs2) (fun s => apply_kind fo s k1 vs1)).
Proof.
  intros H. destruct a as [fr rt F f r p i].
  destruct k1 as [r1|a1| | | |], k2 as [r2|a2| | | |];
    try (destruct H as [H|H]; [exfalso; apply H; reflexivity|discriminate H]);
    cbn [apply_kind bind req su_fragments su_route su_fields su_filter su_rules su_page su_include];
    repeat match goal with
           | |- context [match parse_comma_list ?x with _ => _ end] => destruct (parse_comma_list x)
           | |- context [if String.eqb ?x "" then _ else _] => destruct (String.eqb x "")
           | |- context [match fo with _ => _ end] => destruct fo
           end;
    cbn [apply_kind bind req su_fragments su_route su_fields su_filter su_rules su_page su_include];
    try exact I; try apply su_eq_refl.
  - (* two field selections of different types *)
    unfold su_eq; cbn; repeat split; auto using meq_refl.
    apply map_set_comm. destruct H as [H|H]; [|discriminate H]. intros E. apply H. rewrite E. reflexivity.
  - (* two page parameters with different arguments *)
    unfold su_eq; cbn; repeat split; auto using meq_refl.
    apply map_set_comm. destruct H as [H|H]; [|discriminate H]. intros E. apply H. rewrite E. reflexivity.
Qed.

(** * NewSimpleURL does not depend on the order of the values *)
Lemma sp_step_respects fo a b e : su_eq a b -> req su_eq (sp_step fo a e) (sp_step fo b e).
Proof. intros H. apply apply_kind_respects. exact H. Qed.

Lemma sp_step_commute fo a e1 e2 : fst e1 <> fst e2 ->
  req su_eq (bind (sp_step fo a e1) (fun s => sp_step fo s e2))
            (bind (sp_step fo a e2) (fun s => sp_step fo s e1)).
Proof.
  intros N. unfold sp_step. apply apply_kind_commute.
  destruct (kind_eq_dec (kind_of (fst e1)) (kind_of (fst e2))) as [E|NE]; [|left; exact NE].
  destruct (kind_eq_dec (kind_of (fst e1)) KBad) as [B|NB]; [right; exact B|].
  exfalso. apply N. exact (kind_of_inj _ _ E NB).
Qed.

Theorem simple_params_order vs1 vs2 fo su :
  NoDup (map fst vs1) -> Permutation vs1 vs2 ->
  req su_eq (simple_params vs1 fo su) (simple_params vs2 fo su).
Proof.
  intros Hn Hp. rewrite !simple_params_foldr.
  apply (foldr_perm (sp_step fo) su_eq fst su_eq_refl su_eq_trans (sp_step_respects fo) (sp_step_commute fo)
           vs1 vs2 Hp Hn).
  cbn. apply su_eq_refl.
Qed.

Lemma apply_kind_nodup fo su k vs su' :
  NoDup (map fst (su_fields su)) -> apply_kind fo su k vs = Ok su' -> NoDup (map fst (su_fields su')).
Proof.
  intros Hn. destruct k; cbn [apply_kind].
  - destruct (parse_comma_list _); intros H; injection H as <-; [exact Hn|]. cbn [su_fields].
    apply map_set_keys. exact Hn.
  - destruct (String.eqb _ ""); intros H; injection H as <-; exact Hn.
  - destruct fo; [discriminate| |]; intros H; injection H as <-; exact Hn.
  - intros H; injection H as <-; exact Hn.
  - intros H; injection H as <-; exact Hn.
  - discriminate.
Qed.

Lemma simple_params_nodup vs fo su su' :
  NoDup (map fst (su_fields su)) -> simple_params vs fo su = Ok su' -> NoDup (map fst (su_fields su')).
Proof.
  rewrite simple_params_foldr. intros Hn H.
  apply (foldr_inv (sp_step fo) (fun s => NoDup (map fst (su_fields s)))) with (l := vs) (s := su); [|exact Hn|exact H].
  intros s e s' Hs Hstep. exact (apply_kind_nodup fo s _ _ s' Hs Hstep).
Qed.

(** * maps with distinct keys that agree on every key are permutations *)
Lemma lookup_none_notin {A} k (m : list (str * A)) : lookup k m = None <-> ~ In k (map fst m).
Proof.
  induction m as [|[k0 v0] m IH]; cbn [lookup map fst In]; [tauto|].
  destruct (String.eqb_spec k k0) as [E|N].
  - split; [discriminate|]. intros H. exfalso. apply H. left. symmetry. exact E.
  - rewrite IH. split; [intros H [E|Hin]; [symmetry in E; contradiction|exact (H Hin)]|tauto].
Qed.

Lemma lookup_in_nodup {A} k (v : A) m : NoDup (map fst m) -> In (k, v) m -> lookup k m = Some v.
Proof.
  induction m as [|[k0 v0] m IH]; intros Hn Hin; [destruct Hin|]. cbn [lookup].
  inversion Hn as [|? ? Hx Hl]; subst. destruct Hin as [E|Hin].
  - injection E as -> ->. rewrite String.eqb_refl. reflexivity.
  - destruct (String.eqb_spec k k0) as [E|N]; [|exact (IH Hl Hin)].
    subst k0. exfalso. apply Hx. apply in_map_iff. exists (k, v). split; [reflexivity|exact Hin].
Qed.

Lemma lookup_app_notin {A} k (a b : list (str * A)) :
  ~ In k (map fst a) -> lookup k (a ++ b) = lookup k b.
Proof.
  induction a as [|[k0 v0] a IH]; intros H; [reflexivity|]. cbn [app lookup].
  destruct (String.eqb_spec k k0) as [E|N]; [exfalso; apply H; left; symmetry; exact E|].
  apply IH. intros Hin. apply H. right. exact Hin.
Qed.

Lemma meq_perm {A} (m1 : list (str * A)) : forall m2,
  NoDup (map fst m1) -> NoDup (map fst m2) -> meq m1 m2 -> Permutation m1 m2.
Proof.
  induction m1 as [|[k v] m1 IH]; intros m2 H1 H2 He.
  - destruct m2 as [|[k v] m2]; [constructor|]. specialize (He k). cbn [lookup] in He.
    rewrite String.eqb_refl in He. discriminate.
  - inversion H1 as [|? ? Hx Hl]; subst.
    assert (Hin : In (k, v) m2).
    { apply lookup_In. rewrite <- He. cbn [lookup]. rewrite String.eqb_refl. reflexivity. }
    apply in_split in Hin. destruct Hin as [A0 [B0 ->]].
    rewrite map_app in H2. cbn [map fst] in H2.
    apply Permutation_cons_app. apply IH; [exact Hl|rewrite map_app; exact (NoDup_remove_1 _ _ _ H2)|].
    intros k'. destruct (String.eqb_spec k' k) as [->|N].
    + transitivity (@None A).
      * apply lookup_none_notin. exact Hx.
      * symmetry. apply lookup_none_notin. rewrite map_app. exact (NoDup_remove_2 _ _ _ H2).
    + specialize (He k'). cbn [lookup] in He. apply String.eqb_neq in N. rewrite N in He. rewrite He.
      clear - N H2. apply String.eqb_neq in N.
      induction A0 as [|[k0 v0] A0 IH]; cbn [app lookup].
      * apply String.eqb_neq in N. rewrite N. reflexivity.
      * destruct (String.eqb k' k0); [reflexivity|]. apply IH. cbn [map fst app] in H2.
        inversion H2; assumption.
Qed.

(** * NewParams: the field selections are applied in map order too *)
Definition af_step (s : schema) (rt : str) (fields : list (str * list str)) (e : str * list str)
  : res (list (str * list str)) :=
  let t := fst e in
  let typ := get_type s t in
  if negb (String.eqb t rt) && String.eqb (tname typ) "" then Err
  else if String.eqb (tname typ) "" then Ok fields
  else if has_dup (sel_of s t (snd e)) then Err
  else Ok (map_set t (sel_of s t (snd e)) fields).

Lemma apply_fields_foldr s rt sf : forall fields,
  apply_fields s rt sf fields = foldr (af_step s rt) (Ok fields) sf.
Proof.
  induction sf as [|[t fs] sf IH]; intros fields; [reflexivity|].
  rewrite foldr_cons. cbn [apply_fields bind]. unfold af_step. cbn [fst snd].
  destruct (negb (String.eqb t rt) && String.eqb (tname (get_type s t)) ""); [rewrite foldr_err; reflexivity|].
  destruct (String.eqb (tname (get_type s t)) ""); [apply IH|].
  fold (sel_of s t fs). destruct (has_dup (sel_of s t fs)); [rewrite foldr_err; reflexivity|apply IH].
Qed.

Lemma af_step_respects s rt a b e : meq a b -> req meq (af_step s rt a e) (af_step s rt b e).
Proof.
  intros H. unfold af_step.
  destruct (negb _ && _); [exact I|]. destruct (String.eqb _ ""); [exact H|].
  destruct (has_dup _); [exact I|]. cbn [req]. apply meq_map_set. exact H.
Qed.

Lemma af_step_commute s rt a e1 e2 : fst e1 <> fst e2 ->
  req meq (bind (af_step s rt a e1) (fun m => af_step s rt m e2))
          (bind (af_step s rt a e2) (fun m => af_step s rt m e1)).
Proof.
  intros N. unfold af_step.
  destruct (negb (String.eqb (fst e1) rt) && _) eqn:A1; destruct (negb (String.eqb (fst e2) rt) && _) eqn:A2;
    cbn [bind]; rewrite ?A1, ?A2; cbn [req]; try exact I.
  - destruct (String.eqb (tname (get_type s (fst e2))) ""); cbn [bind]; rewrite ?A1; [exact I|].
    destruct (has_dup _); cbn [bind]; rewrite ?A1; exact I.
  - destruct (String.eqb (tname (get_type s (fst e1))) ""); cbn [bind]; rewrite ?A2; [exact I|].
    destruct (has_dup _); cbn [bind]; rewrite ?A2; exact I.
  - destruct (String.eqb (tname (get_type s (fst e1))) "") eqn:B1;
      destruct (String.eqb (tname (get_type s (fst e2))) "") eqn:B2;
      cbn [bind]; rewrite ?A1, ?A2, ?B1, ?B2; cbn [bind req].
    + apply meq_refl.
    + destruct (has_dup _); cbn [bind]; rewrite ?A1, ?B1; cbn [req]; [exact I|apply meq_refl].
    + destruct (has_dup _); cbn [bind]; rewrite ?A2, ?B2; cbn [req]; [exact I|apply meq_refl].
    + destruct (has_dup (sel_of s (fst e1) (snd e1))) eqn:D1;
        destruct (has_dup (sel_of s (fst e2) (snd e2))) eqn:D2;
        cbn [bind]; rewrite ?A1, ?A2, ?B1, ?B2, ?D1, ?D2; cbn [bind req]; try exact I.
      apply map_set_comm. intros E. apply N. symmetry. exact E.
Qed.

Lemma apply_fields_order s rt sf1 sf2 f1 f2 :
  NoDup (map fst sf1) -> Permutation sf1 sf2 -> meq f1 f2 ->
  req meq (apply_fields s rt sf1 f1) (apply_fields s rt sf2 f2).
Proof.
  intros Hn Hp He. rewrite !apply_fields_foldr.
  exact (foldr_perm (af_step s rt) meq fst meq_refl meq_trans (af_step_respects s rt) (af_step_commute s rt)
           sf1 sf2 Hp Hn (Ok f1) (Ok f2) He).
Qed.

Lemma lookup_default_fields s m k :
  lookup k (default_fields s m)
  = option_map (fun v => match v with [] => type_fields (get_type s k) | _ => v end) (lookup k m).
Proof.
  unfold default_fields. induction m as [|[k0 v0] m IH]; [reflexivity|]. cbn [map fst snd].
  destruct v0 as [|x v0]; cbn [lookup]; destruct (String.eqb_spec k k0) as [E|N]; try exact IH; subst; reflexivity.
Qed.

Definition params_eq (p1 p2 : params) : Prop :=
  meq (p_fields p1) (p_fields p2) /\ p_filter p1 = p_filter p2 /\ p_rules p1 = p_rules p2 /\
  meq (p_page p1) (p_page p2) /\ p_include p1 = p_include p2.

Lemma new_params_respects s a b rt :
  su_eq a b -> NoDup (map fst (su_fields a)) -> NoDup (map fst (su_fields b)) ->
  req params_eq (new_params s a rt) (new_params s b rt).
Proof.
  intros [A1 [A2 [A3 [A4 [A5 [A6 A7]]]]]] Ha Hb. unfold new_params. rewrite <- A7, <- A1, <- A5, <- A4.
  destruct (check_includes _ s rt 0 _ []) as [incs fields1].
  pose proof (apply_fields_order s rt (su_fields a) (su_fields b)
                (if String.eqb rt "" then fields1 else map_set rt [] fields1)
                (if String.eqb rt "" then fields1 else map_set rt [] fields1)
                Ha (meq_perm _ _ Ha Hb A3) (meq_refl _)) as H.
  destruct (apply_fields s rt (su_fields a) _) as [fa| |]; destruct (apply_fields s rt (su_fields b) _) as [fb| |];
    cbn [req] in H; try contradiction; cbn [bind req]; try exact I.
  unfold params_eq. cbn [p_fields p_filter p_rules p_page p_include]. repeat split; try reflexivity; [|exact A6].
  intros k. rewrite !lookup_default_fields, (H k). reflexivity.
Qed.

Definition url_eq (u1 u2 : url) : Prop :=
  u_fragments u1 = u_fragments u2 /\ u_route u1 = u_route u2 /\ u_iscol u1 = u_iscol u2 /\
  u_restype u1 = u_restype u2 /\ u_resid u1 = u_resid u2 /\ u_relkind u1 = u_relkind u2 /\
  u_rel u1 = u_rel u2 /\ params_eq (u_params u1) (u_params u2).

Lemma new_url_respects s a b :
  su_eq a b -> NoDup (map fst (su_fields a)) -> NoDup (map fst (su_fields b)) ->
  req url_eq (new_url s a) (new_url s b).
Proof.
  intros He Ha Hb. rewrite !new_url_head. pose proof He as [A1 [A2 A3]]. rewrite <- A1, <- A2.
  destruct (url_head s (su_fragments a)) as [[[[[c rt] id] k] r]|]; [|exact I].
  pose proof (new_params_respects s a b rt He Ha Hb) as H.
  destruct (new_params s a rt) as [pa| |]; destruct (new_params s b rt) as [pb| |];
    cbn [req] in H; try contradiction; cbn [bind req]; try exact I.
  unfold url_eq. cbn [u_fragments u_route u_iscol u_restype u_resid u_relkind u_rel u_params].
  repeat (split; [reflexivity|]). exact H.
Qed.

(** * the same text *)
Lemma new_params_nodup s su rt p : new_params s su rt = Ok p -> NoDup (map fst (p_fields p)).
Proof.
  unfold new_params.
  destruct (check_includes _ s rt 0 _ []) as [incs fields1] eqn:Ec.
  assert (H1 : NoDup (map fst fields1)).
  { pose proof (check_includes_keys (S (length (prune_includes (isort String.ltb (su_include su))))) s rt 0
                  (prune_includes (isort String.ltb (su_include su))) []) as H.
    rewrite Ec in H. apply H. constructor. }
  destruct (apply_fields s rt (su_fields su) _) as [fields3| |] eqn:Ea; cbn [bind]; try discriminate.
  intros E; injection E as <-. cbn [p_fields]. rewrite default_fields_keys.
  apply apply_fields_keys in Ea. apply (proj1 Ea).
  destruct (String.eqb rt ""); [exact H1|apply map_set_keys; exact H1].
Qed.

Lemma new_url_nodup s su u : new_url s su = Ok u -> NoDup (map fst (p_fields (u_params u))).
Proof.
  rewrite new_url_head. destruct (url_head s (su_fragments su)) as [[[[[c rt] id] k] r]|]; [|discriminate].
  destruct (new_params s su rt) as [p| |] eqn:Ep; cbn [bind]; try discriminate.
  intros H; injection H as <-. cbn [u_params]. exact (new_params_nodup s su rt p Ep).
Qed.

Lemma url_string_of_eq u1 u2 lj :
  url_eq u1 u2 -> NoDup (map fst (p_fields (u_params u1))) -> NoDup (map fst (p_fields (u_params u2))) ->
  url_string u1 lj = url_string u2 lj.
Proof.
  intros [E1 [E2 [E3 [E4 [E5 [E6 [E7 [P1 [P2 [P3 [P4 P5]]]]]]]]]]] H1 H2.
  unfold url_string. cbn zeta.
  assert (Es : sort_fields (p_fields (u_params u1)) = sort_fields (p_fields (u_params u2))).
  { apply fields_sort_perm; [exact H1|]. apply meq_perm; assumption. }
  rewrite E1, E3, P2, P3, Es, (P4 "number"), (P4 "size"). reflexivity.
Qed.

(** the URL does not depend on the order in which differently named
    parameters are met *)
Theorem values_order s path vs1 vs2 fo lj :
  NoDup (map fst vs1) -> Permutation vs1 vs2 ->
  match new_url_from s path vs1 fo, new_url_from s path vs2 fo with
  | Ok u1, Ok u2 => url_eq u1 u2 /\ url_string u1 lj = url_string u2 lj
  | Err, Err => True
  | _, _ => False
  end.
Proof.
  intros Hn Hp. unfold new_url_from, new_simple_url.
  set (su0 := mkSU (parse_fragments path) (deduce_route (parse_fragments path)) [] FPNone [] [] []).
  pose proof (simple_params_order vs1 vs2 fo su0 Hn Hp) as H.
  destruct (simple_params vs1 fo su0) as [a| |] eqn:Ea; destruct (simple_params vs2 fo su0) as [b| |] eqn:Eb;
    cbn [req] in H; try contradiction; cbn [bind]; try exact I.
  - assert (Ha : NoDup (map fst (su_fields a))) by (apply (simple_params_nodup vs1 fo su0 a); [constructor|exact Ea]).
    assert (Hb : NoDup (map fst (su_fields b))) by (apply (simple_params_nodup vs2 fo su0 b); [constructor|exact Eb]).
    pose proof (new_url_respects s a b H Ha Hb) as Hu.
    destruct (new_url s a) as [u1| |] eqn:U1; destruct (new_url s b) as [u2| |] eqn:U2;
      cbn [req] in Hu; try contradiction; try exact I.
    + split; [exact Hu|]. apply url_string_of_eq; [exact Hu| |].
      * exact (new_url_nodup s a u1 U1).
      * exact (new_url_nodup s b u2 U2).
    + exact (new_url_no_panic s a U1).
  - exact (simple_params_no_panic vs1 fo su0 Ea).
Qed.

(** * two raw URLs that differ in the order of their parameters *)
Definition piece_kv (piece : string) : option (str * str) :=
  if contains_char ";" piece then None
  else if String.eqb piece "" then None
  else
    let '(k, v) := cut_at "=" piece in
    match unescape true k, unescape true (match v with Some v => v | None => "" end) with
    | Some k', Some v' => Some (k', v')
    | _, _ => None
    end.

Lemma parse_pair_kv m piece :
  parse_pair m piece = match piece_kv piece with Some (k, v) => add_value k v m | None => m end.
Proof.
  unfold parse_pair, piece_kv. destruct (contains_char ";" piece); [reflexivity|].
  destruct (String.eqb piece ""); [reflexivity|]. destruct (cut_at "=" piece) as [k v].
  destruct (unescape true k); [|reflexivity]. destruct (unescape true _); reflexivity.
Qed.

Fixpoint decoded (ps : list string) : list (str * str) :=
  match ps with
  | [] => []
  | p :: rest => match piece_kv p with Some kv => kv :: decoded rest | None => decoded rest end
  end.

Lemma decoded_perm ps1 ps2 : Permutation ps1 ps2 -> Permutation (decoded ps1) (decoded ps2).
Proof.
  induction 1 as [|x l1 l2 Hp IH|x y l|l1 l2 l3 Hp1 IH1 Hp2 IH2]; cbn [decoded].
  - constructor.
  - destruct (piece_kv x); [constructor|]; exact IH.
  - destruct (piece_kv x), (piece_kv y); try reflexivity. apply perm_swap.
  - etransitivity; eassumption.
Qed.

Lemma fold_parse_decoded ps : forall m,
  fold_left parse_pair ps m = fold_left add_kv (decoded ps) m.
Proof.
  induction ps as [|p ps IH]; intros m; [reflexivity|]. cbn [fold_left decoded]. rewrite parse_pair_kv.
  destruct (piece_kv p) as [[k v]|]; [cbn [fold_left]; unfold add_kv at 2; cbn [fst snd]|]; apply IH.
Qed.

Definition piece_safe (p : string) : Prop :=
  all_chars hsafe p = true /\ all_chars (is_not "&") p = true.

Lemma pieces_query x ps :
  Forall piece_safe (x :: ps) -> NoDup (map fst (decoded (x :: ps))) ->
  parse_query (join "&" (x :: ps)) = map one_value (decoded (x :: ps)).
Proof.
  intros Hs Hn. unfold parse_query. rewrite split_char_join.
  - rewrite fold_parse_decoded, fold_add_kv; [reflexivity|exact Hn].
  - eapply Forall_impl; [|exact Hs]. intros a [_ Ha]. exact Ha.
Qed.

Lemma pieces_hsafe x ps : Forall piece_safe (x :: ps) -> all_chars hsafe (join "&" (x :: ps)) = true.
Proof.
  revert x. induction ps as [|y ps IH]; intros x H; inversion H as [|? ? [Hx _] Hr]; subst.
  - exact Hx.
  - rewrite join_cons2, !all_chars_app, Hx, (IH y Hr). reflexivity.
Qed.

Theorem raw_order s P x1 ps1 x2 ps2 fo lj :
  all_chars rsafe P = true -> Forall piece_safe (x1 :: ps1) ->
  Permutation (x1 :: ps1) (x2 :: ps2) ->
  NoDup (map fst (decoded (x1 :: ps1))) ->
  match new_url_from_raw s (P ++ "?" ++ join "&" (x1 :: ps1)) fo,
        new_url_from_raw s (P ++ "?" ++ join "&" (x2 :: ps2)) fo with
  | Ok u1, Ok u2 => url_eq u1 u2 /\ url_string u1 lj = url_string u2 lj
  | Err, Err => True
  | _, _ => False
  end.
Proof.
  intros HP Hs Hp Hn.
  assert (Hs2 : Forall piece_safe (x2 :: ps2)).
  { apply Forall_forall. intros p Hin. rewrite Forall_forall in Hs. apply Hs.
    eapply Permutation_in; [apply Permutation_sym; exact Hp|exact Hin]. }
  assert (Hd : Permutation (decoded (x1 :: ps1)) (decoded (x2 :: ps2))) by (apply decoded_perm; exact Hp).
  assert (Hn2 : NoDup (map fst (decoded (x2 :: ps2)))).
  { eapply Permutation_NoDup; [apply Permutation_map; exact Hd|exact Hn]. }
  unfold new_url_from_raw.
  destruct (unescape false P) as [path|] eqn:Eu.
  - rewrite (parse_raw_query P _ path HP (pieces_hsafe x1 ps1 Hs) Eu).
    rewrite (parse_raw_query P _ path HP (pieces_hsafe x2 ps2 Hs2) Eu).
    cbn [bind fst snd]. rewrite (pieces_query x1 ps1 Hs Hn), (pieces_query x2 ps2 Hs2 Hn2).
    apply values_order.
    + rewrite map_map. cbn [one_value fst]. exact Hn.
    + apply Permutation_map. exact Hd.
  - assert (E : forall q, all_chars hsafe q = true -> parse_raw (P ++ "?" ++ q) = Err).
    { intros q Hq. unfold parse_raw.
      assert (Hnh : all_chars (is_not "#") (P ++ "?" ++ q) = true).
      { rewrite all_chars_app. cbn [append all_chars].
        rewrite (all_chars_weaken rsafe (is_not "#") P), (all_chars_weaken hsafe (is_not "#") q); auto.
        - intros c Hc. unfold hsafe in Hc. repeat (apply andb_true_iff in Hc; destruct Hc as [Hc ?]). assumption.
        - intros c Hc. unfold rsafe in Hc. repeat (apply andb_true_iff in Hc; destruct Hc as [Hc ?]). assumption. }
      rewrite (cut_at_none "#" _ Hnh). destruct (has_ctl _); [reflexivity|].
      change (P ++ "?" ++ q) with (P ++ String "?" q). rewrite cut_at_app.
      - rewrite Eu. reflexivity.
      - apply (all_chars_weaken rsafe); [|exact HP]. intros c Hc. unfold rsafe in Hc.
        repeat (apply andb_true_iff in Hc; destruct Hc as [Hc ?]). assumption. }
    rewrite (E _ (pieces_hsafe x1 ps1 Hs)), (E _ (pieces_hsafe x2 ps2 Hs2)). exact I.
Qed.
