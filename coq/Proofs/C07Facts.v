(* C07: URL parsing never panics and its result is consistent with the schema. *)
From Coq Require Import Lia Permutation Sorted.
From JV Require Import Model.Base Model.GoTime Gen.TypeGo Model.Schema Model.Value
  Model.Strconv Model.Json Model.Url Proofs.BaseFacts Proofs.MapFacts Proofs.C15Facts.
Open Scope list_scope.

(** * no panic *)
Lemma simple_params_no_panic values fo : forall su, simple_params values fo su <> Panic.
Proof.
  induction values as [|[name vs] values IH]; intros su; cbn; [discriminate|].
  repeat match goal with
  | |- context [if ?c then _ else _] => destruct c
  | |- context [match fo with _ => _ end] => destruct fo
  end; try apply IH; discriminate.
Qed.

Lemma apply_fields_no_panic s rt sf : forall fields, apply_fields s rt sf fields <> Panic.
Proof.
  induction sf as [|[t fs] sf IH]; intros fields; cbn; [discriminate|].
  repeat match goal with |- context [if ?c then _ else _] => destruct c end;
    try apply IH; discriminate.
Qed.

Lemma new_params_no_panic s su rt : new_params s su rt <> Panic.
Proof.
  unfold new_params. destruct (check_includes _ _ _ _ _ _) as [incs fields1].
  pose proof (apply_fields_no_panic s rt (su_fields su)
                (if String.eqb rt "" then fields1 else map_set rt [] fields1)) as H.
  destruct (apply_fields _ _ _ _); cbn; try discriminate. contradiction.
Qed.

Lemma new_url_no_panic s su : new_url s su <> Panic.
Proof.
  unfold new_url. destruct (su_fragments su) as [|f0 fr]; [discriminate|].
  destruct (String.eqb _ ""); [discriminate|].
  destruct (Nat.leb 3 _).
  - destruct (lookup _ _) as [r|]; [|discriminate].
    destruct (negb _); [discriminate|].
    pose proof (new_params_no_panic s su (to_type r)) as H.
    destruct (new_params s su (to_type r)); cbn; try discriminate. contradiction.
  - pose proof (new_params_no_panic s su (tname (get_type s f0))) as H.
    destruct (new_params s su _); cbn; try discriminate. contradiction.
Qed.

Lemma new_url_from_no_panic s path values fo : new_url_from s path values fo <> Panic.
Proof.
  unfold new_url_from, new_simple_url.
  pose proof (simple_params_no_panic values fo
                (mkSU (parse_fragments path) (deduce_route (parse_fragments path)) [] FPNone [] [] [])) as H.
  destruct (simple_params _ _ _) as [su| |]; cbn; [apply new_url_no_panic|discriminate|contradiction].
Qed.

(** * the resource type exists *)
Lemma get_type_has s n : tname (get_type s n) <> "" -> has_type s (tname (get_type s n)) = true.
Proof.
  intros H. unfold get_type, has_type in *. apply existsb_exists.
  exists (get_type_in (types s) n). split; [apply get_type_in_In; exact H|apply String.eqb_refl].
Qed.

Lemma new_url_restype s su u : new_url s su = Ok u -> has_type s (u_restype u) = true.
Proof.
  unfold new_url. destruct (su_fragments su) as [|f0 fr]; [discriminate|].
  destruct (String.eqb_spec (tname (get_type s f0)) "") as [E|N]; [discriminate|].
  destruct (Nat.leb 3 _).
  - destruct (lookup _ _) as [r|]; [|discriminate].
    destruct (has_type s (to_type r)) eqn:Eh; cbn [negb]; [|discriminate].
    destruct (new_params s su (to_type r)); cbn; try discriminate.
    intros H; injection H as <-. exact Eh.
  - destruct (new_params s su _); cbn; try discriminate.
    intros H; injection H as <-. cbn. apply get_type_has. exact N.
Qed.

(** * sorting rules of collection URLs *)
(** a rule mentions id or an attribute of the type: "a" / "-a" for an
    attribute a (or the attribute's own name, should it start with '-') *)
Definition rule_ok (attrs : list str) (r : str) : Prop :=
  strip_minus r = "id" \/ In (strip_minus r) attrs \/ In r attrs.

Lemma mem_str_In' x l : mem_str x l = true -> In x l.
Proof.
  induction l as [|a l IH]; cbn; [discriminate|].
  intros H. apply orb_true_iff in H. destruct H as [E|E]; [left; symmetry; apply String.eqb_eq; exact E|right; auto].
Qed.

Lemma requested_rules_ok attrs rules : forall acc,
  Forall (rule_ok attrs) acc -> Forall (rule_ok attrs) (requested_rules attrs rules acc).
Proof.
  induction rules as [|rule rules IH]; intros acc Hacc; cbn; [exact Hacc|].
  destruct (existsb _ acc); [apply IH; exact Hacc|].
  destruct (String.eqb_spec (strip_minus rule) "id") as [E|N].
  - apply IH. apply Forall_app. split; [exact Hacc|]. constructor; [left; exact E|constructor].
  - destruct (mem_str (strip_minus rule) attrs) eqn:Em; [|apply IH; exact Hacc].
    apply IH. apply Forall_app. split; [exact Hacc|]. constructor; [|constructor].
    right. left. apply mem_str_In'. exact Em.
Qed.

Lemma sorting_rules_ok t rules :
  let attrs := map (fun kv => aname (snd kv)) (tattrs t) in
  Forall (rule_ok attrs) (sorting_rules t rules) /\
  existsb (fun r => String.eqb (strip_minus r) "id") (sorting_rules t rules) = true /\
  exists rest, sorting_rules t rules = requested_rules attrs rules [] ++ rest.
Proof.
  intros attrs. unfold sorting_rules. fold attrs.
  set (req := requested_rules attrs rules []).
  set (restr := isort String.ltb (filter (fun a => negb (existsb (fun r => String.eqb (strip_minus r) a) req)) attrs)).
  assert (Hreq : Forall (rule_ok attrs) req) by (apply requested_rules_ok; constructor).
  assert (Hrest : Forall (rule_ok attrs) restr).
  { apply Forall_forall. intros a Ha. right. right.
    assert (Hin : In a (filter (fun a0 => negb (existsb (fun r => String.eqb (strip_minus r) a0) req)) attrs)).
    { eapply Permutation_in; [apply isort_perm|exact Ha]. }
    apply filter_In in Hin. tauto. }
  destruct (existsb (fun r => String.eqb (strip_minus r) "id") req) eqn:Eid.
  - split; [apply Forall_app; auto|]. split; [|exists restr; reflexivity].
    rewrite existsb_app, Eid. reflexivity.
  - split.
    + apply Forall_app. split; [apply Forall_app; auto|]. constructor; [left; reflexivity|constructor].
    + split; [|exists (restr ++ ["id"]); rewrite app_assoc; reflexivity].
      rewrite !existsb_app. cbn. rewrite !Bool.orb_true_r. reflexivity.
Qed.

(** the caller's valid rules are kept in order: [requested_rules] walks the
    request once and appends *)
Lemma requested_rules_prefix attrs rules : forall acc,
  exists more, requested_rules attrs rules acc = acc ++ more.
Proof.
  induction rules as [|rule rules IH]; intros acc; cbn; [exists []; rewrite app_nil_r; reflexivity|].
  destruct (existsb _ acc); [apply IH|].
  destruct (String.eqb _ "id").
  - destruct (IH (acc ++ [rule])) as [m Hm]. exists (rule :: m). rewrite Hm, <- app_assoc. reflexivity.
  - destruct (mem_str _ attrs); [|apply IH].
    destruct (IH (acc ++ [rule])) as [m Hm]. exists (rule :: m). rewrite Hm, <- app_assoc. reflexivity.
Qed.

Lemma new_params_rules s su rt p :
  new_params s su rt = Ok p ->
  p_rules p = if is_collection s (su_fragments su) then sorting_rules (get_type s rt) (su_rules su) else [].
Proof.
  unfold new_params. destruct (check_includes _ _ _ _ _ _) as [incs fields1].
  destruct (apply_fields _ _ _ _); cbn; try discriminate.
  intros H; injection H as <-. reflexivity.
Qed.

(** * the recorded finding: an unvalidated inclusion survives *)
Definition c07_schema : schema :=
  mkSchema [mkType "t" [("a", mkAttr "a" 1 false)] [("r", mkRel "t" "r" true "t" "" false)]].

Lemma include_refuted :
  exists u, new_url_from c07_schema "/t" [("include", ["zz,yy"])] FOErr = Ok u /\
            In [zero_rel] (p_include (u_params u)).
Proof. eexists. split; [vm_compute; reflexivity|]. vm_compute. left. reflexivity. Qed.
