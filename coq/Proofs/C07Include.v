(* C07: inclusion paths, when every requested path is valid (no path is
   removed, so the recorded finding cannot occur): every path of the URL is a
   chain of relationships of the schema. *)
From Coq Require Import Lia.
From JV Require Import Model.Base Model.GoTime Gen.TypeGo Model.Schema Model.Value
  Model.Url Proofs.BaseFacts Proofs.MapFacts Proofs.SoftFacts Proofs.C07Facts Proofs.C07Fields.
Open Scope list_scope.

(** [chain] is the chain of relationships that [words] names from type [cur] *)
Fixpoint chain_ok (s : schema) (cur : str) (words : list str) (chain : list rel) : Prop :=
  match words, chain with
  | [], [] => True
  | w :: ws, r :: rs => rel_of s cur w = Some r /\ has_type s (to_type r) = true /\ chain_ok s (to_type r) ws rs
  | _, _ => False
  end.

(** the words all resolve: what the validation loop accepts *)
Fixpoint words_valid (s : schema) (cur : str) (words : list str) : bool :=
  match words with
  | [] => true
  | w :: ws => match rel_of s cur w with
               | Some r => has_type s (to_type r) && words_valid s (to_type r) ws
               | None => false
               end
  end.

Lemma has_type_get s n : has_type s n = true -> tname (get_type s n) <> "" \/ n = "".
Proof.
  unfold has_type, get_type. intros H. apply existsb_exists in H. destruct H as [t [Hin He]].
  apply String.eqb_eq in He. destruct (String.eqb_spec n "") as [->|N]; [right; reflexivity|left].
  induction (types s) as [|t0 ts IH]; [contradiction|]. cbn.
  destruct (String.eqb_spec (tname t0) n) as [E|N0]; [rewrite E; exact N|].
  destruct Hin as [->|Hin]; [contradiction|]. apply IH. exact Hin.
Qed.

Lemma get_type_in_cases ts n :
  get_type_in ts n = empty_type \/ (tname (get_type_in ts n) = n /\ existsb (fun t => String.eqb (tname t) n) ts = true).
Proof.
  induction ts as [|t0 ts IH]; cbn; [left; reflexivity|].
  destruct (String.eqb_spec (tname t0) n) as [E|N]; [right; split; [exact E|reflexivity]|].
  destruct IH as [IH|[IH1 IH2]]; [left; exact IH|right; split; [exact IH1|exact IH2]].
Qed.

Lemma check_words_valid s words : forall cur fields,
  has_type s "" = false ->
  tname (get_type s (to_type cur)) <> "" ->
  words_valid s (to_type cur) words = true ->
  exists f1, check_words s words cur fields = (Some f1, f1).
Proof.
  induction words as [|w ws IH]; intros cur fields Hno Hcur Hv; cbn; [eauto|].
  apply String.eqb_neq in Hcur. rewrite Hcur. cbn in Hv. unfold rel_of in Hv.
  destruct (lookup w (trels (get_type s (to_type cur)))) as [r|]; [|discriminate].
  apply andb_true_iff in Hv. destruct Hv as [Hh Hv]. rewrite Hh.
  destruct ws as [|w' ws'].
  - cbn. eauto.
  - apply IH; [exact Hno| |exact Hv]. cbn in Hv. unfold rel_of in Hv.
    destruct (String.eqb_spec (tname (get_type s (to_type r))) "") as [E|N]; [|exact N].
    (* the next word must resolve in the target type, which therefore exists *)
    exfalso. unfold get_type in *.
    destruct (get_type_in_cases (types s) (to_type r)) as [H0|[H1 H2]].
    + rewrite H0 in Hv. cbn in Hv. discriminate.
    + rewrite E in H1. unfold has_type in Hno. rewrite <- H1 in H2. congruence.
Qed.

Lemma include_chain_cons s w w' ws r :
  include_chain s (w :: w' :: ws) r =
  r :: include_chain s (w' :: ws) (match rel_of s (to_type r) w' with Some x => x | None => zero_rel end).
Proof. reflexivity. Qed.

Lemma chain_ok_cons s cur w ws r rs :
  chain_ok s cur (w :: ws) (r :: rs) <->
  rel_of s cur w = Some r /\ has_type s (to_type r) = true /\ chain_ok s (to_type r) ws rs.
Proof. reflexivity. Qed.

Lemma include_chain_ok s : forall words cur w r,
  rel_of s cur w = Some r -> has_type s (to_type r) = true -> words_valid s (to_type r) words = true ->
  chain_ok s cur (w :: words) (include_chain s (w :: words) r).
Proof.
  induction words as [|w' ws IH]; intros cur w r Hr Hh Hv.
  - cbn. auto.
  - rewrite include_chain_cons. apply chain_ok_cons.
    cbn [words_valid] in Hv. destruct (rel_of s (to_type r) w') as [r'|] eqn:Er'; [|discriminate].
    apply andb_true_iff in Hv. destruct Hv as [Hh' Hv'].
    split; [exact Hr|]. split; [exact Hh|]. exact (IH (to_type r) w' r' Er' Hh' Hv').
Qed.

Lemma build_include_ok s rt p :
  words_valid s rt (split_char "." p) = true -> split_char "." p <> [] ->
  chain_ok s rt (split_char "." p) (build_include s rt p).
Proof.
  unfold build_include. destruct (split_char "." p) as [|w ws]; [congruence|]. intros Hv _.
  cbn in Hv. destruct (rel_of s rt w) as [r|] eqn:Er; [|discriminate].
  apply andb_true_iff in Hv. destruct Hv as [Hh Hv]. apply (include_chain_ok s ws rt w r Er Hh Hv).
Qed.

Lemma nth_str_In (l : list str) i : i < length l -> In (nth_str l i) l.
Proof. unfold nth_str. intros H. apply nth_In. exact H. Qed.

Lemma check_includes_all_valid s rt : forall fuel i incs fields,
  has_type s "" = false -> tname (get_type s rt) <> "" ->
  Forall (fun p => words_valid s rt (split_char "." p) = true) incs ->
  fst (check_includes fuel s rt i incs fields) = incs.
Proof.
  induction fuel as [|f IH]; intros i incs fields Hno Hrt Hall; cbn [check_includes]; [reflexivity|].
  match goal with |- context [Nat.leb ?a ?b] => destruct (Nat.leb a b) eqn:El end; [reflexivity|].
  apply Nat.leb_gt in El. rename El into Hlt.
  assert (Hv : words_valid s rt (split_char "." (nth_str incs i)) = true).
  { rewrite Forall_forall in Hall. apply Hall. apply nth_str_In. exact Hlt. }
  destruct (check_words_valid s (split_char "." (nth_str incs i)) (mkRel "" "" false rt "" false) fields Hno Hrt Hv) as [f1 Hc].
  rewrite Hc. apply IH; assumption.
Qed.

(** when every (sorted, pruned) requested path is valid, the URL's inclusion
    paths are exactly those paths, each a chain of relationships of the schema *)
Theorem new_params_include_all_valid s su rt p :
  has_type s "" = false -> tname (get_type s rt) <> "" ->
  let incs0 := prune_includes (isort String.ltb (su_include su)) in
  Forall (fun q => words_valid s rt (split_char "." q) = true /\ split_char "." q <> []) incs0 ->
  new_params s su rt = Ok p ->
  p_include p = map (build_include s rt) incs0 /\
  Forall (fun q => chain_ok s rt (split_char "." q) (build_include s rt q)) incs0.
Proof.
  intros Hno Hrt incs0 Hall. unfold new_params. fold incs0.
  assert (Hall1 : Forall (fun q => words_valid s rt (split_char "." q) = true) incs0).
  { eapply Forall_impl; [|exact Hall]. intros q [H _]. exact H. }
  pose proof (check_includes_all_valid s rt (S (length incs0)) 0 incs0 [] Hno Hrt Hall1) as Hfst.
  destruct (check_includes (S (length incs0)) s rt 0 incs0 []) as [incs fields1]. cbn [fst] in Hfst. subst incs.
  destruct (apply_fields s rt (su_fields su) _) as [fields3| |]; cbn [bind]; try discriminate.
  intros H; injection H as <-. cbn [p_include]. split; [reflexivity|].
  eapply Forall_impl; [|exact Hall]. intros q [H1 H2]. apply build_include_ok; assumption.
Qed.
