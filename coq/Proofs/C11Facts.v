(* C11: the marshaled tree depends on content only. *)
From Coq Require Import Lia Permutation Sorted.
From JV Require Import Model.Base Model.GoTime Gen.TypeGo Model.Schema Model.Value
  Model.Strconv Model.Json Model.SoftRes Model.Wrapper Model.Resource Model.Marshal
  Model.Unmarshal Model.Document Proofs.BaseFacts.
Open Scope list_scope.

(** * order of a to-many relationship's IDs *)
Lemma sorted_ids_perm ids1 ids2 :
  Permutation ids1 ids2 -> isort String.ltb ids1 = isort String.ltb ids2.
Proof. apply (isort_perm_eq String.ltb slt_irrefl slt_trans slt_total). Qed.

(** * order of (and duplicates in) the names of a field selection *)
Definition same_names (f1 f2 : list str) : Prop := forall x, mem_str x f1 = mem_str x f2.

Lemma mem_str_perm f1 f2 : Permutation f1 f2 -> same_names f1 f2.
Proof.
  intros Hp x. induction Hp; cbn.
  - reflexivity.
  - rewrite IHHp. reflexivity.
  - destruct (String.eqb x y), (String.eqb x x0); reflexivity.
  - congruence.
Qed.

Lemma marshal_attrs_names e r f1 f2 attrs : same_names f1 f2 -> forall acc,
  marshal_attrs e r f1 attrs acc = marshal_attrs e r f2 attrs acc.
Proof.
  intros Hs. induction attrs as [|[k a] attrs IH]; intros acc; cbn; [reflexivity|].
  rewrite (Hs (aname a)). destruct (mem_str (aname a) f2); [|apply IH].
  destruct (res_get r (aname a)); cbn; try reflexivity. apply IH.
Qed.

Lemma marshal_rels_names r prepath tn id f1 f2 w1 w2 rels :
  same_names f1 f2 -> same_names w1 w2 -> forall acc,
  marshal_rels r prepath tn id f1 w1 rels acc = marshal_rels r prepath tn id f2 w2 rels acc.
Proof.
  intros Hf Hw. induction rels as [|[k x] rels IH]; intros acc; cbn; [reflexivity|].
  rewrite (Hf (from_name x)), (Hw (from_name x)). destruct (mem_str (from_name x) f2); [|apply IH].
  destruct (marshal_rel _ _ _ _ _ _); cbn; try reflexivity. apply IH.
Qed.

Lemma marshal_resource_names e r prepath f1 f2 rd1 rd2 :
  same_names f1 f2 ->
  same_names (match lookup (res_type_name r) rd1 with Some l => l | None => [] end)
             (match lookup (res_type_name r) rd2 with Some l => l | None => [] end) ->
  marshal_resource e r prepath f1 rd1 = marshal_resource e r prepath f2 rd2.
Proof.
  intros Hf Hw. unfold marshal_resource.
  destruct (get_str r "id") as [id| |]; cbn [bind]; try reflexivity.
  rewrite (marshal_attrs_names e r f1 f2 _ Hf).
  destruct (marshal_attrs e r f2 (res_attrs r) []) as [attrs| |]; cbn [bind]; try reflexivity.
  rewrite (marshal_rels_names r prepath (res_type_name r) id f1 f2 _ _ (res_rels r) Hf Hw).
  reflexivity.
Qed.

(** * order of the included resources (distinct IDs) *)
Definition inc_lt (a b : resource) : bool := String.ltb (rid a) (rid b).

Lemma inc_lt_ntrans a b c : inc_lt a b = false -> inc_lt b c = false -> inc_lt a c = false.
Proof.
  unfold inc_lt. intros H1 H2.
  destruct (String.ltb (rid a) (rid c)) eqn:E; [|reflexivity].
  destruct (slt_total (rid a) (rid b)) as [H|[H|H]]; [congruence| |].
  - rewrite H in *. congruence.
  - destruct (slt_total (rid b) (rid c)) as [H'|[H'|H']]; [congruence| |].
    + rewrite <- H' in *. pose proof (slt_trans _ _ _ H E) as C. rewrite slt_irrefl in C. discriminate.
    + pose proof (slt_trans _ _ _ H' H) as C1. pose proof (slt_trans _ _ _ C1 E) as C2.
      rewrite slt_irrefl in C2. discriminate.
Qed.

Lemma inc_lt_asym a b : inc_lt a b = true -> inc_lt b a = false.
Proof. unfold inc_lt. apply slt_asym. Qed.

Definition inc_le (a b : resource) : bool := String.leb (rid a) (rid b).

Lemma inc_le_lt a b : inc_le a b = negb (inc_lt b a).
Proof. unfold inc_le, inc_lt. apply sle_not_lt. Qed.

Lemma insert_le_sorted x l :
  StronglySorted (fun a b => inc_lt b a = false) l ->
  StronglySorted (fun a b => inc_lt b a = false) (insert_by inc_le x l).
Proof.
  induction l as [|y ys IH]; cbn; intros Hs.
  - constructor; constructor.
  - inversion Hs as [|? ? Hs' Hall]; subst.
    destruct (inc_le x y) eqn:E.
    + rewrite inc_le_lt in E. apply Bool.negb_true_iff in E.
      constructor; [exact Hs|]. constructor; [exact E|].
      eapply Forall_impl; [|exact Hall]. intros z Hz. cbn in Hz.
      eapply inc_lt_ntrans; [exact Hz|exact E].
    + rewrite inc_le_lt in E. apply Bool.negb_false_iff in E.
      constructor; [apply IH; exact Hs'|].
      eapply Permutation_Forall; [symmetry; apply insert_by_perm|].
      constructor; [apply inc_lt_asym; exact E|exact Hall].
Qed.

Lemma sort_included_sorted l :
  StronglySorted (fun a b => inc_lt b a = false) (sort_included l).
Proof.
  unfold sort_included. fold inc_le.
  induction l as [|x l IH]; cbn; [constructor|].
  apply insert_le_sorted. exact IH.
Qed.

Lemma NoDup_map_inj_on {A B} (f : A -> B) l a b :
  NoDup (map f l) -> In a l -> In b l -> f a = f b -> a = b.
Proof.
  induction l as [|x l IH]; cbn; [tauto|]. intros Hn Ha Hb E.
  inversion Hn as [|? ? Hx Hd]; subst.
  destruct Ha as [->|Ha], Hb as [->|Hb]; try reflexivity.
  - exfalso. apply Hx. rewrite E. apply in_map. exact Hb.
  - exfalso. apply Hx. rewrite <- E. apply in_map. exact Ha.
  - apply IH; assumption.
Qed.

Lemma sort_included_perm l1 l2 :
  NoDup (map rid l1) -> Permutation l1 l2 -> sort_included l1 = sort_included l2.
Proof.
  intros Hn Hp.
  apply (sorted_unique_on_gen inc_lt l1).
  - intros a b Ha Hb. unfold inc_lt.
    destruct (slt_total (rid a) (rid b)) as [H|[H|H]]; [left; exact H| |right; right; exact H].
    right. left. eapply NoDup_map_inj_on; eassumption.
  - intros x Hx. eapply Permutation_in; [apply isort_perm|exact Hx].
  - intros x Hx. eapply Permutation_in; [symmetry; exact Hp|].
    eapply Permutation_in; [apply isort_perm|exact Hx].
  - apply sort_included_sorted.
  - apply sort_included_sorted.
  - unfold sort_included. rewrite !isort_perm. exact Hp.
Qed.

(** * the document *)
Lemma marshal_all_names e l prepath f1 f2 rd1 rd2 :
  (forall tn, same_names (fields_for f1 tn) (fields_for f2 tn)) ->
  (forall tn, same_names (match lookup tn rd1 with Some x => x | None => [] end)
                         (match lookup tn rd2 with Some x => x | None => [] end)) ->
  marshal_all e l prepath f1 rd1 = marshal_all e l prepath f2 rd2.
Proof.
  intros Hf Hw. induction l as [|r l IH]; cbn; [reflexivity|].
  rewrite (marshal_resource_names e r prepath _ _ rd1 rd2 (Hf _) (Hw _)), IH. reflexivity.
Qed.

(** the output is unchanged by reordering the included resources (distinct
    IDs), the names of any field selection and of any relationship-data list *)
Lemma marshal_document_content e d1 d2 f1 f2 self :
  d_data d1 = d_data d2 -> d_meta d1 = d_meta d2 -> d_errors d1 = d_errors d2 ->
  d_prepath d1 = d_prepath d2 ->
  NoDup (map rid (d_included d1)) -> Permutation (d_included d1) (d_included d2) ->
  (forall tn, same_names (fields_for f1 tn) (fields_for f2 tn)) ->
  (forall tn, same_names (match lookup tn (d_reldata d1) with Some x => x | None => [] end)
                         (match lookup tn (d_reldata d2) with Some x => x | None => [] end)) ->
  marshal_document e d1 f1 self = marshal_document e d2 f2 self.
Proof.
  intros Hd Hm He Hp Hn Hperm Hf Hw.
  assert (Hdata : marshal_data e d1 f1 = marshal_data e d2 f2).
  { unfold marshal_data. rewrite Hd, He, Hp. destruct (d_data d2); try reflexivity.
    - rewrite (marshal_resource_names e r _ _ _ (d_reldata d1) (d_reldata d2) (Hf _) (Hw _)). reflexivity.
    - rewrite (marshal_all_names e l _ f1 f2 (d_reldata d1) (d_reldata d2) Hf Hw). reflexivity. }
  unfold marshal_document. rewrite Hdata, He, Hm, Hp.
  destruct (marshal_data e d2 f2) as [data| |]; cbn [bind]; try reflexivity.
  assert (Hinc : match d_included d1, data with
                 | _ :: _, Some _ => bind (marshal_all e (sort_included (d_included d1)) (d_prepath d2) f1 (d_reldata d1)) (fun js => Ok js)
                 | _, _ => Ok []
                 end =
                 match d_included d2, data with
                 | _ :: _, Some _ => bind (marshal_all e (sort_included (d_included d2)) (d_prepath d2) f2 (d_reldata d2)) (fun js => Ok js)
                 | _, _ => Ok []
                 end).
  { rewrite (sort_included_perm _ _ Hn Hperm).
    rewrite (marshal_all_names e _ _ f1 f2 (d_reldata d1) (d_reldata d2) Hf Hw).
    destruct (d_included d1) as [|x xs], (d_included d2) as [|y ys]; try reflexivity.
    - apply Permutation_nil in Hperm. discriminate.
    - apply Permutation_sym, Permutation_nil in Hperm. discriminate. }
  rewrite Hinc. reflexivity.
Qed.
