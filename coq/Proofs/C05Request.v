(* C05: building a request never panics (for schemas without byte-string
   attributes: the recorded finding), and gives a request or an error. *)
From JV Require Import Model.Base Model.GoTime Gen.TypeGo Model.Schema Model.Value
  Model.Strconv Model.Json Model.Attr Model.SoftRes Model.Wrapper Model.Resource
  Model.Unmarshal Model.Document Model.Url Model.Request Proofs.C07Facts Proofs.C05Facts Proofs.C05Mixed.

Theorem new_request_no_panic_mixed e s method path values fo body :
  sch_ok s -> no_bytes_schema s -> new_request e s method path values fo body <> Panic.
Proof.
  intros Hok Hnb. unfold new_request.
  pose proof (new_url_from_no_panic (sch_schema s) path values fo) as Hu.
  destruct (new_url_from (sch_schema s) path values fo) as [u| |]; cbn [bind]; try discriminate; [|contradiction].
  destruct (String.eqb method "POST" || String.eqb method "PATCH"); [|discriminate].
  destruct body as [j|]; [|discriminate].
  pose proof (unmarshal_document_no_panic_mixed e s j Hok Hnb) as Hd.
  destruct (unmarshal_document e s j); cbn [bind]; try discriminate. contradiction.
Qed.

(** a request for GET carries no document; for POST / PATCH the document the
    body unmarshals to, and the URL is the parsed one *)
Theorem new_request_parts e s method path values fo body r :
  new_request e s method path values fo body = Ok r ->
  new_url_from (sch_schema s) path values fo = Ok (rq_url r) /\ rq_method r = method /\
  (if String.eqb method "POST" || String.eqb method "PATCH"
   then exists j d, body = Some j /\ unmarshal_document e s j = Ok d /\ rq_doc r = Some d
   else rq_doc r = None).
Proof.
  unfold new_request. destruct (new_url_from (sch_schema s) path values fo) as [u| |]; cbn [bind]; try discriminate.
  destruct (String.eqb method "POST" || String.eqb method "PATCH").
  - destruct body as [j|]; [|discriminate].
    destruct (unmarshal_document e s j) as [d| |] eqn:Ed; cbn [bind]; try discriminate.
    intros H; injection H as <-. cbn. repeat split. exists j, d. auto.
  - intros H; injection H as <-. cbn. auto.
Qed.
