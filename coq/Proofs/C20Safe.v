(* C20: reading and writing the declared fields of an accepted struct never
   panics. *)
From Coq Require Import Lia.
From JV Require Import Model.Base Model.GoTime Gen.TypeGo Model.Schema Model.Value
  Model.Wrapper Proofs.MapFacts Proofs.SoftFacts Proofs.C20Facts.
Open Scope list_scope.

Definition tagged (f : sfield) : bool := negb (is_id_field f) && is_res_tag (sf_api f).

(** what Check's clauses give, field by field *)
Lemma names_ok_spec fs : forall seen, names_ok fs seen = true ->
  forall f, In f fs -> tagged f = true ->
  sf_json f <> "" /\ sf_exported f = true /\ ~ In (sf_json f) seen.
Proof.
  induction fs as [|g fs IH]; intros seen H f Hin Ht; [contradiction|].
  cbn [names_ok] in H. fold (tagged g) in H.
  destruct (tagged g) eqn:Eg.
  - repeat (apply andb_true_iff in H; destruct H as [H ?]).
    match goal with Hn : names_ok fs _ = true |- _ => rename Hn into Hrest end.
    destruct Hin as [<-|Hin].
    + split; [|split].
      * apply Bool.negb_true_iff in H. apply String.eqb_neq. exact H.
      * assumption.
      * match goal with Hm : negb (mem_str _ _) = true |- _ =>
          apply Bool.negb_true_iff in Hm; intros Hx; apply mem_str_In in Hx; congruence end.
    + destruct (IH _ Hrest f Hin Ht) as [Ha [Hb Hc]]. split; [exact Ha|split; [exact Hb|]].
      intros Hx. apply Hc. right. exact Hx.
  - destruct Hin as [<-|Hin]; [congruence|]. apply (IH _ H f Hin Ht).
Qed.

Record accepted_facts (d : structdesc) : Prop := {
  af_tagged : forall f, In f d -> tagged f = true ->
                sf_json f <> "" /\ sf_exported f = true /\ sf_json f <> "id";
  af_untagged : forall f, In f d -> is_id_field f = false -> is_res_tag (sf_api f) = false ->
                sf_json f = "" \/ ~ In (sf_json f) (tagged_names d);
  af_id : exists idf, find_field is_id_field d = Some idf /\ sf_json idf = "id" /\
                      sf_type idf = GTAttr 1 false
}.

Lemma check_facts d : check_struct d = true -> accepted_facts d.
Proof.
  unfold check_struct. destruct (find_field is_id_field d) as [idf|] eqn:Ef; [|discriminate].
  intros H.
  apply andb_true_iff in H. destruct H as [H HF3].
  apply andb_true_iff in H. destruct H as [H HF2].
  apply andb_true_iff in H. destruct H as [H HF1].
  apply andb_true_iff in H. destruct H as [H Hnames].
  apply andb_true_iff in H. destruct H as [H Hjson].
  apply andb_true_iff in H. destruct H as [Hapi Htype].
  split.
  - intros f Hin Ht. destruct (names_ok_spec d ["id"] Hnames f Hin Ht) as [Ja [Jb Jc]].
    split; [exact Ja|split; [exact Jb|]]. intros E. apply Jc. left. symmetry. exact E.
  - intros f Hin Hid Htag.
    rewrite forallb_forall in HF1. specialize (HF1 f Hin). rewrite Hid, Htag in HF1. cbn in HF1.
    apply Bool.orb_true_iff in HF1. destruct HF1 as [Hc|Hc].
    + left. apply String.eqb_eq. exact Hc.
    + right. apply Bool.negb_true_iff in Hc. change (mem_str (sf_json f) (tagged_names d) = false) in Hc.
      intros Hx. apply (proj2 (mem_str_In _ _)) in Hx. rewrite Hx in Hc. discriminate.
  - exists idf. split; [exact Ef|]. split.
    + apply String.eqb_eq. exact Hjson.
    + destruct (sf_type idf) as [k n| |]; try discriminate.
      destruct k as [|p|p]; try discriminate. destruct p; try discriminate. destruct n; [discriminate|reflexivity].
Qed.

Lemma get_slot_exists (p : sfield -> bool) (d : structdesc) : forall vals,
  length vals = length d -> (exists f, In f d /\ p f = true) ->
  exists g v, get_slot p d vals = Some (g, v) /\ In g d /\ p g = true.
Proof.
  induction d as [|f0 d IH]; intros vals Hl [f [Hin Hp]]; [contradiction|].
  destruct vals as [|v0 vals]; [discriminate|]. cbn [get_slot].
  destruct (p f0) eqn:E0.
  - exists f0, v0. split; [reflexivity|]. split; [left; reflexivity|exact E0].
  - destruct Hin as [<-|Hin]; [congruence|].
    destruct (IH vals) as [g [v [H1 [H2 H3]]]]; [cbn in Hl; lia|exists f; auto|].
    exists g, v. split; [exact H1|]. split; [right; exact H2|exact H3].
Qed.

(** every field with a declared name is a tagged, exported one *)
Lemma same_json_is_tagged d n g :
  accepted_facts d -> NoDup (map sf_name d) ->
  In n (tagged_names d) -> n <> "id" -> n <> "" ->
  In g d -> sf_json g = n -> tagged g = true.
Proof.
  intros [Ht Hu [idf [Hf [Hj _]]]] Hnd Hn Hid Hne Hin Hjson.
  unfold tagged. destruct (is_id_field g) eqn:Eid.
  - (* the only field called ID carries the json name "id" *)
    exfalso. apply find_some in Hf. destruct Hf as [Hinf Eidf].
    assert (g = idf).
    { unfold is_id_field in Eid, Eidf. apply String.eqb_eq in Eid, Eidf.
      clear -Hnd Hin Hinf Eid Eidf. induction d as [|x d IH]; [contradiction|].
      cbn in Hnd. apply NoDup_cons_iff in Hnd. destruct Hnd as [Hx Hd].
      destruct Hin as [<-|Hin], Hinf as [<-|Hinf]; try reflexivity.
      - exfalso. apply Hx. rewrite Eid, <- Eidf. apply in_map. exact Hinf.
      - exfalso. apply Hx. rewrite Eidf, <- Eid. apply in_map. exact Hin.
      - apply IH; assumption. }
    subst g. congruence.
  - cbn. destruct (is_res_tag (sf_api g)) eqn:Er; [reflexivity|].
    exfalso. destruct (Hu g Hin Eid Er) as [E|E]; [congruence|]. apply E. rewrite Hjson. exact Hn.
Qed.

Lemma tagged_in_names d f : In f d -> tagged f = true -> In (sf_json f) (tagged_names d).
Proof.
  intros Hin Ht. unfold tagged_names. right. apply in_map. apply filter_In. split; [exact Hin|exact Ht].
Qed.

(** Get of a declared name succeeds *)
Theorem get_declared_ok d vals typ attrs rels n :
  check_struct d = true -> NoDup (map sf_name d) -> length vals = length d ->
  (exists f, In f d /\ tagged f = true /\ sf_json f = n) ->
  exists v, wrapper_get (mkWrapper d vals typ attrs rels) n = Ok v.
Proof.
  intros Hc Hnd Hl [f [Hin [Ht Hj]]].
  pose proof (check_facts d Hc) as Hfacts.
  destruct (af_tagged d Hfacts f Hin Ht) as [Hne [Hex Hnid]]. rewrite Hj in *.
  unfold wrapper_get. apply String.eqb_neq in Hnid. rewrite Hnid.
  unfold wrapper_get_field. cbn [w_desc w_vals]. apply String.eqb_neq in Hne. rewrite Hne.
  destruct (get_slot_exists (fun g => String.eqb n (sf_json g) && negb (String.eqb (sf_api g) "")) d vals Hl)
    as [g [v [Hs [Hg Hp]]]].
  { exists f. split; [exact Hin|]. rewrite Hj, String.eqb_refl. cbn.
    unfold tagged in Ht. apply andb_true_iff in Ht. destruct Ht as [_ Ht].
    unfold is_res_tag in Ht. destruct (String.eqb_spec (sf_api f) "") as [E|_]; [|reflexivity].
    rewrite E in Ht. discriminate. }
  rewrite Hs.
  apply andb_true_iff in Hp. destruct Hp as [Hp _]. apply String.eqb_eq in Hp.
  assert (Htg : tagged g = true).
  { apply (same_json_is_tagged d n g Hfacts Hnd); try assumption.
    - rewrite <- Hj. apply tagged_in_names; assumption.
    - apply String.eqb_neq. exact Hnid.
    - apply String.eqb_neq. exact Hne.
    - symmetry. exact Hp. }
  destruct (af_tagged d Hfacts g Hg Htg) as [_ [Hexg _]]. rewrite Hexg. cbn [negb].
  destruct v as [| | | | | |k0 [v0|]|]; eexists; reflexivity.
Qed.

(** Set of a declared name with a value of the field's Go type (or nil) succeeds *)
Theorem set_declared_ok d vals typ attrs rels n v :
  check_struct d = true -> NoDup (map sf_name d) -> length vals = length d ->
  (exists f, In f d /\ tagged f = true /\ sf_json f = n) ->
  (forall g, In g d -> sf_json g = n -> v = VNil \/ value_has_type (sf_type g) v = true) ->
  exists w', wrapper_set (mkWrapper d vals typ attrs rels) n v = Ok w'.
Proof.
  intros Hc Hnd Hl [f [Hin [Ht Hj]]] Hv.
  pose proof (check_facts d Hc) as Hfacts.
  destruct (af_tagged d Hfacts f Hin Ht) as [Hne [Hex Hnid]]. rewrite Hj in *.
  unfold wrapper_set. apply String.eqb_neq in Hnid. rewrite Hnid.
  unfold wrapper_set_field. cbn [w_desc w_vals]. apply String.eqb_neq in Hne. rewrite Hne.
  destruct (get_slot_exists (fun g => String.eqb n (sf_json g)) d vals Hl) as [g [v0 [Hs [Hg Hp]]]].
  { exists f. split; [exact Hin|]. rewrite Hj. apply String.eqb_refl. }
  rewrite Hs. apply String.eqb_eq in Hp.
  assert (Htg : tagged g = true).
  { apply (same_json_is_tagged d n g Hfacts Hnd); try assumption.
    - rewrite <- Hj. apply tagged_in_names; assumption.
    - apply String.eqb_neq. exact Hnid.
    - apply String.eqb_neq. exact Hne.
    - symmetry. exact Hp. }
  destruct (af_tagged d Hfacts g Hg Htg) as [_ [Hexg _]]. rewrite Hexg. cbn [negb].
  destruct (Hv g Hg (eq_sym Hp)) as [->|Hty]; [eexists; reflexivity|].
  destruct v; try (rewrite Hty; eexists; reflexivity). eexists; reflexivity.
Qed.

(** the attributes of the built type are declared names (a type that is not
    itself called "attr": the ID field's api tag is the type name) *)
Lemma attr_name_declared d n a :
  In (n, a) (build_attrs d) ->
  (forall f, In f d -> is_id_field f = true -> sf_api f <> "attr") ->
  exists f, In f d /\ tagged f = true /\ sf_json f = n.
Proof.
  intros Hin Hid. destruct (build_attrs_from d n a Hin) as [f [Hf [Hapi [Hj _]]]].
  exists f. split; [exact Hf|]. split; [|exact Hj].
  unfold tagged, is_res_tag. rewrite Hapi. cbn. rewrite Bool.andb_true_r.
  apply Bool.negb_true_iff. destruct (is_id_field f) eqn:E; [|reflexivity].
  exfalso. exact (Hid f Hf E Hapi).
Qed.
