(* C06, last clause: re-marshaling an accepted resource gives JSON that
   denotes the same resource: it is accepted again and decodes to the same
   id, type, attribute values and relationship linkage. *)
From Coq Require Import Lia Permutation.
From JV Require Import Model.Base Model.GoTime Gen.TypeGo Model.Schema Model.Value
  Model.Strconv Model.Json Model.Attr Model.SoftRes Model.Wrapper Model.Resource
  Model.Marshal Model.Unmarshal
  Proofs.BaseFacts Proofs.StrconvFacts Proofs.MapFacts Proofs.SoftFacts Proofs.C06Facts Proofs.C01Facts Proofs.C01Full
  Proofs.C05Facts Proofs.C06Resource Proofs.C07Fields.
Open Scope list_scope.

(** the standard-library round trips (oracle hypotheses) on what a value holds *)
Definition base_env_ok (e : stdenv) (v : value) : Prop :=
  match v with VTime t => time_ok e t | VBytes _ b => bytes_ok e b | _ => True end.
Definition env_ok_value (e : stdenv) (v : value) : Prop :=
  match v with VPtr _ (Some x) => base_env_ok e x | VPtr _ None => True | _ => base_env_ok e v end.

Lemma lift_domain e a x :
  base_in_domain e (acode a) x -> (anull a = true -> forall b, x <> VBytes true b) ->
  in_domain e a (wrap_null a x).
Proof.
  unfold in_domain, wrap_null. intros Hb Hn. destruct (anull a).
  - destruct x as [|s|k z|b|t|nn bs|k o|nn l]; try (split; [reflexivity|exact Hb]); try contradiction.
    destruct nn; [exfalso; exact (Hn eq_refl _ eq_refl)|split; [reflexivity|exact Hb]].
  - destruct x; try exact Hb; contradiction.
Qed.

Lemma unmarshal_in_domain e a j v :
  (1 <= acode a <= 14)%Z -> unmarshal_to_type e a j = Ok v -> env_ok_value e v -> in_domain e a v.
Proof.
  intros Hk. unfold unmarshal_to_type.
  destruct (anull a && is_jnull j) eqn:E0.
  { intros H _. injection H as <-. apply andb_true_iff in E0. destruct E0 as [En _].
    unfold zero_value. replace ((1 <=? acode a)%Z && (acode a <=? 14)%Z) with true
      by (symmetry; apply andb_true_iff; split; apply Z.leb_le; lia).
    unfold in_domain. rewrite En. reflexivity. }
  assert (Hnn : anull a = true -> is_jnull j = false).
  { intros En. rewrite En in E0. exact E0. }
  destruct (is_jnull j && negb (acode a =? 14)%Z) eqn:E1; [discriminate|].
  assert (Henv : forall x, env_ok_value e (wrap_null a x) -> (forall k o, x <> VPtr k o) -> base_env_ok e x).
  { intros x H Hx. unfold wrap_null in H. destruct (anull a); [exact H|].
    destruct x; try exact H. exfalso. exact (Hx _ _ eq_refl). }
  destruct (Z.eqb_spec (acode a) 1) as [K1|K1].
  { destruct j; try discriminate. intros H _. injection H as <-. apply lift_domain; [exact K1|discriminate]. }
  destruct (is_signed (acode a)) eqn:Es.
  { destruct j as [| |lit| | |]; try discriminate.
    destruct (parse_int lit (bits_of (acode a))) as [z|] eqn:Ep; [|discriminate].
    intros H _. injection H as <-. apply lift_domain; [|discriminate]. cbn [base_in_domain].
    split; [reflexivity|]. split; [unfold is_int_kind; rewrite Es; reflexivity|].
    unfold in_range. rewrite Es. pose proof (parse_int_range _ _ _ (bits_pos _) Ep).
    apply andb_true_iff. split; [apply Z.leb_le|apply Z.ltb_lt]; lia. }
  destruct (is_unsigned (acode a)) eqn:Eu.
  { destruct j as [| |lit| | |]; try discriminate.
    destruct (parse_uint lit (bits_of (acode a))) as [z|] eqn:Ep; [|discriminate].
    intros H _. injection H as <-. apply lift_domain; [|discriminate]. cbn [base_in_domain].
    split; [reflexivity|]. split; [unfold is_int_kind; rewrite Es, Eu; reflexivity|].
    unfold in_range. rewrite Es, Eu. pose proof (parse_uint_range _ _ _ Ep).
    apply andb_true_iff. split; [apply Z.leb_le|apply Z.ltb_lt]; lia. }
  destruct (Z.eqb_spec (acode a) 12) as [K12|K12].
  { destruct j; try discriminate. intros H _. injection H as <-. apply lift_domain; [exact K12|discriminate]. }
  destruct (Z.eqb_spec (acode a) 13) as [K13|K13].
  { destruct j as [| | |s esc| |]; try discriminate. destruct esc; [discriminate|].
    destruct (tparse e s) as [t|]; [|discriminate].
    intros H He. injection H as <-. apply lift_domain; [|discriminate]. cbn [base_in_domain].
    split; [exact K13|]. apply (Henv (VTime t) He). discriminate. }
  destruct (Z.eqb_spec (acode a) 14) as [K14|K14]; [|discriminate].
  destruct j as [| | |s esc|l|]; try discriminate.
  - intros H He. injection H as <-. apply lift_domain.
    + cbn [base_in_domain]. split; [exact K14|]. split; [|reflexivity]. apply (Henv (VBytes true []) He). discriminate.
    + intros En. specialize (Hnn En). discriminate.
  - destruct (b64dec e s) as [b|]; [|discriminate]. intros H He. injection H as <-. apply lift_domain; [|discriminate].
    cbn [base_in_domain]. split; [exact K14|]. split; [|discriminate]. apply (Henv (VBytes false b) He). discriminate.
  - destruct (bytes_of_array l) as [b|]; [|discriminate]. intros H He. injection H as <-. apply lift_domain; [|discriminate].
    cbn [base_in_domain]. split; [exact K14|]. split; [|discriminate]. apply (Henv (VBytes false b) He). discriminate.
Qed.

Lemma zero_in_domain e a :
  (1 <= acode a <= 14)%Z -> env_ok_value e (zero_value (acode a) (anull a)) ->
  in_domain e a (zero_value (acode a) (anull a)).
Proof.
  intros Hk. unfold zero_value.
  replace ((1 <=? acode a)%Z && (acode a <=? 14)%Z) with true
    by (symmetry; apply andb_true_iff; split; apply Z.leb_le; lia).
  unfold in_domain. destruct (anull a); [intros _; reflexivity|].
  unfold base_zero.
  destruct (Z.eqb_spec (acode a) 1) as [K1|K1]; [intros _; exact K1|].
  destruct (is_signed (acode a) || is_unsigned (acode a)) eqn:Ei.
  { intros _. cbn [base_in_domain]. split; [reflexivity|]. split; [exact Ei|].
    unfold in_range. apply orb_true_iff in Ei. destruct (is_signed (acode a)) eqn:Es.
    - apply andb_true_iff. split; [apply Z.leb_le|apply Z.ltb_lt].
      + assert (0 < 2 ^ (bits_of (acode a) - 1))%Z by (apply Z.pow_pos_nonneg; pose proof (bits_pos (acode a)); lia). lia.
      + apply Z.pow_pos_nonneg; pose proof (bits_pos (acode a)); lia.
    - destruct Ei as [Ei|Ei]; [discriminate|]. rewrite Ei.
      apply andb_true_iff. split; [apply Z.leb_le; lia|apply Z.ltb_lt].
      apply Z.pow_pos_nonneg; pose proof (bits_pos (acode a)); lia. }
  destruct (Z.eqb_spec (acode a) 12) as [K12|K12]; [intros _; exact K12|].
  destruct (Z.eqb_spec (acode a) 13) as [K13|K13]; [intros H; split; [exact K13|exact H]|].
  destruct (Z.eqb_spec (acode a) 14) as [K14|K14].
  - intros H. cbn [base_in_domain]. split; [exact K14|]. split; [exact H|discriminate].
  - exfalso. unfold is_signed, is_unsigned in Ei. lia.
Qed.

(** re-marshaling an accepted resource *)
Theorem remarshal_accepted e s j r prepath reldata want :
  sch_wrapped s = [] ->
  (forall k, dec_resske j = Some k -> wf_res_type (get_type (sch_schema s) (k_type k))) ->
  unmarshal_resource e s j = Ok (RSoft r) ->
  let t := s_type r in
  (forall n a, lookup n (tattrs t) = Some a -> env_ok_value e (soft_get r n)) ->
  lookup (tname t) reldata = Some want ->
  (forall n, In n (map fst (trels t)) -> In n want) ->
  exists j' r',
    marshal_resource e (RSoft r) prepath (soft_fields t) reldata = Ok j' /\
    unmarshal_resource e s j' = Ok (RSoft r') /\
    s_type r' = t /\
    soft_get r' "id" = soft_get r "id" /\
    (forall n a, lookup n (tattrs t) = Some a -> same_value (soft_get r n) (soft_get r' n)) /\
    (forall n x, lookup n (trels t) = Some x -> same_rel (soft_get r n) (soft_get r' n)).
Proof.
  intros Hsoft Hwf Hu t Henv Hwant Hall. unfold t in *. clear t.
  destruct (accepted_resource_values e s j r Hsoft Hwf Hu) as [k [Hk [Ht [Hid [Hpres [Habs [Hrp Hra]]]]]]].
  cbn zeta in Ht, Hpres, Habs, Hrp, Hra.
  assert (Hname : tname (get_type (sch_schema s) (k_type k)) <> "").
  { unfold unmarshal_resource in Hu. rewrite Hk in Hu.
    destruct (String.eqb_spec (tname (get_type (sch_schema s) (k_type k))) "") as [E|N]; [discriminate|exact N]. }
  pose proof (Hwf k Hk) as Hw.
  assert (Hw' : wf_res_type (s_type r)) by (rewrite Ht; exact Hw).
  apply (soft_resource_roundtrip e s r prepath reldata want Hw').
  - rewrite Ht. exact Hname.
  - rewrite Ht at 2. rewrite Ht. rewrite (get_type_named _ _ Hname). reflexivity.
  - rewrite Hsoft. reflexivity.
  - intros n a Hl. rewrite Ht in Hl.
    destruct Hw as [[[_ Hattrs] _] _].
    assert (Hcode : (1 <= acode a <= 14)%Z) by (apply (Hattrs n a); apply lookup_In; exact Hl).
    destruct (lookup n (k_attrs k)) as [jv|] eqn:Ej.
    + destruct (Hpres n jv Ej) as [a' [v [Hl' [Hv Hg]]]]. rewrite Hl in Hl'. injection Hl' as <-.
      rewrite Hg. apply (unmarshal_in_domain e a jv v Hcode Hv). rewrite <- Hg. apply (Henv n a). rewrite Ht. exact Hl.
    + rewrite (Habs n a Hl Ej). apply zero_in_domain; [exact Hcode|].
      rewrite <- (Habs n a Hl Ej). apply (Henv n a). rewrite Ht. exact Hl.
  - intros n x Hl. rewrite Ht in Hl. unfold rel_value_ok.
    destruct Hw as [[_ [_ Hrels]] _]. assert (Hfn : n = from_name x) by (apply (Hrels n x); apply lookup_In; exact Hl).
    rewrite <- Hfn.
    destruct (lookup n (k_rels k)) as [rs|] eqn:Er.
    + destruct (rs_data rs) as [dj|] eqn:Ed.
      * destruct (Hrp n rs dj Er Ed) as [x' [Hl' Hx]]. rewrite Hl in Hl'. injection Hl' as <-.
        destruct (to_one x); [destruct Hx as [i [_ ->]]; eauto|destruct Hx as [l [_ ->]]; eauto].
      * assert (Hg := Hra n x Hl). rewrite Hg.
        -- destruct (to_one x); eauto.
        -- intros rs' E. rewrite Er in E. injection E as <-. exact Ed.
    + assert (Hg := Hra n x Hl). rewrite Hg; [destruct (to_one x); eauto|]. intros rs' E. rewrite Er in E. discriminate.
  - exact Hwant.
  - exact Hall.
Qed.
