(* C18: after Copy the two resources share no storage, every operation
   preserves that, and no operation on one changes what is read from the
   other. *)
From Coq Require Import Lia.
From JV Require Import Model.Base Model.GoTime Gen.TypeGo Model.Schema Model.Value
  Model.Heap Proofs.MapFacts Proofs.SoftFacts.
Open Scope list_scope.

Definition slot_addrs (s : slot) : list addr :=
  match slot_addr s with Some a => [a] | None => [] end.

Definition addrs (r : hres) : list addr := flat_map (fun kv => slot_addrs (snd kv)) (h_fields r).

Definition bounded (h : heap) (r : hres) : Prop := forall a, In a (addrs r) -> a < length h.
Definition disjoint (r1 r2 : hres) : Prop := forall a, In a (addrs r1) -> ~ In a (addrs r2).

Definition reads (h : heap) (r : hres) : list (str * rdval) * str :=
  (map (fun kv => (fst kv, read_slot h (snd kv))) (h_fields r), h_id r).

(** * heap lemmas *)
Lemma nth_error_alloc (h : heap) (c : cell) a : a < length h -> nth_error (h ++ [c]) a = nth_error h a.
Proof. intros H. apply nth_error_app1. exact H. Qed.

Lemma set_nth_length {A} i (x : A) l : length (set_nth i x l) = length l.
Proof. revert i. induction l as [|y l IH]; intros [|i]; cbn; try reflexivity. rewrite IH. reflexivity. Qed.

Lemma nth_error_set_nth_other {A} i j (x : A) l : i <> j -> nth_error (set_nth i x l) j = nth_error l j.
Proof.
  revert i j. induction l as [|y l IH]; intros [|i] [|j] H; cbn; try reflexivity; try congruence.
  apply IH. congruence.
Qed.

Lemma update_cell_length h a f : length (update_cell h a f) = length h.
Proof. unfold update_cell. destruct (nth_error h a); [apply set_nth_length|reflexivity]. Qed.

Lemma update_cell_other h a f b : a <> b -> nth_error (update_cell h a f) b = nth_error h b.
Proof.
  intros H. unfold update_cell. destruct (nth_error h a); [apply nth_error_set_nth_other; exact H|reflexivity].
Qed.

(** a slot reads the same in two heaps that agree on its address *)
Lemma read_slot_agree h h' s :
  (forall a, In a (slot_addrs s) -> nth_error h' a = nth_error h a) ->
  read_slot h' s = read_slot h s.
Proof.
  intros H. unfold slot_addrs in H.
  destruct s as [v|[a|]|[[a|]|]|[a|]]; cbn in *; try reflexivity;
    unfold cell_bytes, cell_strs; rewrite (H a (or_introl eq_refl)); reflexivity.
Qed.

Lemma reads_agree h h' r :
  (forall a, In a (addrs r) -> nth_error h' a = nth_error h a) -> reads h' r = reads h r.
Proof.
  intros H. unfold reads. f_equal. unfold addrs in H.
  induction (h_fields r) as [|[k s] l IH]; cbn in *; [reflexivity|].
  f_equal.
  - f_equal. apply read_slot_agree. intros a Ha. apply H. apply in_or_app. left. exact Ha.
  - apply IH. intros a Ha. apply H. apply in_or_app. right. exact Ha.
Qed.

(** * storing a caller-provided value allocates fresh storage *)
Lemma store_spec h n h' s :
  store h n = (h', s) ->
  (forall a, a < length h -> nth_error h' a = nth_error h a) /\
  length h <= length h' /\
  (forall a, In a (slot_addrs s) -> length h <= a < length h').
Proof.
  unfold store, alloc.
  destruct n as [v|[b|]|[[b|]|]|[l|]]; intros H; inversion H; subst; cbn;
    try (split; [auto|split; [lia|intros a []]]);
    (split; [intros a Ha; apply nth_error_alloc; exact Ha|]);
    (split; [rewrite app_length; cbn; lia|]);
    intros a [<-|[]]; rewrite app_length; cbn; lia.
Qed.

Lemma addrs_map_set f s fs a :
  In a (flat_map (fun kv : str * slot => slot_addrs (snd kv)) (map_set f s fs)) ->
  In a (slot_addrs s) \/ In a (flat_map (fun kv : str * slot => slot_addrs (snd kv)) fs).
Proof.
  induction fs as [|[k s0] fs IH]; cbn.
  - rewrite app_nil_r. auto.
  - destruct (String.eqb f k); cbn; rewrite !in_app_iff.
    + intros [H|H]; auto.
    + intros [H|H]; [auto|]. destruct (IH H); auto.
Qed.

(** * one step *)
Record inv (st : hstate) : Prop := mkInv {
  inv_src : bounded (hs_heap st) (hs_src st);
  inv_cpy : bounded (hs_heap st) (hs_cpy st);
  inv_dis : disjoint (hs_src st) (hs_cpy st)
}.

Definition other_reads (st : hstate) (who : bool) : list (str * rdval) * str :=
  reads (hs_heap st) (pick_res st (negb who)).

Definition op_target (o : hop) : bool :=
  match o with HSet w _ _ | HSetID w _ | HMut w _ _ _ _ | HSort w _ => w end.

Lemma disjoint_sym r1 r2 : disjoint r1 r2 -> disjoint r2 r1.
Proof. intros H a Ha Hb. exact (H a Hb Ha). Qed.

(** generic frame: a heap update confined to addresses of [r] *)
Lemma hsort_field_spec h r f :
  length (hsort_field h r f) = length h /\
  forall b, ~ In b (addrs r) -> nth_error (hsort_field h r f) b = nth_error h b.
Proof.
  unfold hsort_field. destruct (lookup f (h_fields r)) as [[v|a|a|[a|]]|] eqn:E; try (split; [reflexivity|auto]).
  split; [apply update_cell_length|].
  intros b Hb. apply update_cell_other. intros ->. apply Hb.
  unfold addrs. apply in_flat_map. exists (f, SStrs (Some b)). split; [apply lookup_In; exact E|left; reflexivity].
Qed.

Lemma hsort_fields_spec fs : forall h r,
  length (hsort_fields h r fs) = length h /\
  forall b, ~ In b (addrs r) -> nth_error (hsort_fields h r fs) b = nth_error h b.
Proof.
  induction fs as [|f fs IH]; intros h r; cbn; [auto|].
  destruct (hsort_field_spec h r f) as [L1 F1]. destruct (IH (hsort_field h r f) r) as [L2 F2].
  unfold hsort_fields in *. split; [congruence|].
  intros b Hb. rewrite F2 by exact Hb. apply F1. exact Hb.
Qed.

Lemma hmut_spec h r f i zb zs :
  length (hmut h r f i zb zs) = length h /\
  forall b, ~ In b (addrs r) -> nth_error (hmut h r f i zb zs) b = nth_error h b.
Proof.
  unfold hmut. destruct (lookup f (h_fields r)) as [s|] eqn:E; cbn; [|auto].
  destruct (slot_addr s) as [a|] eqn:Ea; [|auto].
  split; [apply update_cell_length|].
  intros b Hb. apply update_cell_other. intros ->. apply Hb.
  unfold addrs. apply in_flat_map. exists (f, s). split; [apply lookup_In; exact E|].
  unfold slot_addrs. cbn. rewrite Ea. left; reflexivity.
Qed.

Lemma bounded_length h h' r : length h <= length h' -> bounded h r -> bounded h' r.
Proof. intros Hl Hb a Ha. specialize (Hb a Ha). lia. Qed.

(** Set on one resource *)
Lemma hset_spec h r f n h' r' other :
  hset h r f n = (h', r') -> bounded h r -> bounded h other -> disjoint r other ->
  bounded h' r' /\ bounded h' other /\ disjoint r' other /\ reads h' other = reads h other /\
  h_id r' = h_id r.
Proof.
  unfold hset. destruct (lookup f (h_fields r)) as [s0|].
  - destruct (store h n) as [h1 s] eqn:Es. intros H; inversion H; subst. intros Hb Hbo Hd.
    destruct (store_spec _ _ _ _ Es) as [Hagree [Hlen Hfresh]].
    assert (Hnew : forall a, In a (addrs (mkHRes (map_set f s (h_fields r)) (h_id r))) ->
                             In a (slot_addrs s) \/ In a (addrs r)).
    { intros a Ha. unfold addrs in *. cbn in Ha. apply addrs_map_set in Ha. exact Ha. }
    split; [|split; [|split; [|split]]].
    + intros a Ha. destruct (Hnew a Ha) as [H1|H1]; [apply Hfresh in H1; lia|specialize (Hb a H1); lia].
    + eapply bounded_length; eassumption.
    + intros a Ha Hoth. destruct (Hnew a Ha) as [H1|H1].
      * apply Hfresh in H1. specialize (Hbo a Hoth). lia.
      * exact (Hd a H1 Hoth).
    + apply reads_agree. intros a Ha. apply Hagree. apply Hbo. exact Ha.
    + reflexivity.
  - intros H; inversion H; subst. intros Hb Hbo Hd. repeat split; auto.
Qed.

Lemma step_frame st o :
  inv st -> inv (hstep st o) /\ other_reads (hstep st o) (op_target o) = other_reads st (op_target o).
Proof.
  intros [Hs Hc Hd]. destruct o as [who f n|who id|who f i zb zs|who fs]; cbn [hstep op_target].
  - (* Set *)
    destruct (hset (hs_heap st) (pick_res st who) f n) as [h' r'] eqn:E.
    destruct who; cbn [pick_res] in E.
    + destruct (hset_spec _ _ _ _ _ _ (hs_src st) E Hc Hs (disjoint_sym _ _ Hd)) as [B1 [B2 [D [R _]]]].
      split; [constructor; cbn; [exact B2|exact B1|apply disjoint_sym; exact D]|exact R].
    + destruct (hset_spec _ _ _ _ _ _ (hs_cpy st) E Hs Hc Hd) as [B1 [B2 [D [R _]]]].
      split; [constructor; cbn; [exact B1|exact B2|exact D]|exact R].
  - (* Set id *)
    destruct who; cbn; (split; [constructor; cbn; assumption|reflexivity]).
  - (* write through a slice *)
    destruct (hmut_spec (hs_heap st) (pick_res st who) f i zb zs) as [L F].
    split.
    + constructor; cbn; try (eapply bounded_length; [|eassumption]; lia). exact Hd.
    + unfold other_reads. cbn. apply reads_agree. intros a Ha. apply F.
      destruct who; cbn in *; intros Hin; [exact (Hd a Ha Hin)|exact (Hd a Hin Ha)].
  - (* in-place sort *)
    destruct (hsort_fields_spec fs (hs_heap st) (pick_res st who)) as [L F].
    split.
    + constructor; cbn; try (eapply bounded_length; [|eassumption]; lia). exact Hd.
    + unfold other_reads. cbn. apply reads_agree. intros a Ha. apply F.
      destruct who; cbn in *; intros Hin; [exact (Hd a Ha Hin)|exact (Hd a Hin Ha)].
Qed.

(** every history of operations on one side leaves the other side's readings
    unchanged *)
Lemma run_frame who ops : forall st,
  inv st -> Forall (fun o => op_target o = who) ops ->
  inv (hrun st ops) /\ other_reads (hrun st ops) who = other_reads st who.
Proof.
  induction ops as [|o ops IH]; intros st Hi Ho; cbn; [auto|].
  inversion Ho as [|? ? Ht Ho']; subst.
  destruct (step_frame st o Hi) as [Hi' Hr].
  destruct (IH (hstep st o) Hi' Ho') as [Hi'' Hr'].
  split; [exact Hi''|]. unfold hrun in *. rewrite Hr'. exact Hr.
Qed.

(** any history: the invariant (no shared storage) holds throughout *)
Lemma run_inv ops : forall st, inv st -> inv (hrun st ops).
Proof.
  induction ops as [|o ops IH]; intros st Hi; cbn; [exact Hi|].
  apply IH. apply step_frame. exact Hi.
Qed.

(** * Copy *)
Lemma copy_slot_spec h s h' s' :
  copy_slot h s = (h', s') ->
  (forall a, In a (slot_addrs s) -> a < length h) ->
  (forall a, a < length h -> nth_error h' a = nth_error h a) /\
  length h <= length h' /\
  (forall a, In a (slot_addrs s') -> length h <= a < length h') /\
  read_slot h' s' = read_slot h s.
Proof.
  unfold copy_slot, alloc.
  destruct s as [v|[a|]|[[a|]|]|[a|]]; intros H Hb; inversion H; subst; cbn [slot_addrs slot_addr read_slot option_map];
    try (split; [auto|split; [lia|split; [intros a0 []|reflexivity]]]).
  all: split; [intros a0 Ha0; apply nth_error_alloc; exact Ha0|].
  all: split; [rewrite app_length; cbn; lia|].
  all: split; [intros a0 [<-|[]]; rewrite app_length; cbn; lia|].
  all: unfold cell_bytes, cell_strs; rewrite nth_error_app2 by lia; rewrite Nat.sub_diag; reflexivity.
Qed.

Lemma copy_fields_spec fs : forall h h' fs',
  copy_fields h fs = (h', fs') ->
  (forall a, In a (flat_map (fun kv : str * slot => slot_addrs (snd kv)) fs) -> a < length h) ->
  (forall a, a < length h -> nth_error h' a = nth_error h a) /\
  length h <= length h' /\
  (forall a, In a (flat_map (fun kv : str * slot => slot_addrs (snd kv)) fs') -> length h <= a < length h') /\
  map (fun kv => (fst kv, read_slot h' (snd kv))) fs' = map (fun kv => (fst kv, read_slot h (snd kv))) fs.
Proof.
  induction fs as [|[k s] fs IH]; intros h h' fs'; cbn.
  - intros H; inversion H; subst. intros _. split; [auto|split; [lia|split; [intros a0 []|reflexivity]]].
  - destruct (copy_slot h s) as [h1 s1] eqn:E1. destruct (copy_fields h1 fs) as [h2 fs2] eqn:E2.
    intros H; inversion H; subst. intros Hb.
    destruct (copy_slot_spec _ _ _ _ E1) as [A1 [L1 [F1 R1]]].
    { intros a Ha. apply Hb. apply in_or_app. left. exact Ha. }
    destruct (IH _ _ _ E2) as [A2 [L2 [F2 R2]]].
    { intros a Ha. assert (a < length h) by (apply Hb; apply in_or_app; right; exact Ha). lia. }
    split; [intros a Ha; rewrite A2 by lia; apply A1; exact Ha|].
    split; [lia|]. split.
    + cbn. intros a Ha. apply in_app_or in Ha. destruct Ha as [Ha|Ha].
      * apply F1 in Ha. lia.
      * apply F2 in Ha. lia.
    + cbn. f_equal.
      * f_equal. rewrite <- R1. apply read_slot_agree. intros a Ha. apply A2. apply F1 in Ha. lia.
      * rewrite R2. apply map_ext_in. intros [k0 s0] Hin. cbn. f_equal.
        apply read_slot_agree. intros a Ha. apply A1. apply Hb. apply in_or_app. right.
        apply in_flat_map. exists (k0, s0). auto.
Qed.

Lemma hcopy_spec h r h' c :
  hcopy h r = (h', c) -> bounded h r ->
  inv (mkHS h' r c) /\ reads h' c = reads h r /\ reads h' r = reads h r.
Proof.
  unfold hcopy. destruct (copy_fields h (h_fields r)) as [h1 fs] eqn:E.
  intros H; inversion H; subst. intros Hb.
  destruct (copy_fields_spec _ _ _ _ E Hb) as [A [L [F R]]].
  split; [|split].
  - constructor; cbn.
    + eapply bounded_length; eassumption.
    + intros a Ha. unfold addrs in Ha. cbn in Ha. apply F in Ha. lia.
    + intros a Ha Hc. unfold addrs in Hc. cbn in Hc. apply F in Hc. specialize (Hb a Ha). lia.
  - unfold reads. cbn. rewrite R. reflexivity.
  - apply reads_agree. intros a Ha. apply A. apply Hb. exact Ha.
Qed.

(** building the source by Sets keeps every address in the heap *)
Lemma hbuild_bounded zero sets id :
  (forall a, In a (flat_map (fun kv : str * slot => slot_addrs (snd kv)) zero) -> False) ->
  bounded (fst (hbuild zero sets id)) (snd (hbuild zero sets id)).
Proof.
  intros Hz. unfold hbuild.
  assert (G : forall sets h r, bounded h r ->
            bounded (fst (fold_left (fun hr kv => hset (fst hr) (snd hr) (fst kv) (snd kv)) sets (h, r)))
                    (snd (fold_left (fun hr kv => hset (fst hr) (snd hr) (fst kv) (snd kv)) sets (h, r)))).
  { induction sets0 as [|[f n] sets0 IH]; intros h r Hb; cbn; [exact Hb|].
    destruct (hset h r f n) as [h' r'] eqn:E. apply IH.
    destruct (hset_spec _ _ _ _ _ _ (mkHRes [] "") E Hb) as [B _]; [intros a []|intros a _ []|exact B]. }
  apply G. intros a Ha. exfalso. exact (Hz a Ha).
Qed.
