(* C19: SoftCollection against a plain ordered list. *)
From Coq Require Import Lia.
From JV Require Import Model.Base Model.GoTime Gen.TypeGo Model.Schema Model.Value
  Model.SoftRes Model.Wrapper Model.Resource Model.C14 Model.SoftColl
  Proofs.C14Facts Proofs.SoftFacts.
Open Scope list_scope.

Definition ids_of_coll (c : scoll) : list str := map fst (sc_items c).

(** * Len / At *)
Lemma sc_len_spec c : sc_len c = Z.of_nat (length (ids_of_coll c)).
Proof. unfold sc_len, ids_of_coll. rewrite map_length. reflexivity. Qed.

Lemma sc_at_out_of_range c i : (i < 0 \/ sc_len c <= i)%Z -> sc_at c i = None.
Proof.
  intros H. unfold sc_at.
  destruct (Z.leb_spec 0 i); destruct (Z.ltb_spec i (sc_len c)); cbn; try reflexivity. lia.
Qed.

Lemma sc_at_in_range c i :
  (0 <= i < sc_len c)%Z ->
  exists it, nth_error (sc_items c) (Z.to_nat i) = Some it /\ sc_at c i = Some (item_soft c it).
Proof.
  intros [H1 H2]. unfold sc_at.
  destruct (Z.leb_spec 0 i); [|lia]. destruct (Z.ltb_spec i (sc_len c)); [|lia]. cbn.
  destruct (nth_error (sc_items c) (Z.to_nat i)) as [it|] eqn:E.
  - exists it. auto.
  - exfalso. apply nth_error_None in E. unfold sc_len in *. lia.
Qed.

(** * Remove deletes the first element with that ID and nothing else *)
Lemma remove_first_id_absent id l :
  (forall it, In it l -> fst it <> id) -> remove_first_id id l = l.
Proof.
  induction l as [|it l IH]; cbn; intros H; [reflexivity|].
  destruct (String.eqb_spec (fst it) id) as [E|N].
  - exfalso. exact (H it (or_introl eq_refl) E).
  - f_equal. apply IH. intros it' Hin. apply H. right; exact Hin.
Qed.

Lemma remove_first_id_first id l1 it l2 :
  (forall x, In x l1 -> fst x <> id) -> fst it = id ->
  remove_first_id id (l1 ++ it :: l2) = l1 ++ l2.
Proof.
  intros H Hid. induction l1 as [|x l1 IH]; cbn.
  - rewrite Hid, String.eqb_refl. reflexivity.
  - destruct (String.eqb_spec (fst x) id) as [E|N].
    + exfalso. exact (H x (or_introl eq_refl) E).
    + f_equal. apply IH. intros y Hy. apply H. right; exact Hy.
Qed.

Lemma sc_remove_type c id : sc_type (sc_remove c id) = sc_type c.
Proof. reflexivity. Qed.

(** * Add appends one element; the elements already stored are untouched *)
Lemma sc_add_appends c src c' :
  sc_add c src = Ok c' -> exists it, sc_items c' = sc_items c ++ [it].
Proof.
  unfold sc_add. destruct (res_get src "id") as [[| id | | | | | |]| |]; cbn; try discriminate.
  destruct (add_attrs src _ (res_attrs src)) as [s1| |]; cbn; try discriminate.
  destruct (add_rels src s1 (res_rels src)) as [s2| |]; cbn; try discriminate.
  intros H; injection H as <-. eexists. reflexivity.
Qed.

Lemma soft_set_id_other s k v : k <> "id" -> s_id (soft_set s k v) = s_id s.
Proof.
  intros Hk. unfold soft_set. apply String.eqb_neq in Hk. rewrite Hk.
  destruct (lookup k (tattrs (s_type (soft_check s)))) as [a0|].
  - destruct (kind_of_value v) as [kk n]. destruct (_ && _); [reflexivity|].
    destruct v; try reflexivity. destruct (anull a0); reflexivity.
  - destruct (lookup k (trels (s_type (soft_check s)))) as [r0|]; [|reflexivity].
    destruct v; try reflexivity; destruct (to_one r0); reflexivity.
Qed.

Lemma soft_add_attr_id s a : s_id (soft_add_attr s a) = s_id s.
Proof. unfold soft_add_attr. destruct (mem_str _ _); reflexivity. Qed.

Lemma soft_add_rel_id s r : s_id (soft_add_rel s r) = s_id s.
Proof. unfold soft_add_rel. destruct (mem_str _ _); reflexivity. Qed.

Lemma add_attrs_id src attrs : Forall (fun kv => aname (snd kv) <> "id") attrs ->
  forall s s', add_attrs src s attrs = Ok s' -> s_id s' = s_id s.
Proof.
  induction 1 as [|[k a] attrs Hn _ IH]; intros s s'; cbn.
  - intros H; injection H as <-. reflexivity.
  - destruct (res_get src (aname a)) as [v| |]; cbn; try discriminate.
    intros H. rewrite (IH _ _ H). rewrite soft_set_id_other by exact Hn. apply soft_add_attr_id.
Qed.

Lemma add_rels_id src rels : Forall (fun kv => from_name (snd kv) <> "id") rels ->
  forall s s', add_rels src s rels = Ok s' -> s_id s' = s_id s.
Proof.
  induction 1 as [|[k x] rels Hn _ IH]; intros s s'; cbn.
  - intros H; injection H as <-. reflexivity.
  - destruct (res_get src (from_name x)) as [v| |]; cbn; try discriminate.
    destruct v; try destruct (to_one x);
      (intros H; rewrite (IH _ _ H); rewrite ?soft_set_id_other by exact Hn; apply soft_add_rel_id).
Qed.

(** the appended element carries the resource's ID *)
Lemma sc_add_id c src c' id :
  res_get src "id" = Ok (VStr id) ->
  Forall (fun kv => aname (snd kv) <> "id") (res_attrs src) ->
  Forall (fun kv => from_name (snd kv) <> "id") (res_rels src) ->
  sc_add c src = Ok c' -> exists data, sc_items c' = sc_items c ++ [(id, data)].
Proof.
  intros Hid Ha Hr. unfold sc_add. rewrite Hid. cbn.
  destruct (add_attrs src _ (res_attrs src)) as [s1| |] eqn:E1; cbn; try discriminate.
  destruct (add_rels src s1 (res_rels src)) as [s2| |] eqn:E2; cbn; try discriminate.
  intros H; injection H as <-. exists (s_data s2). cbn.
  rewrite (add_rels_id _ _ Hr _ _ E2), (add_attrs_id _ _ Ha _ _ E1). reflexivity.
Qed.

(** type edits and SetType never touch the stored elements *)
Lemma sc_type_edits_keep_items c a r t :
  sc_items (snd (sc_add_attr c a)) = sc_items c /\
  sc_items (snd (sc_add_rel c r)) = sc_items c /\
  sc_items (sc_set_type c t) = sc_items c.
Proof.
  unfold sc_add_attr, sc_add_rel, sc_set_type.
  destruct (type_add_attr (sc_type c) a), (type_add_rel (sc_type c) r). auto.
Qed.

(** a field that a stored element has no value for reads as the zero value
    of the collection's current definition (fields added after it was stored) *)
Lemma stored_missing_field_zero c it f :
  wf_res_type (sc_type c) -> is_field (sc_type c) f -> lookup f (snd it) = None ->
  soft_get (item_soft c it) f = field_zero (sc_type c) f.
Proof.
  intros Hw Hf Hl. rewrite soft_get_field by assumption. cbn. rewrite Hl. reflexivity.
Qed.

(** every stored element exposes exactly the collection's current type *)
Lemma stored_type c it : s_type (item_soft c it) = sc_type c.
Proof. reflexivity. Qed.
