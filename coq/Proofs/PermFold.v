(* Folding a fallible step over a list: when steps with different keys
   commute up to an equivalence that every step respects, the result does not
   depend on the order of a list with distinct keys.  (Go's map iteration.) *)
From Coq Require Import Permutation.
From JV Require Import Model.Base.

Section PermFold.
  Context {S E : Type}.
  Variable step : S -> E -> res S.
  Variable eqv : S -> S -> Prop.
  Variable key : E -> str.

  Definition req (r1 r2 : res S) : Prop :=
    match r1, r2 with
    | Ok a, Ok b => eqv a b
    | Err, Err => True
    | Panic, Panic => True
    | _, _ => False
    end.

  Definition foldr (r : res S) (l : list E) : res S :=
    fold_left (fun r e => bind r (fun s => step s e)) l r.

  Hypothesis eqv_refl : forall a, eqv a a.
  Hypothesis eqv_trans : forall a b c, eqv a b -> eqv b c -> eqv a c.
  Hypothesis step_respects : forall a b e, eqv a b -> req (step a e) (step b e).
  Hypothesis step_commute : forall a e1 e2, key e1 <> key e2 ->
    req (bind (step a e1) (fun s => step s e2)) (bind (step a e2) (fun s => step s e1)).

  Lemma req_refl r : req r r.
  Proof. destruct r; cbn; auto. Qed.

  Lemma req_trans r1 r2 r3 : req r1 r2 -> req r2 r3 -> req r1 r3.
  Proof. destruct r1, r2, r3; cbn; try tauto. apply eqv_trans. Qed.

  Lemma foldr_err l : foldr Err l = Err.
  Proof. induction l as [|e l IH]; [reflexivity|exact IH]. Qed.

  Lemma foldr_panic l : foldr Panic l = Panic.
  Proof. induction l as [|e l IH]; [reflexivity|exact IH]. Qed.

  Lemma foldr_cons r e l : foldr r (e :: l) = foldr (bind r (fun s => step s e)) l.
  Proof. reflexivity. Qed.

  Lemma foldr_respects l : forall r1 r2, req r1 r2 -> req (foldr r1 l) (foldr r2 l).
  Proof.
    induction l as [|e l IH]; intros r1 r2 H; [exact H|]. rewrite !foldr_cons. apply IH.
    destruct r1 as [a| |], r2 as [b| |]; cbn in H |- *; try contradiction; auto.
  Qed.

  Theorem foldr_perm l1 l2 :
    Permutation l1 l2 -> NoDup (map key l1) ->
    forall r1 r2, req r1 r2 -> req (foldr r1 l1) (foldr r2 l2).
  Proof.
    induction 1 as [|x l1 l2 Hp IH|x y l|l1 l2 l3 Hp1 IH1 Hp2 IH2]; intros Hn r1 r2 Hr.
    - exact Hr.
    - rewrite !foldr_cons. inversion Hn; subst. apply IH; [assumption|].
      destruct r1 as [a| |], r2 as [b| |]; cbn in Hr |- *; try contradiction; auto.
    - cbn [map] in Hn. inversion Hn as [|? ? Hx Hl]; subst.
      assert (Hk : key x <> key y) by (intros E0; apply Hx; left; exact E0).
      rewrite !foldr_cons. apply foldr_respects.
      destruct r1 as [a| |], r2 as [b| |]; cbn in Hr |- *; try contradiction; auto.
      (* from a: y then x; from b: x then y *)
      apply req_trans with (r2 := bind (step a x) (fun s => step s y)).
      + apply step_commute. intros E0. apply Hk. symmetry. exact E0.
      + pose proof (step_respects a b x Hr) as H1.
        destruct (step a x) as [a'| |], (step b x) as [b'| |]; cbn in H1 |- *; try contradiction; auto.
    - apply req_trans with (r2 := foldr r1 l2).
      + apply IH1; [exact Hn|apply req_refl].
      + apply IH2; [|exact Hr]. eapply Permutation_NoDup; [apply Permutation_map; exact Hp1|exact Hn].
  Qed.
End PermFold.

Section FoldInv.
  Context {S E : Type}.
  Variable step : S -> E -> res S.
  Variable P : S -> Prop.
  Hypothesis step_keeps : forall s e s', P s -> step s e = Ok s' -> P s'.

  Lemma foldr_inv l : forall s s', P s -> foldr step (Ok s) l = Ok s' -> P s'.
  Proof.
    induction l as [|e l IH]; intros s s' Hs H.
    - injection H as <-. exact Hs.
    - rewrite foldr_cons in H. cbn [bind] in H. destruct (step s e) as [s1| |] eqn:E1.
      + exact (IH s1 s' (step_keeps s e s1 Hs E1) H).
      + rewrite foldr_err in H. discriminate.
      + rewrite foldr_panic in H. discriminate.
  Qed.
End FoldInv.
