(* C06: what an accepted resource payload stores (soft resources): every
   attribute present holds the value its JSON denotes, every relationship the
   IDs listed, every absent field its zero value. *)
From Coq Require Import Lia.
From JV Require Import Model.Base Model.GoTime Gen.TypeGo Model.Schema Model.Value
  Model.Json Model.Attr Model.SoftRes Model.Wrapper Model.Resource Model.C14 Model.Unmarshal
  Proofs.MapFacts Proofs.C14Facts Proofs.SoftFacts Proofs.C06Facts Proofs.C13Facts Proofs.C01Full.
Open Scope list_scope.

(** * the decoded skeleton holds each member name once *)
Lemma merge_raw_NoDup' o : forall cur, NoDup (map fst cur) -> NoDup (map fst (merge_raw o cur)).
Proof. intros cur H. rewrite merge_raw_is_map. apply merge_map_NoDup. exact H. Qed.

Lemma merge_rels_NoDup o : forall cur out, NoDup (map fst cur) -> merge_rels o cur = Some out -> NoDup (map fst out).
Proof.
  induction o as [|[k v] o IH]; intros cur out Hn; cbn.
  - intros H; injection H as <-. exact Hn.
  - destruct (dec_relske v) as [rs|]; [|discriminate]. apply IH. apply map_set_NoDup. exact Hn.
Qed.

Lemma dec_resske_members_NoDup m : forall cur k,
  NoDup (map fst (k_attrs cur)) -> NoDup (map fst (k_rels cur)) ->
  dec_resske_members m cur = Some k ->
  NoDup (map fst (k_attrs k)) /\ NoDup (map fst (k_rels k)).
Proof.
  induction m as [|[n v] m IH]; intros cur k Ha Hr; cbn [dec_resske_members].
  - intros H; injection H as <-. auto.
  - destruct (key_is "id" n).
    { destruct (dec_string (k_id cur) v); [|discriminate]. apply IH; assumption. }
    destruct (key_is "type" n).
    { destruct (dec_string (k_type cur) v); [|discriminate]. apply IH; assumption. }
    destruct (key_is "attributes" n).
    { destruct v; try discriminate; apply IH; cbn [k_attrs k_rels]; try assumption; [constructor|].
      apply merge_raw_NoDup'. exact Ha. }
    destruct (key_is "relationships" n).
    { destruct v as [| | | | |o]; try discriminate.
      - apply IH; cbn [k_attrs k_rels]; [assumption|constructor].
      - destruct (merge_rels o (k_rels cur)) as [rs|] eqn:E; [|discriminate].
        apply IH; cbn [k_attrs k_rels]; [assumption|]. apply (merge_rels_NoDup o _ _ Hr E). }
    destruct (key_is "meta" n).
    { destruct (is_obj_or_null v); [|discriminate]. apply IH; assumption. }
    apply IH; assumption.
Qed.

Lemma dec_resske_NoDup j k : dec_resske j = Some k ->
  NoDup (map fst (k_attrs k)) /\ NoDup (map fst (k_rels k)).
Proof.
  unfold dec_resske. destruct j; try discriminate.
  - intros H; injection H as <-. cbn. split; constructor.
  - apply dec_resske_members_NoDup; cbn; constructor.
Qed.

(** * the loops, for any accepted payload *)
Section Loops.
  Variables (e : stdenv) (t : type).
  Hypothesis Hw : wf_res_type t.

  Lemma set_attrs_stores : forall (L : list (str * json)) (r r' : soft),
    s_type r = t -> NoDup (map fst L) ->
    set_attrs e t (RSoft r) L = Ok (RSoft r') ->
    s_type r' = t /\ soft_get r' "id" = soft_get r "id" /\
    (forall k j, In (k, j) L -> exists a v, lookup k (tattrs t) = Some a /\
                   unmarshal_to_type e a j = Ok v /\ soft_get r' k = v) /\
    (forall f, is_field t f -> ~ In f (map fst L) -> soft_get r' f = soft_get r f).
  Proof.
    induction L as [|[k j] L IH]; intros r r' Ht Hn.
    - cbn. intros H; injection H as <-. repeat split; auto. intros k j [].
    - cbn [map fst] in Hn. apply NoDup_cons_iff in Hn. destruct Hn as [Hni Hd].
      cbn [set_attrs]. destruct (lookup k (tattrs t)) as [a|] eqn:El; [|discriminate].
      destruct (unmarshal_to_type e a j) as [v| |] eqn:Eu; cbn [bind res_set]; try discriminate.
      intros H.
      destruct (attr_is_field t Hw k a El) as [Hf [Hnm Hc]].
      pose proof (unmarshal_typed e a j v Hc Eu) as Hk.
      assert (Hok : set_ok (s_type r) (aname a) v).
      { right; left. exists a. rewrite Ht, Hnm. split; [exact El|left; exact Hk]. }
      assert (Hwr : wf_res_type (s_type r)) by (rewrite Ht; exact Hw).
      assert (Hfr : is_field (s_type r) (aname a)) by (rewrite Ht, Hnm; exact Hf).
      assert (Hnid : aname a <> "id") by (rewrite Hnm; apply (field_not_id t Hw k Hf)).
      destruct (IH (soft_set r (aname a) v) r') as [Ht' [Hid [Hin Hout]]].
      + rewrite soft_set_type. exact Ht.
      + exact Hd.
      + exact H.
      + split; [exact Ht'|]. split.
        * rewrite Hid. apply soft_get_set_id_other; assumption.
        * split.
          -- intros k' j' [H'|H'].
             ++ injection H' as <- <-. exists a, v. split; [exact El|]. split; [exact Eu|].
                rewrite (Hout k Hf Hni). rewrite <- Hnm at 1.
                rewrite (soft_get_set_same r (aname a) v Hwr Hfr Hok).
                unfold stored. destruct v; try reflexivity. cbn in Hk. injection Hk as Hk0 _.
                unfold valid_code in Hc. lia.
             ++ apply (Hin k' j' H').
          -- intros f Hff Hnf. rewrite (Hout f Hff) by (intros Hx; apply Hnf; right; exact Hx).
             apply soft_get_set_other; try assumption.
             ++ rewrite Ht. exact Hff.
             ++ rewrite Hnm. intros ->. apply Hnf. left; reflexivity.
  Qed.

  Lemma set_rels_stores : forall (R : list (str * relske)) (r r' : soft),
    s_type r = t -> NoDup (map fst R) ->
    set_rels t (RSoft r) R = Ok (RSoft r') ->
    s_type r' = t /\ soft_get r' "id" = soft_get r "id" /\
    (forall k rs dj, In (k, rs) R -> rs_data rs = Some dj ->
       exists x, lookup k (trels t) = Some x /\
         (if to_one x then exists i, dec_identifier dj = Some i /\ soft_get r' k = VStr (i_id i)
          else exists l, dec_identifiers dj = Some l /\ soft_get r' k = VStrs false (ids_of l))) /\
    (forall f, is_field t f ->
       (forall rs, In (f, rs) R -> rs_data rs = None) -> soft_get r' f = soft_get r f).
  Proof.
    induction R as [|[k rs] R IH]; intros r r' Ht Hn.
    - cbn. intros H; injection H as <-. repeat split; auto. intros k rs dj [].
    - cbn [map fst] in Hn. apply NoDup_cons_iff in Hn. destruct Hn as [Hni Hd].
      cbn [set_rels]. destruct (lookup k (trels t)) as [x|] eqn:El; [|discriminate].
      destruct (rel_is_field t Hw k x El) as [Hf Hnm].
      assert (Hwr : wf_res_type (s_type r)) by (rewrite Ht; exact Hw).
      destruct (rs_data rs) as [dj|] eqn:Ed.
      2:{ intros H. destruct (IH r r' Ht Hd H) as [Ht' [Hid [Hin Hout]]].
          split; [exact Ht'|]. split; [exact Hid|]. split.
          - intros k' rs' dj' [H'|H'] Hdj; [injection H' as <- <-; congruence|apply (Hin k' rs' dj' H' Hdj)].
          - intros f Hff Hnone. apply Hout; [exact Hff|]. intros rs' Hin'. apply Hnone. right; exact Hin'. }
      (* the value that is Set *)
      assert (Hstep : forall v, set_ok (s_type r) (from_name x) v -> v <> VNil ->
                set_rels t (RSoft (soft_set r (from_name x) v)) R = Ok (RSoft r') ->
                s_type r' = t /\ soft_get r' "id" = soft_get r "id" /\
                soft_get r' k = v /\
                (forall k' rs' dj', In (k', rs') R -> rs_data rs' = Some dj' ->
                   exists x', lookup k' (trels t) = Some x' /\
                     (if to_one x' then exists i, dec_identifier dj' = Some i /\ soft_get r' k' = VStr (i_id i)
                      else exists l, dec_identifiers dj' = Some l /\ soft_get r' k' = VStrs false (ids_of l))) /\
                (forall f, is_field t f -> f <> k ->
                   (forall rs', In (f, rs') R -> rs_data rs' = None) -> soft_get r' f = soft_get r f)).
      { intros v Hok Hnn H.
        assert (Hfr : is_field (s_type r) (from_name x)) by (rewrite Ht, Hnm; exact Hf).
        assert (Hnid : from_name x <> "id") by (rewrite Hnm; apply (field_not_id t Hw k Hf)).
        destruct (IH (soft_set r (from_name x) v) r') as [Ht' [Hid [Hin Hout]]];
          [rewrite soft_set_type; exact Ht|exact Hd|exact H|].
        split; [exact Ht'|]. split; [rewrite Hid; apply soft_get_set_id_other; assumption|]. split.
        - rewrite (Hout k Hf).
          + rewrite <- Hnm at 1. rewrite (soft_get_set_same r (from_name x) v Hwr Hfr Hok).
            unfold stored. destruct v; try reflexivity. congruence.
          + intros rs' Hin'. exfalso. apply Hni. apply in_map_iff. exists (k, rs'). auto.
        - split; [exact Hin|].
          intros f Hff Hfk Hnone. rewrite (Hout f Hff Hnone).
          apply soft_get_set_other; try assumption; [rewrite Ht; exact Hff|rewrite Hnm; exact Hfk]. }
      destruct (to_one x) eqn:Eo.
      + destruct (dec_identifier dj) as [i|] eqn:Ei; [|discriminate]. cbn [bind res_set]. intros H.
        destruct (Hstep (VStr (i_id i))) as [Ht' [Hid [Hk [Hin Hout]]]]; [|discriminate|exact H|].
        { right; right. exists x. rewrite Ht, Hnm. split; [exact El|left; split; [exact Eo|eauto]]. }
        split; [exact Ht'|]. split; [exact Hid|]. split.
        * intros k' rs' dj' [H'|H'] Hdj.
          -- injection H' as <- <-. assert (dj' = dj) by congruence. subst dj'.
             exists x. split; [exact El|]. rewrite Eo. exists i. auto.
          -- apply (Hin k' rs' dj' H' Hdj).
        * intros f Hff Hnone. apply Hout; [exact Hff| |intros rs' Hin'; apply Hnone; right; exact Hin'].
          intros ->. specialize (Hnone rs (or_introl eq_refl)). congruence.
      + destruct (dec_identifiers dj) as [l|] eqn:Ei; [|discriminate]. cbn [bind res_set]. intros H.
        destruct (Hstep (VStrs false (ids_of l))) as [Ht' [Hid [Hk [Hin Hout]]]]; [|discriminate|exact H|].
        { right; right. exists x. rewrite Ht, Hnm. split; [exact El|right; split; [exact Eo|eauto]]. }
        split; [exact Ht'|]. split; [exact Hid|]. split.
        * intros k' rs' dj' [H'|H'] Hdj.
          -- injection H' as <- <-. assert (dj' = dj) by congruence. subst dj'.
             exists x. split; [exact El|]. rewrite Eo. exists l. auto.
          -- apply (Hin k' rs' dj' H' Hdj).
        * intros f Hff Hnone. apply Hout; [exact Hff| |intros rs' Hin'; apply Hnone; right; exact Hin'].
          intros ->. specialize (Hnone rs (or_introl eq_refl)). congruence.
  Qed.
End Loops.

Lemma set_rels_keys t : forall (R : list (str * relske)) (r : resource) r',
  set_rels t r R = Ok r' -> forall k rs, In (k, rs) R -> exists x, lookup k (trels t) = Some x.
Proof.
  induction R as [|[k0 rs0] R IH]; intros r r' H k rs Hin; [contradiction|].
  cbn [set_rels] in H. destruct (lookup k0 (trels t)) as [x|] eqn:El; [|discriminate].
  destruct Hin as [E|Hin]; [injection E as <- <-; eauto|].
  destruct (rs_data rs0) as [dj|]; [|apply (IH _ _ H k rs Hin)].
  destruct (to_one x).
  - destruct (dec_identifier dj); [|discriminate]. cbn [bind] in H.
    destruct (res_set r (from_name x) _) as [r1| |]; cbn [bind] in H; try discriminate. apply (IH _ _ H k rs Hin).
  - destruct (dec_identifiers dj); [|discriminate]. cbn [bind] in H.
    destruct (res_set r (from_name x) _) as [r1| |]; cbn [bind] in H; try discriminate. apply (IH _ _ H k rs Hin).
Qed.

(** what an accepted payload stores *)
Theorem accepted_resource_values e s j r :
  sch_wrapped s = [] ->
  (forall k, dec_resske j = Some k -> wf_res_type (get_type (sch_schema s) (k_type k))) ->
  unmarshal_resource e s j = Ok (RSoft r) ->
  exists k, dec_resske j = Some k /\
    let t := get_type (sch_schema s) (k_type k) in
    s_type r = t /\ soft_get r "id" = VStr (k_id k) /\
    (forall n jv, lookup n (k_attrs k) = Some jv ->
       exists a v, lookup n (tattrs t) = Some a /\ unmarshal_to_type e a jv = Ok v /\ soft_get r n = v) /\
    (forall n a, lookup n (tattrs t) = Some a -> lookup n (k_attrs k) = None ->
       soft_get r n = zero_value (acode a) (anull a)) /\
    (forall n rs dj, lookup n (k_rels k) = Some rs -> rs_data rs = Some dj ->
       exists x, lookup n (trels t) = Some x /\
         (if to_one x then exists i, dec_identifier dj = Some i /\ soft_get r n = VStr (i_id i)
          else exists l, dec_identifiers dj = Some l /\ soft_get r n = VStrs false (ids_of l))) /\
    (forall n x, lookup n (trels t) = Some x ->
       (forall rs, lookup n (k_rels k) = Some rs -> rs_data rs = None) ->
       soft_get r n = if to_one x then VStr "" else VStrs false []).
Proof.
  intros Hsoft Hwf. unfold unmarshal_resource.
  destruct (dec_resske j) as [k|] eqn:Ek; [|discriminate].
  specialize (Hwf k eq_refl). set (t := get_type (sch_schema s) (k_type k)) in *.
  destruct (String.eqb (tname t) ""); [discriminate|].
  unfold type_new. rewrite Hsoft. cbn [lookup bind res_set].
  set (r1 := soft_set (soft_new t) "id" (VStr (k_id k))).
  destruct (set_attrs e t (RSoft r1) (k_attrs k)) as [r2| |] eqn:E2; cbn [bind]; try discriminate.
  destruct (set_attrs_soft _ _ _ _ _ E2) as [s2 ->]. intros E3.
  destruct (dec_resske_NoDup j k Ek) as [Hna Hnr].
  assert (Ht1 : s_type r1 = t) by reflexivity.
  destruct (set_attrs_stores e t Hwf (k_attrs k) r1 s2 Ht1 Hna E2) as [Ht2 [Hid2 [Hin2 Hout2]]].
  destruct (set_rels_stores t Hwf (k_rels k) s2 r Ht2 Hnr E3) as [Ht3 [Hid3 [Hin3 Hout3]]].
  exists k. split; [reflexivity|]. cbn zeta. split; [exact Ht3|]. split.
  { rewrite Hid3, Hid2. reflexivity. }
  (* a name of the attributes object is not a key of the relationships object *)
  assert (Hattr_not_rel : forall n a, lookup n (tattrs t) = Some a -> forall rs, ~ In (n, rs) (k_rels k)).
  { intros n a Ha rs Hin. destruct (set_rels_keys t (k_rels k) _ _ E3 n rs Hin) as [x Hx].
    destruct Hwf as [_ [Hdisj _]]. apply (Hdisj n).
    - apply in_map_iff. exists (n, a). split; [reflexivity|apply lookup_In; exact Ha].
    - apply in_map_iff. exists (n, x). split; [reflexivity|apply lookup_In; exact Hx]. }
  split; [|split; [|split]].
  - intros n jv Hl. fold t. destruct (Hin2 n jv (lookup_In _ _ _ Hl)) as [a [v [Ha [Hu Hg]]]].
    exists a, v. split; [exact Ha|]. split; [exact Hu|].
    destruct (attr_is_field t Hwf n a Ha) as [Hf _].
    rewrite (Hout3 n Hf); [exact Hg|]. intros rs Hin. exfalso. exact (Hattr_not_rel n a Ha rs Hin).
  - intros n a Ha Hnone. fold t in Ha. destruct (attr_is_field t Hwf n a Ha) as [Hf _].
    rewrite (Hout3 n Hf) by (intros rs Hin; exfalso; exact (Hattr_not_rel n a Ha rs Hin)).
    rewrite (Hout2 n Hf) by (apply lookup_None_notin; exact Hnone).
    destruct (soft_set_id (soft_new t) (k_id k) n) as [_ Hother]. unfold r1. rewrite (Hother Hwf Hf).
    rewrite (soft_new_get t n Hwf Hf). unfold field_zero. rewrite Ha. reflexivity.
  - intros n rs dj Hl Hd. fold t. apply (Hin3 n rs dj (lookup_In _ _ _ Hl) Hd).
  - intros n x Hx Hnone. fold t in Hx. destruct (rel_is_field t Hwf n x Hx) as [Hf _].
    rewrite (Hout3 n Hf).
    + assert (Hna' : ~ In n (map fst (k_attrs k))).
      { intros Hin. apply in_map_iff in Hin. destruct Hin as [[n0 jv] [E Hin]]. cbn in E. subst n0.
        destruct (Hin2 n jv Hin) as [a [_ [Ha _]]].
        destruct Hwf as [_ [Hdisj _]]. apply (Hdisj n).
        - apply in_map_iff. exists (n, a). split; [reflexivity|apply lookup_In; exact Ha].
        - apply in_map_iff. exists (n, x). split; [reflexivity|apply lookup_In; exact Hx]. }
      rewrite (Hout2 n Hf Hna').
      destruct (soft_set_id (soft_new t) (k_id k) n) as [_ Hother]. unfold r1. rewrite (Hother Hwf Hf).
      rewrite (soft_new_get t n Hwf Hf). unfold field_zero.
      assert (Ea : lookup n (tattrs t) = None).
      { apply lookup_None_notin. intros Hin. destruct Hwf as [_ [Hdisj _]]. apply (Hdisj n Hin).
        apply in_map_iff. exists (n, x). split; [reflexivity|apply lookup_In; exact Hx]. }
      rewrite Ea, Hx. reflexivity.
    + intros rs Hin. apply Hnone. apply In_lookup; [exact Hnr|exact Hin].
Qed.
