(* C01: the slot hypotheses of the struct-backed round trip follow from Wrap
   accepting the struct and the struct's values being of its field types. *)
From Coq Require Import Lia.
From JV Require Import Model.Base Model.GoTime Gen.TypeGo Model.Schema Model.Value
  Model.Wrapper Model.Resource
  Proofs.MapFacts Proofs.SoftFacts Proofs.WrapperFacts Proofs.C17Facts Proofs.C20Facts Proofs.C20Safe
  Proofs.C20Rels Proofs.C01Facts Proofs.C01Wrapped.
Open Scope list_scope.

Lemma get_attr_type_go k n : (1 <= k <= 14)%Z -> get_attr_type (go_type_string (GTAttr k n)) = (k, n).
Proof.
  intros H.
  assert (Hk : (k = 1 \/ k = 2 \/ k = 3 \/ k = 4 \/ k = 5 \/ k = 6 \/ k = 7 \/ k = 8 \/ k = 9 \/ k = 10 \/
                k = 11 \/ k = 12 \/ k = 13 \/ k = 14)%Z) by lia.
  destruct n; repeat (destruct Hk as [->|Hk]; [vm_compute; reflexivity|]); subst; vm_compute; reflexivity.
Qed.

(** the slot a json name designates, under unique json names *)
Lemma get_slot_of_field (d : structdesc) : forall vals f,
  NoDup (map sf_json d) -> length vals = length d -> In f d ->
  exists v0, get_slot (by_json (sf_json f)) d vals = Some (f, v0) /\ In (f, v0) (combine d vals).
Proof.
  induction d as [|g d IH]; intros vals f Hn Hl Hin; [contradiction|].
  destruct vals as [|v vals]; [discriminate|]. cbn [map] in Hn. apply NoDup_cons_iff in Hn. destruct Hn as [Hg Hn].
  cbn [get_slot combine]. unfold by_json at 1.
  destruct Hin as [<-|Hin].
  - rewrite String.eqb_refl. exists v. split; [reflexivity|left; reflexivity].
  - destruct (String.eqb_spec (sf_json f) (sf_json g)) as [E|N].
    + exfalso. apply Hg. rewrite <- E. apply in_map. exact Hin.
    + destruct (IH vals f Hn) as [v0 [H1 H2]]; [cbn in Hl; lia|exact Hin|].
      exists v0. split; [exact H1|right; exact H2].
Qed.

Section FromWrap.
  Variables (e : stdenv) (d : structdesc) (vals : list value) (w : wrapper).
  Hypothesis Hwrap : wrap d vals = Ok w.
  Hypothesis Hgood : good_desc d.
  Hypothesis Hlen : length vals = length d.

  Lemma wrap_fields : w_desc w = d /\ w_vals w = vals /\ w_typ w = struct_type_name d /\
                      w_attrs w = build_attrs d /\ build_rels (struct_type_name d) d = Some (w_rels w) /\
                      check_struct d = true.
  Proof.
    unfold wrap in Hwrap. destruct (check_struct d) eqn:Ec; cbn [negb] in Hwrap; [|discriminate].
    destruct (build_rels (struct_type_name d) d) as [rels|] eqn:Er; [|discriminate].
    injection Hwrap as <-. cbn. repeat split; reflexivity.
  Qed.

  Lemma wrap_state_ok : wstate_ok w.
  Proof. destruct wrap_fields as [H1 [H2 _]]. split; rewrite H1, ?H2; assumption. Qed.

  (** attribute slots have the declared Go type *)
  Lemma wrap_attr_slot n a : In (n, a) (w_attrs w) ->
    exists f v0, slot_value w n = Some (f, v0) /\ sf_type f = GTAttr (acode a) (anull a) /\
                 In (f, v0) (combine d vals) /\ sf_api f = "attr".
  Proof.
    destruct wrap_fields as [H1 [H2 [_ [H4 [_ Hc]]]]]. rewrite H4. intros Hin.
    destruct (build_attrs_from d n a Hin) as [f [Hf [Hapi [Hj Ha]]]].
    (* Check accepted the field's Go type *)
    assert (Hsup : attr_type_supported (sf_type f) = true).
    { unfold check_struct in Hc. destruct (find_field is_id_field d); [|discriminate].
      apply andb_true_iff in Hc. destruct Hc as [Hc _]. apply andb_true_iff in Hc. destruct Hc as [_ HF2].
      rewrite forallb_forall in HF2. specialize (HF2 f Hf). rewrite Hapi in HF2. exact HF2. }
    destruct (sf_type f) as [k nl| |] eqn:Et; try discriminate. cbn in Hsup.
    apply andb_true_iff in Hsup. destruct Hsup as [Hk1 Hk2]. apply Z.leb_le in Hk1, Hk2.
    rewrite (get_attr_type_go k nl) in Ha by lia. subst a. cbn [acode anull].
    destruct Hgood as [Hnj _].
    destruct (get_slot_of_field d vals f Hnj Hlen Hf) as [v0 [Hs Hcomb]]. rewrite Hj in Hs.
    exists f, v0. unfold slot_value. rewrite H1, H2. auto.
  Qed.

  (** relationship slots: a string for to-one, a string list for to-many *)
  Lemma wrap_rel_slot n x : In (n, x) (w_rels w) ->
    exists f v0, slot_value w n = Some (f, v0) /\ sf_type f = slot_type_of_rel x /\
                 In (f, v0) (combine d vals).
  Proof.
    destruct wrap_fields as [H1 [H2 [_ [_ [H5 Hc]]]]]. intros Hin.
    destruct (build_rels_from _ d _ n x H5 Hin) as [f [Hf [Hr Hj]]].
    pose proof (check_rel_clause d Hc) as Hrc. rewrite forallb_forall in Hrc. specialize (Hrc f Hf).
    unfold rel_of_field in Hr. unfold rel_clause in Hrc.
    destruct (split_comma (sf_api f)) as [|hd [|target tl2]] eqn:Es; try discriminate.
    destruct (String.eqb_spec hd "rel") as [->|N]; [|discriminate]. injection Hr as <-.
    (* the api tag starts with "rel": the clause constrains the Go type *)
    assert (Hpre : String.eqb (sf_api f) "rel" || String.prefix "rel," (sf_api f) = true).
    { clear -Es. (* split_comma gives "rel" as first item of at least two: the tag is "rel,..." *)
      destruct (String.prefix "rel," (sf_api f)) eqn:Ep; [apply Bool.orb_true_r|].
      exfalso. revert Es Ep. unfold split_comma. generalize (sf_api f). intros s.
      assert (H : forall s cur, split_comma_aux s cur = "rel" :: target :: tl2 ->
                  exists rest, (cur ++ s)%string = ("rel," ++ rest)%string).
      { induction s0 as [|c s0 IH]; intros cur; cbn; [discriminate|].
        destruct (Ascii.eqb_spec c ",") as [->|Nc].
        - intros H. injection H as Hcur _. subst cur. exists s0. reflexivity.
        - intros H. destruct (IH _ H) as [rest Hrest]. exists rest.
          rewrite sappend_assoc in Hrest. exact Hrest. }
      intros Es Ep. destruct (H s "" Es) as [rest Hrest]. cbn in Hrest. subst s.
      destruct rest; vm_compute in Ep; discriminate Ep. }
    rewrite Hpre in Hrc. apply andb_true_iff in Hrc. destruct Hrc as [_ Hty].
    destruct Hgood as [Hnj _].
    destruct (get_slot_of_field d vals f Hnj Hlen Hf) as [v0 [Hs Hcomb]]. rewrite Hj in Hs.
    exists f, v0. unfold slot_value. rewrite H1, H2. split; [exact Hs|]. split; [|exact Hcomb].
    unfold slot_type_of_rel. cbn [to_one].
    destruct (sf_type f) as [k nl| |]; try discriminate.
    + destruct k as [|p|p]; try discriminate. destruct p; try discriminate. destruct nl; try discriminate. reflexivity.
    + reflexivity.
  Qed.
End FromWrap.
