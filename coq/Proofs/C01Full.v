(* C01: the resource-level round trip for soft resources, composed from the
   value-level lemmas of C01Facts through the payload skeleton. *)
From Coq Require Import Lia Permutation.
From JV Require Import Model.Base Model.GoTime Gen.TypeGo Model.Schema Model.Value
  Model.Strconv Model.Json Model.Attr Model.SoftRes Model.Wrapper Model.Resource Model.C14
  Model.Marshal Model.Unmarshal
  Proofs.BaseFacts Proofs.MapFacts Proofs.C14Facts Proofs.StrconvFacts Proofs.C06Facts
  Proofs.SoftFacts Proofs.C01Facts.
Open Scope list_scope.

(** * Association lists *)
Lemma merge_raw_lookup (o : list (str * json)) : forall cur k, NoDup (map fst o) ->
  lookup k (merge_raw o cur) = match lookup k o with Some v => Some v | None => lookup k cur end.
Proof.
  induction o as [|[k0 v0] o IH]; intros cur k Hn; cbn; [reflexivity|].
  inversion Hn as [|? ? Hni Hd]; subst. rewrite (IH _ _ Hd).
  destruct (String.eqb_spec k k0) as [->|N].
  - assert (E : lookup k0 o = None) by (apply lookup_None_notin; exact Hni).
    rewrite E. apply lookup_map_set_same.
  - destruct (lookup k o); [reflexivity|]. apply lookup_map_set_other. exact N.
Qed.

Lemma merge_raw_keys (o : list (str * json)) : forall cur k,
  In k (map fst (merge_raw o cur)) <-> In k (map fst o) \/ In k (map fst cur).
Proof.
  induction o as [|[k0 v0] o IH]; intros cur k; cbn; [tauto|].
  rewrite IH, map_set_keys. intuition congruence.
Qed.

Lemma merge_raw_NoDup (o : list (str * json)) : forall cur,
  NoDup (map fst cur) -> NoDup (map fst (merge_raw o cur)).
Proof.
  induction o as [|[k0 v0] o IH]; intros cur Hn; cbn; [exact Hn|].
  apply IH. apply map_set_NoDup. exact Hn.
Qed.

Lemma perm_lookup {A} (m1 m2 : list (str * A)) k :
  Permutation m1 m2 -> NoDup (map fst m1) -> lookup k m1 = lookup k m2.
Proof.
  intros Hp Hn.
  assert (Hn2 : NoDup (map fst m2)) by (eapply Permutation_NoDup; [apply Permutation_map; exact Hp|exact Hn]).
  destruct (lookup k m1) as [v|] eqn:E1.
  - symmetry. apply In_lookup; [exact Hn2|]. eapply Permutation_in; [exact Hp|]. apply lookup_In. exact E1.
  - symmetry. apply lookup_None_notin. apply lookup_None_notin in E1. intros Hin. apply E1.
    eapply Permutation_in; [apply Permutation_sym, Permutation_map; exact Hp|exact Hin].
Qed.

Definition key_lt {A} (a b : str * A) : bool := String.ltb (fst a) (fst b).

Lemma isort_keys_perm {A} (m : list (str * A)) : Permutation (isort key_lt m) m.
Proof. apply isort_perm. Qed.

Lemma isort_NoDup {A} (m : list (str * A)) : NoDup (map fst m) -> NoDup (map fst (isort key_lt m)).
Proof.
  intros H. eapply Permutation_NoDup; [apply Permutation_map, Permutation_sym, isort_keys_perm|exact H].
Qed.

Lemma isort_lookup {A} (m : list (str * A)) k : NoDup (map fst m) -> lookup k (isort key_lt m) = lookup k m.
Proof.
  intros H. apply perm_lookup; [apply isort_keys_perm|apply isort_NoDup; exact H].
Qed.

(** [fold_left] of [map_set] over a list of named things *)
Section FoldSet.
  Context {A B : Type} (nm : A -> str) (g : A -> B).
  Definition fold_set (l : list (str * A)) (acc : list (str * B)) : list (str * B) :=
    fold_left (fun acc kv => map_set (nm (snd kv)) (g (snd kv)) acc) l acc.

  Lemma fold_set_keys l : forall acc k,
    In k (map fst (fold_set l acc)) <-> In k (map (fun kv => nm (snd kv)) l) \/ In k (map fst acc).
  Proof.
    unfold fold_set. induction l as [|[k0 a0] l IH]; intros acc k; cbn; [tauto|].
    rewrite IH, map_set_keys. intuition congruence.
  Qed.

  Lemma fold_set_NoDup l : forall acc, NoDup (map fst acc) -> NoDup (map fst (fold_set l acc)).
  Proof.
    unfold fold_set. induction l as [|[k0 a0] l IH]; intros acc Hn; cbn; [exact Hn|].
    apply IH. apply map_set_NoDup. exact Hn.
  Qed.

  Lemma fold_set_lookup_other l : forall acc k,
    ~ In k (map (fun kv => nm (snd kv)) l) -> lookup k (fold_set l acc) = lookup k acc.
  Proof.
    unfold fold_set. induction l as [|[k0 a0] l IH]; intros acc k Hn; cbn; [reflexivity|].
    rewrite IH by (intros H; apply Hn; right; exact H).
    apply lookup_map_set_other. intros ->. apply Hn. left; reflexivity.
  Qed.

  Lemma fold_set_lookup l : forall acc kv,
    NoDup (map (fun kv => nm (snd kv)) l) -> In kv l ->
    lookup (nm (snd kv)) (fold_set l acc) = Some (g (snd kv)).
  Proof.
    unfold fold_set. induction l as [|[k0 a0] l IH]; intros acc kv Hn Hin; cbn; [contradiction|].
    inversion Hn as [|? ? Hni Hd]; subst. destruct Hin as [<-|Hin].
    - cbn. fold (fold_set l (map_set (nm a0) (g a0) acc)).
      rewrite fold_set_lookup_other by exact Hni. apply lookup_map_set_same.
    - apply IH; assumption.
  Qed.
End FoldSet.

(** * The marshaling side *)
Section Marshal.
  Variable e : stdenv.
  Variable sr : soft.
  Let t := s_type sr.
  Hypothesis Hw : wf_res_type t.

  Definition attr_json (a : attr) : json := json_of_value e (soft_get sr (aname a)).

  Lemma marshal_attrs_all fields : forall attrs acc,
    (forall k a, In (k, a) attrs -> In (aname a) fields) ->
    marshal_attrs e (RSoft sr) fields attrs acc = Ok (fold_set aname attr_json attrs acc).
  Proof.
    unfold fold_set. induction attrs as [|[k a] attrs IH]; intros acc Hin; cbn; [reflexivity|].
    assert (Hm : mem_str (aname a) fields = true) by (apply mem_str_In; apply (Hin k a); left; reflexivity).
    rewrite Hm. cbn. apply IH. intros k' a' H. apply (Hin k' a'). right; exact H.
  Qed.

  (** relationship values of the property's domain: a string for to-one, a
      string list for to-many *)
  Definition rel_value_ok (x : rel) : Prop :=
    if to_one x then exists rid, soft_get sr (from_name x) = VStr rid
    else exists n ids, soft_get sr (from_name x) = VStrs n ids.

  Definition rel_data_json (x : rel) : json :=
    match soft_get sr (from_name x) with
    | VStr rid => if String.eqb rid "" then JNull else identifier_json rid (to_type x)
    | VStrs _ ids => JArr (map (fun i => identifier_json i (to_type x)) (isort String.ltb ids))
    | _ => JNull
    end.

  Definition rel_json (prepath tn id : str) (x : rel) : json :=
    jobj [("links", rel_links prepath tn id (from_name x)); ("data", rel_data_json x)].

  Lemma marshal_rels_all prepath tn id fields want : forall rels acc,
    (forall k x, In (k, x) rels -> In (from_name x) fields /\ In (from_name x) want /\ rel_value_ok x) ->
    marshal_rels (RSoft sr) prepath tn id fields want rels acc =
    Ok (fold_set from_name (rel_json prepath tn id) rels acc).
  Proof.
    unfold fold_set. induction rels as [|[k x] rels IH]; intros acc Hin; cbn; [reflexivity|].
    destruct (Hin k x (or_introl eq_refl)) as [Hf [Hwt Hv]].
    apply mem_str_In in Hf. apply mem_str_In in Hwt. rewrite Hf.
    unfold marshal_rel. rewrite Hwt. cbn [negb].
    unfold rel_value_ok in Hv. unfold rel_json, rel_data_json.
    destruct (to_one x).
    - destruct Hv as [rid Hv]. unfold get_str. cbn. rewrite Hv. cbn.
      apply IH. intros k' x' H. apply (Hin k' x'). right; exact H.
    - destruct Hv as [n [ids Hv]]. unfold get_strs. cbn. rewrite Hv. cbn.
      apply IH. intros k' x' H. apply (Hin k' x'). right; exact H.
  Qed.
End Marshal.

(** * The decoding side *)
Lemma dec_relske_rel_json sr prepath tn id x :
  dec_relske (rel_json sr prepath tn id x) = Some (mkRelSke (Some (rel_data_json sr x))).
Proof. reflexivity. Qed.

Section MergeMap.
  Context {A : Type}.
  Fixpoint merge_map (m : list (str * A)) (cur : list (str * A)) : list (str * A) :=
    match m with
    | [] => cur
    | (k, v) :: rest => merge_map rest (map_set k v cur)
    end.

  Lemma merge_map_lookup m : forall cur k, NoDup (map fst m) ->
    lookup k (merge_map m cur) = match lookup k m with Some v => Some v | None => lookup k cur end.
  Proof.
    induction m as [|[k0 v0] m IH]; intros cur k Hn; cbn; [reflexivity|].
    inversion Hn as [|? ? Hni Hd]; subst. rewrite (IH _ _ Hd).
    destruct (String.eqb_spec k k0) as [->|N].
    - assert (E : lookup k0 m = None) by (apply lookup_None_notin; exact Hni).
      rewrite E. apply lookup_map_set_same.
    - destruct (lookup k m); [reflexivity|]. apply lookup_map_set_other. exact N.
  Qed.

  Lemma merge_map_keys m : forall cur k,
    In k (map fst (merge_map m cur)) <-> In k (map fst m) \/ In k (map fst cur).
  Proof.
    induction m as [|[k0 v0] m IH]; intros cur k; cbn; [tauto|].
    rewrite IH, map_set_keys. intuition congruence.
  Qed.

  Lemma merge_map_NoDup m : forall cur, NoDup (map fst cur) -> NoDup (map fst (merge_map m cur)).
  Proof.
    induction m as [|[k0 v0] m IH]; intros cur Hn; cbn; [exact Hn|].
    apply IH. apply map_set_NoDup. exact Hn.
  Qed.
End MergeMap.

Lemma merge_raw_is_map o : forall cur, merge_raw o cur = merge_map o cur.
Proof. induction o as [|[k v] o IH]; intros cur; cbn; [reflexivity|apply IH]. Qed.

Lemma merge_rels_is_map (f : json -> relske) o : forall cur,
  (forall k v, In (k, v) o -> dec_relske v = Some (f v)) ->
  merge_rels o cur = Some (merge_map (map (fun kv => (fst kv, f (snd kv))) o) cur).
Proof.
  induction o as [|[k v] o IH]; intros cur H; cbn; [reflexivity|].
  rewrite (H k v (or_introl eq_refl)). apply IH. intros k' v' Hin. apply (H k' v'). right; exact Hin.
Qed.

(** a lookup that finds an entry finds a member *)
Lemma In_of_lookup {A} k (m : list (str * A)) v : lookup k m = Some v -> In (k, v) m.
Proof. apply lookup_In. Qed.

Lemma NoDup_keys_In_eq {A} (m : list (str * A)) k v v' :
  NoDup (map fst m) -> In (k, v) m -> In (k, v') m -> v = v'.
Proof.
  intros Hn H1 H2. apply (In_lookup _ _ _ Hn) in H1. apply (In_lookup _ _ _ Hn) in H2. congruence.
Qed.

(** * Set loops of UnmarshalResource on a soft resource *)
Section SetLoops.
  Variable e : stdenv.
  Variable sr : soft.         (* the resource that was marshaled *)
  Variable t : type.
  Hypothesis Hw : wf_res_type t.

  Lemma attr_is_field k a : lookup k (tattrs t) = Some a -> is_field t k /\ aname a = k /\ valid_code (acode a).
  Proof.
    intros El. apply lookup_In in El. destruct Hw as [[[_ Ha] _] _].
    destruct (Ha k a El) as [-> [_ Hc]]. split; [|split; [reflexivity|exact Hc]].
    left. apply in_map_iff. exists (aname a, a). auto.
  Qed.

  Lemma rel_is_field k x : lookup k (trels t) = Some x -> is_field t k /\ from_name x = k.
  Proof.
    intros El. apply lookup_In in El. destruct Hw as [[_ [_ Hr]] _].
    destruct (Hr k x El) as [-> _]. split; [|reflexivity].
    right. apply in_map_iff. exists (from_name x, x). auto.
  Qed.

  Lemma field_not_id k : is_field t k -> k <> "id".
  Proof. destruct Hw as [_ [_ [H1 H2]]]. intros [H|H] ->; contradiction. Qed.

  Lemma set_attrs_spec : forall (L : list (str * json)) (r : soft),
    s_type r = t -> NoDup (map fst L) ->
    (forall k j, In (k, j) L -> exists a, lookup k (tattrs t) = Some a /\ j = attr_json e sr a /\
                                          in_domain e a (soft_get sr k)) ->
    exists r', set_attrs e t (RSoft r) L = Ok (RSoft r') /\ s_type r' = t /\
      soft_get r' "id" = soft_get r "id" /\
      (forall k j, In (k, j) L -> same_value (soft_get sr k) (soft_get r' k)) /\
      (forall f, is_field t f -> ~ In f (map fst L) -> soft_get r' f = soft_get r f).
  Proof.
    induction L as [|[k j] L IH]; intros r Ht Hn HL.
    - exists r. cbn. repeat split; auto. intros k j [].
    - cbn [map fst] in Hn. apply NoDup_cons_iff in Hn. destruct Hn as [Hni Hd].
      destruct (HL k j (or_introl eq_refl)) as [a [El [-> Hdom]]].
      destruct (attr_is_field k a El) as [Hf [Hnm Hc]].
      cbn [set_attrs]. rewrite El.
      unfold attr_json. rewrite Hnm.
      destruct (attr_roundtrip e a (soft_get sr k) Hc Hdom) as [v' [Hu Hs]].
      rewrite Hu. cbn [bind res_set].
      pose proof (unmarshal_typed e a _ v' Hc Hu) as Hk.
      assert (Hok : set_ok (s_type r) k v').
      { right; left. exists a. rewrite (eq_trans Ht eq_refl). split; [exact El|left; exact Hk]. }
      assert (Hwr : wf_res_type (s_type r)) by (rewrite (eq_trans Ht eq_refl); exact Hw).
      assert (Hfr : is_field (s_type r) k) by (rewrite (eq_trans Ht eq_refl); exact Hf).
      destruct (IH (soft_set r k v')) as [r' [Hset [Ht' [Hid [Hin Hout]]]]].
      + rewrite soft_set_type. exact Ht.
      + exact Hd.
      + intros k' j' H'. apply (HL k' j'). right; exact H'.
      + exists r'. split; [exact Hset|]. split; [exact Ht'|]. split.
        * rewrite Hid. apply soft_get_set_id_other; [exact Hwr|apply field_not_id; exact Hf|exact Hok].
        * split.
          -- intros k' j' [H'|H'].
             ++ injection H' as <- <-. rewrite (Hout k Hf Hni).
                rewrite (soft_get_set_same r k v' Hwr Hfr Hok).
                unfold stored. destruct v'; try exact Hs. cbn in Hk. injection Hk as Hk0 _.
                unfold valid_code in Hc. lia.
             ++ apply (Hin k' j' H').
          -- intros f Hff Hnf. rewrite (Hout f Hff) by (intros H; apply Hnf; right; exact H).
             apply soft_get_set_other; try assumption.
             ++ rewrite (eq_trans Ht eq_refl). exact Hff.
             ++ intros ->. apply Hnf. left; reflexivity.
             ++ apply field_not_id; exact Hf.
  Qed.

  Definition rel_back (x : rel) : value :=
    match soft_get sr (from_name x) with
    | VStrs _ ids => VStrs false (isort String.ltb ids)
    | v => v
    end.

  Lemma ids_of_map ids ty : ids_of (map (fun i => mkIdent i ty) ids) = ids.
  Proof. unfold ids_of. rewrite map_map. cbn. apply map_id. Qed.

  Lemma set_rels_spec : forall (R : list (str * relske)) (r : soft),
    s_type r = t -> NoDup (map fst R) ->
    (forall k rs, In (k, rs) R -> exists x, lookup k (trels t) = Some x /\
                                            rs = mkRelSke (Some (rel_data_json sr x)) /\ rel_value_ok sr x) ->
    exists r', set_rels t (RSoft r) R = Ok (RSoft r') /\ s_type r' = t /\
      soft_get r' "id" = soft_get r "id" /\
      (forall k rs x, In (k, rs) R -> lookup k (trels t) = Some x -> soft_get r' k = rel_back x) /\
      (forall f, is_field t f -> ~ In f (map fst R) -> soft_get r' f = soft_get r f).
  Proof.
    induction R as [|[k rs] R IH]; intros r Ht Hn HR.
    - exists r. cbn. repeat split; auto. intros k rs x [].
    - cbn [map fst] in Hn. apply NoDup_cons_iff in Hn. destruct Hn as [Hni Hd].
      destruct (HR k rs (or_introl eq_refl)) as [x [El [-> Hv]]].
      destruct (rel_is_field k x El) as [Hf Hnm].
      assert (Hwr : wf_res_type (s_type r)) by (rewrite (eq_trans Ht eq_refl); exact Hw).
      assert (Hfr : is_field (s_type r) k) by (rewrite (eq_trans Ht eq_refl); exact Hf).
      (* the value that is set, and that it is what rel_back says *)
      assert (Hstep : exists v, set_ok (s_type r) k v /\ v <> VNil /\ v = rel_back x /\
                (forall rest, set_rels t (RSoft r) ((k, mkRelSke (Some (rel_data_json sr x))) :: rest) =
                              set_rels t (RSoft (soft_set r k v)) rest)).
      { unfold rel_value_ok in Hv. unfold rel_back, rel_data_json. rewrite Hnm in *.
        destruct (to_one x) eqn:Eo.
        - destruct Hv as [rid Hv]. rewrite Hv. exists (VStr rid). split; [|split; [discriminate|split; [reflexivity|]]].
          + right; right. exists x. rewrite (eq_trans Ht eq_refl). split; [exact El|]. left. split; [exact Eo|eauto].
          + intros rest. cbn [set_rels]. rewrite El. cbn [rs_data]. rewrite Eo, Hnm.
            destruct (String.eqb_spec rid "") as [->|N]; reflexivity.
        - destruct Hv as [n [ids Hv]]. rewrite Hv. exists (VStrs false (isort String.ltb ids)).
          split; [|split; [discriminate|split; [reflexivity|]]].
          + right; right. exists x. rewrite (eq_trans Ht eq_refl). split; [exact El|]. right. split; [exact Eo|eauto].
          + intros rest. cbn [set_rels]. rewrite El. cbn [rs_data]. rewrite Eo, Hnm.
            rewrite identifiers_roundtrip, ids_of_map. reflexivity. }
      destruct Hstep as [v [Hok [Hnn [Hvb Hstep]]]].
      rewrite Hstep.
      destruct (IH (soft_set r k v)) as [r' [Hset [Ht' [Hid [Hin Hout]]]]].
      + rewrite soft_set_type. exact Ht.
      + exact Hd.
      + intros k' rs' H'. apply (HR k' rs'). right; exact H'.
      + exists r'. split; [exact Hset|]. split; [exact Ht'|]. split.
        * rewrite Hid. apply soft_get_set_id_other; [exact Hwr|apply field_not_id; exact Hf|exact Hok].
        * split.
          -- intros k' rs' x' [H'|H'] El'.
             ++ injection H' as <- _. assert (x' = x) by congruence. subst x'.
                rewrite (Hout k Hf Hni).
                rewrite (soft_get_set_same r k v Hwr Hfr Hok).
                unfold stored. rewrite <- Hvb. destruct v; try reflexivity. congruence.
             ++ apply (Hin k' rs' x' H' El').
          -- intros f Hff Hnf. rewrite (Hout f Hff) by (intros H; apply Hnf; right; exact H).
             apply soft_get_set_other; try assumption.
             ++ rewrite (eq_trans Ht eq_refl). exact Hff.
             ++ intros ->. apply Hnf. left; reflexivity.
             ++ apply field_not_id; exact Hf.
  Qed.
End SetLoops.

(** * The payload skeleton of a marshaled resource *)
Lemma dec_resske_marshaled id tn lnk (A Rl : list (str * json)) Rs :
  merge_rels (isort key_lt Rl) [] = Some Rs ->
  dec_resske (jobj ([("id", jstr id); ("type", jstr tn); ("links", lnk)]
                    ++ (match A with [] => [] | _ => [("attributes", jobj A)] end)
                    ++ (match Rl with [] => [] | _ => [("relationships", jobj Rl)] end)))
  = Some (mkResSke id tn (merge_raw (isort key_lt A) []) Rs).
Proof.
  intros HR. destruct A as [|a A']; destruct Rl as [|r Rl'].
  - cbn in HR. injection HR as <-. reflexivity.
  - cbn [app]. unfold jobj at 1. 
    change (isort _ [("id", jstr id); ("type", jstr tn); ("links", lnk); ("relationships", jobj (r :: Rl'))])
      with [("id", jstr id); ("links", lnk); ("relationships", jobj (r :: Rl')); ("type", jstr tn)].
    unfold dec_resske.
    change (dec_resske_members [("id", jstr id); ("links", lnk); ("relationships", jobj (r :: Rl')); ("type", jstr tn)] (mkResSke "" "" [] []))
      with (match merge_rels (isort key_lt (r :: Rl')) [] with
            | Some rs => dec_resske_members [("type", jstr tn)] (mkResSke id "" [] rs)
            | None => None end).
    rewrite HR. reflexivity.
  - cbn in HR. injection HR as <-. reflexivity.
  - cbn [app]. unfold jobj at 1.
    change (isort _ [("id", jstr id); ("type", jstr tn); ("links", lnk); ("attributes", jobj (a :: A')); ("relationships", jobj (r :: Rl'))])
      with [("attributes", jobj (a :: A')); ("id", jstr id); ("links", lnk); ("relationships", jobj (r :: Rl')); ("type", jstr tn)].
    unfold dec_resske.
    change (dec_resske_members _ (mkResSke "" "" [] []))
      with (match merge_rels (isort key_lt (r :: Rl')) [] with
            | Some rs => dec_resske_members [("type", jstr tn)] (mkResSke id "" (merge_raw (isort key_lt (a :: A')) []) rs)
            | None => None end).
    rewrite HR. reflexivity.
Qed.

Lemma lookup_map_snd {A B} (g : A -> B) k (m : list (str * A)) :
  lookup k (map (fun kv => (fst kv, g (snd kv))) m) = option_map g (lookup k m).
Proof.
  induction m as [|[k0 v0] m IH]; cbn; [reflexivity|].
  destruct (String.eqb k k0); [reflexivity|exact IH].
Qed.

Lemma map_fst_map_snd {A B} (g : A -> B) (m : list (str * A)) :
  map fst (map (fun kv => (fst kv, g (snd kv))) m) = map fst m.
Proof. rewrite map_map. apply map_ext. reflexivity. Qed.

Definition same_rel (a b : value) : Prop :=
  match a, b with
  | VStr x, VStr y => x = y
  | VStrs _ l, VStrs _ l' => Permutation l l'
  | _, _ => False
  end.

Definition relske_of (v : json) : relske :=
  match dec_relske v with Some s => s | None => mkRelSke None end.

Section RoundTrip.
  Variable e : stdenv.
  Variable sc : sch.
  Variable sr : soft.
  Variable prepath : str.
  Variable reldata : list (str * list str).
  Variable want : list str.
  Let t := s_type sr.
  Hypothesis Hw : wf_res_type t.
  Hypothesis Hname : tname t <> "".
  Hypothesis Hget : get_type (sch_schema sc) (tname t) = t.
  Hypothesis Hsoft : lookup (tname t) (sch_wrapped sc) = None.
  Hypothesis Hdom : forall k a, lookup k (tattrs t) = Some a -> in_domain e a (soft_get sr k).
  Hypothesis Hrel : forall k x, lookup k (trels t) = Some x -> rel_value_ok sr x.
  Hypothesis Hwant : lookup (tname t) reldata = Some want.
  Hypothesis Hall : forall k, In k (map fst (trels t)) -> In k want.

  Let id := s_id sr.
  Let A := fold_set aname (attr_json e sr) (tattrs t) [].
  Let Rl := fold_set from_name (rel_json sr prepath (tname t) id) (trels t) [].

  Lemma attr_names : map (fun kv : str * attr => aname (snd kv)) (tattrs t) = map fst (tattrs t).
  Proof.
    destruct Hw as [[[_ Ha] _] _]. apply map_ext_in. intros [k a] Hin. cbn. symmetry. apply (Ha k a Hin).
  Qed.

  Lemma rel_names : map (fun kv : str * rel => from_name (snd kv)) (trels t) = map fst (trels t).
  Proof.
    destruct Hw as [[_ [_ Hr]] _]. apply map_ext_in. intros [k x] Hin. cbn. symmetry. apply (Hr k x Hin).
  Qed.

  Lemma A_NoDup : NoDup (map fst A).
  Proof. apply fold_set_NoDup. constructor. Qed.

  Lemma Rl_NoDup : NoDup (map fst Rl).
  Proof. apply fold_set_NoDup. constructor. Qed.

  Lemma A_lookup k j : lookup k A = Some j ->
    exists a, lookup k (tattrs t) = Some a /\ j = attr_json e sr a.
  Proof.
    intros El. assert (Hk : In k (map fst A)) by (apply in_map_iff; exists (k, j); split; [reflexivity|apply lookup_In; exact El]).
    apply fold_set_keys in Hk. destruct Hk as [Hk|[]].
    apply in_map_iff in Hk. destruct Hk as [[k0 a] [Hn Hin]]. cbn in Hn.
    destruct Hw as [[[Hnd Ha] _] _]. destruct (Ha k0 a Hin) as [-> _].
    exists a. split; [rewrite <- Hn; apply In_lookup; assumption|].
    pose proof (fold_set_lookup aname (attr_json e sr) (tattrs t) [] (aname a, a)) as H.
    cbn [snd] in H. rewrite attr_names in H. specialize (H Hnd Hin).
    fold A in H. rewrite Hn in H. congruence.
  Qed.

  Lemma A_complete k a : lookup k (tattrs t) = Some a -> lookup k A = Some (attr_json e sr a).
  Proof.
    intros El. pose proof (lookup_In _ _ _ El) as Hin.
    destruct Hw as [[[Hnd Ha] _] _]. destruct (Ha k a Hin) as [-> _].
    pose proof (fold_set_lookup aname (attr_json e sr) (tattrs t) [] (aname a, a)) as H.
    cbn [snd] in H. rewrite attr_names in H. exact (H Hnd Hin).
  Qed.

  Lemma Rl_lookup k j : lookup k Rl = Some j ->
    exists x, lookup k (trels t) = Some x /\ j = rel_json sr prepath (tname t) id x.
  Proof.
    intros El. assert (Hk : In k (map fst Rl)) by (apply in_map_iff; exists (k, j); split; [reflexivity|apply lookup_In; exact El]).
    apply fold_set_keys in Hk. destruct Hk as [Hk|[]].
    apply in_map_iff in Hk. destruct Hk as [[k0 x] [Hn Hin]]. cbn in Hn.
    destruct Hw as [[_ [Hnd Hr]] _]. destruct (Hr k0 x Hin) as [-> _].
    exists x. split; [rewrite <- Hn; apply In_lookup; assumption|].
    assert (Hnd' : NoDup (map (fun kv : str * rel => from_name (snd kv)) (trels t))) by (rewrite rel_names; exact Hnd).
    pose proof (fold_set_lookup from_name (rel_json sr prepath (tname t) id) (trels t) [] (from_name x, x) Hnd' Hin) as H.
    cbn [snd] in H. fold Rl in H. rewrite Hn in H. congruence.
  Qed.

  Lemma Rl_complete k x : lookup k (trels t) = Some x ->
    lookup k Rl = Some (rel_json sr prepath (tname t) id x).
  Proof.
    intros El. pose proof (lookup_In _ _ _ El) as Hin.
    destruct Hw as [[_ [Hnd Hr]] _]. destruct (Hr k x Hin) as [-> _].
    assert (Hnd' : NoDup (map (fun kv : str * rel => from_name (snd kv)) (trels t))) by (rewrite rel_names; exact Hnd).
    exact (fold_set_lookup from_name (rel_json sr prepath (tname t) id) (trels t) [] (from_name x, x) Hnd' Hin).
  Qed.

  Let L := merge_raw (isort key_lt A) [].
  Let Rs := merge_map (map (fun kv => (fst kv, relske_of (snd kv))) (isort key_lt Rl)) [].

  Lemma L_lookup k : lookup k L = lookup k A.
  Proof.
    unfold L. rewrite merge_raw_is_map, merge_map_lookup by (apply isort_NoDup, A_NoDup).
    rewrite isort_lookup by apply A_NoDup. destruct (lookup k A); reflexivity.
  Qed.

  Lemma L_NoDup : NoDup (map fst L).
  Proof. unfold L. rewrite merge_raw_is_map. apply merge_map_NoDup. constructor. Qed.

  Lemma Rs_lookup k : lookup k Rs = option_map relske_of (lookup k Rl).
  Proof.
    unfold Rs. rewrite merge_map_lookup.
    - rewrite lookup_map_snd, isort_lookup by apply Rl_NoDup. destruct (lookup k Rl); reflexivity.
    - rewrite map_fst_map_snd. apply isort_NoDup, Rl_NoDup.
  Qed.

  Lemma Rs_NoDup : NoDup (map fst Rs).
  Proof. apply merge_map_NoDup. constructor. Qed.

  Lemma merge_rels_Rs : merge_rels (isort key_lt Rl) [] = Some Rs.
  Proof.
    apply merge_rels_is_map. intros k v Hin.
    assert (Hin' : In (k, v) Rl) by (eapply Permutation_in; [apply isort_keys_perm|exact Hin]).
    apply (In_lookup _ _ _ Rl_NoDup) in Hin'. destruct (Rl_lookup k v Hin') as [x [_ ->]].
    unfold relske_of. rewrite dec_relske_rel_json. reflexivity.
  Qed.

  Theorem soft_resource_roundtrip :
    exists j r',
      marshal_resource e (RSoft sr) prepath (soft_fields t) reldata = Ok j /\
      unmarshal_resource e sc j = Ok (RSoft r') /\
      s_type r' = t /\
      soft_get r' "id" = soft_get sr "id" /\
      (forall k a, lookup k (tattrs t) = Some a -> same_value (soft_get sr k) (soft_get r' k)) /\
      (forall k x, lookup k (trels t) = Some x -> same_rel (soft_get sr k) (soft_get r' k)).
  Proof.
    pose proof Hw as [Hwf [Hdisj [Hida Hidr]]].
    (* ---- marshaling *)
    assert (HmA : marshal_attrs e (RSoft sr) (soft_fields t) (res_attrs (RSoft sr)) [] = Ok A).
    { apply marshal_attrs_all. intros k a Hin. unfold soft_fields. apply in_or_app. left.
      apply in_map_iff. exists (k, a). split; [reflexivity|exact Hin]. }
    assert (HmR : marshal_rels (RSoft sr) prepath (tname t) id (soft_fields t) want (res_rels (RSoft sr)) [] = Ok Rl).
    { apply marshal_rels_all. intros k x Hin. change (In (k, x) (trels t)) in Hin.
      destruct Hwf as [_ [Hnd Hr]]. destruct (Hr k x Hin) as [Hk _]. split; [|split].
      - unfold soft_fields. apply in_or_app. right. apply in_map_iff. exists (k, x). split; [reflexivity|exact Hin].
      - rewrite <- Hk. apply Hall. apply in_map_iff. exists (k, x). split; [reflexivity|exact Hin].
      - apply (Hrel k x). apply In_lookup; assumption. }
    eexists. 
    assert (Hm : marshal_resource e (RSoft sr) prepath (soft_fields t) reldata =
                 Ok (jobj ([("id", jstr id); ("type", jstr (tname t));
                            ("links", jobj [("self", jstr (self_link prepath (tname t) id))])]
                           ++ (match A with [] => [] | _ => [("attributes", jobj A)] end)
                           ++ (match Rl with [] => [] | _ => [("relationships", jobj Rl)] end)))).
    { unfold marshal_resource. unfold get_str. cbn [res_get bind]. rewrite soft_get_id.
      cbn [bind]. change (res_type_name (RSoft sr)) with (tname t). rewrite HmA. cbn [bind].
      rewrite Hwant. fold id. rewrite HmR. cbn [bind]. reflexivity. }
    (* ---- decoding the skeleton *)
    assert (Hske : dec_resske (jobj ([("id", jstr id); ("type", jstr (tname t));
                            ("links", jobj [("self", jstr (self_link prepath (tname t) id))])]
                           ++ (match A with [] => [] | _ => [("attributes", jobj A)] end)
                           ++ (match Rl with [] => [] | _ => [("relationships", jobj Rl)] end)))
                   = Some (mkResSke id (tname t) L Rs)).
    { apply dec_resske_marshaled. apply merge_rels_Rs. }
    (* ---- the new resource and its id *)
    set (r1 := soft_set (soft_new t) "id" (VStr id)).
    assert (Ht1 : s_type r1 = t) by reflexivity.
    destruct (set_attrs_spec e sr t Hw L r1 Ht1 L_NoDup) as [r2 [Hs2 [Ht2 [Hid2 [Hin2 Hout2]]]]].
    { intros k j Hin. apply (In_lookup _ _ _ L_NoDup) in Hin. rewrite L_lookup in Hin.
      destruct (A_lookup k j Hin) as [a [El ->]]. exists a. split; [exact El|split; [reflexivity|apply Hdom; exact El]]. }
    destruct (set_rels_spec sr t Hw Rs r2 Ht2 Rs_NoDup) as [r3 [Hs3 [Ht3 [Hid3 [Hin3 Hout3]]]]].
    { intros k rs Hin. apply (In_lookup _ _ _ Rs_NoDup) in Hin. rewrite Rs_lookup in Hin.
      destruct (lookup k Rl) as [j|] eqn:El; [|discriminate]. cbn in Hin. injection Hin as <-.
      destruct (Rl_lookup k j El) as [x [Ex ->]]. exists x. split; [exact Ex|].
      split; [unfold relske_of; rewrite dec_relske_rel_json; reflexivity|apply (Hrel k x Ex)]. }
    exists r3. split; [exact Hm|]. split.
    { unfold unmarshal_resource. rewrite Hske. cbn [k_type k_id k_attrs k_rels].
      rewrite Hget. apply String.eqb_neq in Hname. rewrite Hname.
      unfold type_new. rewrite Hsoft. cbn [bind res_set]. fold r1.
      rewrite Hs2. cbn [bind]. exact Hs3. }
    split; [exact Ht3|]. split.
    { rewrite Hid3, Hid2. unfold r1. rewrite !soft_get_id. reflexivity. }
    split.
    - intros k a El.
      assert (HinL : In (k, attr_json e sr a) L).
      { apply lookup_In. rewrite L_lookup. apply A_complete. exact El. }
      destruct (attr_is_field t Hw k a El) as [Hf _].
      rewrite (Hout3 k Hf).
      + apply (Hin2 k _ HinL).
      + intros Hk. apply in_map_iff in Hk. destruct Hk as [[k' rs] [Hk' Hin']]. cbn in Hk'. subst k'.
        apply (In_lookup _ _ _ Rs_NoDup) in Hin'. rewrite Rs_lookup in Hin'.
        destruct (lookup k Rl) as [j|] eqn:ElR; [|discriminate].
        destruct (Rl_lookup k j ElR) as [x [Ex _]].
        apply (Hdisj k).
        * apply in_map_iff. exists (k, a). split; [reflexivity|apply lookup_In; exact El].
        * apply in_map_iff. exists (k, x). split; [reflexivity|apply lookup_In; exact Ex].
    - intros k x Ex.
      assert (HinR : In (k, relske_of (rel_json sr prepath (tname t) id x)) Rs).
      { apply lookup_In. rewrite Rs_lookup, (Rl_complete k x Ex). reflexivity. }
      rewrite (Hin3 k _ x HinR Ex). unfold rel_back.
      destruct (rel_is_field t Hw k x Ex) as [_ Hnm]. rewrite Hnm.
      pose proof (Hrel k x Ex) as Hv. unfold rel_value_ok in Hv. rewrite Hnm in Hv.
      destruct (to_one x).
      + destruct Hv as [rid ->]. reflexivity.
      + destruct Hv as [n [ids ->]]. cbn. apply Permutation_sym, isort_perm.
  Qed.
End RoundTrip.

(** * Non-vacuity *)
Definition ex_type : type :=
  mkType "t" [("a", mkAttr "a" 1 false); ("n", mkAttr "n" 3 true)]
             [("one", mkRel "t" "one" true "u" "" false); ("many", mkRel "t" "many" false "u" "" false)].
Definition ex_res : soft :=
  mkSoft ex_type "id1" [("a", VStr "<>&"); ("n", VPtr 3 (Some (VInt 3 (-128)))); ("one", VStr "x");
                        ("many", VStrs false ["b"; "a"])].
Definition ex_sch : sch := mkSch (mkSchema [ex_type]) [].

Definition c01_example_premises : Prop :=
  forall e, let t := s_type ex_res in
  wf_res_type t /\ tname t <> "" /\ get_type (sch_schema ex_sch) (tname t) = t /\
  lookup (tname t) (sch_wrapped ex_sch) = None /\
  (forall k a, lookup k (tattrs t) = Some a -> in_domain e a (soft_get ex_res k)) /\
  (forall k x, lookup k (trels t) = Some x -> rel_value_ok ex_res x) /\
  lookup (tname t) [("t", ["one"; "many"])] = Some ["one"; "many"] /\
  (forall k, In k (map fst (trels t)) -> In k ["one"; "many"]).

Lemma c01_example_premises_hold : c01_example_premises.
Proof.
  intros e t. split; [|split; [discriminate|split; [reflexivity|split; [reflexivity|split; [|split; [|split; [reflexivity|]]]]]]].
  - split; [split; split|split; [|split]].
    + repeat constructor; cbn; intuition discriminate.
    + intros k a [H|[H|[]]]; injection H as <- <-; cbn; unfold valid_code; repeat split; try discriminate; lia.
    + repeat constructor; cbn; intuition discriminate.
    + intros k x [H|[H|[]]]; injection H as <- <-; cbn; repeat split; discriminate.
    + cbn. intros n [<-|[<-|[]]]; intuition discriminate.
    + cbn. intuition discriminate.
    + cbn. intuition discriminate.
  - intros k a. cbn [tattrs t s_type ex_res ex_type lookup].
    destruct (String.eqb k "a") eqn:Ea.
    + apply String.eqb_eq in Ea. subst. intros H; injection H as <-. vm_compute. reflexivity.
    + destruct (String.eqb k "n") eqn:En; [|discriminate].
      apply String.eqb_eq in En. subst. intros H; injection H as <-. vm_compute. repeat split.
  - intros k x. cbn [trels t s_type ex_res ex_type lookup].
    destruct (String.eqb k "one") eqn:Eo.
    + intros H; injection H as <-. exists "x". reflexivity.
    + destruct (String.eqb k "many") eqn:Em; [|discriminate].
      intros H; injection H as <-. exists false, ["b"; "a"]. reflexivity.
  - cbn. tauto.
Qed.
