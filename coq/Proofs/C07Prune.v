(* C07: which requested inclusion paths the pruning keeps: every requested
   path that no longer requested path extends. *)
From Coq Require Import Lia Permutation.
From JV Require Import Model.Base Model.GoTime Gen.TypeGo Model.Schema Model.Value
  Model.Url Proofs.BaseFacts Proofs.C07Facts Proofs.C07Include.
Open Scope list_scope.

(** [q] is a longer path through [p] *)
Definition extends (q p : str) : bool := has_prefix (p ++ ".") q.

Lemma remove_at_In {A} (x : A) : forall j l, In x (remove_at j l) -> In x l.
Proof.
  induction j as [|j IH]; intros [|y l] H; cbn [remove_at] in H; try contradiction.
  - right. exact H.
  - destruct H as [<-|H]; [left; reflexivity|right; exact (IH l H)].
Qed.

Lemma remove_at_keeps (x : str) : forall j l,
  In x l -> nth_str l j <> x \/ nth_str l (S j) = x /\ S j < length l -> In x (remove_at j l).
Proof.
  unfold nth_str. induction j as [|j IH]; intros [|y l] Hin Hc; cbn [remove_at]; try contradiction.
  - cbn [nth] in Hc. destruct Hin as [->|Hin]; [|exact Hin].
    destruct Hc as [Hc|[Hc Hl]]; [contradiction|].
    destruct l as [|z l]; [cbn in Hl; lia|]. cbn in Hc. subst z. left. reflexivity.
  - destruct Hin as [->|Hin]; [left; reflexivity|]. right. apply IH; [exact Hin|].
    cbn [nth] in Hc. destruct Hc as [Hc|[Hc Hl]]; [left; exact Hc|right; split; [exact Hc|cbn in Hl; lia]].
Qed.

Lemma remove_at_length {A} : forall j (l : list A), j < length l -> length (remove_at j l) = length l - 1.
Proof.
  induction j as [|j IH]; intros [|y l] H; cbn [remove_at length] in *; try lia.
  rewrite IH by lia. lia.
Qed.

Lemma prune_loop_incl x : forall i l, In x (prune_loop i l) -> In x l.
Proof.
  induction i as [|j IH]; intros l H; cbn [prune_loop] in H; [exact H|].
  apply IH in H. destruct (_ || _) in H; [exact (remove_at_In x j l H)|exact H].
Qed.

Lemma prune_loop_keeps p : forall i l,
  i < length l -> In p l -> (forall q, In q l -> extends q p = false) -> In p (prune_loop i l).
Proof.
  induction i as [|j IH]; intros l Hi Hin Hext; cbn [prune_loop]; [exact Hin|].
  destruct (String.eqb (nth_str l (S j)) (nth_str l j) || has_prefix (nth_str l j ++ ".") (nth_str l (S j))) eqn:E.
  - apply IH.
    + rewrite remove_at_length by lia. lia.
    + apply remove_at_keeps; [exact Hin|].
      destruct (String.eqb_spec (nth_str l j) p) as [Ej|Nj]; [|left; exact Nj]. right.
      apply orb_true_iff in E. destruct E as [E|E].
      * apply String.eqb_eq in E. split; [rewrite E; exact Ej|exact Hi].
      * exfalso. rewrite Ej in E. assert (Hq : In (nth_str l (S j)) l) by (apply nth_str_In; exact Hi).
        specialize (Hext _ Hq). unfold extends in Hext. rewrite E in Hext. discriminate.
    + intros q Hq. apply Hext. exact (remove_at_In q j l Hq).
  - apply IH; [lia|exact Hin|exact Hext].
Qed.

Theorem prune_keeps_unextended p incs :
  In p incs -> (forall q, In q incs -> extends q p = false) ->
  In p (prune_includes (isort String.ltb incs)).
Proof.
  intros Hin Hext. unfold prune_includes.
  assert (Hin' : In p (isort String.ltb incs)) by (eapply Permutation_in; [apply Permutation_sym, isort_perm|exact Hin]).
  apply prune_loop_keeps.
  - destruct (isort String.ltb incs); [contradiction|cbn; lia].
  - exact Hin'.
  - intros q Hq. apply Hext. eapply Permutation_in; [apply isort_perm|exact Hq].
Qed.

Theorem prune_only_requested p incs : In p (prune_includes (isort String.ltb incs)) -> In p incs.
Proof.
  intros H. unfold prune_includes in H. apply prune_loop_incl in H.
  eapply Permutation_in; [apply isort_perm|exact H].
Qed.

(** with every requested path valid: a requested path that no requested path
    extends is among the URL's inclusion paths, as the chain [build_include]
    gives, and nothing that was not requested is *)
Theorem new_params_keeps_valid s su rt prm p :
  has_type s "" = false -> tname (get_type s rt) <> "" ->
  Forall (fun q => words_valid s rt (split_char "." q) = true /\ split_char "." q <> []) (su_include su) ->
  new_params s su rt = Ok prm ->
  In p (su_include su) -> (forall q, In q (su_include su) -> extends q p = false) ->
  In (build_include s rt p) (p_include prm) /\
  (forall c, In c (p_include prm) -> exists q, In q (su_include su) /\ c = build_include s rt q).
Proof.
  intros Hno Hrt Hall Hp Hin Hext.
  assert (Hall0 : Forall (fun q => words_valid s rt (split_char "." q) = true /\ split_char "." q <> [])
                         (prune_includes (isort String.ltb (su_include su)))).
  { apply Forall_forall. intros q Hq. rewrite Forall_forall in Hall. apply Hall. exact (prune_only_requested q _ Hq). }
  destruct (new_params_include_all_valid s su rt prm Hno Hrt Hall0 Hp) as [Einc _]. rewrite Einc. split.
  - apply in_map. apply prune_keeps_unextended; assumption.
  - intros c Hc. apply in_map_iff in Hc. destruct Hc as [q [<- Hq]]. exists q. split; [|reflexivity].
    exact (prune_only_requested q _ Hq).
Qed.
