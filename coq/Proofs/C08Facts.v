(* C08: String() is canonical (it depends on the set of field selections
   only) and its escaping is invertible. *)
From Coq Require Import Lia Permutation Sorted.
From JV Require Import Model.Base Model.GoTime Gen.TypeGo Model.Schema Model.Value
  Model.Strconv Model.Json Model.Url Model.UrlParse Proofs.BaseFacts Proofs.C11Facts.
Open Scope list_scope.

(** * escaping can be undone (what url.Parse / ParseQuery do with it) *)
Definition qesc_char (c : ascii) : string :=
  if is_unreserved c then String c EmptyString
  else if Ascii.eqb c " " then "+" else pct c.

Definition pesc_char (c : ascii) : string :=
  if path_keeps c then String c EmptyString else pct c.

Lemma qesc_char_undo c rest :
  unescape true (qesc_char c ++ rest) = option_map (String c) (unescape true rest).
Proof.
  destruct c as [[] [] [] [] [] [] [] []]; cbn; destruct (unescape true rest); reflexivity.
Qed.

Lemma pesc_char_undo c rest :
  unescape false (pesc_char c ++ rest) = option_map (String c) (unescape false rest).
Proof.
  destruct c as [[] [] [] [] [] [] [] []]; cbn; destruct (unescape false rest); reflexivity.
Qed.

Lemma query_escape_cons c s : query_escape (String c s) = (qesc_char c ++ query_escape s)%string.
Proof. reflexivity. Qed.

Lemma path_escape_cons c s : path_escape (String c s) = (pesc_char c ++ path_escape s)%string.
Proof. reflexivity. Qed.

Lemma query_unescape_escape s : unescape true (query_escape s) = Some s.
Proof.
  induction s as [|c s IH]; [reflexivity|].
  rewrite query_escape_cons, qesc_char_undo, IH. reflexivity.
Qed.

Lemma path_unescape_escape s : unescape false (path_escape s) = Some s.
Proof.
  induction s as [|c s IH]; [reflexivity|].
  rewrite path_escape_cons, pesc_char_undo, IH. reflexivity.
Qed.

(** escaped text contains none of the characters that delimit a URL's parts *)
Definition is_delim (c : ascii) : bool :=
  Ascii.eqb c "&" || Ascii.eqb c "=" || Ascii.eqb c "?" || Ascii.eqb c "#" || Ascii.eqb c "/"
  || Ascii.eqb c ";" || Ascii.eqb c "," || Ascii.eqb c " ".

Fixpoint no_delim (s : string) : bool :=
  match s with
  | EmptyString => true
  | String c rest => negb (is_delim c) && no_delim rest
  end.

Lemma no_delim_app a b : no_delim (a ++ b)%string = no_delim a && no_delim b.
Proof. induction a as [|c a IH]; cbn; [reflexivity|]. rewrite IH, Bool.andb_assoc. reflexivity. Qed.

Lemma qesc_char_no_delim c : no_delim (qesc_char c) = true.
Proof. destruct c as [[] [] [] [] [] [] [] []]; reflexivity. Qed.

Lemma query_escape_no_delim s : no_delim (query_escape s) = true.
Proof.
  induction s as [|c s IH]; [reflexivity|].
  rewrite query_escape_cons, no_delim_app, qesc_char_no_delim, IH. reflexivity.
Qed.

(** * String() is a function of the field selections as a map of sets *)
Definition fields_lt (a b : str * list str) : bool := String.ltb (fst a) (fst b).

Lemma fields_lt_ntrans a b c : fields_lt a b = false -> fields_lt b c = false -> fields_lt a c = false.
Proof.
  unfold fields_lt. intros H1 H2.
  destruct (String.ltb (fst a) (fst c)) eqn:E; [|reflexivity].
  destruct (slt_total (fst a) (fst b)) as [H|[H|H]]; [congruence| |].
  - rewrite H in *. congruence.
  - destruct (slt_total (fst b) (fst c)) as [H'|[H'|H']]; [congruence| |].
    + rewrite <- H' in *. pose proof (slt_trans _ _ _ H E) as C. rewrite slt_irrefl in C. discriminate.
    + pose proof (slt_trans _ _ _ H' H) as C1. pose proof (slt_trans _ _ _ C1 E) as C2.
      rewrite slt_irrefl in C2. discriminate.
Qed.

Lemma fields_sorted l : StronglySorted (fun a b => fields_lt b a = false) (isort fields_lt l).
Proof.
  induction l as [|x l IH]; cbn; [constructor|].
  apply insert_by_sorted_on; [exact fields_lt_ntrans| |exact IH].
  intros a b. unfold fields_lt. apply slt_asym.
Qed.

Lemma fields_sort_perm (l1 l2 : list (str * list str)) :
  NoDup (map fst l1) -> Permutation l1 l2 -> isort fields_lt l1 = isort fields_lt l2.
Proof.
  intros Hn Hp. apply (sorted_unique_on_gen fields_lt l1).
  - intros a b Ha Hb. unfold fields_lt.
    destruct (slt_total (fst a) (fst b)) as [H|[H|H]]; [left; exact H| |right; right; exact H].
    right. left. eapply NoDup_map_inj_on; eassumption.
  - intros x Hx. eapply Permutation_in; [apply isort_perm|exact Hx].
  - intros x Hx. eapply Permutation_in; [symmetry; exact Hp|].
    eapply Permutation_in; [apply isort_perm|exact Hx].
  - apply fields_sorted.
  - apply fields_sorted.
  - rewrite !isort_perm. exact Hp.
Qed.

(** the text of one fields parameter depends on the set of names only up to
    their order *)
Definition field_param (kv : str * list str) : string :=
  chop 3 ("fields%5B" ++ query_escape (fst kv) ++ "%5D="
          ++ fold_right (fun f acc => query_escape f ++ "%2C" ++ acc) "" (isort String.ltb (snd kv)))%string.

Lemma field_param_perm k l1 l2 : Permutation l1 l2 -> field_param (k, l1) = field_param (k, l2).
Proof. intros Hp. unfold field_param. cbn [snd fst]. rewrite (sorted_ids_perm l1 l2 Hp). reflexivity. Qed.

Lemma url_string_fields_order u1 u2 lj :
  u_fragments u1 = u_fragments u2 -> u_iscol u1 = u_iscol u2 ->
  p_filter (u_params u1) = p_filter (u_params u2) ->
  p_rules (u_params u1) = p_rules (u_params u2) ->
  p_page (u_params u1) = p_page (u_params u2) ->
  NoDup (map fst (p_fields (u_params u1))) ->
  Permutation (p_fields (u_params u1)) (p_fields (u_params u2)) ->
  url_string u1 lj = url_string u2 lj.
Proof.
  intros Hf Hc Hfl Hr Hpg Hn Hp. unfold url_string. cbn zeta.
  assert (E : sort_fields (p_fields (u_params u1)) = sort_fields (p_fields (u_params u2)))
    by exact (fields_sort_perm _ _ Hn Hp).
  rewrite Hf, Hc, Hfl, Hr, Hpg, E. reflexivity.
Qed.
