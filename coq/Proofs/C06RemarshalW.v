(* C06, last clause, struct-backed types: re-marshaling the struct that an
   accepted payload fills gives JSON that is accepted again and reads the
   same. *)
From Coq Require Import Lia Permutation.
From JV Require Import Model.Base Model.GoTime Gen.TypeGo Model.Schema Model.Value
  Model.Strconv Model.Json Model.Attr Model.SoftRes Model.Wrapper Model.Resource
  Model.Marshal Model.Unmarshal
  Proofs.BaseFacts Proofs.StrconvFacts Proofs.MapFacts Proofs.SoftFacts Proofs.WrapperFacts Proofs.C14Facts
  Proofs.C17Facts Proofs.C06Facts Proofs.C01Facts Proofs.C01Full Proofs.C01WrapFacts Proofs.C01Wrapped
  Proofs.C05Facts Proofs.C06Resource Proofs.C07Fields Proofs.C05Mixed Proofs.C06Remarshal.
Open Scope list_scope.

(** * Set keeps the struct's type, descriptor and alignment *)
Definition same_shape (w w' : wrapper) : Prop :=
  w_desc w' = w_desc w /\ w_typ w' = w_typ w /\ w_attrs w' = w_attrs w /\ w_rels w' = w_rels w /\
  length (w_vals w') = length (w_vals w).

Lemma same_shape_refl w : same_shape w w.
Proof. unfold same_shape. auto. Qed.

Lemma same_shape_trans a b c : same_shape a b -> same_shape b c -> same_shape a c.
Proof. unfold same_shape. intros [A1 [A2 [A3 [A4 A5]]]] [B1 [B2 [B3 [B4 B5]]]]. repeat split; congruence. Qed.

Lemma set_field_shape w k v w' : wrapper_set_field w k v = Ok w' -> same_shape w w'.
Proof.
  unfold wrapper_set_field. destruct (String.eqb k ""); [discriminate|].
  destruct (get_slot _ _ _) as [[f v0]|]; [|discriminate].
  destruct (negb (sf_exported f)); [discriminate|].
  destruct v; try (intros H; injection H as <-; unfold same_shape; cbn; rewrite set_slot_length; auto);
    (destruct (value_has_type (sf_type f) _); [|discriminate]);
    intros H; injection H as <-; unfold same_shape; cbn; rewrite set_slot_length; auto.
Qed.

Lemma set_id_shape w id w' : wrapper_set_id w id = Ok w' -> same_shape w w'.
Proof.
  unfold wrapper_set_id. destruct (get_slot _ _ _) as [[f v0]|]; [|discriminate].
  destruct (sf_type f) as [k nl| |]; try discriminate.
  destruct k as [|p|p]; try discriminate. destruct p; try discriminate. destruct nl; [discriminate|].
  intros H; injection H as <-. unfold same_shape. cbn. rewrite set_slot_length. auto.
Qed.

Lemma wrapper_set_shape w k v w' : wrapper_set w k v = Ok w' -> same_shape w w'.
Proof.
  unfold wrapper_set. destruct (String.eqb k "id").
  - destruct (wrapper_set_id w _) as [w1| |] eqn:E1; cbn [bind]; try discriminate.
    intros H. exact (same_shape_trans _ _ _ (set_id_shape _ _ _ E1) (set_field_shape _ _ _ _ H)).
  - apply set_field_shape.
Qed.

Lemma set_attrs_shape e t l : forall w r, set_attrs e t (RWrap w) l = Ok r -> exists w', r = RWrap w' /\ same_shape w w'.
Proof.
  induction l as [|[k j] l IH]; intros w r; cbn [set_attrs].
  - intros H; injection H as <-. exists w. split; [reflexivity|apply same_shape_refl].
  - destruct (lookup k (tattrs t)) as [a|]; [|discriminate].
    destruct (unmarshal_to_type e a j) as [v| |]; cbn [bind]; try discriminate.
    cbn [res_set]. destruct (wrapper_set w (aname a) v) as [w1| |] eqn:E1; cbn [bind]; try discriminate.
    intros H. destruct (IH w1 r H) as [w' [-> Hs]]. exists w'. split; [reflexivity|].
    exact (same_shape_trans _ _ _ (wrapper_set_shape _ _ _ _ E1) Hs).
Qed.

Lemma set_rels_shape t l : forall w r, set_rels t (RWrap w) l = Ok r -> exists w', r = RWrap w' /\ same_shape w w'.
Proof.
  induction l as [|[k rs] l IH]; intros w r; cbn [set_rels].
  - intros H; injection H as <-. exists w. split; [reflexivity|apply same_shape_refl].
  - destruct (lookup k (trels t)) as [x|]; [|discriminate].
    destruct (rs_data rs) as [dj|]; [|apply IH].
    destruct (to_one x).
    + destruct (dec_identifier dj) as [i|]; [|discriminate]. cbn [res_set].
      destruct (wrapper_set w (from_name x) _) as [w1| |] eqn:E1; cbn [bind]; try discriminate.
      intros H. destruct (IH w1 r H) as [w' [-> Hs]]. exists w'. split; [reflexivity|].
      exact (same_shape_trans _ _ _ (wrapper_set_shape _ _ _ _ E1) Hs).
    + destruct (dec_identifiers dj) as [l'|]; [|discriminate]. cbn [res_set].
      destruct (wrapper_set w (from_name x) _) as [w1| |] eqn:E1; cbn [bind]; try discriminate.
      intros H. destruct (IH w1 r H) as [w' [-> Hs]]. exists w'. split; [reflexivity|].
      exact (same_shape_trans _ _ _ (wrapper_set_shape _ _ _ _ E1) Hs).
Qed.

(** the struct an accepted payload fills is the zero struct of its type with other values *)
Lemma unmarshal_wrapped_shape e s j r d w0 :
  (forall k, dec_resske j = Some k ->
     lookup (tname (get_type (sch_schema s) (k_type k))) (sch_wrapped s) = Some d) ->
  wrap d (zero_vals d) = Ok w0 ->
  unmarshal_resource e s j = Ok r -> exists w', r = RWrap w' /\ same_shape w0 w'.
Proof.
  intros Hwr Hw0. unfold unmarshal_resource. destruct (dec_resske j) as [k|]; [|discriminate].
  specialize (Hwr k eq_refl). destruct (String.eqb _ ""); [discriminate|].
  unfold type_new. rewrite Hwr. unfold wrap_new. rewrite Hw0. cbn [bind res_set].
  destruct (wrapper_set w0 "id" _) as [w1| |] eqn:E1; cbn [bind]; try discriminate.
  destruct (set_attrs e _ (RWrap w1) _) as [r2| |] eqn:E2; cbn [bind]; try discriminate.
  destruct (set_attrs_shape _ _ _ _ _ E2) as [w2 [-> S2]]. intros E3.
  destruct (set_rels_shape _ _ _ _ E3) as [w3 [-> S3]]. exists w3. split; [reflexivity|].
  exact (same_shape_trans _ _ _ (wrapper_set_shape _ _ _ _ E1) (same_shape_trans _ _ _ S2 S3)).
Qed.

(** * values *)
Lemma zero_slot d : forall f v, In (f, v) (combine d (zero_vals d)) -> v = go_zero (sf_type f).
Proof.
  unfold zero_vals. induction d as [|g d IH]; intros f v H; [contradiction|]. cbn [map combine] in H.
  destruct H as [H|H]; [injection H as <- <-; reflexivity|exact (IH f v H)].
Qed.

Lemma get_slot_combine p d : forall vals f v, get_slot p d vals = Some (f, v) -> In (f, v) (combine d vals).
Proof.
  induction d as [|g d IH]; intros [|v0 vals] f v H; cbn [get_slot combine] in *; try discriminate.
  destruct (p g); [injection H as <- <-; left; reflexivity|right; exact (IH _ _ _ H)].
Qed.

Lemma read_slot_id v : (forall k, v <> VPtr k None) -> read_slot v = v.
Proof. intros H. destruct v as [| | | | | |k [x|]|]; try reflexivity. exfalso. exact (H k eq_refl). Qed.

Lemma read_slot_str v s : read_slot v = VStr s -> v = VStr s.
Proof. destruct v as [| | | | | |k [x|]|]; cbn; intros H; try discriminate; exact H. Qed.

Lemma read_slot_strs v nn l : read_slot v = VStrs nn l -> v = VStrs nn l.
Proof. destruct v as [| | | | | |k [x|]|]; cbn; intros H; try discriminate; exact H. Qed.

Lemma reading_of_decoded e a jv v :
  (1 <= acode a <= 14)%Z -> unmarshal_to_type e a jv = Ok v -> env_ok_value e (read_slot v) ->
  reading_ok e a (read_slot v).
Proof.
  intros Hc Hu He. pose proof (unmarshal_typed e a jv v Hc Hu) as Hk.
  destruct v as [|s|k z|b|t|nn bs|k [x|]|nn l] eqn:Ev;
    try (right; split; [apply (unmarshal_in_domain e a jv _ Hc Hu); exact He|reflexivity]).
  left. split; [reflexivity|]. cbn in Hk. injection Hk as _ Hn. symmetry. exact Hn.
Qed.

Lemma reading_of_zero e a :
  (1 <= acode a <= 14)%Z ->
  env_ok_value e (read_slot (go_zero (GTAttr (acode a) (anull a)))) ->
  reading_ok e a (read_slot (go_zero (GTAttr (acode a) (anull a)))).
Proof.
  intros Hc. cbn [go_zero]. destruct (anull a) eqn:En.
  - intros _. left. split; [reflexivity|exact En].
  - destruct (Z.eqb_spec (acode a) 14) as [E14|N14].
    + cbn [read_slot]. intros He. right. split; [|reflexivity].
      unfold in_domain. rewrite En. cbn [base_in_domain]. split; [exact E14|]. split; [exact He|reflexivity].
    + intros He. right.
      assert (Hz : zero_value (acode a) (anull a) = base_zero (acode a)).
      { unfold zero_value. rewrite En.
        replace ((1 <=? acode a)%Z && (acode a <=? 14)%Z) with true
          by (symmetry; apply andb_true_iff; split; apply Z.leb_le; lia). reflexivity. }
      assert (Hnp : forall k, base_zero (acode a) <> VPtr k None).
      { intros k. unfold base_zero. repeat match goal with |- context [if ?c then _ else _] => destruct c end; discriminate. }
      rewrite (read_slot_id _ Hnp) in *. split; [|exact (read_slot_id _ Hnp)].
      rewrite <- Hz. apply zero_in_domain; [exact Hc|]. rewrite Hz. exact He.
Qed.

Lemma wrap_of_shape d w0 w' :
  wrap d (zero_vals d) = Ok w0 -> same_shape w0 w' -> wrap d (w_vals w') = Ok w'.
Proof.
  intros H0 [S1 [S2 [S3 [S4 _]]]]. destruct (wrap_fields d (zero_vals d) w0 H0) as [F1 [_ [F3 [F4 [F5 F6]]]]].
  unfold wrap. rewrite F6, F5. cbn [negb]. destruct w' as [d' v' t' a' r']. cbn in *. congruence.
Qed.

(** re-marshaling the struct an accepted payload fills *)
Theorem remarshal_accepted_wrapped e s j r d prepath reldata want :
  sch_ok s ->
  (forall k, dec_resske j = Some k ->
     let t := get_type (sch_schema s) (k_type k) in
     lookup (tname t) (sch_wrapped s) = Some d /\ wf_res_type t /\ struct_type_name d = tname t) ->
  unmarshal_resource e s j = Ok r ->
  (forall n v, res_get r n = Ok v -> env_ok_value e v) ->
  (forall k, dec_resske j = Some k ->
     lookup (k_type k) reldata = Some want /\
     forall n, In n (map fst (trels (get_type (sch_schema s) (k_type k)))) -> In n want) ->
  exists w' j' w'', r = RWrap w' /\
    marshal_resource e (RWrap w') prepath
      (soft_fields (mkType (w_typ w') (w_attrs w') (w_rels w'))) reldata = Ok j' /\
    unmarshal_resource e s j' = Ok (RWrap w'') /\
    w_typ w'' = w_typ w' /\ w_attrs w'' = w_attrs w' /\ w_rels w'' = w_rels w' /\
    res_get (RWrap w'') "id" = res_get (RWrap w') "id" /\
    (forall n a, In (n, a) (w_attrs w') ->
       exists rv rv', res_get (RWrap w') n = Ok rv /\ res_get (RWrap w'') n = Ok rv' /\ same_reading rv rv') /\
    (forall n x, In (n, x) (w_rels w') ->
       exists v v', res_get (RWrap w') n = Ok v /\ res_get (RWrap w'') n = Ok v' /\ same_rel v v').
Proof.
  intros Hok Hk Hu Henv Hrd.
  assert (Hdec : exists k, dec_resske j = Some k /\ tname (get_type (sch_schema s) (k_type k)) <> "").
  { unfold unmarshal_resource in Hu. destruct (dec_resske j) as [k|]; [|discriminate]. exists k. split; [reflexivity|].
    destruct (String.eqb_spec (tname (get_type (sch_schema s) (k_type k))) "") as [E|N]; [discriminate|exact N]. }
  destruct Hdec as [k [Hd Hname]]. destruct (Hk k Hd) as [Hwr [Hwf Hstn]]. cbn zeta in Hwr, Hwf, Hstn.
  destruct (Hrd k Hd) as [Hwant Hall].
  set (t := get_type (sch_schema s) (k_type k)) in *.
  assert (Htn : tname t = k_type k) by (apply get_type_name; exact Hname).
  destruct (Hok _ _ Hwr) as [Hgood [Hnotag [w0 [Hwrap [Hta Htr]]]]].
  rewrite Htn in Hta, Htr. fold t in Hta, Htr.
  destruct (wrap_fields d (zero_vals d) w0 Hwrap) as [F1 [F2 [F3 [F4 [F5 F6]]]]].
  destruct (unmarshal_wrapped_shape e s j r d w0 (fun k0 H0 => proj1 (Hk k0 H0)) Hwrap Hu) as [w' [-> Hsh]].
  pose proof Hsh as [S1 [S2 [S3 [S4 S5]]]].
  destruct (accepted_resource_values_wrapped e s j (RWrap w') d Hok (fun k0 H0 => proj1 (Hk k0 H0)) Hu)
    as [k' [w2 [Hd' [Ew [Hidw [Hpresw [Hrpw Habsw]]]]]]]. cbn zeta in Hpresw, Hrpw.
  rewrite Hd in Hd'. injection Hd' as <-. injection Ew as <-. fold t in Hpresw, Hrpw.
  assert (Hlen0 : length (zero_vals d) = length d) by apply map_length.
  assert (Hlen' : length (w_vals w') = length d) by (rewrite S5, F2; exact Hlen0).
  pose proof (wrap_of_shape d w0 w' Hwrap Hsh) as Hwrap'.
  assert (Hst : wstate_ok w') by (split; rewrite S1, F1; [exact Hgood|exact Hlen']).
  assert (Et : mkType (w_typ w') (w_attrs w') (w_rels w') = t).
  { rewrite S2, S3, S4, F3, Hstn, <- Hta, <- Htr. destruct t; reflexivity. }
  assert (Hattr_fact : forall n a, In (n, a) (w_attrs w') ->
            lookup n (tattrs t) = Some a /\ n <> "" /\ n <> "id" /\ (1 <= acode a <= 14)%Z /\
            ~ In n (map fst (trels t))).
  { intros n a Hin. rewrite S3, <- Hta in Hin. destruct Hwf as [[[Hnd Ha] _] [Hdisj [Hida _]]].
    destruct (Ha n a Hin) as [En [Hne Hvc]]. split; [apply In_lookup; assumption|]. split; [rewrite En; exact Hne|].
    split; [|split; [exact Hvc|]].
    - intros E. apply Hida. rewrite <- E. apply in_map_iff. exists (n, a). auto.
    - apply Hdisj. apply in_map_iff. exists (n, a). auto. }
  assert (Hrel_fact : forall n x, In (n, x) (w_rels w') ->
            lookup n (trels t) = Some x /\ n <> "" /\ n <> "id" /\ ~ In n (map fst (tattrs t))).
  { intros n x Hin. rewrite S4, <- Htr in Hin. destruct Hwf as [[_ [Hnd Hr]] [Hdisj [_ Hidr]]].
    destruct (Hr n x Hin) as [En [Hne _]]. split; [apply In_lookup; assumption|]. split; [rewrite En; exact Hne|]. split.
    - intros E. apply Hidr. rewrite <- E. apply in_map_iff. exists (n, x). auto.
    - intros Ha. apply (Hdisj n Ha). apply in_map_iff. exists (n, x). auto. }
  assert (Hget_slot : forall n f v0, n <> "" -> n <> "id" -> slot_value w' n = Some (f, v0) ->
            wrapper_get w' n = Ok (read_slot v0)).
  { intros n f v0 Hne Hnid Hs. unfold wrapper_get. apply String.eqb_neq in Hnid. rewrite Hnid.
    rewrite wrapper_get_field_spec; [rewrite Hs; reflexivity|apply Hst|exact Hne]. }
  assert (Hzero_get : forall n f v0, n <> "" -> n <> "id" -> slot_value w' n = Some (f, v0) ->
            wrapper_get w0 n = Ok (read_slot (go_zero (sf_type f)))).
  { intros n f v0 Hne Hnid Hs. unfold slot_value in Hs. rewrite S1, F1 in Hs.
    destruct (get_slot_field (by_json n) d (w_vals w') (zero_vals d) f v0 (eq_trans Hlen' (eq_sym Hlen0)) Hs) as [z Hz].
    assert (Hs0 : slot_value w0 n = Some (f, z)) by (unfold slot_value; rewrite F1, F2; exact Hz).
    unfold wrapper_get. apply String.eqb_neq in Hnid. rewrite Hnid.
    rewrite wrapper_get_field_spec; [|apply (wrap_state_ok d (zero_vals d) w0 Hwrap Hgood Hlen0)|exact Hne].
    rewrite Hs0. f_equal. f_equal. apply (zero_slot d). exact (get_slot_combine _ _ _ _ _ Hz). }
  (* what the first parse decoded, by name *)
  assert (Hnodata : forall n, In n (map fst (tattrs t)) ->
            forall rs, lookup n (k_rels k) = Some rs -> rs_data rs = None).
  { intros n Ha rs Hl. destruct (rs_data rs) as [dj|] eqn:Ed; [|reflexivity]. exfalso.
    destruct (Hrpw n rs dj Hl Ed) as [x [Hx _]]. destruct Hwf as [_ [Hdisj _]].
    apply (Hdisj n Ha). apply in_map_iff. exists (n, x). split; [reflexivity|apply lookup_In; exact Hx]. }
  exists w'.
  destruct (wrapped_resource_roundtrip e s w' prepath reldata want Hst) as [j' [w'' H]].
  - rewrite Et. exact Hwf.
  - rewrite S2, F3, Hstn. exact Hname.
  - rewrite Et. rewrite S2, F3, Hstn, Htn. reflexivity.
  - rewrite S2, F3, Hstn, S1, F1. exact Hwr.
  - rewrite S1, F1, S2, S3, S4. unfold wrap_new. rewrite Hwrap. destruct w0; cbn in *; subst; reflexivity.
  - (* attribute slots *)
    intros n a Hin. destruct (Hattr_fact n a Hin) as [Hl [Hne [Hnid [Hc Hnr]]]].
    destruct (wrap_attr_slot d (w_vals w') w' Hwrap' Hgood Hlen' n a Hin) as [f [v0 [Hs [Hft _]]]].
    exists f, v0. split; [exact Hs|]. split; [exact Hft|].
    pose proof (Hget_slot n f v0 Hne Hnid Hs) as Hg.
    assert (Henv0 : env_ok_value e (read_slot v0)) by (apply (Henv n); exact Hg).
    destruct (lookup n (k_attrs k)) as [jv|] eqn:Ej.
    + destruct (Hpresw n jv Ej) as [a' [v [Hl' [Hv Hg']]]]. rewrite Hl in Hl'. injection Hl' as <-.
      rewrite Hg in Hg'. injection Hg' as Er. rewrite Er in *. apply (reading_of_decoded e a jv v Hc Hv Henv0).
    + assert (Hz : wrapper_get w' n = wrapper_get w0 n).
      { apply (Habsw w0 Hwrap n Hne Hnid Ej). apply Hnodata. apply in_map_iff. exists (n, a).
        split; [reflexivity|apply lookup_In; exact Hl]. }
      rewrite Hg, (Hzero_get n f v0 Hne Hnid Hs), Hft in Hz. injection Hz as Er. rewrite Er in *.
      apply (reading_of_zero e a Hc Henv0).
  - (* relationship slots *)
    intros n x Hin. destruct (Hrel_fact n x Hin) as [Hl [Hne [Hnid Hna]]].
    destruct (wrap_rel_slot d (w_vals w') w' Hwrap' Hgood Hlen' n x Hin) as [f [v0 [Hs [Hft _]]]].
    exists f, v0. split; [exact Hs|]. split; [exact Hft|].
    pose proof (Hget_slot n f v0 Hne Hnid Hs) as Hg.
    assert (Hnoattr : lookup n (k_attrs k) = None).
    { destruct (lookup n (k_attrs k)) as [jv|] eqn:Ej; [|reflexivity]. exfalso.
      destruct (Hpresw n jv Ej) as [a [v [Ha _]]]. apply Hna. apply in_map_iff. exists (n, a).
      split; [reflexivity|apply lookup_In; exact Ha]. }
    destruct (lookup n (k_rels k)) as [rs|] eqn:Er.
    + destruct (rs_data rs) as [dj|] eqn:Ed.
      * destruct (Hrpw n rs dj Er Ed) as [x' [Hl' Hx]]. rewrite Hl in Hl'. injection Hl' as <-.
        destruct (to_one x).
        -- destruct Hx as [i [_ Hgi]]. rewrite Hg in Hgi. injection Hgi as Hr. exists (i_id i). exact (read_slot_str _ _ Hr).
        -- destruct Hx as [l [_ Hgi]]. rewrite Hg in Hgi. injection Hgi as Hr. exists false, (ids_of l). exact (read_slot_strs _ _ _ Hr).
      * assert (Hz : wrapper_get w' n = wrapper_get w0 n).
        { apply (Habsw w0 Hwrap n Hne Hnid Hnoattr). intros rs' E'. rewrite Er in E'. injection E' as <-. exact Ed. }
        rewrite Hg, (Hzero_get n f v0 Hne Hnid Hs), Hft in Hz. injection Hz as Hr.
        unfold slot_type_of_rel in Hr. destruct (to_one x); cbn in Hr.
        -- exists "". exact (read_slot_str _ _ Hr).
        -- exists true, []. exact (read_slot_strs _ _ _ Hr).
    + assert (Hz : wrapper_get w' n = wrapper_get w0 n).
      { apply (Habsw w0 Hwrap n Hne Hnid Hnoattr). intros rs' E'. rewrite Er in E'. discriminate. }
      rewrite Hg, (Hzero_get n f v0 Hne Hnid Hs), Hft in Hz. injection Hz as Hr.
      unfold slot_type_of_rel in Hr. destruct (to_one x); cbn in Hr.
      * exists "". exact (read_slot_str _ _ Hr).
      * exists true, []. exact (read_slot_strs _ _ _ Hr).
  - rewrite S2, F3, Hstn, Htn. exact Hwant.
  - intros n Hn. apply Hall. rewrite S4, <- Htr in Hn. exact Hn.
  - exists j', w''. split; [reflexivity|]. exact H.
Qed.
