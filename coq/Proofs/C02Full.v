(* C02: the document-level round trip for documents of soft resources,
   composed from the resource-level theorem (C01Full) through the payload
   skeleton. *)
From Coq Require Import Lia Permutation.
From JV Require Import Model.Base Model.GoTime Gen.TypeGo Model.Schema Model.Value
  Model.Strconv Model.Json Model.Attr Model.SoftRes Model.Wrapper Model.Resource Model.C14
  Model.Marshal Model.Unmarshal Model.Document
  Proofs.BaseFacts Proofs.MapFacts Proofs.C14Facts Proofs.SoftFacts Proofs.C01Facts Proofs.C01Full Proofs.C02Facts.
Open Scope list_scope.

(** a marshaled resource is an object that also reads as an identifier *)
Lemma marshaled_resource_shape e r prepath fields reldata j :
  marshal_resource e r prepath fields reldata = Ok j ->
  (exists m, j = JObj m) /\ exists i, dec_identifier j = Some i.
Proof.
  unfold marshal_resource.
  destruct (get_str r "id") as [id| |]; cbn [bind]; try discriminate.
  destruct (marshal_attrs _ _ _ _ _) as [a| |]; cbn [bind]; try discriminate.
  destruct (marshal_rels _ _ _ _ _ _ _ _) as [rl| |]; cbn [bind]; try discriminate.
  intros H; injection H as <-. split; [eexists; reflexivity|].
  destruct a as [|a0 a']; destruct rl as [|r0 rl']; eexists; reflexivity.
Qed.

(** * The hypotheses of the resource-level theorem, bundled *)
Record rt_ok (e : stdenv) (sc : sch) (fields : list (str * list str)) (reldata : list (str * list str))
       (sr : soft) : Prop := {
  ok_wf : wf_res_type (s_type sr);
  ok_name : tname (s_type sr) <> "";
  ok_get : get_type (sch_schema sc) (tname (s_type sr)) = s_type sr;
  ok_soft : lookup (tname (s_type sr)) (sch_wrapped sc) = None;
  ok_dom : forall k a, lookup k (tattrs (s_type sr)) = Some a -> in_domain e a (soft_get sr k);
  ok_rel : forall k x, lookup k (trels (s_type sr)) = Some x -> rel_value_ok sr x;
  ok_fields : fields_for fields (tname (s_type sr)) = soft_fields (s_type sr);
  ok_want : exists want, lookup (tname (s_type sr)) reldata = Some want /\
                         forall k, In k (map fst (trels (s_type sr))) -> In k want
}.

(** what "the same resource" means after the round trip *)
Definition same_soft (sr r' : soft) : Prop :=
  s_type r' = s_type sr /\
  soft_get r' "id" = soft_get sr "id" /\
  (forall k a, lookup k (tattrs (s_type sr)) = Some a -> same_value (soft_get sr k) (soft_get r' k)) /\
  (forall k x, lookup k (trels (s_type sr)) = Some x -> same_rel (soft_get sr k) (soft_get r' k)).

Lemma one_roundtrip e sc fields reldata prepath sr :
  rt_ok e sc fields reldata sr ->
  exists j r', marshal_resource e (RSoft sr) prepath (fields_for fields (res_type_name (RSoft sr))) reldata = Ok j /\
               unmarshal_resource e sc j = Ok (RSoft r') /\ same_soft sr r'.
Proof.
  intros [Hw Hn Hg Hs Hd Hr Hf [want [Hwant Hall]]].
  change (res_type_name (RSoft sr)) with (tname (s_type sr)). rewrite Hf.
  destruct (soft_resource_roundtrip e sc sr prepath reldata want Hw Hn Hg Hs Hd Hr Hwant Hall)
    as [j [r' [H1 [H2 H3]]]].
  exists j, r'. split; [exact H1|]. split; [exact H2|exact H3].
Qed.

Lemma all_roundtrip e sc fields reldata prepath : forall l,
  Forall (rt_ok e sc fields reldata) l ->
  exists js rs, marshal_all e (map RSoft l) prepath fields reldata = Ok js /\
                unmarshal_each e sc js = Ok (map RSoft rs) /\
                all_identifier_shaped js = true /\
                Forall2 same_soft l rs.
Proof.
  induction l as [|sr l IH]; intros Hall.
  - exists [], []. repeat split; constructor.
  - inversion Hall as [|? ? H1 H2]; subst.
    destruct (one_roundtrip e sc fields reldata prepath sr H1) as [j [r' [Hm [Hu Hs]]]].
    destruct (IH H2) as [js [rs [Hms [Hus [Hid Hss]]]]].
    exists (j :: js), (r' :: rs). cbn [map marshal_all unmarshal_each all_identifier_shaped].
    rewrite Hm, Hms, Hu, Hus. cbn [bind].
    destruct (marshaled_resource_shape _ _ _ _ _ _ Hm) as [_ [i Hi]]. rewrite Hi.
    repeat split; try assumption. constructor; assumption.
Qed.

(** * The payload skeleton of a marshaled document without errors *)
Lemma dec_payske_marshaled dj (incs : list json) (meta : list (str * json)) self :
  dec_payske (jobj ((("data", dj) :: (match incs with [] => [] | _ => [("included", JArr incs)] end))
                    ++ (match meta with [] => [] | p :: l => [("meta", jobj (p :: l))] end)
                    ++ [("links", jobj [("self", jstr self)]);
                        ("jsonapi", jobj [("version", jstr "1.0")])]))
  = Some (mkPaySke (Some dj) [] incs (merge_raw (isort key_lt meta) [])).
Proof.
  destruct incs as [|i0 incs']; destruct meta as [|m0 meta']; reflexivity.
Qed.

Lemma isort_map {A B} (f : A -> B) (lt : B -> B -> bool) (l : list A) :
  isort lt (map f l) = map f (isort (fun a b => lt (f a) (f b)) l).
Proof.
  induction l as [|x l IH]; cbn; [reflexivity|]. rewrite IH.
  generalize (isort (fun a b => lt (f a) (f b)) l). intros s.
  induction s as [|y s IHs]; cbn; [reflexivity|].
  destruct (lt (f x) (f y)); cbn; [reflexivity|]. rewrite IHs. reflexivity.
Qed.

Lemma included_roundtrip e sc fields reldata prepath incl :
  Forall (rt_ok e sc fields reldata) incl ->
  exists incl' js rs,
    Permutation incl incl' /\
    sort_included (map RSoft incl) = map RSoft incl' /\
    marshal_all e (sort_included (map RSoft incl)) prepath fields reldata = Ok js /\
    unmarshal_each e sc js = Ok (map RSoft rs) /\
    all_identifier_shaped js = true /\
    Forall2 same_soft incl' rs /\ length js = length incl.
Proof.
  intros Hall. unfold sort_included. rewrite isort_map.
  set (incl' := isort (fun a b => String.leb (rid (RSoft a)) (rid (RSoft b))) incl).
  assert (Hp : Permutation incl incl') by (apply Permutation_sym, isort_perm).
  assert (Hall' : Forall (rt_ok e sc fields reldata) incl') by (eapply Permutation_Forall; eassumption).
  destruct (all_roundtrip e sc fields reldata prepath incl' Hall') as [js [rs [Hm [Hu [Hi Hs]]]]].
  exists incl', js, rs. repeat split; try assumption.
  rewrite (Permutation_length Hp). rewrite (marshal_all_length _ _ _ _ _ _ Hm). apply map_length.
Qed.

(** meta survives as a map: same keys, same values *)
Lemma meta_roundtrip (meta : list (str * json)) k :
  NoDup (map fst meta) -> lookup k (merge_raw (isort key_lt meta) []) = lookup k meta.
Proof.
  intros Hn. rewrite merge_raw_is_map, merge_map_lookup by (apply isort_NoDup; exact Hn).
  rewrite isort_lookup by exact Hn. destruct (lookup k meta); reflexivity.
Qed.

Lemma marshal_document_explicit e d fields self dj js :
  marshal_data e d fields = Ok (Some dj) -> d_errors d = [] ->
  (match d_included d with
   | [] => Ok []
   | _ :: _ => marshal_all e (sort_included (d_included d)) (d_prepath d) fields (d_reldata d)
   end) = Ok js ->
  marshal_document e d fields self =
  Ok (jobj ((("data", dj) :: (match js with [] => [] | _ => [("included", JArr js)] end))
            ++ (match d_meta d with [] => [] | p :: l => [("meta", jobj (p :: l))] end)
            ++ [("links", jobj [("self", jstr self)]);
                ("jsonapi", jobj [("version", jstr "1.0")])])).
Proof.
  intros Hd Herr Hincs. unfold marshal_document. rewrite Hd. cbn [bind]. rewrite Herr.
  destruct (d_included d) as [|i0 il].
  - injection Hincs as <-. reflexivity.
  - rewrite Hincs. reflexivity.
Qed.

Section DocRoundTrip.
  Variables (e : stdenv) (sc : sch) (fields : list (str * list str)) (self : str).
  Variable d : document.
  Variable incl : list soft.
  Hypothesis Hinc : d_included d = map RSoft incl.
  Hypothesis Hincok : Forall (rt_ok e sc fields (d_reldata d)) incl.
  Hypothesis Herr : d_errors d = [].

  (** what comes back besides the primary data *)
  Definition rest_ok (u : udoc) : Prop :=
    u_errors u = [] /\
    (exists incl' rs, Permutation incl incl' /\ sort_included (map RSoft incl) = map RSoft incl' /\
                      u_included u = map RSoft rs /\ Forall2 same_soft incl' rs) /\
    (NoDup (map fst (d_meta d)) -> forall k, lookup k (u_meta u) = lookup k (d_meta d)).

  Lemma doc_roundtrip_gen dj (data' : udata) :
    marshal_data e d fields = Ok (Some dj) ->
    (match dj with
     | JObj m => exists r, unmarshal_resource e sc (JObj m) = Ok r /\ data' = URes r
     | JArr l => exists c, unmarshal_collection e sc (JArr l) = Ok c /\ data' = UCol c
     | JNull => data' = UNil
     | _ => False
     end) ->
    exists j u, marshal_document e d fields self = Ok j /\
                unmarshal_document e sc j = Ok u /\ u_data u = data' /\ rest_ok u.
  Proof.
    intros Hd Hback.
    destruct (included_roundtrip e sc fields (d_reldata d) (d_prepath d) incl Hincok)
      as [incl' [js [rs [Hp [Hsort [Hm [Hu [Hi [Hs Hlen]]]]]]]]].
    assert (Hincs : (match d_included d with
                     | [] => Ok []
                     | _ :: _ => marshal_all e (sort_included (d_included d)) (d_prepath d) fields (d_reldata d)
                     end) = Ok js).
    { rewrite Hinc. destruct incl as [|i0 incl0]; [exact Hm|]. cbn [map]. cbn [map] in Hm. exact Hm. }
    rewrite (marshal_document_explicit e d fields self dj js Hd Herr Hincs).
    eexists. eexists. split; [reflexivity|].
    unfold unmarshal_document. rewrite dec_payske_marshaled. cbn [p_data p_errors p_included p_meta].
    rewrite Hi. cbn [negb]. rewrite Hu. cbn [bind].
    assert (Hfin : forall (x : udata),
      Ok (mkUDoc (fst (x, @nil jerror)) (snd (x, @nil jerror)) (map RSoft rs) (merge_raw (isort key_lt (d_meta d)) [])) =
      Ok (mkUDoc x [] (map RSoft rs) (merge_raw (isort key_lt (d_meta d)) []))) by reflexivity.
    destruct dj as [| | | | l | m]; try contradiction.
    - subst data'. split; [reflexivity|]. split; [reflexivity|]. split; [reflexivity|]. split.
      + exists incl', rs. auto.
      + intros Hn k. apply meta_roundtrip. exact Hn.
    - destruct Hback as [c [Hc ->]]. rewrite Hc. cbn [bind]. split; [reflexivity|]. split; [reflexivity|].
      split; [reflexivity|]. split.
      + exists incl', rs. auto.
      + intros Hn k. apply meta_roundtrip. exact Hn.
    - destruct Hback as [r [Hr ->]]. rewrite Hr. cbn [bind]. split; [reflexivity|]. split; [reflexivity|].
      split; [reflexivity|]. split.
      + exists incl', rs. auto.
      + intros Hn k. apply meta_roundtrip. exact Hn.
  Qed.

  (** a single resource as primary data *)
  Theorem doc_roundtrip_resource sr :
    d_data d = DRes (RSoft sr) -> rt_ok e sc fields (d_reldata d) sr ->
    exists j u r', marshal_document e d fields self = Ok j /\
                   unmarshal_document e sc j = Ok u /\
                   u_data u = URes (RSoft r') /\ same_soft sr r' /\ rest_ok u.
  Proof.
    intros Hdata Hok.
    destruct (one_roundtrip e sc fields (d_reldata d) (d_prepath d) sr Hok) as [dj [r' [Hm [Hu Hs]]]].
    destruct (marshaled_resource_shape _ _ _ _ _ _ Hm) as [[m ->] _].
    destruct (doc_roundtrip_gen (JObj m) (URes (RSoft r'))) as [j [u [H1 [H2 [H3 H4]]]]].
    - unfold marshal_data. rewrite Hdata. rewrite Hm. reflexivity.
    - exists (RSoft r'). auto.
    - exists j, u, r'. auto.
  Qed.

  (** a collection as primary data: same length, same order, each member the same *)
  Theorem doc_roundtrip_collection ct l :
    d_data d = DCol ct (map RSoft l) -> Forall (rt_ok e sc fields (d_reldata d)) l ->
    exists j u rs, marshal_document e d fields self = Ok j /\
                   unmarshal_document e sc j = Ok u /\
                   u_data u = UCol (map RSoft rs) /\ Forall2 same_soft l rs /\ rest_ok u.
  Proof.
    intros Hdata Hok.
    destruct (all_roundtrip e sc fields (d_reldata d) (d_prepath d) l Hok) as [js [rs [Hm [Hu [_ Hs]]]]].
    destruct (doc_roundtrip_gen (JArr js) (UCol (map RSoft rs))) as [j [u [H1 [H2 [H3 H4]]]]].
    - unfold marshal_data. rewrite Hdata. rewrite Hm. reflexivity.
    - exists (map RSoft rs). split; [exact Hu|reflexivity].
    - exists j, u, rs. auto.
  Qed.

  (** no primary data *)
  Theorem doc_roundtrip_nil :
    d_data d = DNil ->
    exists j u, marshal_document e d fields self = Ok j /\
                unmarshal_document e sc j = Ok u /\ u_data u = UNil /\ rest_ok u.
  Proof.
    intros Hdata. apply (doc_roundtrip_gen JNull UNil); [|reflexivity].
    unfold marshal_data. rewrite Hdata, Herr. reflexivity.
  Qed.
End DocRoundTrip.

(** non-vacuity: the example resource of C01 meets the bundled hypotheses *)
Lemma rt_ok_example e :
  rt_ok e ex_sch [("t", soft_fields ex_type)] [("t", ["one"; "many"])] ex_res.
Proof.
  destruct (c01_example_premises_hold e) as [H1 [H2 [H3 [H4 [H5 [H6 [H7 H8]]]]]]].
  split; try assumption.
  - reflexivity.
  - exists ["one"; "many"]. split; [exact H7|exact H8].
Qed.
