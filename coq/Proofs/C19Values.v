(* C19: Add stores the well-typed attribute values of the resource it is
   given. *)
From Coq Require Import Lia.
From JV Require Import Model.Base Model.GoTime Gen.TypeGo Model.Schema Model.Value
  Model.SoftRes Model.Wrapper Model.Resource Model.C14 Model.SoftColl
  Proofs.BaseFacts Proofs.MapFacts Proofs.C14Facts Proofs.SoftFacts.
Open Scope list_scope.

(** * soft_check does not change what is read *)
Lemma soft_get_check s f :
  wf_res_type (s_type s) -> is_field (s_type s) f -> soft_get (soft_check s) f = soft_get s f.
Proof.
  intros Hw Hf.
  rewrite (soft_get_field (soft_check s) f) by (rewrite ?check_type; assumption).
  rewrite (soft_get_field s f) by assumption.
  rewrite check_type, (check_lookup s f Hw Hf). reflexivity.
Qed.

(** * an attribute the type can take *)
Definition attr_fits (ty : type) (a : attr) : Prop :=
  aname a <> "" /\ aname a <> "id" /\ valid_code (acode a) /\
  (lookup (aname a) (tattrs ty) = Some a \/ ~ In (aname a) (soft_fields ty)).

Lemma wf_add_attr ty a :
  wf_res_type ty -> aname a <> "" -> aname a <> "id" -> valid_code (acode a) ->
  ~ In (aname a) (soft_fields ty) ->
  wf_res_type (mkType (tname ty) (map_set (aname a) a (tattrs ty)) (trels ty)).
Proof.
  intros Hw Hne Hid Hvc Hnf. pose proof Hw as [[[Hna Ha] [Hnr Hr]] [Hdisj [Hia Hir]]].
  rewrite (soft_fields_keys ty (proj1 Hw)) in Hnf.
  assert (Hnota : ~ In (aname a) (map fst (tattrs ty))) by (intros H; apply Hnf; apply in_or_app; left; exact H).
  assert (Hnotr : ~ In (aname a) (map fst (trels ty))) by (intros H; apply Hnf; apply in_or_app; right; exact H).
  split; [split; split|split; [|split]]; cbn [tattrs trels].
  - apply map_set_NoDup. exact Hna.
  - intros k b Hin. apply (map_set_In _ _ _ _ _ Hna) in Hin.
    destruct Hin as [[-> ->]|[_ Hin]]; [auto|apply (Ha k b Hin)].
  - exact Hnr.
  - exact Hr.
  - intros n Hn1 Hn2. apply map_set_keys in Hn1. destruct Hn1 as [->|Hn1]; [contradiction|apply (Hdisj n Hn1 Hn2)].
  - intros H. apply map_set_keys in H. destruct H as [H|H]; [congruence|contradiction].
  - exact Hir.
Qed.

(** SoftResource.AddAttr on a resource whose type can take the attribute *)
Lemma soft_add_attr_spec s a :
  wf_res_type (s_type s) -> attr_fits (s_type s) a ->
  wf_res_type (s_type (soft_add_attr s a)) /\
  lookup (aname a) (tattrs (s_type (soft_add_attr s a))) = Some a /\
  s_id (soft_add_attr s a) = s_id s /\
  (forall f, is_field (s_type s) f -> is_field (s_type (soft_add_attr s a)) f /\
                                      soft_get (soft_add_attr s a) f = soft_get s f) /\
  (forall b, lookup (aname b) (tattrs (s_type s)) = Some b ->
             lookup (aname b) (tattrs (s_type (soft_add_attr s a))) = Some b) /\
  (forall n, n <> aname a -> In n (soft_fields (s_type (soft_add_attr s a))) -> In n (soft_fields (s_type s))).
Proof.
  intros Hw [Hne [Hid [Hvc Hfit]]]. unfold soft_add_attr. rewrite check_type.
  destruct (mem_str (aname a) (soft_fields (s_type s))) eqn:Em.
  - (* already a field: it must be this attribute *)
    apply mem_str_In in Em. destruct Hfit as [Hl|Hn]; [|contradiction].
    rewrite check_type. split; [exact Hw|]. split; [exact Hl|]. split; [reflexivity|].
    split; [|split; [auto|auto]].
    intros f Hf. split; [exact Hf|apply soft_get_check; assumption].
  - assert (Hnf : ~ In (aname a) (soft_fields (s_type s))) by (intros H; apply mem_str_In in H; congruence).
    cbn [s_type s_id].
    pose proof (wf_add_attr (s_type s) a Hw Hne Hid Hvc Hnf) as Hw'.
    split; [exact Hw'|]. split; [cbn [tattrs]; apply lookup_map_set_same|]. split; [reflexivity|].
    split; [|split].
    + intros f Hf.
      assert (Hf' : is_field (mkType (tname (s_type s)) (map_set (aname a) a (tattrs (s_type s))) (trels (s_type s))) f).
      { destruct Hf as [Hf|Hf]; [left; cbn [tattrs]; apply map_set_keys; right; exact Hf|right; exact Hf]. }
      split; [exact Hf'|].
      rewrite soft_get_field by (cbn [s_type]; assumption). cbn [s_data s_type].
      rewrite (check_lookup s f Hw Hf).
      rewrite (soft_get_field s f Hw Hf). reflexivity.
    + intros b Hb. cbn [tattrs].
      destruct (String.eqb_spec (aname b) (aname a)) as [E|N].
      * exfalso. apply Hnf. rewrite <- E. rewrite (soft_fields_keys _ (proj1 Hw)). apply in_or_app. left.
        apply in_map_iff. exists (aname b, b). split; [reflexivity|apply lookup_In; exact Hb].
      * rewrite lookup_map_set_other by exact N. exact Hb.
    + intros n Hn Hin. rewrite (soft_fields_keys _ (proj1 Hw')) in Hin. rewrite (soft_fields_keys _ (proj1 Hw)).
      cbn [tattrs trels] in Hin. apply in_app_or in Hin. apply in_or_app.
      destruct Hin as [Hin|Hin]; [|right; exact Hin].
      apply map_set_keys in Hin. destruct Hin as [->|Hin]; [contradiction|left; exact Hin].
Qed.

(** what Add keeps of a value: a well-typed one as it is, an untyped nil as
    the zero value of a nullable attribute *)
Definition attr_value_ok (a : attr) (v : value) : Prop :=
  kind_of_value v = (acode a, anull a) \/ (v = VNil /\ anull a = true).

Definition kept (a : attr) (v : value) : value :=
  match v with VNil => zero_value (acode a) (anull a) | _ => v end.

Section AddAttrs.
  Variable src : resource.

  (** the attributes still to be added fit the current type and have distinct names *)
  Definition pending_ok (ty : type) (l : list (str * attr)) : Prop :=
    NoDup (map (fun kv => aname (snd kv)) l) /\
    forall kv, In kv l -> attr_fits ty (snd kv) /\
      exists v, res_get src (aname (snd kv)) = Ok v /\ attr_value_ok (snd kv) v.

  Lemma add_attrs_values : forall l s,
    wf_res_type (s_type s) -> pending_ok (s_type s) l ->
    exists s', add_attrs src s l = Ok s' /\ wf_res_type (s_type s') /\ s_id s' = s_id s /\
      (forall kv v, In kv l -> res_get src (aname (snd kv)) = Ok v ->
         lookup (aname (snd kv)) (tattrs (s_type s')) = Some (snd kv) /\
         soft_get s' (aname (snd kv)) = kept (snd kv) v) /\
      (forall f, is_field (s_type s) f -> ~ In f (map (fun kv => aname (snd kv)) l) ->
         is_field (s_type s') f /\ soft_get s' f = soft_get s f) /\
      (forall b, lookup (aname b) (tattrs (s_type s)) = Some b -> lookup (aname b) (tattrs (s_type s')) = Some b) /\
      (forall n, ~ In n (map (fun kv => aname (snd kv)) l) -> In n (soft_fields (s_type s')) -> In n (soft_fields (s_type s))).
  Proof.
    induction l as [|[k a] l IH]; intros s Hw [Hnd Hall].
    - exists s. split; [reflexivity|]. split; [exact Hw|]. split; [reflexivity|]. split; [intros kv v []|].
      split; [intros f Hf _; split; [exact Hf|reflexivity]|]. split; auto.
    - cbn [map snd] in Hnd. apply NoDup_cons_iff in Hnd. destruct Hnd as [Hni Hnd].
      destruct (Hall (k, a) (or_introl eq_refl)) as [Hfit [v [Hv Hvok]]]. cbn [snd] in *.
      cbn [add_attrs]. rewrite Hv. cbn [bind].
      destruct (soft_add_attr_spec s a Hw Hfit) as [Hw1 [Hl1 [Hid1 [Hkeep1 [Hdefs1 Hfields1]]]]].
      set (s1 := soft_add_attr s a) in *.
      assert (Hf1 : is_field (s_type s1) (aname a)).
      { left. apply in_map_iff. exists (aname a, a). split; [reflexivity|apply lookup_In; exact Hl1]. }
      assert (Hok1 : set_ok (s_type s1) (aname a) v).
      { right; left. exists a. split; [exact Hl1|exact Hvok]. }
      destruct Hfit as [Hne [Hnid [Hvc _]]].
      set (s2 := soft_set s1 (aname a) v).
      assert (Ht2 : s_type s2 = s_type s1) by apply soft_set_type.
      assert (Hw2 : wf_res_type (s_type s2)) by (rewrite Ht2; exact Hw1).
      destruct (IH s2) as [s' [Hs' [Hw' [Hid' [Hvals [Hkeep [Hdefs Hfields]]]]]]].
      + exact Hw2.
      + split; [exact Hnd|]. intros kv Hin. destruct (Hall kv (or_intror Hin)) as [[Ha1 [Ha2 [Ha3 Ha4]]] Hval].
        split; [|exact Hval]. split; [exact Ha1|split; [exact Ha2|split; [exact Ha3|]]].
        rewrite Ht2. destruct Ha4 as [Hl|Hn]; [left; apply Hdefs1; exact Hl|].
        right. intros Hin'. apply Hn. apply (Hfields1 (aname (snd kv))); [|exact Hin'].
        intros E. apply Hni. rewrite <- E. apply in_map_iff. exists kv. auto.
      + exists s'. split; [exact Hs'|]. split; [exact Hw'|]. split.
        { rewrite Hid'. unfold s2. destruct (soft_set_data s1 (aname a) v Hw1 Hnid Hok1) as [_ H]. rewrite H. exact Hid1. }
        split; [|split; [|split]].
        * intros kv v' [E|Hin] Hv'.
          -- subst kv. cbn [snd] in *. assert (v' = v) by congruence. subst v'.
             assert (Hf2 : is_field (s_type s2) (aname a)) by (rewrite Ht2; exact Hf1).
             destruct (Hkeep (aname a) Hf2 Hni) as [_ Hg]. rewrite Hg.
             split; [apply Hdefs; rewrite Ht2; exact Hl1|].
             unfold s2. rewrite (soft_get_set_same s1 (aname a) v Hw1 Hf1 Hok1).
             unfold stored, kept, field_zero. rewrite Hl1. reflexivity.
          -- apply (Hvals kv v' Hin Hv').
        * intros f Hf Hnf.
          assert (Hfa : f <> aname a) by (intros ->; apply Hnf; left; reflexivity).
          destruct (Hkeep1 f Hf) as [Hf1' Hg1].
          assert (Hf2 : is_field (s_type s2) f) by (rewrite Ht2; exact Hf1').
          destruct (Hkeep f Hf2) as [Hf' Hg]; [intros H; apply Hnf; right; exact H|].
          split; [exact Hf'|]. rewrite Hg. unfold s2.
          rewrite (soft_get_set_other s1 (aname a) v f Hw1 Hf1' Hfa Hnid Hok1). exact Hg1.
        * intros b Hb. apply Hdefs. rewrite Ht2. apply Hdefs1. exact Hb.
        * intros n Hn Hin.
          assert (Hna : n <> aname a) by (intros ->; apply Hn; left; reflexivity).
          apply (Hfields1 n Hna). rewrite <- Ht2. apply (Hfields n); [intros H; apply Hn; right; exact H|exact Hin].
  Qed.
End AddAttrs.

(** * relationships: the loop that follows keeps what the attribute loop stored *)
Definition rel_fits (ty : type) (x : rel) : Prop :=
  from_name x <> "" /\ from_name x <> "id" /\ to_type x <> "" /\
  (lookup (from_name x) (trels ty) = Some x \/ ~ In (from_name x) (soft_fields ty)).

Lemma wf_add_rel ty x :
  wf_res_type ty -> from_name x <> "" -> from_name x <> "id" -> to_type x <> "" ->
  ~ In (from_name x) (soft_fields ty) ->
  wf_res_type (mkType (tname ty) (tattrs ty) (map_set (from_name x) x (trels ty))).
Proof.
  intros Hw Hne Hid Htt Hnf. pose proof Hw as [[[Hna Ha] [Hnr Hr]] [Hdisj [Hia Hir]]].
  rewrite (soft_fields_keys ty (proj1 Hw)) in Hnf.
  assert (Hnota : ~ In (from_name x) (map fst (tattrs ty))) by (intros H; apply Hnf; apply in_or_app; left; exact H).
  assert (Hnotr : ~ In (from_name x) (map fst (trels ty))) by (intros H; apply Hnf; apply in_or_app; right; exact H).
  split; [split; split|split; [|split]]; cbn [tattrs trels].
  - exact Hna.
  - exact Ha.
  - apply map_set_NoDup. exact Hnr.
  - intros k b Hin. apply (map_set_In _ _ _ _ _ Hnr) in Hin.
    destruct Hin as [[-> ->]|[_ Hin]]; [auto|apply (Hr k b Hin)].
  - intros n Hn1 Hn2. apply map_set_keys in Hn2. destruct Hn2 as [->|Hn2]; [contradiction|apply (Hdisj n Hn1 Hn2)].
  - exact Hia.
  - intros H. apply map_set_keys in H. destruct H as [H|H]; [congruence|contradiction].
Qed.

Lemma soft_add_rel_spec s x :
  wf_res_type (s_type s) -> rel_fits (s_type s) x ->
  wf_res_type (s_type (soft_add_rel s x)) /\
  lookup (from_name x) (trels (s_type (soft_add_rel s x))) = Some x /\
  s_id (soft_add_rel s x) = s_id s /\
  tattrs (s_type (soft_add_rel s x)) = tattrs (s_type s) /\
  (forall f, is_field (s_type s) f -> is_field (s_type (soft_add_rel s x)) f /\
                                      soft_get (soft_add_rel s x) f = soft_get s f) /\
  (forall y, lookup (from_name y) (trels (s_type s)) = Some y ->
             lookup (from_name y) (trels (s_type (soft_add_rel s x))) = Some y) /\
  (forall n, n <> from_name x -> In n (soft_fields (s_type (soft_add_rel s x))) -> In n (soft_fields (s_type s))).
Proof.
  intros Hw [Hne [Hid [Htt Hfit]]]. unfold soft_add_rel. rewrite check_type.
  destruct (mem_str (from_name x) (soft_fields (s_type s))) eqn:Em.
  - apply mem_str_In in Em. destruct Hfit as [Hl|Hn]; [|contradiction].
    rewrite check_type. split; [exact Hw|]. split; [exact Hl|]. split; [reflexivity|]. split; [reflexivity|].
    split; [|split; [auto|auto]].
    intros f Hf. split; [exact Hf|apply soft_get_check; assumption].
  - assert (Hnf : ~ In (from_name x) (soft_fields (s_type s))) by (intros H; apply mem_str_In in H; congruence).
    cbn [s_type s_id].
    pose proof (wf_add_rel (s_type s) x Hw Hne Hid Htt Hnf) as Hw'.
    split; [exact Hw'|]. split; [cbn [trels]; apply lookup_map_set_same|]. split; [reflexivity|]. split; [reflexivity|].
    split; [|split].
    + intros f Hf.
      assert (Hf' : is_field (mkType (tname (s_type s)) (tattrs (s_type s)) (map_set (from_name x) x (trels (s_type s)))) f).
      { destruct Hf as [Hf|Hf]; [left; exact Hf|right; cbn [trels]; apply map_set_keys; right; exact Hf]. }
      split; [exact Hf'|].
      rewrite soft_get_field by (cbn [s_type]; assumption). cbn [s_data s_type].
      rewrite (check_lookup s f Hw Hf).
      rewrite (soft_get_field s f Hw Hf).
      reflexivity.
    + intros y Hy. cbn [trels].
      destruct (String.eqb_spec (from_name y) (from_name x)) as [E|N].
      * exfalso. apply Hnf. rewrite <- E. rewrite (soft_fields_keys _ (proj1 Hw)). apply in_or_app. right.
        apply in_map_iff. exists (from_name y, y). split; [reflexivity|apply lookup_In; exact Hy].
      * rewrite lookup_map_set_other by exact N. exact Hy.
    + intros n Hn Hin. rewrite (soft_fields_keys _ (proj1 Hw')) in Hin. rewrite (soft_fields_keys _ (proj1 Hw)).
      cbn [tattrs trels] in Hin. apply in_app_or in Hin. apply in_or_app.
      destruct Hin as [Hin|Hin]; [left; exact Hin|].
      apply map_set_keys in Hin. destruct Hin as [->|Hin]; [contradiction|right; exact Hin].
Qed.

Section AddRels.
  Variable src : resource.

  Definition pending_rels_ok (ty : type) (l : list (str * rel)) : Prop :=
    NoDup (map (fun kv => from_name (snd kv)) l) /\
    forall kv, In kv l -> rel_fits ty (snd kv) /\ exists v, res_get src (from_name (snd kv)) = Ok v.

  (** a relationship value of the declared cardinality *)
  Definition rel_typed (x : rel) (v : value) : Prop :=
    if to_one x then exists sv, v = VStr sv else exists n lv, v = VStrs n lv.

  Lemma add_rels_keeps : forall l s,
    wf_res_type (s_type s) -> pending_rels_ok (s_type s) l ->
    exists s', add_rels src s l = Ok s' /\ wf_res_type (s_type s') /\ s_id s' = s_id s /\
      tattrs (s_type s') = tattrs (s_type s) /\
      (forall f, is_field (s_type s) f -> ~ In f (map (fun kv => from_name (snd kv)) l) ->
         is_field (s_type s') f /\ soft_get s' f = soft_get s f) /\
      (forall kv v, In kv l -> res_get src (from_name (snd kv)) = Ok v -> rel_typed (snd kv) v ->
         soft_get s' (from_name (snd kv)) = v).
  Proof.
    induction l as [|[k x] l IH]; intros s Hw [Hnd Hall].
    - exists s. split; [reflexivity|]. split; [exact Hw|]. split; [reflexivity|]. split; [reflexivity|].
      split; [intros f Hf _; split; [exact Hf|reflexivity]|intros kv v []].
    - cbn [map snd] in Hnd. apply NoDup_cons_iff in Hnd. destruct Hnd as [Hni Hnd].
      destruct (Hall (k, x) (or_introl eq_refl)) as [Hfit [v Hv]]. cbn [snd] in *.
      destruct (soft_add_rel_spec s x Hw Hfit) as [Hw1 [Hl1 [Hid1 [Hat1 [Hkeep1 [Hdefs1 Hfields1]]]]]].
      set (s1 := soft_add_rel s x) in *.
      destruct Hfit as [Hne [Hnid [Htt _]]].
      assert (Hf1 : is_field (s_type s1) (from_name x)).
      { right. apply in_map_iff. exists (from_name x, x). split; [reflexivity|apply lookup_In; exact Hl1]. }
      (* whichever branch is taken, the state after this relationship *)
      assert (Hnext : exists s2, (forall rest, add_rels src s ((k, x) :: rest) = add_rels src s2 rest) /\
                 s_type s2 = s_type s1 /\ s_id s2 = s_id s1 /\
                 (forall f, is_field (s_type s1) f -> f <> from_name x -> soft_get s2 f = soft_get s1 f) /\
                 (rel_typed x v -> soft_get s2 (from_name x) = v)).
      { assert (Hset : forall v0, v0 = v -> set_ok (s_type s1) (from_name x) v0 -> v0 <> VNil ->
                  (forall rest, add_rels src s ((k, x) :: rest) = add_rels src (soft_set s1 (from_name x) v0) rest) ->
                  exists s2, (forall rest, add_rels src s ((k, x) :: rest) = add_rels src s2 rest) /\
                    s_type s2 = s_type s1 /\ s_id s2 = s_id s1 /\
                    (forall f, is_field (s_type s1) f -> f <> from_name x -> soft_get s2 f = soft_get s1 f) /\
                    (rel_typed x v -> soft_get s2 (from_name x) = v)).
        { intros v0 -> Hok Hnn Hrun. exists (soft_set s1 (from_name x) v). split; [exact Hrun|].
          split; [apply soft_set_type|]. split.
          - destruct (soft_set_data s1 (from_name x) v Hw1 Hnid Hok) as [_ H]. exact H.
          - split.
            + intros f Hf Hn. apply soft_get_set_other; assumption.
            + intros _. rewrite (soft_get_set_same s1 (from_name x) v Hw1 Hf1 Hok).
              unfold stored. destruct v; try reflexivity. congruence. }
        assert (Hskip : (forall rest, add_rels src s ((k, x) :: rest) = add_rels src s1 rest) -> ~ rel_typed x v ->
                  exists s2, (forall rest, add_rels src s ((k, x) :: rest) = add_rels src s2 rest) /\
                    s_type s2 = s_type s1 /\ s_id s2 = s_id s1 /\
                    (forall f, is_field (s_type s1) f -> f <> from_name x -> soft_get s2 f = soft_get s1 f) /\
                    (rel_typed x v -> soft_get s2 (from_name x) = v)).
        { intros Hrun Hnt. exists s1. split; [exact Hrun|]. repeat split; try reflexivity. intros H; contradiction. }
        unfold rel_typed in *.
        destruct v as [| sv | | | | | |n lv].
        all: try (apply Hskip; [intros rest; cbn [add_rels]; rewrite Hv; reflexivity|
                                intros H; destruct (to_one x); [destruct H as [a0 H0]|destruct H as [a0 [b0 H0]]]; discriminate]).
        - destruct (to_one x) eqn:Eo.
          + apply (Hset (VStr sv) eq_refl); [|discriminate|intros rest; cbn [add_rels]; rewrite Hv; cbn [bind]; rewrite Eo; reflexivity].
            right; right. exists x. split; [exact Hl1|left; split; [exact Eo|eauto]].
          + apply Hskip; [intros rest; cbn [add_rels]; rewrite Hv; cbn [bind]; rewrite Eo; reflexivity|].
            intros [a0 [b0 H0]]. discriminate.
        - destruct (to_one x) eqn:Eo.
          + apply Hskip; [intros rest; cbn [add_rels]; rewrite Hv; cbn [bind]; rewrite Eo; reflexivity|].
            intros [a0 H0]. discriminate.
          + apply (Hset (VStrs n lv) eq_refl); [|discriminate|intros rest; cbn [add_rels]; rewrite Hv; cbn [bind]; rewrite Eo; reflexivity].
            right; right. exists x. split; [exact Hl1|right; split; [exact Eo|eauto]]. }
      destruct Hnext as [s2 [Hstep [Ht2 [Hid2 [Hg2 Hval2]]]]]. rewrite Hstep.
      destruct (IH s2) as [s' [Hs' [Hw' [Hid' [Hat' [Hkeep Hvals]]]]]].
      + rewrite Ht2. exact Hw1.
      + split; [exact Hnd|]. intros kv Hin. destruct (Hall kv (or_intror Hin)) as [[Ha1 [Ha2 [Ha3 Ha4]]] Hvl].
        split; [|exact Hvl]. split; [exact Ha1|split; [exact Ha2|split; [exact Ha3|]]].
        rewrite Ht2. destruct Ha4 as [Hl|Hn]; [left; apply Hdefs1; exact Hl|].
        right. intros Hin'. apply Hn. apply (Hfields1 (from_name (snd kv))); [|exact Hin'].
        intros E. apply Hni. rewrite <- E. apply in_map_iff. exists kv. auto.
      + exists s'. split; [exact Hs'|]. split; [exact Hw'|]. split; [congruence|]. split; [congruence|]. split.
        * intros f Hf Hnf.
          assert (Hfx : f <> from_name x) by (intros ->; apply Hnf; left; reflexivity).
          destruct (Hkeep1 f Hf) as [Hf1' Hg1].
          destruct (Hkeep f) as [Hf' Hg]; [rewrite Ht2; exact Hf1'|intros H; apply Hnf; right; exact H|].
          split; [exact Hf'|]. rewrite Hg, (Hg2 f Hf1' Hfx). exact Hg1.
        * intros kv v' [E|Hin] Hv' Hty.
          -- subst kv. cbn [snd] in *. assert (v' = v) by congruence. subst v'.
             destruct (Hkeep (from_name x)) as [_ Hg]; [rewrite Ht2; exact Hf1|exact Hni|].
             rewrite Hg. apply Hval2. exact Hty.
          -- apply (Hvals kv v' Hin Hv' Hty).
  Qed.
End AddRels.

(** * Add *)
Theorem sc_add_stores_values c src id :
  wf_res_type (sc_type c) ->
  res_get src "id" = Ok (VStr id) ->
  pending_ok src (sc_type c) (res_attrs src) ->
  (forall s1, add_attrs src (mkSoft (sc_type c) id []) (res_attrs src) = Ok s1 ->
              pending_rels_ok src (s_type s1) (res_rels src) /\
              forall kv kr, In kv (res_attrs src) -> In kr (res_rels src) -> aname (snd kv) <> from_name (snd kr)) ->
  exists c' data,
    sc_add c src = Ok c' /\ sc_items c' = sc_items c ++ [(id, data)] /\
    (forall kv v, In kv (res_attrs src) -> res_get src (aname (snd kv)) = Ok v ->
      lookup (aname (snd kv)) (tattrs (sc_type c')) = Some (snd kv) /\
      soft_get (item_soft c' (id, data)) (aname (snd kv)) = kept (snd kv) v) /\
    (forall kr v, In kr (res_rels src) -> res_get src (from_name (snd kr)) = Ok v -> rel_typed (snd kr) v ->
      soft_get (item_soft c' (id, data)) (from_name (snd kr)) = v).
Proof.
  intros Hw Hid Hpa Hpr. unfold sc_add. rewrite Hid. cbn [bind].
  destruct (add_attrs_values src (res_attrs src) (mkSoft (sc_type c) id []) Hw Hpa)
    as [s1 [Hs1 [Hw1 [Hid1 [Hvals [_ [_ _]]]]]]].
  rewrite Hs1. cbn [bind]. destruct (Hpr s1 Hs1) as [Hprels Hdisj].
  destruct (add_rels_keeps src (res_rels src) s1 Hw1 Hprels) as [s2 [Hs2 [Hw2 [Hid2 [Hat2 [Hkeep Hrelvals]]]]]].
  rewrite Hs2. cbn [bind]. eexists. exists (s_data s2). split; [reflexivity|]. cbn [sc_items sc_type].
  split; [rewrite Hid2, Hid1; reflexivity|].
  assert (Hitem : mkSoft (s_type s2) id (s_data s2) = s2).
  { destruct s2 as [t2 i2 d2]. cbn in *. rewrite Hid2, Hid1. reflexivity. }
  split; [|intros kr v Hin Hv Hty; unfold item_soft; cbn [fst snd sc_type]; rewrite Hitem; apply (Hrelvals kr v Hin Hv Hty)].
  intros kv v Hin Hv. destruct (Hvals kv v Hin Hv) as [Hl Hg]. rewrite Hat2. split; [exact Hl|].
  assert (Hf : is_field (s_type s1) (aname (snd kv))).
  { left. apply in_map_iff. exists (aname (snd kv), snd kv). split; [reflexivity|apply lookup_In; exact Hl]. }
  destruct (Hkeep (aname (snd kv)) Hf) as [_ Hg2].
  { intros H. apply in_map_iff in H. destruct H as [kr [E Hkr]]. apply (Hdisj kv kr Hin Hkr). symmetry. exact E. }
  unfold item_soft. cbn [fst snd sc_type].
  rewrite Hitem, Hg2. exact Hg.
Qed.

(** non-vacuity: a resource with a new attribute and one the type already has *)
Definition ex19_coll : scoll := mkSColl (mkType "t" [("a", mkAttr "a" 1 false)] []) [].
Definition ex19_src : resource :=
  RSoft (mkSoft (mkType "t" [("a", mkAttr "a" 1 false); ("n", mkAttr "n" 3 true)] []) "7"
                [("a", VStr "x"); ("n", VNil)]).

Lemma ex19_premises :
  wf_res_type (sc_type ex19_coll) /\ res_get ex19_src "id" = Ok (VStr "7") /\
  pending_ok ex19_src (sc_type ex19_coll) (res_attrs ex19_src) /\
  (forall s1, add_attrs ex19_src (mkSoft (sc_type ex19_coll) "7" []) (res_attrs ex19_src) = Ok s1 ->
              pending_rels_ok ex19_src (s_type s1) (res_rels ex19_src) /\
              forall kv kr, In kv (res_attrs ex19_src) -> In kr (res_rels ex19_src) -> aname (snd kv) <> from_name (snd kr)).
Proof.
  split; [|split; [reflexivity|split]].
  - split; [split; split|split; [|split]]; cbn.
    + repeat constructor. intros [].
    + intros k a [H|[]]. injection H as <- <-. cbn. unfold valid_code. repeat split; try discriminate; lia.
    + constructor.
    + intros k x [].
    + intros n _ [].
    + intros [H|[]]. discriminate.
    + intros [].
  - split.
    + cbn. repeat constructor; cbn; intuition discriminate.
    + intros kv [<-|[<-|[]]]; cbn [snd].
      * split.
        -- unfold attr_fits. cbn. unfold valid_code. repeat split; try discriminate; try lia. left; reflexivity.
        -- exists (VStr "x"). split; [reflexivity|left; reflexivity].
      * split.
        -- unfold attr_fits. cbn. unfold valid_code. repeat split; try discriminate; try lia.
           right. intros [H|[]]. discriminate.
        -- exists VNil. split; [reflexivity|right; split; reflexivity].
  - intros s1 _. split; [split; [constructor|intros kv []]|intros kv kr _ []].
Qed.
