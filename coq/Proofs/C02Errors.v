(* C02: an error object survives MarshalDocument / UnmarshalDocument. *)
From Coq Require Import Lia Permutation.
From JV Require Import Model.Base Model.GoTime Gen.TypeGo Model.Schema Model.Value
  Model.Json Model.Unmarshal Model.Marshal Model.Document
  Proofs.BaseFacts Proofs.MapFacts Proofs.SoftFacts Proofs.C01Full Proofs.C11Order.
Open Scope list_scope.

(** the member names of an error object *)
Definition err_names : list str := ["id"; "code"; "status"; "title"; "detail"; "links"; "source"; "meta"].

(** on these names the decoder's name matching is plain equality *)
Lemma key_is_err_names : forall a b, In a err_names -> In b err_names -> key_is a b = String.eqb a b.
Proof.
  assert (H : forallb (fun a => forallb (fun b => Bool.eqb (key_is a b) (String.eqb a b)) err_names) err_names = true)
    by (vm_compute; reflexivity).
  intros a b Ha Hb. rewrite forallb_forall in H. specialize (H a Ha). rewrite forallb_forall in H.
  specialize (H b Hb). apply Bool.eqb_prop in H. exact H.
Qed.

(** what each member of a marshaled error looks like *)
Definition member_ok (kv : str * json) : Prop :=
  In (fst kv) err_names /\
  match snd kv with
  | JStr _ _ => In (fst kv) ["id"; "code"; "status"; "title"; "detail"]
  | JObj _ => In (fst kv) ["links"; "source"; "meta"]
  | _ => False
  end.

Definition str_member (m : list (str * json)) (k : str) (old : str) : str :=
  match lookup k m with Some (JStr s _) => s | _ => old end.

Definition obj_member (m : list (str * json)) (k : str) : option (list (str * json)) :=
  match lookup k m with Some (JObj o) => Some o | _ => None end.

(** decoding a list of well-formed members with distinct names, in any order *)
Lemma dec_error_members_spec : forall m cur,
  NoDup (map fst m) -> Forall member_ok m ->
  (forall o, obj_member m "links" = Some o -> exists l, dec_str_map o (e_links cur) = Some l) ->
  exists er, dec_error_members m cur = Some er /\
    e_id er = str_member m "id" (e_id cur) /\ e_code er = str_member m "code" (e_code cur) /\
    e_status er = str_member m "status" (e_status cur) /\ e_title er = str_member m "title" (e_title cur) /\
    e_detail er = str_member m "detail" (e_detail cur) /\
    e_links er = match obj_member m "links" with
                 | Some o => match dec_str_map o (e_links cur) with Some l => l | None => e_links cur end
                 | None => e_links cur end /\
    e_source er = match obj_member m "source" with Some o => merge_raw o (e_source cur) | None => e_source cur end /\
    e_meta er = match obj_member m "meta" with Some o => merge_raw o (e_meta cur) | None => e_meta cur end.
Proof.
  induction m as [|[k v] m IH]; intros cur Hnd Hall Hlinks.
  - exists cur. cbn. repeat split; reflexivity.
  - cbn [map fst] in Hnd. apply NoDup_cons_iff in Hnd. destruct Hnd as [Hk Hnd].
    inversion Hall as [|? ? [Hname Hshape] Hall']; subst. cbn [fst snd] in *.
    assert (Hnone : lookup k m = None) by (apply lookup_None_notin; exact Hk).
    (* whichever name it is, the remaining members do not mention it *)
    assert (Hrest_str : forall n old, str_member ((k, v) :: m) n old =
              if String.eqb n k then match v with JStr s _ => s | _ => old end else str_member m n old).
    { intros n old. unfold str_member. cbn [lookup]. destruct (String.eqb n k); reflexivity. }
    assert (Hrest_obj : forall n, obj_member ((k, v) :: m) n =
              if String.eqb n k then match v with JObj o => Some o | _ => None end else obj_member m n).
    { intros n. unfold obj_member. cbn [lookup]. destruct (String.eqb n k); reflexivity. }
    assert (Hm_none_str : forall old, str_member m k old = old) by (intros old; unfold str_member; rewrite Hnone; reflexivity).
    assert (Hm_none_obj : obj_member m k = None) by (unfold obj_member; rewrite Hnone; reflexivity).
    cbn [dec_error_members].
    assert (Hki : forall n, In n err_names -> key_is n k = String.eqb n k) by (intros n Hn; apply key_is_err_names; assumption).
    rewrite !Hki by (cbn; tauto).
    cbn in Hname.
    destruct Hname as [<-|[<-|[<-|[<-|[<-|[<-|[<-|[<-|[]]]]]]]]]; cbn [String.eqb Ascii.eqb Bool.eqb].
    all: destruct v as [| | |s esc| |o]; cbn in Hshape; try contradiction;
         try (repeat (destruct Hshape as [Hshape|Hshape]; try discriminate); contradiction).
    all: cbn [dec_string].
    (* the five string members *)
    1-5: (match goal with |- context [dec_error_members _ ?c] =>
            destruct (IH c Hnd Hall') as [er [Hd [H1 [H2 [H3 [H4 [H5 [H6 [H7 H8]]]]]]]]];
            [cbn [e_links]; intros o0 Ho0; apply Hlinks; rewrite Hrest_obj; cbn; exact Ho0|]
          end;
          exists er; split; [exact Hd|];
          rewrite !Hrest_str, !Hrest_obj; cbn [String.eqb Ascii.eqb Bool.eqb];
          cbn [e_id e_code e_status e_title e_detail e_links e_source e_meta] in *;
          rewrite ?Hm_none_str in *; repeat split; assumption).
    (* links *)
    + destruct (Hlinks o) as [l Hl]; [rewrite Hrest_obj; cbn; reflexivity|]. rewrite Hl.
      match goal with |- context [dec_error_members _ ?c] =>
        destruct (IH c Hnd Hall') as [er [Hd [H1 [H2 [H3 [H4 [H5 [H6 [H7 H8]]]]]]]]];
        [intros o0 Ho0; rewrite Hm_none_obj in Ho0; discriminate|] end.
      exists er. split; [exact Hd|]. rewrite !Hrest_str, !Hrest_obj. cbn [String.eqb Ascii.eqb Bool.eqb].
      cbn [e_id e_code e_status e_title e_detail e_links e_source e_meta] in *.
      rewrite Hm_none_obj in H6. rewrite Hl. repeat split; assumption.
    (* source *)
    + match goal with |- context [dec_error_members _ ?c] =>
        destruct (IH c Hnd Hall') as [er [Hd [H1 [H2 [H3 [H4 [H5 [H6 [H7 H8]]]]]]]]];
        [cbn [e_links]; intros o0 Ho0; apply Hlinks; rewrite Hrest_obj; cbn; exact Ho0|] end.
      exists er. split; [exact Hd|]. rewrite !Hrest_str, !Hrest_obj. cbn [String.eqb Ascii.eqb Bool.eqb].
      cbn [e_id e_code e_status e_title e_detail e_links e_source e_meta] in *.
      rewrite Hm_none_obj in H7. repeat split; assumption.
    (* meta *)
    + match goal with |- context [dec_error_members _ ?c] =>
        destruct (IH c Hnd Hall') as [er [Hd [H1 [H2 [H3 [H4 [H5 [H6 [H7 H8]]]]]]]]];
        [cbn [e_links]; intros o0 Ho0; apply Hlinks; rewrite Hrest_obj; cbn; exact Ho0|] end.
      exists er. split; [exact Hd|]. rewrite !Hrest_str, !Hrest_obj. cbn [String.eqb Ascii.eqb Bool.eqb].
      cbn [e_id e_code e_status e_title e_detail e_links e_source e_meta] in *.
      rewrite Hm_none_obj in H8. repeat split; assumption.
Qed.

(** * the members MarshalDocument writes for an error *)
Definition err_members (er : jerror) : list (str * json) :=
  opt_member "id" (e_id er) ++ opt_member "code" (e_code er) ++ opt_member "status" (e_status er)
  ++ opt_member "title" (e_title er) ++ opt_member "detail" (e_detail er)
  ++ (match e_links er with [] => [] | l => [("links", jobj (map (fun kv => (fst kv, jstr (snd kv))) l))] end)
  ++ (match e_source er with [] => [] | l => [("source", jobj l)] end)
  ++ (match e_meta er with [] => [] | l => [("meta", jobj l)] end).

Lemma error_json_members er : error_json er = JObj (isort key_lt (err_members er)).
Proof. reflexivity. Qed.

Lemma lookup_app {A} k (a b : list (str * A)) :
  lookup k (a ++ b) = match lookup k a with Some v => Some v | None => lookup k b end.
Proof. induction a as [|[k0 v0] a IH]; cbn; [reflexivity|]. destruct (String.eqb k k0); [reflexivity|exact IH]. Qed.

Lemma lookup_opt k k' s :
  lookup k (opt_member k' s) = if String.eqb k k' && negb (String.eqb s "") then Some (jstr s) else None.
Proof.
  unfold opt_member. destruct (String.eqb s ""); cbn; [rewrite Bool.andb_false_r; reflexivity|].
  rewrite Bool.andb_true_r. destruct (String.eqb k k'); reflexivity.
Qed.

Lemma opt_keys k s : map fst (opt_member k s) = if String.eqb s "" then [] else [k].
Proof. unfold opt_member. destruct (String.eqb s ""); reflexivity. Qed.

Lemma err_members_ok er : NoDup (map fst (err_members er)) /\ Forall member_ok (err_members er).
Proof.
  unfold err_members. split.
  - rewrite !map_app, !opt_keys.
    destruct (String.eqb (e_id er) ""), (String.eqb (e_code er) ""), (String.eqb (e_status er) ""),
      (String.eqb (e_title er) ""), (String.eqb (e_detail er) ""), (e_links er), (e_source er), (e_meta er); cbn;
      repeat constructor; cbn; intuition discriminate.
  - repeat (apply Forall_app; split).
    all: try (unfold opt_member; match goal with |- context [String.eqb ?s ""] => destruct (String.eqb s "") end;
              [constructor|constructor; [|constructor]]; split; cbn; tauto).
    all: match goal with |- context [match ?l with [] => _ | _ => _ end] => destruct l end;
         [constructor|constructor; [|constructor]]; split; cbn; tauto.
Qed.

(** decoding a links object whose values are all strings *)
Lemma dec_str_map_strings (l : list (str * str)) : forall cur,
  dec_str_map (map (fun kv => (fst kv, jstr (snd kv))) l) cur = Some (merge_map l cur).
Proof. induction l as [|[k s] l IH]; intros cur; cbn; [reflexivity|apply IH]. Qed.

Lemma isort_map_snd {A B} (g : A -> B) (l : list (str * A)) :
  isort key_lt (map (fun kv => (fst kv, g (snd kv))) l) = map (fun kv => (fst kv, g (snd kv))) (isort key_lt l).
Proof.
  induction l as [|x l IH]; cbn; [reflexivity|]. rewrite IH.
  generalize (isort key_lt l). intros s. induction s as [|y s IHs]; cbn; [reflexivity|].
  unfold key_lt at 1 3. cbn. destruct (String.ltb (fst x) (fst y)); cbn; [reflexivity|]. rewrite IHs. reflexivity.
Qed.

Lemma merged_sorted_lookup {A} (l : list (str * A)) k :
  NoDup (map fst l) -> lookup k (merge_map (isort key_lt l) []) = lookup k l.
Proof.
  intros Hn. rewrite merge_map_lookup by (apply isort_NoDup; exact Hn).
  rewrite isort_lookup by exact Hn. destruct (lookup k l); reflexivity.
Qed.

Theorem error_roundtrip er :
  NoDup (map fst (e_links er)) -> NoDup (map fst (e_source er)) -> NoDup (map fst (e_meta er)) ->
  exists er', dec_errors [error_json er] = Some [er'] /\
    e_id er' = e_id er /\ e_code er' = e_code er /\ e_status er' = e_status er /\
    e_title er' = e_title er /\ e_detail er' = e_detail er /\
    (forall k, lookup k (e_links er') = lookup k (e_links er)) /\
    (forall k, lookup k (e_source er') = lookup k (e_source er)) /\
    (forall k, lookup k (e_meta er') = lookup k (e_meta er)).
Proof.
  intros Hl Hs Hm. cbn [dec_errors]. rewrite error_json_members.
  destruct (err_members_ok er) as [Hnd Hok].
  set (M := err_members er) in *.
  assert (HndS : NoDup (map fst (isort key_lt M))) by (apply isort_NoDup; exact Hnd).
  assert (HokS : Forall member_ok (isort key_lt M)) by (eapply Permutation_Forall; [apply Permutation_sym, isort_keys_perm|exact Hok]).
  assert (Hlk : forall k, lookup k (isort key_lt M) = lookup k M) by (intros k; apply isort_lookup; exact Hnd).
  (* the members, by name *)
  assert (Hstr : forall k s, In k ["id"; "code"; "status"; "title"; "detail"] ->
            s = (if String.eqb k "id" then e_id er else if String.eqb k "code" then e_code er
                 else if String.eqb k "status" then e_status er else if String.eqb k "title" then e_title er
                 else e_detail er) ->
            str_member (isort key_lt M) k "" = s).
  { intros k s Hk ->. unfold str_member. rewrite Hlk. unfold M, err_members.
    rewrite !lookup_app, !lookup_opt.
    cbn in Hk. destruct Hk as [<-|[<-|[<-|[<-|[<-|[]]]]]]; cbn [String.eqb Ascii.eqb Bool.eqb andb].
    all: repeat match goal with |- context [String.eqb ?s ""] =>
           let E := fresh "E" in destruct (String.eqb_spec s "") as [E|E]; [try rewrite E|]; cbn [negb andb] end.
    all: try reflexivity.
    all: destruct (e_links er), (e_source er), (e_meta er); reflexivity. }
  assert (Hobj : forall k, In k ["links"; "source"; "meta"] ->
            obj_member (isort key_lt M) k =
            if String.eqb k "links" then match e_links er with [] => None | l => Some (isort key_lt (map (fun kv => (fst kv, jstr (snd kv))) l)) end
            else if String.eqb k "source" then match e_source er with [] => None | l => Some (isort key_lt l) end
            else match e_meta er with [] => None | l => Some (isort key_lt l) end).
  { intros k Hk. unfold obj_member. rewrite Hlk. unfold M, err_members.
    rewrite !lookup_app, !lookup_opt.
    cbn in Hk. destruct Hk as [<-|[<-|[<-|[]]]]; cbn [String.eqb Ascii.eqb Bool.eqb andb].
    all: destruct (e_links er), (e_source er), (e_meta er); reflexivity. }
  destruct (dec_error_members_spec (isort key_lt M) empty_error HndS HokS) as [er' [Hd [H1 [H2 [H3 [H4 [H5 [H6 [H7 H8]]]]]]]]].
  { intros o Ho. rewrite (Hobj "links") in Ho by (cbn; tauto). cbn [String.eqb Ascii.eqb Bool.eqb] in Ho.
    destruct (e_links er) as [|x l] eqn:El; [discriminate|].
    remember (x :: l) as L eqn:EL in Ho. injection Ho as <-.
    rewrite (isort_map_snd (fun s0 : str => jstr s0) L). eexists. apply dec_str_map_strings. }
  rewrite Hd. exists er'. split; [reflexivity|]. cbn [empty_error e_id e_code e_status e_title e_detail e_links e_source e_meta] in *.
  rewrite (Hstr "id" (e_id er)) in H1 by (cbn; tauto).
  rewrite (Hstr "code" (e_code er)) in H2 by (cbn; tauto).
  rewrite (Hstr "status" (e_status er)) in H3 by (cbn; tauto).
  rewrite (Hstr "title" (e_title er)) in H4 by (cbn; tauto).
  rewrite (Hstr "detail" (e_detail er)) in H5 by (cbn; tauto).
  rewrite (Hobj "links") in H6 by (cbn; tauto). rewrite (Hobj "source") in H7 by (cbn; tauto).
  rewrite (Hobj "meta") in H8 by (cbn; tauto). cbn [String.eqb Ascii.eqb Bool.eqb] in H6, H7, H8.
  repeat (split; [assumption|]). split; [|split].
  - intros k. rewrite H6. destruct (e_links er) as [|x l] eqn:El; [reflexivity|].
    remember (x :: l) as L eqn:EL.
    rewrite (isort_map_snd (fun s0 : str => jstr s0) L), dec_str_map_strings. apply merged_sorted_lookup. exact Hl.
  - intros k. rewrite H7. destruct (e_source er) as [|x l] eqn:El; [reflexivity|].
    remember (x :: l) as L eqn:EL.
    rewrite merge_raw_is_map. apply merged_sorted_lookup. exact Hs.
  - intros k. rewrite H8. destruct (e_meta er) as [|x l] eqn:El; [reflexivity|].
    remember (x :: l) as L eqn:EL.
    rewrite merge_raw_is_map. apply merged_sorted_lookup. exact Hm.
Qed.

Definition err_nodup (er : jerror) : Prop :=
  NoDup (map fst (e_links er)) /\ NoDup (map fst (e_source er)) /\ NoDup (map fst (e_meta er)).

Definition err_same (er er' : jerror) : Prop :=
  e_id er' = e_id er /\ e_code er' = e_code er /\ e_status er' = e_status er /\
  e_title er' = e_title er /\ e_detail er' = e_detail er /\
  (forall k, lookup k (e_links er') = lookup k (e_links er)) /\
  (forall k, lookup k (e_source er') = lookup k (e_source er)) /\
  (forall k, lookup k (e_meta er') = lookup k (e_meta er)).

Lemma errors_list_roundtrip l : Forall err_nodup l ->
  exists l', dec_errors (map error_json l) = Some l' /\ Forall2 err_same l l'.
Proof.
  induction 1 as [|er l [H1 [H2 H3]] _ IH].
  - exists []. split; [reflexivity|constructor].
  - destruct IH as [l' [Hd Hs]].
    destruct (error_roundtrip er H1 H2 H3) as [er' [He Hsame]].
    exists (er' :: l'). split; [|constructor; assumption].
    cbn [map dec_errors]. cbn [dec_errors] in He.
    destruct (match error_json er with JNull => Some empty_error | JObj m => dec_error_members m empty_error | _ => None end)
      as [x|] eqn:Ex; [|discriminate].
    injection He as <-. rewrite Hd. reflexivity.
Qed.

(** the payload skeleton of an error document *)
Lemma dec_payske_errors js es (meta : list (str * json)) self :
  dec_errors js = Some es ->
  dec_payske (jobj ([("errors", JArr js)]
                    ++ (match meta with [] => [] | p :: l => [("meta", jobj (p :: l))] end)
                    ++ [("links", jobj [("self", jstr self)]);
                        ("jsonapi", jobj [("version", jstr "1.0")])]))
  = Some (mkPaySke None es [] (merge_raw (isort key_lt meta) [])).
Proof.
  intros Hd. destruct meta as [|m0 meta'].
  - cbn [app]. unfold jobj at 1.
    change (isort _ [("errors", JArr js); ("links", jobj [("self", jstr self)]); ("jsonapi", jobj [("version", jstr "1.0")])])
      with [("errors", JArr js); ("jsonapi", jobj [("version", jstr "1.0")]); ("links", jobj [("self", jstr self)])].
    unfold dec_payske.
    change (dec_payske_members _ (mkPaySke None [] [] []))
      with (match dec_errors js with
            | Some es0 => dec_payske_members [("jsonapi", jobj [("version", jstr "1.0")]); ("links", jobj [("self", jstr self)])]
                                             (mkPaySke None es0 [] [])
            | None => None end).
    rewrite Hd. reflexivity.
  - cbn [app]. unfold jobj at 1.
    change (isort _ [("errors", JArr js); ("meta", jobj (m0 :: meta')); ("links", jobj [("self", jstr self)]); ("jsonapi", jobj [("version", jstr "1.0")])])
      with [("errors", JArr js); ("jsonapi", jobj [("version", jstr "1.0")]); ("links", jobj [("self", jstr self)]); ("meta", jobj (m0 :: meta'))].
    unfold dec_payske.
    change (dec_payske_members _ (mkPaySke None [] [] []))
      with (match dec_errors js with
            | Some es0 => dec_payske_members [("jsonapi", jobj [("version", jstr "1.0")]); ("links", jobj [("self", jstr self)]); ("meta", jobj (m0 :: meta'))]
                                             (mkPaySke None es0 [] [])
            | None => None end).
    rewrite Hd. reflexivity.
Qed.

(** an error document (errors, no primary data) comes back without data, with
    the same errors and the same meta *)
Theorem error_document_roundtrip e s d fields self :
  d_errors d <> [] -> Forall err_nodup (d_errors d) -> d_data d = DNil ->
  exists j u, marshal_document e d fields self = Ok j /\ unmarshal_document e s j = Ok u /\
    u_data u = UNil /\ u_included u = [] /\ Forall2 err_same (d_errors d) (u_errors u) /\
    (NoDup (map fst (d_meta d)) -> forall k, lookup k (u_meta u) = lookup k (d_meta d)).
Proof.
  intros Hne Hnd Hdata.
  destruct (errors_list_roundtrip (d_errors d) Hnd) as [es [Hdec Hsame]].
  assert (Hm : marshal_document e d fields self =
               Ok (jobj ([("errors", JArr (map error_json (d_errors d)))]
                         ++ (match d_meta d with [] => [] | p :: l => [("meta", jobj (p :: l))] end)
                         ++ [("links", jobj [("self", jstr self)]); ("jsonapi", jobj [("version", jstr "1.0")])]))).
  { unfold marshal_document, marshal_data. rewrite Hdata.
    destruct (d_errors d) as [|e0 es0] eqn:Ee; [contradiction|]. cbn [bind].
    destruct (d_included d); reflexivity. }
  rewrite Hm. eexists. eexists. split; [reflexivity|].
  unfold unmarshal_document. rewrite (dec_payske_errors _ es (d_meta d) self Hdec).
  cbn [p_data p_errors p_included p_meta all_identifier_shaped negb unmarshal_each bind fst snd].
  split; [reflexivity|]. cbn [u_data u_included u_errors u_meta].
  split; [reflexivity|]. split; [reflexivity|]. split; [exact Hsame|].
  intros Hn k. rewrite merge_raw_is_map. apply merged_sorted_lookup. exact Hn.
Qed.
