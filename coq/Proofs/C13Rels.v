(* C13: the relationship half -- the partial type holds exactly the
   relationships whose object carries a data member. *)
From JV Require Import Model.Base Model.GoTime Gen.TypeGo Model.Schema Model.Value
  Model.Json Model.SoftRes Model.C14 Model.Unmarshal
  Proofs.MapFacts Proofs.C14Facts Proofs.SoftFacts Proofs.C13Facts.
Open Scope list_scope.

Lemma add_rel_keys pt x n :
  from_name x <> "" -> to_type x <> "" ->
  (In n (map fst (trels (snd (type_add_rel pt x)))) <->
   n = from_name x \/ In n (map fst (trels pt))) \/
  (rel_name_used pt (from_name x) = true /\ trels (snd (type_add_rel pt x)) = trels pt).
Proof.
  intros Hn Ht. unfold type_add_rel, type_check_rel.
  apply String.eqb_neq in Hn, Ht. rewrite Hn, Ht. cbn [negb andb].
  destruct (rel_name_used pt (from_name x)) eqn:E; cbn [negb snd trels].
  - right. auto.
  - left. apply map_set_keys.
Qed.

Definition rels_from (t : type) (m : list (str * rel)) : Prop :=
  forall k x, In (k, x) m -> lookup k (trels t) = Some x.

Definition with_data (l : list (str * relske)) : list str :=
  map fst (filter (fun kv => match rs_data (snd kv) with Some _ => true | None => false end) l).

Lemma partial_rels_spec t l : wf_type t -> forall p p',
  rels_from t (trels (s_type p)) -> NoDup (map fst (trels (s_type p))) ->
  partial_rels t p l = Ok p' ->
  rels_from t (trels (s_type p')) /\ NoDup (map fst (trels (s_type p'))) /\
  forall n, In n (map fst (trels (s_type p'))) <->
            In n (map fst (trels (s_type p))) \/ In n (with_data l).
Proof.
  intros Hwf. induction l as [|[k rs] l IH]; intros p p' Hfrom Hnd; cbn [partial_rels].
  - intros H; inversion H; subst. repeat split; auto. intros [?|[]]; assumption.
  - destruct (lookup k (trels t)) as [x|] eqn:Ex; [|discriminate].
    unfold with_data. cbn [filter snd].
    destruct (rs_data rs) as [d|] eqn:Ed.
    2:{ intros H. destruct (IH p p' Hfrom Hnd H) as [H1 [H2 H3]]. repeat split; auto; apply H3. }
    pose proof Hwf as [_ [Hnr Hr]]. pose proof (lookup_In _ _ _ Ex) as Hin.
    destruct (Hr _ _ Hin) as [Hk [Hne Htt]]. subst k.
    set (nt := snd (type_add_rel (s_type p) x)) in *.
    assert (Hnt_from : rels_from t (trels nt)).
    { unfold nt, type_add_rel. destruct (type_check_rel (s_type p) x); cbn; [|exact Hfrom].
      intros k0 x0 Hi. apply (map_set_In _ _ _ _ _ Hnd) in Hi.
      destruct Hi as [[-> ->]|[_ Hi]]; [exact Ex|apply Hfrom; exact Hi]. }
    assert (Hnt_nd : NoDup (map fst (trels nt))).
    { unfold nt, type_add_rel. destruct (type_check_rel (s_type p) x); cbn; [|exact Hnd].
      apply map_set_NoDup. exact Hnd. }
    assert (Hkeys : forall n, In n (map fst (trels nt)) <-> n = from_name x \/ In n (map fst (trels (s_type p)))).
    { intros n. destruct (add_rel_keys (s_type p) x n Hne Htt) as [Hk|[Hused Hsame]]; fold nt in Hk || fold nt in Hsame.
      - exact Hk.
      - fold nt in Hsame. rewrite Hsame.
        assert (In (from_name x) (map fst (trels (s_type p)))).
        { unfold rel_name_used in Hused. apply existsb_exists in Hused.
          destruct Hused as [[k0 x0] [Hi0 He0]]. cbn in He0. apply String.eqb_eq in He0.
          pose proof (Hfrom _ _ Hi0) as Hl. apply lookup_In in Hl.
          destruct (Hr _ _ Hl) as [-> _]. rewrite <- He0.
          apply in_map_iff. exists (from_name x0, x0). auto. }
        split; [auto|intros [->|?]; assumption]. }
    assert (Hstep : forall v, partial_rels t (soft_set (mkSoft nt (s_id p) (s_data p)) (from_name x) v) l = Ok p' ->
              rels_from t (trels (s_type p')) /\ NoDup (map fst (trels (s_type p'))) /\
              forall n, In n (map fst (trels (s_type p'))) <->
                        In n (map fst (trels (s_type p))) \/ In n (from_name x :: with_data l)).
    { intros v H. specialize (IH (soft_set (mkSoft nt (s_id p) (s_data p)) (from_name x) v) p').
      rewrite soft_set_type_eq in IH. cbn [s_type] in IH.
      destruct (IH Hnt_from Hnt_nd H) as [H1 [H2 H3]]. split; [exact H1|]. split; [exact H2|].
      intros n. rewrite H3, Hkeys. cbn. unfold with_data. intuition. }
    cbn [map fst]. fold (with_data l).
    destruct (to_one x).
    + destruct (dec_identifier d); [|discriminate]. apply Hstep.
    + destruct (dec_identifiers d); [|discriminate]. apply Hstep.
Qed.

Lemma partial_rels_exact e s j p :
  unmarshal_partial e s j = Ok p ->
  exists k, dec_resske j = Some k /\
    (wf_type (get_type (sch_schema s) (k_type k)) ->
     (forall n, In n (map fst (trels (s_type p))) <-> In n (with_data (k_rels k))) /\
     (forall n x, In (n, x) (trels (s_type p)) ->
                  lookup n (trels (get_type (sch_schema s) (k_type k))) = Some x)).
Proof.
  unfold unmarshal_partial. destruct (dec_resske j) as [k|]; [|discriminate].
  destruct (String.eqb _ ""); [discriminate|].
  destruct (partial_attrs _ _ _ _) as [p1| |] eqn:E1; cbn [bind]; try discriminate.
  intros H. exists k. split; [reflexivity|]. intros Hwf.
  set (t := get_type (sch_schema s) (k_type k)) in *.
  assert (H0 : attrs_from t (tattrs (s_type (mkSoft (mkType (tname t) [] []) (k_id k) [])))).
  { unfold attrs_from. cbn. intros ? ? []. }
  assert (H1 : NoDup (map fst (tattrs (s_type (mkSoft (mkType (tname t) [] []) (k_id k) []))))) by constructor.
  destruct (partial_attrs_spec e t (k_attrs k) Hwf _ _ H0 H1 E1) as [_ [_ [Hrels _]]].
  cbn in Hrels.
  assert (Hf : rels_from t (trels (s_type p1))) by (rewrite Hrels; intros ? ? []).
  assert (Hn : NoDup (map fst (trels (s_type p1)))) by (rewrite Hrels; constructor).
  destruct (partial_rels_spec t (k_rels k) Hwf p1 p Hf Hn H) as [Hfrom [_ Hkeys]].
  split; [|exact Hfrom].
  intros n. rewrite Hkeys, Hrels. cbn. tauto.
Qed.
