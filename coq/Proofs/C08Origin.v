(* C08: every URL that NewURL returns for a well-named schema is well formed
   in the sense of C08Reparse.url_wf. *)
From Coq Require Import Lia Permutation.
From JV Require Import Model.Base Model.GoTime Gen.TypeGo Model.Schema Model.Value
  Model.Strconv Model.Json Model.Url Model.UrlParse Proofs.BaseFacts Proofs.SoftFacts Proofs.StrconvFacts
  Proofs.C07Facts Proofs.C07Fields Proofs.C07Include Proofs.C08Facts Proofs.C08Strings Proofs.C08Parse
  Proofs.C08Rules Proofs.C08Reparse.
Open Scope string_scope.

(** the naming hygiene the fixed point needs.  Without it the fixed point can
    fail: a type without any field is the recorded finding
    empty-field-list-chopped; an attribute called "-a" or "id" changes the
    rule list on the second pass (C08Rules); a field name with a comma is cut
    in two by the fields parameter. *)
Record schema_hyg (s : schema) : Prop := {
  hy_noname : has_type s "" = false;
  hy_fields : forall t, In t (types s) ->
              type_fields t <> [] /\ NoDup (type_fields t) /\ Forall tok (type_fields t);
  hy_attrs : forall t a, In t (types s) -> In a (attr_names t) -> strip_minus a = a /\ a <> "id"
}.

(** * pieces of a split *)
Lemma split_on_pieces sep s : forall cur,
  all_chars (is_not sep) cur = true ->
  Forall (fun y => all_chars (is_not sep) y = true) (split_on sep s cur).
Proof.
  induction s as [|c s IH]; intros cur H; cbn [split_on]; [constructor; [exact H|constructor]|].
  destruct (Ascii.eqb c sep) eqn:E.
  - constructor; [exact H|]. apply IH. reflexivity.
  - apply IH. rewrite all_chars_app, H. cbn [all_chars]. unfold is_not. rewrite E. reflexivity.
Qed.

Lemma non_empty_pieces sep s :
  Forall (fun y => y <> "" /\ all_chars (is_not sep) y = true) (non_empty (split_char sep s)).
Proof.
  unfold non_empty, split_char. apply Forall_forall. intros y Hy. apply filter_In in Hy.
  destruct Hy as [Hin Hne]. split.
  - apply negb_true_iff in Hne. apply String.eqb_neq. exact Hne.
  - pose proof (split_on_pieces sep s "" eq_refl) as H. rewrite Forall_forall in H. exact (H y Hin).
Qed.

Lemma parse_comma_list_tok v : Forall tok (parse_comma_list v).
Proof. exact (non_empty_pieces "," v). Qed.

Lemma parse_fragments_ok p : Forall frag_ok (parse_fragments p).
Proof. exact (non_empty_pieces "/" p). Qed.

(** * what NewSimpleURL keeps *)
Definition su_inv (su : simple_url) : Prop :=
  Forall tok (su_rules su) /\ Forall (fun kv => page_ok (snd kv)) (su_page su).

Lemma Forall_map_set {A} (P : str * A -> Prop) k v m :
  P (k, v) -> Forall P m -> Forall P (map_set k v m).
Proof.
  intros Hk. induction m as [|[k' v'] m IH]; intros H; cbn [map_set]; [constructor; [exact Hk|constructor]|].
  inversion H as [|? ? H1 H2]; subst.
  destruct (String.eqb k k'); constructor; auto.
Qed.

Lemma page_of_text_ok v : v <> "" -> page_ok (match atoi v with Some z => PInt z | None => PStr v end).
Proof.
  intros Hv. destruct (atoi v) as [z|] eqn:E; cbn [page_ok].
  - unfold atoi in E. apply parse_int_range in E; [|lia]. exact E.
  - split; assumption.
Qed.

Lemma simple_params_inv values fo : forall su su',
  su_inv su -> simple_params values fo su = Ok su' ->
  su_inv su' /\ su_fragments su' = su_fragments su.
Proof.
  induction values as [|[name vs] values IH]; intros su su' Hi H; cbn [simple_params] in H.
  - injection H as <-. split; [exact Hi|reflexivity].
  - destruct (has_prefix "fields[" name && has_suffix "]" name && Nat.ltb 8 (String.length name)).
    { destruct (parse_comma_list (first_value vs)) as [|f fs];
        (apply IH in H; [destruct H as [H1 H2]; split; [exact H1|exact H2]|exact Hi]). }
    destruct (has_prefix "page[" name && has_suffix "]" name && Nat.ltb 6 (String.length name)).
    { destruct (String.eqb_spec (first_value vs) "") as [E|N].
      - apply IH in H; [exact H|exact Hi].
      - apply IH in H; [destruct H as [H1 H2]; split; [exact H1|exact H2]|].
        destruct Hi as [Hr Hp]. split; [exact Hr|]. cbn [su_page].
        apply Forall_map_set; [|exact Hp]. cbn [snd]. apply page_of_text_ok. exact N. }
    destruct (String.eqb name "filter").
    { destruct fo as [|l|m]; [discriminate| |];
        (apply IH in H; [destruct H as [H1 H2]; split; [exact H1|exact H2]|exact Hi]). }
    destruct (String.eqb name "sort").
    { apply IH in H; [destruct H as [H1 H2]; split; [exact H1|exact H2]|].
      destruct Hi as [Hr Hp]. split; [|exact Hp]. cbn [su_rules]. apply Forall_app. split; [exact Hr|].
      apply Forall_forall. intros r Hr'. apply in_flat_map in Hr'. destruct Hr' as [v [_ Hv]].
      pose proof (parse_comma_list_tok v) as Ht. rewrite Forall_forall in Ht. exact (Ht r Hv). }
    destruct (String.eqb name "include"); [|discriminate].
    apply IH in H; [destruct H as [H1 H2]; split; [exact H1|exact H2]|exact Hi].
Qed.

(** * the keys of the field selection *)
Lemma map_set_keys {A} k (v : A) m :
  (NoDup (map fst m) -> NoDup (map fst (map_set k v m))) /\
  In k (map fst (map_set k v m)) /\
  (forall k', In k' (map fst m) -> In k' (map fst (map_set k v m))).
Proof.
  induction m as [|[k0 v0] m [IH1 [IH2 IH3]]]; cbn [map_set map fst].
  - split; [intros _; constructor; [intros []|constructor]|]. split; [left; reflexivity|intros k' []].
  - destruct (String.eqb_spec k k0) as [E|N]; cbn [map fst].
    + subst k0. split; [auto|]. split; [left; reflexivity|auto].
    + split.
      * intros H. inversion H as [|? ? Hx Hl]; subst. constructor; [|apply IH1; exact Hl].
        intros Hin. apply Hx. clear - Hin N. induction m as [|[k1 v1] m IH]; cbn [map_set map fst] in *.
        -- destruct Hin as [E|[]]. contradiction.
        -- destruct (String.eqb_spec k k1) as [E|N1]; cbn [map fst] in Hin.
           ++ subst k1. destruct Hin as [E|Hin]; [contradiction|right; exact Hin].
           ++ destruct Hin as [E|Hin]; [left; exact E|right; apply IH; exact Hin].
      * split; [right; exact IH2|]. intros k' [E|Hin]; [left; exact E|right; apply IH3; exact Hin].
Qed.

Definition keys_ok (rt : str) (m : list (str * list str)) : Prop := NoDup (map fst m).

Lemma check_words_keys s words : forall cur fields,
  NoDup (map fst fields) -> NoDup (map fst (snd (check_words s words cur fields))).
Proof.
  induction words as [|w rest IH]; intros cur fields H; cbn [check_words]; [exact H|].
  destruct (String.eqb (tname (get_type s (to_type cur))) ""); [apply IH; exact H|].
  destruct (lookup w (trels (get_type s (to_type cur)))) as [r|]; [|exact H].
  destruct (has_type s (to_type r)); [|exact H].
  apply IH. apply map_set_keys. exact H.
Qed.

Lemma check_includes_keys fuel s rt : forall i incs fields,
  NoDup (map fst fields) -> NoDup (map fst (snd (check_includes fuel s rt i incs fields))).
Proof.
  induction fuel as [|f IH]; intros i incs fields H; cbn [check_includes]; [exact H|].
  destruct (Nat.leb (length incs) i); [exact H|].
  pose proof (check_words_keys s (split_char "." (nth_str incs i)) (mkRel "" "" false rt "" false) fields H) as Hw.
  destruct (check_words s _ _ fields) as [[x|] fields']; cbn [snd] in Hw; apply IH; exact Hw.
Qed.

Lemma apply_fields_keys s rt sf : forall fields out,
  apply_fields s rt sf fields = Ok out ->
  (NoDup (map fst fields) -> NoDup (map fst out)) /\
  (forall k, In k (map fst fields) -> In k (map fst out)).
Proof.
  induction sf as [|[t fs] rest IH]; intros fields out H; cbn [apply_fields] in H.
  - injection H as <-. auto.
  - destruct (negb (String.eqb t rt) && String.eqb (tname (get_type s t)) ""); [discriminate|].
    destruct (String.eqb (tname (get_type s t)) ""); [apply IH; exact H|].
    match type of H with context [has_dup ?x] => destruct (has_dup x); [discriminate|] end.
    apply IH in H. destruct H as [H1 H2]. split.
    + intros Hn. apply H1. apply map_set_keys. exact Hn.
    + intros k Hk. apply H2. apply map_set_keys. exact Hk.
Qed.

Lemma default_fields_keys s m : map fst (default_fields s m) = map fst m.
Proof.
  unfold default_fields. rewrite map_map. apply map_ext. intros [k [|x v]]; reflexivity.
Qed.

Lemma new_params_keys s su rt p :
  rt <> "" -> new_params s su rt = Ok p ->
  NoDup (map fst (p_fields p)) /\ In rt (map fst (p_fields p)).
Proof.
  intros Hrt. unfold new_params.
  destruct (check_includes _ s rt 0 _ []) as [incs fields1] eqn:Ec.
  assert (H1 : NoDup (map fst fields1)).
  { pose proof (check_includes_keys (S (length (prune_includes (isort String.ltb (su_include su))))) s rt 0
                  (prune_includes (isort String.ltb (su_include su))) []) as H.
    rewrite Ec in H. apply H. constructor. }
  apply String.eqb_neq in Hrt. rewrite Hrt.
  destruct (apply_fields s rt (su_fields su) _) as [fields3| |] eqn:Ea; cbn [bind]; try discriminate.
  intros E; injection E as <-. cbn [p_fields]. rewrite default_fields_keys.
  apply apply_fields_keys in Ea. destruct Ea as [E1 E2]. split.
  - apply E1. apply map_set_keys. exact H1.
  - apply E2. exact (proj1 (proj2 (map_set_keys rt [] fields1))).
Qed.

(** * assembling [url_wf] *)
Lemma get_type_in_types s n : tname (get_type s n) <> "" -> In (get_type s n) (types s).
Proof.
  unfold get_type. induction (types s) as [|t0 ts IH]; cbn [get_type_in]; [intros H; exfalso; apply H; reflexivity|].
  destruct (String.eqb (tname t0) n); [intros _; left; reflexivity|]. intros H. right. exact (IH H).
Qed.

Lemma url_head_rt s fr c rt id k r :
  url_head s fr = Some (c, rt, id, k, r) -> has_type s rt = true /\ fr <> [].
Proof.
  unfold url_head. destruct fr as [|f0 fr]; [discriminate|].
  destruct (String.eqb_spec (tname (get_type s f0)) "") as [E|N]; [discriminate|].
  destruct (Nat.leb 3 _).
  - destruct (lookup _ _) as [r0|]; [|discriminate].
    destruct (has_type s (to_type r0)) eqn:Eh; cbn [negb]; [|discriminate].
    intros H. injection H as _ <- _ _ _. split; [exact Eh|discriminate].
  - intros H. injection H as _ <- _ _ _. split; [apply get_type_has; exact N|discriminate].
Qed.

Lemma requested_rules_elems attrs rules : forall acc r,
  In r (requested_rules attrs rules acc) -> In r acc \/ In r rules.
Proof.
  induction rules as [|rule rules IH]; intros acc r H; cbn [requested_rules] in H; [left; exact H|].
  destruct (existsb _ acc).
  { destruct (IH _ _ H) as [H1|H1]; [left; exact H1|right; right; exact H1]. }
  destruct (String.eqb _ "id").
  { destruct (IH _ _ H) as [H1|H1]; [|right; right; exact H1].
    apply in_app_or in H1. destruct H1 as [H1|[<-|[]]]; [left; exact H1|right; left; reflexivity]. }
  destruct (mem_str _ attrs).
  { destruct (IH _ _ H) as [H1|H1]; [|right; right; exact H1].
    apply in_app_or in H1. destruct H1 as [H1|[<-|[]]]; [left; exact H1|right; left; reflexivity]. }
  destruct (IH _ _ H) as [H1|H1]; [left; exact H1|right; right; exact H1].
Qed.

Lemma sorting_rules_elems t rules r :
  In r (sorting_rules t rules) -> In r rules \/ In r (attr_names t) \/ r = "id".
Proof.
  unfold sorting_rules. fold (attr_names t).
  set (req := requested_rules (attr_names t) rules []).
  set (restr := isort String.ltb _).
  assert (Hreq : forall x, In x req -> In x rules).
  { intros x Hx. destruct (requested_rules_elems _ _ _ _ Hx) as [[]|H]. exact H. }
  assert (Hrest : forall x, In x restr -> In x (attr_names t)).
  { intros x Hx. unfold restr in Hx. apply (Permutation_in _ (isort_perm _ _)) in Hx.
    apply filter_In in Hx. exact (proj1 Hx). }
  destruct (existsb _ req); intros H; repeat (apply in_app_or in H; destruct H as [H|H]); auto.
  destruct H as [<-|[]]. auto.
Qed.

Lemma attr_in_fields t a : In a (attr_names t) -> In a (type_fields t).
Proof.
  intros H. unfold type_fields. apply (Permutation_in _ (Permutation_sym (isort_perm _ _))).
  apply in_or_app. left. exact H.
Qed.

Lemma attr_names_nodup t : NoDup (type_fields t) -> NoDup (attr_names t).
Proof.
  intros H. unfold type_fields in H.
  apply (Permutation_NoDup (isort_perm _ _)) in H. exact (NoDup_app_l _ _ H).
Qed.

Lemma new_params_page s su rt p : new_params s su rt = Ok p -> p_page p = su_page su.
Proof.
  unfold new_params. destruct (check_includes _ _ _ _ _ _) as [incs fields1].
  destruct (apply_fields _ _ _ _); cbn; try discriminate.
  intros H; injection H as <-. reflexivity.
Qed.

Lemma lookup_In {A} k (v : A) m : lookup k m = Some v -> In (k, v) m.
Proof.
  induction m as [|[k' v'] m IH]; cbn [lookup]; [discriminate|].
  destruct (String.eqb_spec k k') as [E|N]; [intros H; injection H as <-; subst; left; reflexivity|].
  intros H. right. exact (IH H).
Qed.

Lemma tok_id : tok "id".
Proof. split; [discriminate|reflexivity]. Qed.

Theorem new_url_wf s su u :
  schema_hyg s -> su_inv su -> Forall frag_ok (su_fragments su) ->
  new_url s su = Ok u -> url_wf s u.
Proof.
  intros Hy [Hir Hip] Hfr H. rewrite new_url_head in H.
  destruct (url_head s (su_fragments su)) as [[[[[c rt] id] k] r]|] eqn:Eh; [|discriminate].
  destruct (new_params s su rt) as [p| |] eqn:Ep; cbn [bind] in H; try discriminate.
  injection H as <-.
  destruct (url_head_rt _ _ _ _ _ _ _ Eh) as [Hht Hne].
  assert (Hrt : rt <> "").
  { intros ->. rewrite (hy_noname s Hy) in Hht. discriminate. }
  destruct (new_params_keys s su rt p Hrt Ep) as [Hkeys Hin].
  pose proof (new_params_fields s su rt p (or_intror Hht) Ep) as Hfin.
  assert (Htyp : forall t, has_type s t = true ->
            tname (get_type s t) <> "" /\ In (get_type s t) (types s)).
  { intros t Ht. destruct (has_type_get s t Ht) as [N|E].
    - split; [exact N|apply get_type_in_types; exact N].
    - subst t. rewrite (hy_noname s Hy) in Ht. discriminate. }
  constructor; cbn [u_fragments u_iscol u_restype u_resid u_relkind u_rel u_params].
  - destruct (su_fragments su) as [|x l]; [contradiction|]. exists x, l. split; [reflexivity|exact Hfr].
  - exact Eh.
  - split; assumption.
  - exact Hkeys.
  - apply Forall_forall. intros [t fs] Hkv. destruct (Hfin t fs Hkv) as [Ht Hfs].
    destruct (Htyp t Ht) as [N Hint]. destruct (hy_fields s Hy _ Hint) as [F1 [F2 F3]].
    unfold entry_good. cbn [fst snd]. split.
    { intros ->. rewrite (hy_noname s Hy) in Ht. discriminate. }
    destruct Hfs as [->|[G1 [G2 G3]]]; [split; assumption|]. split; [exact G1|].
    apply Forall_forall. intros f Hf. destruct (G3 f Hf) as [->|Hff]; [exact tok_id|].
    rewrite Forall_forall in F3. exact (F3 f Hff).
  - apply Forall_forall. intros [t fs] Hkv. destruct (Hfin t fs Hkv) as [Ht Hfs].
    destruct (Htyp t Ht) as [N Hint]. destruct (hy_fields s Hy _ Hint) as [F1 [F2 F3]].
    unfold entry_stable. cbn [fst snd]. split; [exact N|].
    destruct Hfs as [->|[G1 [G2 G3]]].
    + split; [exact F2|]. split; [exact F2|]. intros f Hf. right. exact Hf.
    + split; [exact G2|]. split; [exact F2|exact G3].
  - rewrite (new_params_rules s su rt p Ep).
    destruct (is_collection s (su_fragments su)); [|constructor].
    destruct (Htyp rt Hht) as [N Hint]. destruct (hy_fields s Hy _ Hint) as [F1 [F2 F3]].
    apply Forall_forall. intros x Hx. destruct (sorting_rules_elems _ _ _ Hx) as [H1|[H1| ->]].
    + rewrite Forall_forall in Hir. exact (Hir x H1).
    + rewrite Forall_forall in F3. apply F3. apply attr_in_fields. exact H1.
    + exact tok_id.
  - rewrite (new_params_rules s su rt p Ep).
    destruct (is_collection s (su_fragments su)); [|reflexivity].
    destruct (Htyp rt Hht) as [N Hint]. destruct (hy_fields s Hy _ Hint) as [F1 [F2 F3]].
    apply sorting_rules_fixed_point.
    + apply attr_names_nodup. exact F2.
    + intros a Ha. exact (hy_attrs s Hy _ a Hint Ha).
  - unfold pages_ok. cbn [u_params u_iscol]. intros _ w v _ Hl. rewrite (new_params_page s su rt p Ep) in Hl.
    apply lookup_In in Hl. rewrite Forall_forall in Hip. exact (Hip _ Hl).
Qed.

Theorem new_url_from_wf s path values fo u :
  schema_hyg s -> new_url_from s path values fo = Ok u -> url_wf s u.
Proof.
  intros Hy H. unfold new_url_from in H.
  destruct (new_simple_url path values fo) as [su| |] eqn:Es; cbn [bind] in H; try discriminate.
  unfold new_simple_url in Es. apply simple_params_inv in Es.
  - destruct Es as [Hi Hf]. cbn [su_fragments] in Hf.
    apply (new_url_wf s su u Hy Hi); [|exact H]. rewrite Hf. apply parse_fragments_ok.
  - split; constructor.
Qed.
