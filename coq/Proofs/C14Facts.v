(* C14: every edit preserves well-formedness, failed edits change nothing,
   removing something absent is a no-op, two-way relationships are added on
   both sides. *)
From Coq Require Import Lia Permutation.
From JV Require Import Model.Base Gen.TypeGo Model.Schema Model.C14
  Proofs.BaseFacts Proofs.MapFacts Proofs.C16Facts.

(** * Well-formedness, from the property text *)
Definition valid_code (c : Z) : Prop := (1 <= c <= 14)%Z.

Definition wf_attrs (m : list (str * attr)) : Prop :=
  NoDup (map fst m) /\
  forall k a, In (k, a) m -> k = aname a /\ aname a <> "" /\ valid_code (acode a).

Definition wf_rels (m : list (str * rel)) : Prop :=
  NoDup (map fst m) /\
  forall k r, In (k, r) m -> k = from_name r /\ from_name r <> "" /\ to_type r <> "".

Definition wf_type (t : type) : Prop := wf_attrs (tattrs t) /\ wf_rels (trels t).

Definition wf_schema (s : schema) : Prop :=
  NoDup (map tname (types s)) /\
  forall t, In t (types s) -> tname t <> "" /\ wf_type t.

(** The generated kind table accepts exactly the 14 kinds. *)
Lemma valid_code_iff c :
  String.eqb (get_attr_type_string c false) "" = false <-> valid_code c.
Proof.
  unfold valid_code, get_attr_type_string.
  unfold AttrTypeString, AttrTypeInt, AttrTypeInt8, AttrTypeInt16, AttrTypeInt32,
    AttrTypeInt64, AttrTypeUint, AttrTypeUint8, AttrTypeUint16, AttrTypeUint32,
    AttrTypeUint64, AttrTypeBool, AttrTypeTime, AttrTypeBytes.
  repeat match goal with
  | |- context [Z.eqb c ?k] => destruct (Z.eqb_spec c k); [subst; cbn; split; [lia|reflexivity]|]
  end.
  cbn. split; [discriminate|lia].
Qed.

(** * Lookups agree with the list of types (for every schema) *)
Lemma has_type_iff s n :
  has_type s n = true <-> exists t, In t (types s) /\ tname t = n.
Proof.
  unfold has_type. rewrite existsb_exists.
  split; intros [t [H1 H2]]; exists t; (split; [exact H1|]); apply String.eqb_eq; exact H2.
Qed.

Lemma find_type_Some ts n t : find_type ts n = Some t -> In t ts /\ tname t = n.
Proof.
  induction ts as [|t0 ts IH]; cbn; [discriminate|].
  destruct (String.eqb (tname t0) n) eqn:E.
  - intros H; inversion H; subst. split; [left; reflexivity|apply String.eqb_eq; exact E].
  - intros H. destruct (IH H). split; [right|]; assumption.
Qed.

Lemma find_type_None ts n : find_type ts n = None <-> forall t, In t ts -> tname t <> n.
Proof.
  induction ts as [|t0 ts IH]; cbn; [split; [intros _ t []|reflexivity]|].
  destruct (String.eqb (tname t0) n) eqn:E.
  - split; [discriminate|]. intros H. apply String.eqb_eq in E.
    exfalso. exact (H t0 (or_introl eq_refl) E).
  - rewrite IH. apply String.eqb_neq in E. split.
    + intros H t [<-|Hin]; auto.
    + intros H t Hin. apply H. right; exact Hin.
Qed.

Lemma get_type_find ts n :
  get_type_in ts n = match find_type ts n with Some t => t | None => empty_type end.
Proof.
  induction ts as [|t0 ts IH]; cbn; [reflexivity|].
  destruct (String.eqb (tname t0) n); [reflexivity|exact IH].
Qed.

Lemma find_type_unique ts n t :
  NoDup (map tname ts) -> In t ts -> tname t = n -> find_type ts n = Some t.
Proof.
  induction ts as [|t0 ts IH]; cbn; intros Hn Hin Hname; [tauto|].
  inversion Hn as [|? ? Hni Hd]; subst.
  destruct Hin as [->|Hin].
  - rewrite String.eqb_refl. reflexivity.
  - destruct (String.eqb (tname t0) (tname t)) eqn:E.
    + apply String.eqb_eq in E. exfalso. apply Hni. rewrite E. apply in_map. exact Hin.
    + apply IH; auto.
Qed.

Lemma lookups_agree s :
  (forall n, has_type s n = true <-> exists t, In t (types s) /\ tname t = n) /\
  (forall n, has_type s n = false -> get_type s n = empty_type) /\
  (NoDup (map tname (types s)) -> forall t, In t (types s) -> get_type s (tname t) = t).
Proof.
  split; [apply has_type_iff|]. split.
  - intros n H. unfold get_type. rewrite get_type_find.
    destruct (find_type (types s) n) as [t|] eqn:E; [|reflexivity].
    apply find_type_Some in E. destruct E as [E1 E2].
    assert (has_type s n = true) by (apply has_type_iff; eauto). congruence.
  - intros Hn t Hin. unfold get_type. rewrite get_type_find.
    rewrite (find_type_unique _ _ t Hn Hin eq_refl). reflexivity.
Qed.

(** * Type-level preservation *)
Lemma attr_name_used_false t n :
  wf_attrs (tattrs t) -> attr_name_used t n = false -> ~ In n (map fst (tattrs t)).
Proof.
  intros [_ Hw] Hu Hin. apply in_map_iff in Hin. destruct Hin as [[k a] [Hk Hin]].
  cbn in Hk. subst. destruct (Hw _ _ Hin) as [-> _].
  unfold attr_name_used in Hu.
  assert (existsb (fun kv => String.eqb (aname (snd kv)) (aname a)) (tattrs t) = true).
  { apply existsb_exists. exists (aname a, a). split; [exact Hin|]. cbn. apply String.eqb_refl. }
  congruence.
Qed.

Lemma rel_name_used_false t n :
  wf_rels (trels t) -> rel_name_used t n = false -> ~ In n (map fst (trels t)).
Proof.
  intros [_ Hw] Hu Hin. apply in_map_iff in Hin. destruct Hin as [[k r] [Hk Hin]].
  cbn in Hk. subst. destruct (Hw _ _ Hin) as [-> _].
  unfold rel_name_used in Hu.
  assert (existsb (fun kv => String.eqb (from_name (snd kv)) (from_name r)) (trels t) = true).
  { apply existsb_exists. exists (from_name r, r). split; [exact Hin|]. cbn. apply String.eqb_refl. }
  congruence.
Qed.

Lemma type_add_attr_name t a : tname (snd (type_add_attr t a)) = tname t.
Proof. unfold type_add_attr. destruct (type_check_attr t a); reflexivity. Qed.

Lemma type_add_rel_name t r : tname (snd (type_add_rel t r)) = tname t.
Proof. unfold type_add_rel. destruct (type_check_rel t r); reflexivity. Qed.

Lemma type_remove_attr_name t n : tname (type_remove_attr t n) = tname t.
Proof. unfold type_remove_attr. destruct (attr_name_used t n); reflexivity. Qed.

Lemma type_remove_rel_name t n : tname (type_remove_rel t n) = tname t.
Proof. unfold type_remove_rel. destruct (rel_name_used t n); reflexivity. Qed.

Lemma type_add_attr_wf t a : wf_type t -> wf_type (snd (type_add_attr t a)).
Proof.
  intros [Ha Hr]. unfold type_add_attr, type_check_attr.
  destruct (String.eqb (aname a) "") eqn:E1; cbn [negb andb snd]; [split; assumption|].
  destruct (String.eqb (get_attr_type_string (acode a) false) "") eqn:E2; cbn [negb andb snd]; [split; assumption|].
  destruct (attr_name_used t (aname a)) eqn:E3; cbn [negb andb snd]; [split; assumption|].
  split; [|exact Hr]. cbn [tattrs]. destruct Ha as [Hn Hw]. split.
  - apply map_set_NoDup. exact Hn.
  - intros k a' Hin. apply (map_set_In _ _ _ _ _ Hn) in Hin.
    destruct Hin as [[-> ->]|[_ Hin]]; [|apply Hw; exact Hin].
    split; [reflexivity|]. split; [apply String.eqb_neq; exact E1|apply valid_code_iff; exact E2].
Qed.

Lemma type_add_rel_wf t r : wf_type t -> wf_type (snd (type_add_rel t r)).
Proof.
  intros [Ha Hr]. unfold type_add_rel, type_check_rel.
  destruct (String.eqb (from_name r) "") eqn:E1; cbn [negb andb snd]; [split; assumption|].
  destruct (String.eqb (to_type r) "") eqn:E2; cbn [negb andb snd]; [split; assumption|].
  destruct (rel_name_used t (from_name r)) eqn:E3; cbn [negb andb snd]; [split; assumption|].
  split; [exact Ha|]. cbn [trels]. destruct Hr as [Hn Hw]. split.
  - apply map_set_NoDup. exact Hn.
  - intros k r' Hin. apply (map_set_In _ _ _ _ _ Hn) in Hin.
    destruct Hin as [[-> ->]|[_ Hin]]; [|apply Hw; exact Hin].
    split; [reflexivity|]. split; apply String.eqb_neq; assumption.
Qed.

Lemma type_remove_attr_wf t n : wf_type t -> wf_type (type_remove_attr t n).
Proof.
  intros [[Hn Hw] Hr]. unfold type_remove_attr. destruct (attr_name_used t n); [|split; [split|]; assumption].
  split; [|exact Hr]. cbn. split; [apply remove_key_NoDup; exact Hn|].
  intros k a Hin. apply remove_key_In in Hin. apply Hw. tauto.
Qed.

Lemma type_remove_rel_wf t n : wf_type t -> wf_type (type_remove_rel t n).
Proof.
  intros [Ha [Hn Hw]]. unfold type_remove_rel. destruct (rel_name_used t n); [|split; [|split]; assumption].
  split; [exact Ha|]. cbn. split; [apply remove_key_NoDup; exact Hn|].
  intros k r Hin. apply remove_key_In in Hin. apply Hw. tauto.
Qed.

(** * List-level helpers *)
Lemma upd_first_names ts n f :
  (forall t, tname (f t) = tname t) -> map tname (upd_first ts n f) = map tname ts.
Proof.
  intros Hf. induction ts as [|t ts IH]; cbn; [reflexivity|].
  destruct (String.eqb (tname t) n); cbn; [rewrite Hf; reflexivity|rewrite IH; reflexivity].
Qed.

Lemma upd_first_In ts n f t :
  In t (upd_first ts n f) -> In t ts \/ exists t0, In t0 ts /\ t = f t0.
Proof.
  induction ts as [|t0 ts IH]; cbn; [tauto|].
  destruct (String.eqb (tname t0) n); cbn.
  - intros [<-|H]; [right; exists t0; auto|left; right; exact H].
  - intros [<-|H]; [left; left; reflexivity|].
    destruct (IH H) as [?|[t1 [? ?]]]; [left; right; assumption|right; exists t1; auto].
Qed.

Lemma upd_all_names ts n f :
  (forall t, tname (f t) = tname t) -> map tname (upd_all ts n f) = map tname ts.
Proof.
  intros Hf. unfold upd_all. rewrite map_map. apply map_ext.
  intros t. destruct (String.eqb (tname t) n); [apply Hf|reflexivity].
Qed.

Lemma upd_all_In ts n f t :
  In t (upd_all ts n f) -> In t ts \/ exists t0, In t0 ts /\ t = f t0.
Proof.
  unfold upd_all. rewrite in_map_iff. intros [t0 [<- Hin]].
  destruct (String.eqb (tname t0) n); [right; exists t0; auto|left; exact Hin].
Qed.

Lemma remove_first_In ts n t : In t (remove_first ts n) -> In t ts.
Proof.
  induction ts as [|t0 ts IH]; cbn; [tauto|].
  destruct (String.eqb (tname t0) n); [intros H; right; exact H|].
  intros [<-|H]; [left; reflexivity|right; apply IH; exact H].
Qed.

Lemma remove_first_names_NoDup ts n :
  NoDup (map tname ts) -> NoDup (map tname (remove_first ts n)).
Proof.
  induction ts as [|t0 ts IH]; cbn; intros H; [constructor|].
  inversion H as [|? ? Hn Hd]; subst.
  destruct (String.eqb (tname t0) n); [exact Hd|].
  cbn. constructor; [|apply IH; exact Hd].
  intros Hin. apply Hn. apply in_map_iff in Hin. destruct Hin as [t [<- Hin]].
  apply in_map. eapply remove_first_In; exact Hin.
Qed.

Lemma remove_first_absent ts n :
  (forall t, In t ts -> tname t <> n) -> remove_first ts n = ts.
Proof.
  induction ts as [|t0 ts IH]; cbn; intros H; [reflexivity|].
  destruct (String.eqb (tname t0) n) eqn:E.
  - apply String.eqb_eq in E. exfalso. exact (H t0 (or_introl eq_refl) E).
  - f_equal. apply IH. intros t Hin. apply H. right; exact Hin.
Qed.

Lemma wf_schema_upd s ts' :
  wf_schema s ->
  map tname ts' = map tname (types s) ->
  (forall t, In t ts' -> In t (types s) \/ exists t0, In t0 (types s) /\ tname t = tname t0 /\ (wf_type t0 -> wf_type t)) ->
  wf_schema (mkSchema ts').
Proof.
  intros [Hn Hw] Hnames Hin. split; cbn.
  - rewrite Hnames. exact Hn.
  - intros t Ht. destruct (Hin t Ht) as [H|[t0 [H0 [Hname Hwf]]]].
    + apply Hw. exact H.
    + destruct (Hw t0 H0). split; [rewrite Hname; assumption|auto].
Qed.

Lemma NoDup_snoc {A} (l : list A) x : NoDup l -> ~ In x l -> NoDup (l ++ [x]).
Proof.
  induction l as [|a l IH]; cbn; intros Hn Hx; [constructor; [tauto|constructor]|].
  inversion Hn as [|? ? Ha Hd]; subst. constructor.
  - rewrite in_app_iff. cbn. intros [H|[H|[]]]; [contradiction|]. apply Hx. left; symmetry; exact H.
  - apply IH; [exact Hd|]. intros H. apply Hx. right; exact H.
Qed.

(** * Every step preserves well-formedness *)
Definition op_ok (o : op) : Prop :=
  match o with OpAddType t => wf_type t | _ => True end.

Lemma step_wf s o : wf_schema s -> op_ok o -> wf_schema (snd (step s o)).
Proof.
  intros Hs Ho. destruct o as [t|n|n a|n an|n r|n rn|r]; cbn [step snd].
  - (* AddType *)
    unfold schema_add_type.
    destruct (String.eqb (tname t) "") eqn:E1; [exact Hs|].
    destruct (has_type s (tname t)) eqn:E2; [exact Hs|].
    cbn. destruct Hs as [Hn Hw]. split; cbn.
    + rewrite map_app. cbn. apply NoDup_snoc.
      * exact Hn.
      * intros Hin. apply in_map_iff in Hin. destruct Hin as [t0 [Hname Hin]].
        assert (has_type s (tname t) = true) by (apply has_type_iff; eauto). congruence.
    + intros t0 Hin. apply in_app_or in Hin. destruct Hin as [Hin|[<-|[]]]; [apply Hw; exact Hin|].
      split; [apply String.eqb_neq; exact E1|exact Ho].
  - (* RemoveType *)
    destruct Hs as [Hn Hw]. split; cbn.
    + apply remove_first_names_NoDup. exact Hn.
    + intros t Hin. apply Hw. eapply remove_first_In; exact Hin.
  - (* AddAttr *)
    unfold schema_add_attr. destruct (find_type (types s) n); [|exact Hs].
    destruct (type_check_attr t a); [|exact Hs]. cbn.
    apply (wf_schema_upd s); [exact Hs|apply upd_first_names; intros; apply type_add_attr_name|].
    intros t0 Hin. apply upd_first_In in Hin. destruct Hin as [H|[t1 [H1 ->]]]; [left; exact H|].
    right. exists t1. split; [exact H1|]. split; [apply type_add_attr_name|apply type_add_attr_wf].
  - (* RemoveAttr *)
    apply (wf_schema_upd s); [exact Hs|apply upd_all_names; intros; apply type_remove_attr_name|].
    intros t0 Hin. apply upd_all_In in Hin. destruct Hin as [H|[t1 [H1 ->]]]; [left; exact H|].
    right. exists t1. split; [exact H1|]. split; [apply type_remove_attr_name|apply type_remove_attr_wf].
  - (* AddRel *)
    unfold schema_add_rel. destruct (find_type (types s) n); [|exact Hs].
    destruct (type_check_rel t r); [|exact Hs]. cbn.
    apply (wf_schema_upd s); [exact Hs|apply upd_first_names; intros; apply type_add_rel_name|].
    intros t0 Hin. apply upd_first_In in Hin. destruct Hin as [H|[t1 [H1 ->]]]; [left; exact H|].
    right. exists t1. split; [exact H1|]. split; [apply type_add_rel_name|apply type_add_rel_wf].
  - (* RemoveRel *)
    apply (wf_schema_upd s); [exact Hs|apply upd_all_names; intros; apply type_remove_rel_name|].
    intros t0 Hin. apply upd_all_In in Hin. destruct Hin as [H|[t1 [H1 ->]]]; [left; exact H|].
    right. exists t1. split; [exact H1|]. split; [apply type_remove_rel_name|apply type_remove_rel_wf].
  - (* AddTwoWayRel *)
    unfold schema_add_two_way_rel. cbn zeta.
    set (rel1 := rel_normalize r). set (rel2 := rel_invert rel1).
    destruct (negb _); [exact Hs|]. destruct (negb _); [exact Hs|].
    destruct (find_type (types s) (from_type rel1)); [|exact Hs].
    destruct (find_type (types s) (from_type rel2)); [|exact Hs].
    destruct (_ && _); [exact Hs|]. cbn [snd].
    set (ts1 := upd_first (types s) (from_type rel1) _).
    assert (H1 : wf_schema (mkSchema ts1)).
    { apply (wf_schema_upd s); [exact Hs|apply upd_first_names; intros; apply type_add_rel_name|].
      intros t1 Hin. apply upd_first_In in Hin. destruct Hin as [H|[t2 [H2 ->]]]; [left; exact H|].
      right. exists t2. split; [exact H2|]. split; [apply type_add_rel_name|apply type_add_rel_wf]. }
    apply (wf_schema_upd (mkSchema ts1)); [exact H1|apply upd_first_names; intros; apply type_add_rel_name|].
    intros t1 Hin. apply upd_first_In in Hin. destruct Hin as [H|[t2 [H2 ->]]]; [left; exact H|].
    right. exists t2. split; [exact H2|]. split; [apply type_add_rel_name|apply type_add_rel_wf].
Qed.

Lemma wf_empty : wf_schema (mkSchema []).
Proof. split; cbn; [constructor|tauto]. Qed.

Lemma run_wf ops : forall s, wf_schema s -> Forall op_ok ops -> wf_schema (run s ops).
Proof.
  induction ops as [|o ops IH]; intros s Hs Ho; cbn; [exact Hs|].
  inversion Ho; subst. apply IH; [apply step_wf|]; assumption.
Qed.

(** * A failed edit changes nothing *)
Lemma step_atomic s o : fst (step s o) = false -> snd (step s o) = s.
Proof.
  destruct o as [t|n|n a|n an|n r|n rn|r]; cbn [step fst snd]; try discriminate.
  - unfold schema_add_type.
    destruct (String.eqb (tname t) ""); [reflexivity|].
    destruct (has_type s (tname t)); [reflexivity|discriminate].
  - unfold schema_add_attr. destruct (find_type (types s) n); [|reflexivity].
    destruct (type_check_attr t a); [discriminate|reflexivity].
  - unfold schema_add_rel. destruct (find_type (types s) n); [|reflexivity].
    destruct (type_check_rel t r); [discriminate|reflexivity].
  - unfold schema_add_two_way_rel. cbn zeta.
    destruct (negb _); [reflexivity|]. destruct (negb _); [reflexivity|].
    destruct (find_type _ _); [|reflexivity]. destruct (find_type _ _); [|reflexivity].
    destruct (_ && _); [reflexivity|discriminate].
Qed.

(** * Removing something absent is a no-op *)
Lemma schema_eta s : mkSchema (types s) = s.
Proof. destruct s; reflexivity. Qed.

Lemma type_eta t : mkType (tname t) (tattrs t) (trels t) = t.
Proof. destruct t; reflexivity. Qed.

Lemma remove_type_absent s n : has_type s n = false -> schema_remove_type s n = s.
Proof.
  intros H. unfold schema_remove_type. rewrite remove_first_absent; [apply schema_eta|].
  intros t Hin Hname. assert (has_type s n = true) by (apply has_type_iff; eauto). congruence.
Qed.

Lemma upd_all_id ts n f :
  (forall t, In t ts -> tname t = n -> f t = t) -> upd_all ts n f = ts.
Proof.
  intros H. unfold upd_all. rewrite <- (map_id ts) at 2. apply map_ext_in.
  intros t Hin. destruct (String.eqb (tname t) n) eqn:E; [|reflexivity].
  apply H; [exact Hin|apply String.eqb_eq; exact E].
Qed.

Lemma remove_attr_absent s n an :
  (forall t, In t (types s) -> tname t = n -> attr_name_used t an = false) ->
  schema_remove_attr s n an = s.
Proof.
  intros H. unfold schema_remove_attr. rewrite upd_all_id; [apply schema_eta|].
  intros t Hin Hn. unfold type_remove_attr. rewrite (H t Hin Hn). reflexivity.
Qed.

Lemma remove_rel_absent s n rn :
  (forall t, In t (types s) -> tname t = n -> rel_name_used t rn = false) ->
  schema_remove_rel s n rn = s.
Proof.
  intros H. unfold schema_remove_rel. rewrite upd_all_id; [apply schema_eta|].
  intros t Hin Hn. unfold type_remove_rel. rewrite (H t Hin Hn). reflexivity.
Qed.

(** * Two-way relationships *)
Lemma get_type_upd_first_same ts n f t :
  find_type ts n = Some t -> tname (f t) = n -> get_type_in (upd_first ts n f) n = f t.
Proof.
  induction ts as [|t0 ts IH]; cbn; [discriminate|].
  destruct (String.eqb (tname t0) n) eqn:E.
  - intros H Hn. injection H as ->. cbn. rewrite Hn, String.eqb_refl. reflexivity.
  - intros H Hn. cbn. rewrite E. apply IH; assumption.
Qed.

Lemma get_type_upd_first_other ts n f n' :
  (forall t, tname (f t) = tname t) -> n' <> n ->
  get_type_in (upd_first ts n f) n' = get_type_in ts n'.
Proof.
  intros Hf N. induction ts as [|t0 ts IH]; cbn; [reflexivity|].
  destruct (String.eqb (tname t0) n) eqn:E; cbn.
  - rewrite Hf. apply String.eqb_eq in E. rewrite E.
    apply not_eq_sym in N. apply String.eqb_neq in N. rewrite N. reflexivity.
  - destruct (String.eqb (tname t0) n'); [reflexivity|exact IH].
Qed.

Lemma find_type_upd_first_same ts n f t :
  find_type ts n = Some t -> tname (f t) = n -> find_type (upd_first ts n f) n = Some (f t).
Proof.
  induction ts as [|t0 ts IH]; cbn; [discriminate|].
  destruct (String.eqb (tname t0) n) eqn:E.
  - intros H Hn. injection H as ->. cbn. rewrite Hn, String.eqb_refl. reflexivity.
  - intros H Hn. cbn. rewrite E. apply IH; assumption.
Qed.

Lemma find_type_upd_first_other ts n f n' t :
  (forall t, tname (f t) = tname t) -> n' <> n ->
  find_type ts n' = Some t -> find_type (upd_first ts n f) n' = Some t.
Proof.
  intros Hf N. induction ts as [|t0 ts IH]; cbn; [discriminate|].
  destruct (String.eqb (tname t0) n) eqn:E; cbn.
  - rewrite Hf. apply String.eqb_eq in E. rewrite E.
    apply not_eq_sym in N. apply String.eqb_neq in N. rewrite N. tauto.
  - destruct (String.eqb (tname t0) n'); [tauto|exact IH].
Qed.

Lemma type_add_rel_ok t r :
  type_check_rel t r = true ->
  snd (type_add_rel t r) = mkType (tname t) (tattrs t) (map_set (from_name r) r (trels t)).
Proof. intros H. unfold type_add_rel. rewrite H. reflexivity. Qed.

Lemma rel_name_used_map_set t r n :
  rel_name_used (mkType (tname t) (tattrs t) (map_set (from_name r) r (trels t))) n = true ->
  wf_rels (trels t) ->
  n = from_name r \/ rel_name_used t n = true.
Proof.
  unfold rel_name_used. cbn. rewrite !existsb_exists. intros [[k r'] [Hin Heq]] [Hn _].
  cbn in Heq. apply String.eqb_eq in Heq.
  apply (map_set_In _ _ _ _ _ Hn) in Hin. destruct Hin as [[-> ->]|[_ Hin]].
  - left. symmetry. exact Heq.
  - right. exists (k, r'). split; [exact Hin|]. cbn. apply String.eqb_eq. exact Heq.
Qed.

(** Core: [rel1] and [rel2 = invert rel1] both pass their check and are not
    the same slot; afterwards each side holds its relationship. *)
Lemma two_way_core s rel1 t1 t2 :
  wf_schema s ->
  let rel2 := rel_invert rel1 in
  find_type (types s) (from_type rel1) = Some t1 ->
  find_type (types s) (from_type rel2) = Some t2 ->
  type_check_rel t1 rel1 = true ->
  type_check_rel t2 rel2 = true ->
  ~ (from_type rel1 = from_type rel2 /\ from_name rel1 = from_name rel2) ->
  let ts2 := upd_first (upd_first (types s) (from_type rel1) (fun t => snd (type_add_rel t rel1)))
                       (from_type rel2) (fun t => snd (type_add_rel t rel2)) in
  lookup (from_name rel1) (trels (get_type_in ts2 (from_type rel1))) = Some rel1 /\
  lookup (from_name rel2) (trels (get_type_in ts2 (from_type rel2))) = Some rel2.
Proof.
  intros Hs rel2 F1 F2 C1 C2 Hns ts2.
  pose proof (find_type_Some _ _ _ F1) as [In1 N1].
  pose proof (find_type_Some _ _ _ F2) as [In2 N2].
  destruct Hs as [Hnd Hw].
  destruct (Hw _ In1) as [_ [_ Hwr1]]. destruct (Hw _ In2) as [_ [_ Hwr2]].
  set (f1 := fun t => snd (type_add_rel t rel1)) in *.
  set (f2 := fun t => snd (type_add_rel t rel2)) in *.
  assert (Hf1 : forall t, tname (f1 t) = tname t) by (intros; apply type_add_rel_name).
  assert (Hf2 : forall t, tname (f2 t) = tname t) by (intros; apply type_add_rel_name).
  destruct (String.eqb_spec (from_type rel1) (from_type rel2)) as [Eq|Ne].
  - (* same type *)
    assert (t2 = t1) by congruence. subst t2.
    assert (Hnn : from_name rel1 <> from_name rel2) by tauto.
    assert (F1' : find_type (upd_first (types s) (from_type rel1) f1) (from_type rel2) = Some (f1 t1)).
    { rewrite <- Eq. apply find_type_upd_first_same; [exact F1|rewrite Hf1; exact N1]. }
    assert (G : get_type_in ts2 (from_type rel2) = f2 (f1 t1)).
    { apply get_type_upd_first_same; [exact F1'|rewrite Hf2, Hf1, <- Eq; exact N1]. }
    assert (C2' : type_check_rel (f1 t1) rel2 = true).
    { unfold f1. rewrite (type_add_rel_ok _ _ C1).
      unfold type_check_rel in C2 |- *. apply andb_true_iff in C2. destruct C2 as [C2a C2b].
      rewrite C2a. cbn [andb].
      match goal with |- negb ?x = true => destruct x eqn:U; [|reflexivity] end.
      apply rel_name_used_map_set in U; [|exact Hwr1].
      destruct U as [U|U]; [congruence|].
      rewrite U in C2b. discriminate. }
    rewrite Eq at 1. rewrite G.
    unfold f2. rewrite (type_add_rel_ok _ _ C2'). cbn [trels].
    unfold f1. rewrite (type_add_rel_ok _ _ C1). cbn [trels].
    split.
    + rewrite lookup_map_set_other by exact Hnn. apply lookup_map_set_same.
    + apply lookup_map_set_same.
  - (* different types *)
    assert (G1 : get_type_in ts2 (from_type rel1) = f1 t1).
    { unfold ts2. rewrite get_type_upd_first_other; [|exact Hf2|exact Ne].
      apply get_type_upd_first_same; [exact F1|rewrite Hf1; exact N1]. }
    assert (F2' : find_type (upd_first (types s) (from_type rel1) f1) (from_type rel2) = Some t2).
    { apply find_type_upd_first_other; [exact Hf1|apply not_eq_sym; exact Ne|exact F2]. }
    assert (G2 : get_type_in ts2 (from_type rel2) = f2 t2).
    { apply get_type_upd_first_same; [exact F2'|rewrite Hf2; exact N2]. }
    rewrite G1, G2. unfold f1, f2.
    rewrite (type_add_rel_ok _ _ C1), (type_add_rel_ok _ _ C2). cbn [trels].
    split; apply lookup_map_set_same.
Qed.

Lemma add_two_way_unfold s r t1 t2 :
  let rel1 := rel_normalize r in
  let rel2 := rel_invert rel1 in
  find_type (types s) (from_type rel1) = Some t1 ->
  find_type (types s) (from_type rel2) = Some t2 ->
  type_check_rel t1 rel1 = true ->
  type_check_rel t2 rel2 = true ->
  ~ (from_type rel1 = from_type rel2 /\ from_name rel1 = from_name rel2) ->
  schema_add_two_way_rel s r =
  (true, mkSchema (upd_first (upd_first (types s) (from_type rel1) (fun t => snd (type_add_rel t rel1)))
                             (from_type rel2) (fun t => snd (type_add_rel t rel2)))).
Proof.
  intros rel1 rel2 F1 F2 C1 C2 Hns. unfold schema_add_two_way_rel. cbn zeta.
  fold rel1. fold rel2. rewrite F1, F2, C1, C2. cbn [negb].
  destruct (String.eqb_spec (from_type rel1) (from_type rel2)) as [E1|N1]; cbn [andb]; [|reflexivity].
  destruct (String.eqb_spec (from_name rel1) (from_name rel2)) as [E2|N2]; [tauto|reflexivity].
Qed.

Definition names_free_for (s : schema) (r : rel) (ta tb : type) : Prop :=
  find_type (types s) (from_type r) = Some ta /\
  find_type (types s) (to_type r) = Some tb /\
  from_name r <> "" /\ to_name r <> "" /\
  rel_name_used ta (from_name r) = false /\
  rel_name_used tb (to_name r) = false /\
  ~ (from_type r = to_type r /\ from_name r = to_name r).

Lemma check_rel_intro t r :
  from_name r <> "" -> to_type r <> "" -> rel_name_used t (from_name r) = false ->
  type_check_rel t r = true.
Proof.
  intros H1 H2 H3. unfold type_check_rel.
  apply String.eqb_neq in H1, H2. rewrite H1, H2, H3. reflexivity.
Qed.

Lemma two_way_ok s r ta tb :
  wf_schema s -> names_free_for s r ta tb ->
  exists s', step s (OpAddTwoWayRel r) = (true, s') /\ wf_schema s' /\
    lookup (from_name r) (trels (get_type s' (from_type r))) = Some r /\
    lookup (to_name r) (trels (get_type s' (to_type r))) = Some (rel_invert r).
Proof.
  intros Hs [Fa [Fb [Hfn [Htn [Ua [Ub Hns]]]]]].
  pose proof (find_type_Some _ _ _ Fa) as [Ina Na].
  pose proof (find_type_Some _ _ _ Fb) as [Inb Nb].
  destruct Hs as [Hnd Hw].
  destruct (Hw _ Ina) as [Nea _]. destruct (Hw _ Inb) as [Neb _].
  assert (Hs : wf_schema s) by (split; assumption).
  assert (Hft : from_type r <> "") by congruence.
  assert (Htt : to_type r <> "") by congruence.
  assert (Hwf' : wf_schema (snd (step s (OpAddTwoWayRel r)))) by (apply step_wf; [exact Hs|exact I]).
  cbn [step]. cbn [step] in Hwf'.
  destruct (normalize_either r) as [E|E].
  - (* kept: rel1 = r *)
    assert (U := add_two_way_unfold s r ta tb). cbn zeta in U. rewrite E in U.
    assert (U' := two_way_core s r ta tb Hs). cbn zeta in U'.
    destruct r as [ft fn o1 tt tn o2]; cbn in *.
    rewrite U in *; try assumption; try (apply check_rel_intro; cbn; assumption).
    eexists. split; [reflexivity|]. split; [exact Hwf'|].
    apply U'; try assumption; apply check_rel_intro; cbn; assumption.
  - (* inverted: rel1 = invert r, rel2 = r *)
    assert (U := add_two_way_unfold s r tb ta). cbn zeta in U. rewrite E in U.
    assert (U' := two_way_core s (rel_invert r) tb ta Hs). cbn zeta in U'.
    destruct r as [ft fn o1 tt tn o2]; cbn in *.
    assert (Hns' : ~ (tt = ft /\ tn = fn)) by (intros [-> ->]; tauto).
    rewrite U in *; try assumption; try (apply check_rel_intro; cbn; assumption).
    eexists. split; [reflexivity|]. split; [exact Hwf'|].
    unfold get_type. cbn [types].
    apply and_comm. apply U'; try assumption; apply check_rel_intro; cbn; assumption.
Qed.
