(* C16: laws of Invert / Normalize / String (generated from type.go) and of
   Schema.Rels. *)
From Coq Require Import Lia Permutation Sorted.
From JV Require Import Model.Base Gen.TypeGo Gen.SchemaGo Model.Schema Model.C16
  Proofs.BaseFacts.

(** * Invert *)
Lemma invert_involutive r : rel_invert (rel_invert r) = r.
Proof. destruct r; reflexivity. Qed.

(** * Normalize: characterisation independent of the generated text *)
Definition keeps (r : rel) : bool :=
  String.eqb (to_name r) ""
  || String.ltb (from_type r) (to_type r)
  || (String.eqb (from_type r) (to_type r)
      && negb (String.ltb (to_name r) (from_name r))).

Lemma normalize_spec r :
  rel_normalize r = if keeps r then r else rel_invert r.
Proof.
  unfold rel_normalize, keeps. rewrite sle_not_lt.
  destruct (String.eqb (to_name r) ""); cbn; [reflexivity|].
  destruct (String.ltb (from_type r) (to_type r)); cbn; [reflexivity|].
  destruct (String.eqb (from_type r) (to_type r)); cbn; reflexivity.
Qed.

Lemma normalize_either r : rel_normalize r = r \/ rel_normalize r = rel_invert r.
Proof. rewrite normalize_spec. destruct (keeps r); auto. Qed.

Lemma normalize_oneway r : to_name r = "" -> rel_normalize r = r.
Proof.
  intros H. rewrite normalize_spec. unfold keeps. rewrite H. reflexivity.
Qed.

(** When [r] is not kept, its inverse is. *)
Lemma keeps_invert r : keeps r = false -> keeps (rel_invert r) = true.
Proof.
  unfold keeps. destruct r as [ft fn t1 tt tn f1]; cbn.
  destruct (String.eqb tn "") eqn:E0; cbn; [discriminate|].
  destruct (String.ltb ft tt) eqn:E1; cbn; [discriminate|].
  intros H.
  destruct (String.eqb fn ""); cbn; [reflexivity|].
  destruct (slt_total ft tt) as [C|[->|C]].
  - congruence.
  - rewrite String.eqb_refl in *. cbn in *.
    rewrite slt_irrefl. cbn.
    destruct (String.ltb tn fn) eqn:E2; cbn in H; [|discriminate].
    rewrite (slt_asym _ _ E2). reflexivity.
  - rewrite C. reflexivity.
Qed.

Lemma normalize_idempotent r : rel_normalize (rel_normalize r) = rel_normalize r.
Proof.
  rewrite (normalize_spec r). destruct (keeps r) eqn:K.
  - rewrite normalize_spec, K. reflexivity.
  - rewrite normalize_spec, (keeps_invert r K). reflexivity.
Qed.

(** A relationship that is its own inverse up to cardinalities: same type and
    same name on both ends but different cardinalities.  No schema can hold
    such a value coherently; it is the only exception to [normalize_pair]. *)
Definition degenerate (r : rel) : Prop :=
  from_type r = to_type r /\ from_name r = to_name r /\ to_one r <> from_one r.

Definition two_way (r : rel) : Prop := from_name r <> "" /\ to_name r <> "".

Lemma normalize_pair r :
  two_way r -> ~ degenerate r -> rel_normalize r = rel_normalize (rel_invert r).
Proof.
  intros [Hf Ht] Hd.
  rewrite (normalize_spec r), (normalize_spec (rel_invert r)).
  destruct (keeps r) eqn:K.
  - destruct (keeps (rel_invert r)) eqn:K'; [|rewrite invert_involutive; reflexivity].
    (* both kept: only possible when the ends coincide *)
    revert K K'. unfold keeps, degenerate in *.
    destruct r as [ft fn t1 tt tn f1]; cbn in *.
    apply String.eqb_neq in Hf, Ht. rewrite Hf, Ht. cbn.
    destruct (slt_total ft tt) as [C|[->|C]].
    + rewrite C, (slt_asym _ _ C). cbn.
      destruct (String.eqb tt ft) eqn:E; cbn; [|discriminate].
      apply String.eqb_eq in E. subst. rewrite slt_irrefl in C. discriminate.
    + rewrite slt_irrefl, String.eqb_refl. cbn.
      destruct (slt_total fn tn) as [D|[->|D]].
      * rewrite D, (slt_asym _ _ D). cbn. discriminate.
      * intros _ _. destruct (Bool.bool_dec t1 f1) as [->|N]; [reflexivity|].
        exfalso. apply Hd. auto.
      * rewrite D. cbn. discriminate.
    + rewrite C, (slt_asym _ _ C). cbn.
      destruct (String.eqb ft tt) eqn:E; cbn; [|discriminate].
      apply String.eqb_eq in E. subst. rewrite slt_irrefl in C. discriminate.
  - rewrite (keeps_invert r K). reflexivity.
Qed.

(** [rel_string] only looks at the normal form. *)
Definition string_of_normal (n : rel) : string :=
  if negb (String.eqb (to_name n) "")
  then (((from_type n ++ "_") ++ from_name n) ++ ((("_" ++ to_type n) ++ "_") ++ to_name n))
  else ((from_type n ++ "_") ++ from_name n).

Lemma rel_string_spec r : rel_string r = string_of_normal (rel_normalize r).
Proof.
  unfold rel_string, string_of_normal.
  destruct (negb (String.eqb (to_name (rel_normalize r)) "")); reflexivity.
Qed.

Lemma string_pair r :
  two_way r -> ~ degenerate r -> rel_string r = rel_string (rel_invert r).
Proof.
  intros H1 H2. rewrite !rel_string_spec, (normalize_pair r H1 H2). reflexivity.
Qed.

(** * relLess (generated from schema.go) is a strict total order *)
Lemma rel_eqb_eq a b : rel_eqb a b = true <-> a = b.
Proof.
  unfold rel_eqb. destruct a, b; cbn.
  rewrite !andb_true_iff, !String.eqb_eq, !Bool.eqb_true_iff.
  split; [intros [[[[[-> ->] ->] ->] ->] ->]; reflexivity|].
  intros H; inversion H; subst; tauto.
Qed.

Definition bool_lt (a b : bool) : bool := negb a && b.

Lemma rel_less_spec a b :
  rel_less a b =
  if negb (String.eqb (from_type a) (from_type b)) then String.ltb (from_type a) (from_type b)
  else if negb (String.eqb (from_name a) (from_name b)) then String.ltb (from_name a) (from_name b)
  else if negb (String.eqb (to_type a) (to_type b)) then String.ltb (to_type a) (to_type b)
  else if negb (String.eqb (to_name a) (to_name b)) then String.ltb (to_name a) (to_name b)
  else if negb (Bool.eqb (to_one a) (to_one b)) then bool_lt (to_one a) (to_one b)
  else bool_lt (from_one a) (from_one b).
Proof.
  unfold rel_less, bool_lt.
  destruct (String.eqb (from_type a) (from_type b)); cbn; [|reflexivity].
  destruct (String.eqb (from_name a) (from_name b)); cbn; [|reflexivity].
  destruct (String.eqb (to_type a) (to_type b)); cbn; [|reflexivity].
  destruct (String.eqb (to_name a) (to_name b)); cbn; [|reflexivity].
  destruct (to_one a), (to_one b), (from_one a), (from_one b); reflexivity.
Qed.

Ltac str_cases x y :=
  let C := fresh "C" in
  destruct (slt_total x y) as [C|[C|C]];
  [ pose proof (slt_asym _ _ C); pose proof (slt_neq _ _ C)
  | subst
  | pose proof (slt_asym _ _ C); pose proof (slt_neq _ _ C) ].

Lemma rel_less_irrefl a : rel_less a a = false.
Proof.
  rewrite rel_less_spec. rewrite !String.eqb_refl, !Bool.eqb_reflx. cbn.
  unfold bool_lt. destruct (from_one a); reflexivity.
Qed.

Lemma rel_less_total a b : rel_less a b = true \/ a = b \/ rel_less b a = true.
Proof.
  rewrite !rel_less_spec. destruct a as [a1 a2 a3 a4 a5 a6], b as [b1 b2 b3 b4 b5 b6]; cbn.
  destruct (slt_total a1 b1) as [C|[->|C]].
  { left. rewrite C. rewrite (proj2 (String.eqb_neq _ _) (slt_neq _ _ C)). reflexivity. }
  2:{ right; right. rewrite C. rewrite (proj2 (String.eqb_neq _ _) (slt_neq _ _ C)). reflexivity. }
  rewrite !String.eqb_refl; cbn.
  destruct (slt_total a2 b2) as [C|[->|C]].
  { left. rewrite C. rewrite (proj2 (String.eqb_neq _ _) (slt_neq _ _ C)). reflexivity. }
  2:{ right; right. rewrite C. rewrite (proj2 (String.eqb_neq _ _) (slt_neq _ _ C)). reflexivity. }
  rewrite !String.eqb_refl; cbn.
  destruct (slt_total a4 b4) as [C|[->|C]].
  { left. rewrite C. rewrite (proj2 (String.eqb_neq _ _) (slt_neq _ _ C)). reflexivity. }
  2:{ right; right. rewrite C. rewrite (proj2 (String.eqb_neq _ _) (slt_neq _ _ C)). reflexivity. }
  rewrite !String.eqb_refl; cbn.
  destruct (slt_total a5 b5) as [C|[->|C]].
  { left. rewrite C. rewrite (proj2 (String.eqb_neq _ _) (slt_neq _ _ C)). reflexivity. }
  2:{ right; right. rewrite C. rewrite (proj2 (String.eqb_neq _ _) (slt_neq _ _ C)). reflexivity. }
  rewrite !String.eqb_refl; cbn.
  unfold bool_lt. destruct a3, b3, a6, b6; cbn; auto.
Qed.

(** Lexicographic key used to prove transitivity. *)
Lemma rel_less_trans a b c :
  rel_less a b = true -> rel_less b c = true -> rel_less a c = true.
Proof.
  rewrite !rel_less_spec.
  destruct a as [a1 a2 a3 a4 a5 a6], b as [b1 b2 b3 b4 b5 b6], c as [c1 c2 c3 c4 c5 c6]; cbn.
  Local Ltac step x y z :=
    destruct (String.eqb x y) eqn:?E1; cbn;
    [ apply String.eqb_eq in E1; subst;
      destruct (String.eqb y z) eqn:?E2; cbn;
      [ apply String.eqb_eq in E2; subst
      | intros _ H; exact H ]
    | intros H1;
      destruct (String.eqb y z) eqn:?E2; cbn;
      [ apply String.eqb_eq in E2; subst; intros _; rewrite E1; cbn; exact H1
      | intros H2; pose proof (slt_trans _ _ _ H1 H2) as H3;
        rewrite (proj2 (String.eqb_neq _ _) (slt_neq _ _ H3)); cbn; exact H3 ] ].
  step a1 b1 c1. rewrite ?String.eqb_refl; cbn.
  step a2 b2 c2. rewrite ?String.eqb_refl; cbn.
  step a4 b4 c4. rewrite ?String.eqb_refl; cbn.
  step a5 b5 c5. rewrite ?String.eqb_refl; cbn.
  unfold bool_lt. destruct a3, b3, c3, a6, b6, c6; cbn; congruence.
Qed.

(** * Schema.Rels *)
Lemma rel_mem_In r l : rel_mem r l = true <-> In r l.
Proof.
  induction l as [|x xs IH]; cbn; [split; [discriminate|tauto]|].
  rewrite orb_true_iff, IH, rel_eqb_eq. split; intros [H|H]; auto.
Qed.

Lemma dedupe_In r l : In r (dedupe l) <-> In r l.
Proof.
  induction l as [|x xs IH]; cbn; [tauto|].
  destruct (rel_mem x xs) eqn:E.
  - rewrite IH. apply rel_mem_In in E. split; [auto|]. intros [->|H]; auto.
  - cbn. rewrite IH. tauto.
Qed.

Lemma dedupe_NoDup l : NoDup (dedupe l).
Proof.
  induction l as [|x xs IH]; cbn; [constructor|].
  destruct (rel_mem x xs) eqn:E; [exact IH|].
  constructor; [|exact IH]. rewrite dedupe_In. intros H.
  apply rel_mem_In in H. congruence.
Qed.

Lemma schema_rels_In s r : In r (schema_rels s) <-> In r (norm_rels s).
Proof.
  unfold schema_rels. rewrite <- (dedupe_In r (norm_rels s)).
  split; apply Permutation_in; [|symmetry]; apply isort_perm.
Qed.

Lemma schema_rels_NoDup s : NoDup (schema_rels s).
Proof.
  unfold schema_rels. eapply Permutation_NoDup; [symmetry; apply isort_perm|].
  apply dedupe_NoDup.
Qed.

Lemma schema_rels_sorted s :
  StronglySorted (fun a b => rel_less b a = false) (schema_rels s).
Proof.
  unfold schema_rels.
  apply (isort_sorted rel_less rel_less_irrefl rel_less_trans rel_less_total).
Qed.

Lemma NoDup_same_elements_perm (l1 l2 : list rel) :
  NoDup l1 -> NoDup l2 -> (forall x, In x l1 <-> In x l2) -> Permutation l1 l2.
Proof. intros. apply NoDup_Permutation; assumption. Qed.

(** The list only depends on the *set* of normalized relationships. *)
Lemma schema_rels_set s s' :
  (forall r, In r (norm_rels s) <-> In r (norm_rels s')) ->
  schema_rels s = schema_rels s'.
Proof.
  intros H. unfold schema_rels.
  apply (isort_perm_eq rel_less rel_less_irrefl rel_less_trans rel_less_total).
  apply NoDup_Permutation; try apply dedupe_NoDup.
  intros r. rewrite !dedupe_In. apply H.
Qed.

(** Order of the types and order inside each type's relationship map (the Go
    map iteration order) are irrelevant. *)
Inductive same_types : list type -> list type -> Prop :=
| st_nil : same_types [] []
| st_cons t t' l l' :
    tname t = tname t' -> Permutation (trels t) (trels t') ->
    same_types l l' -> same_types (t :: l) (t' :: l').

Lemma norm_rels_app ts1 ts2 :
  norm_rels (mkSchema (ts1 ++ ts2)) = (norm_rels (mkSchema ts1) ++ norm_rels (mkSchema ts2))%list.
Proof. unfold norm_rels; cbn. apply flat_map_app. Qed.

Lemma norm_rels_perm ts ts' :
  Permutation ts ts' -> Permutation (norm_rels (mkSchema ts)) (norm_rels (mkSchema ts')).
Proof.
  unfold norm_rels; cbn. induction 1; cbn.
  - constructor.
  - apply Permutation_app_head. assumption.
  - rewrite !app_assoc. apply Permutation_app_tail. apply Permutation_app_comm.
  - etransitivity; eassumption.
Qed.

Lemma norm_rels_same ts ts' :
  same_types ts ts' -> Permutation (norm_rels (mkSchema ts)) (norm_rels (mkSchema ts')).
Proof.
  unfold norm_rels; cbn. induction 1 as [|t t' l l' _ Hp _ IH]; cbn; [constructor|].
  apply Permutation_app; [|exact IH].
  apply Permutation_map. exact Hp.
Qed.

Lemma schema_rels_order_independent ts ts1 ts2 :
  Permutation ts ts1 -> same_types ts1 ts2 ->
  schema_rels (mkSchema ts) = schema_rels (mkSchema ts2).
Proof.
  intros H1 H2. apply schema_rels_set. intros r.
  assert (Hp : Permutation (norm_rels (mkSchema ts)) (norm_rels (mkSchema ts2))).
  { etransitivity; [apply norm_rels_perm; exact H1|apply norm_rels_same; exact H2]. }
  split; apply Permutation_in; [exact Hp|symmetry; exact Hp].
Qed.

(** Owned relationships and the "once" statements. *)
Definition owns (s : schema) (r : rel) : Prop :=
  exists t k, In t (types s) /\ In (k, r) (trels t).

Lemma norm_rels_owns s n : In n (norm_rels s) <-> exists r, owns s r /\ n = rel_normalize r.
Proof.
  unfold norm_rels, owns. rewrite in_flat_map. split.
  - intros [t [Ht Hin]]. apply in_map_iff in Hin. destruct Hin as [[k r] [<- Hin]].
    exists r. split; [exists t, k; auto|reflexivity].
  - intros [r [[t [k [Ht Hin]]] ->]]. exists t. split; [exact Ht|].
    apply in_map_iff. exists (k, r). auto.
Qed.

Lemma count_occ_NoDup_In (l : list rel) (dec : forall a b : rel, {a = b} + {a <> b}) x :
  NoDup l -> In x l -> count_occ dec l x = 1.
Proof.
  intros Hn Hi. pose proof (proj1 (NoDup_count_occ dec l) Hn x) as Hle.
  pose proof (proj1 (count_occ_In dec l x) Hi). lia.
Qed.

Definition rel_dec (a b : rel) : {a = b} + {a <> b}.
Proof.
  destruct (rel_eqb a b) eqn:E; [left; apply rel_eqb_eq; exact E|].
  right; intros ->. assert (H : rel_eqb b b = true) by (apply rel_eqb_eq; reflexivity).
  congruence.
Defined.

Lemma schema_rels_lists_once s r :
  owns s r -> count_occ rel_dec (schema_rels s) (rel_normalize r) = 1.
Proof.
  intros H. apply count_occ_NoDup_In; [apply schema_rels_NoDup|].
  apply schema_rels_In. apply norm_rels_owns. exists r. auto.
Qed.

(** Two owned relationships with non-empty names share an entry only when
    they are equal or inverse of each other. *)
Lemma normalize_injective_up_to_inverse r1 r2 :
  rel_normalize r1 = rel_normalize r2 -> r1 = r2 \/ r1 = rel_invert r2 .
Proof.
  intros H.
  destruct (normalize_either r1) as [E1|E1], (normalize_either r2) as [E2|E2];
    rewrite E1, E2 in H.
  - auto.
  - auto.
  - right. rewrite <- (invert_involutive r1), H. reflexivity.
  - left. rewrite <- (invert_involutive r1), H, invert_involutive. reflexivity.
Qed.
