(* C12: threads that only read the shared state cannot conflict, leave it
   unchanged and compute what they would compute alone -- under every
   schedule. *)
From Coq Require Import Lia.
From JV Require Import Model.Base Model.Shared.
Open Scope list_scope.

Section Facts.
  Context {St Rs : Type}.

  Definition read_only (o : @sop St Rs) : Prop := forall s, snd (fst (o s)) = s /\ snd (o s) = false.

  Lemma reader_read_only (f : St -> Rs) : read_only (reader f).
  Proof. intros s. split; reflexivity. Qed.

  Definition all_read_only (threads : list (list (@sop St Rs))) : Prop :=
    Forall (Forall read_only) threads.

  Lemma take_step_read_only tid : forall threads o threads',
    all_read_only threads -> take_step tid threads = Some (o, threads') ->
    read_only o /\ all_read_only threads'.
  Proof.
    induction tid as [|n IH]; intros [|t others] o threads' Hall; cbn; try discriminate.
    - destruct t as [|o0 rest]; [discriminate|]. intros H; injection H as <- <-.
      inversion Hall as [|? ? Ht Ho]; subst. inversion Ht; subst.
      split; [assumption|constructor; assumption].
    - inversion Hall as [|? ? Ht Ho]; subst.
      destruct (take_step n others) as [[o1 others1]|] eqn:E; [|discriminate].
      intros H; injection H as <- <-. destruct (IH _ _ _ Ho E) as [H1 H2].
      split; [exact H1|constructor; assumption].
  Qed.

  (** every result in the trace is the result of its operation on [s0] *)
  Definition results_on (s0 : St) (threads0 : list (list (@sop St Rs))) (res : list (nat * Rs)) : Prop :=
    forall tid r, In (tid, r) res ->
      exists o, In o (nth tid threads0 []) /\ r = fst (fst (o s0)).

  Lemma take_step_In tid : forall (threads : list (list (@sop St Rs))) o threads',
    take_step tid threads = Some (o, threads') ->
    In o (nth tid threads []) /\
    forall tid' x, In x (nth tid' threads' []) -> In x (nth tid' threads []).
  Proof.
    induction tid as [|n IH]; intros [|t others] o threads'; cbn; try discriminate.
    - destruct t as [|o0 rest]; [discriminate|]. intros H; injection H as <- <-.
      split; [left; reflexivity|]. intros [|tid'] x; cbn; [right; assumption|auto].
    - destruct (take_step n others) as [[o1 others1]|] eqn:E; [|discriminate].
      intros H; injection H as <- <-. destruct (IH _ _ _ E) as [H1 H2].
      split; [exact H1|]. intros [|tid'] x; cbn; [auto|apply H2].
  Qed.

  Theorem read_only_schedule sched : forall threads t threads0,
    all_read_only threads ->
    (forall tid x, In x (nth tid threads []) -> In x (nth tid threads0 [])) ->
    results_on (tr_state t) threads0 (tr_results t) ->
    let t' := run_schedule sched threads t in
    tr_state t' = tr_state t /\ tr_writes t' = tr_writes t /\
    results_on (tr_state t) threads0 (tr_results t').
  Proof.
    induction sched as [|tid sched IH]; intros threads t threads0 Hall Hsub Hres; cbn.
    - auto.
    - destruct (take_step tid threads) as [[o threads']|] eqn:E; [|apply IH; assumption].
      destruct (take_step_read_only _ _ _ _ Hall E) as [Hro Hall'].
      destruct (take_step_In _ _ _ _ E) as [Hin Hsub'].
      destruct (o (tr_state t)) as [[r s'] w] eqn:Eo.
      pose proof (Hro (tr_state t)) as [Hs Hw]. rewrite Eo in Hs, Hw. cbn in Hs, Hw. subst s' w.
      specialize (IH threads' (mkTrace (tr_state t) ((tid, r) :: tr_results t) (tr_writes t)) threads0 Hall').
      cbn in IH. apply IH.
      + intros tid' x Hx. apply Hsub. apply Hsub'. exact Hx.
      + intros tid' r' [Heq|Hold].
        * injection Heq as <- <-. exists o. split; [apply Hsub; exact Hin|].
          rewrite Eo. reflexivity.
        * apply Hres. exact Hold.
  Qed.
End Facts.

(** * The static half: soundness of the closure check over the effect table *)
From JV Require Import Model.Effects.

Lemma enode_eqb_eq a b : enode_eqb a b = true <-> a = b.
Proof.
  destruct a as [f x], b as [g y]. unfold enode_eqb. cbn.
  rewrite Bool.andb_true_iff, String.eqb_eq, Bool.eqb_true_iff.
  split; [intros [-> ->]; reflexivity|intros H; injection H as -> ->; auto].
Qed.

Lemma mem_node_In n l : mem_node n l = true <-> In n l.
Proof.
  unfold mem_node. rewrite existsb_exists. split.
  - intros [m [Hin He]]. apply enode_eqb_eq in He. subst. exact Hin.
  - intros Hin. exists n. split; [exact Hin|apply enode_eqb_eq; reflexivity].
Qed.

Inductive reachable (tbl : fn_table) (a : enode) : enode -> Prop :=
| reach_refl : reachable tbl a a
| reach_step b c : reachable tbl a b -> In c (node_succs tbl b) -> reachable tbl a c.

Lemma closed_sound tbl roots v :
  closed_set tbl roots v = true ->
  forall f n, In f roots -> reachable tbl (f, false) n -> In n v.
Proof.
  unfold closed_set. rewrite Bool.andb_true_iff, !forallb_forall. intros [Hr Hc] f n Hf Hreach.
  induction Hreach as [|b c _ IH Hin].
  - apply mem_node_In. apply Hr. exact Hf.
  - specialize (Hc b IH). rewrite forallb_forall in Hc. apply mem_node_In. apply Hc. exact Hin.
Qed.

Lemma set_writes_In tbl v n w : In n v -> In w (node_writes tbl n) -> In (fst n, w) (set_writes tbl v).
Proof.
  intros Hn Hw. unfold set_writes. apply in_concat.
  exists (map (fun w0 => (fst n, w0)) (node_writes tbl n)). split.
  - apply in_map_iff. exists n. auto.
  - apply in_map_iff. exists w. auto.
Qed.

Lemma pair_eqb_eq a b : pair_eqb a b = true <-> a = b.
Proof.
  destruct a as [f x], b as [g y]. unfold pair_eqb. cbn.
  rewrite Bool.andb_true_iff, !String.eqb_eq.
  split; [intros [-> ->]; reflexivity|intros H; injection H as -> ->; auto].
Qed.

(** whatever a listed operation can reach writes nothing but the tolerated
    initialisations *)
Theorem c12_static_sound tbl :
  c12_static tbl = true ->
  forall f n w, In f c12_roots -> reachable tbl (f, false) n -> In w (node_writes tbl n) ->
  In (fst n, w) c12_tolerated.
Proof.
  unfold c12_static. rewrite !Bool.andb_true_iff. intros [[_ Hc] Hu] f n w Hf Hreach Hw.
  pose proof (closed_sound _ _ _ Hc f n Hf Hreach) as Hn.
  pose proof (set_writes_In tbl _ n w Hn Hw) as Hin.
  destruct (untolerated (set_writes tbl (reach_set tbl c12_roots))) as [|x l] eqn:E; [|discriminate].
  destruct (existsb (pair_eqb (fst n, w)) c12_tolerated) eqn:Et.
  - apply existsb_exists in Et. destruct Et as [t [Ht He]]. apply pair_eqb_eq in He. rewrite He. exact Ht.
  - exfalso. assert (Hf' : In (fst n, w) (untolerated (set_writes tbl (reach_set tbl c12_roots)))).
    { unfold untolerated. apply filter_In. split; [exact Hin|]. rewrite Et. reflexivity. }
    rewrite E in Hf'. exact Hf'.
Qed.

(** * Instances *)
From JV Require Import Model.Schema Model.C12 Gen.EffectsGo.

Lemma c12_static_holds : c12_static fn_effects = true.
Proof. vm_compute. reflexivity. Qed.

Lemma read_only_threads (St Rs : Type) (sched : list nat) (threads : list (list (@sop St Rs))) (s0 : St) :
  all_read_only threads ->
  let t' := run_schedule sched threads (mkTrace s0 [] 0) in
  tr_state t' = s0 /\ tr_writes t' = 0 /\
  (forall tid r, In (tid, r) (tr_results t') ->
     exists o, In o (nth tid threads []) /\ r = fst (fst (o s0))).
Proof.
  intros Hall.
  destruct (read_only_schedule sched threads (mkTrace s0 [] 0) threads Hall) as [H1 [H2 H3]].
  - auto.
  - intros tid r [].
  - cbn in *. auto.
Qed.

Lemma queries_read_only (threads : list (list qop)) : all_read_only (map (map q_sop) threads).
Proof.
  unfold all_read_only. apply Forall_forall. intros l Hl. apply in_map_iff in Hl.
  destruct Hl as [ops [<- _]]. apply Forall_forall. intros o Ho. apply in_map_iff in Ho.
  destruct Ho as [q [<- _]]. apply reader_read_only.
Qed.

Lemma c12_example_holds :
  let s := mkSchema [mkType "a" [] []] in
  run_c12 s [[QHas "a"; QRels]; [QHas "b"]] [0; 1; 0]%Z =
  OL [OL [OL [OB true; OL []]; OL [OB false]]; OL [OC "type" [OS "a"; OL []; OL []]]; OZ 0].
Proof. vm_compute. reflexivity. Qed.
