(* C18, type level: edits of one resource's type never reach the other's. *)
From Coq Require Import Lia.
From JV Require Import Model.Base Model.GoTime Gen.TypeGo Model.Schema Model.Value Model.SoftRes
  Model.TypeHeap.
Open Scope list_scope.

Lemma tupdate_length h : forall a f, length (tupdate h a f) = length h.
Proof. induction h as [|t h IH]; intros [|a] f; cbn; try reflexivity. rewrite IH. reflexivity. Qed.

Lemma tupdate_other h : forall a b f, a <> b -> tcell (tupdate h a f) b = tcell h b.
Proof.
  unfold tcell. induction h as [|t h IH]; intros [|a] [|b] f N; cbn; try reflexivity; try congruence.
  apply IH. congruence.
Qed.

Lemma tupdate_same h : forall a f, a < length h -> tcell (tupdate h a f) a = f (tcell h a).
Proof.
  unfold tcell. induction h as [|t h IH]; intros [|a] f Hl; cbn in *; try lia; [reflexivity|].
  apply IH. lia.
Qed.

(** Copy / New: same type content, another cell *)
Lemma tcopy_spec h a : a < length h ->
  let '(h', b) := tcopy h a in
  b <> a /\ b < length h' /\ a < length h' /\ tcell h' b = tcell h a /\ tcell h' a = tcell h a.
Proof.
  intros Hl. unfold tcopy, talloc, tcell. rewrite app_length. cbn.
  split; [lia|]. split; [lia|]. split; [lia|]. split.
  - rewrite app_nth2 by lia. rewrite Nat.sub_diag. reflexivity.
  - apply app_nth1. exact Hl.
Qed.

Definition tinv (st : tstate) : Prop :=
  ts_src st <> ts_other st /\ ts_src st < length (ts_heap st) /\ ts_other st < length (ts_heap st).

Lemma tinit_inv t : tinv (tinit t) /\
  tcell (ts_heap (tinit t)) (ts_src (tinit t)) = t /\ tcell (ts_heap (tinit t)) (ts_other (tinit t)) = t.
Proof. unfold tinit, tinv. cbn. repeat split; lia. Qed.

Definition other_type (st : tstate) (who : bool) : type :=
  tcell (ts_heap st) (if who then ts_other st else ts_src st).

Lemma tstep_frame st o : tinv st ->
  tinv (tstep st o) /\ other_type (tstep st o) (top_target o) = other_type st (top_target o).
Proof.
  intros [Hne [H1 H2]]. unfold tstep, tinv, other_type. cbn. rewrite tupdate_length.
  split; [auto|]. destruct (top_target o); apply tupdate_other; congruence.
Qed.

Lemma trun_frame who : forall ops st, tinv st -> Forall (fun o => top_target o = who) ops ->
  tinv (trun st ops) /\ other_type (trun st ops) who = other_type st who.
Proof.
  induction ops as [|o ops IH]; intros st Hi Hall; cbn; [auto|].
  inversion Hall as [|? ? Ho Hrest]; subst.
  destruct (tstep_frame st o Hi) as [Hi' Hf]. destruct (IH _ Hi' Hrest) as [Hi'' Hf''].
  split; [exact Hi''|]. unfold trun in Hf''. rewrite Hf''. exact Hf.
Qed.
