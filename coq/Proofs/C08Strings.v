(* Byte-string lemmas for the parse-back proof of C08: appending, cutting,
   splitting, joining, prefixes, suffixes and substrings. *)
From Coq Require Import Lia.
From JV Require Import Model.Base Model.Url Model.UrlParse Proofs.BaseFacts.
Open Scope string_scope.

Lemma sapp_nil_r s : s ++ "" = s.
Proof. induction s as [|c s IH]; cbn; [reflexivity|rewrite IH; reflexivity]. Qed.

Lemma sapp_assoc a b c : (a ++ b) ++ c = a ++ b ++ c.
Proof. induction a as [|x a IH]; cbn; [reflexivity|rewrite IH; reflexivity]. Qed.

Lemma slen_app a b : String.length (a ++ b) = String.length a + String.length b.
Proof. induction a as [|x a IH]; cbn; [reflexivity|rewrite IH; reflexivity]. Qed.

Lemma sapp_inv_head a b c : a ++ b = a ++ c -> b = c.
Proof. induction a as [|x a IH]; cbn; [auto|]. intros H. injection H as H. auto. Qed.

(** * predicates on every character *)
Fixpoint all_chars (p : ascii -> bool) (s : string) : bool :=
  match s with
  | EmptyString => true
  | String c rest => p c && all_chars p rest
  end.

Lemma all_chars_app p a b : all_chars p (a ++ b) = all_chars p a && all_chars p b.
Proof. induction a as [|c a IH]; cbn; [reflexivity|]. rewrite IH, andb_assoc. reflexivity. Qed.

Lemma all_chars_weaken (p q : ascii -> bool) s :
  (forall c, p c = true -> q c = true) -> all_chars p s = true -> all_chars q s = true.
Proof.
  intros H. induction s as [|c s IH]; cbn; [reflexivity|].
  intros E. apply andb_true_iff in E. destruct E as [E1 E2]. rewrite (H c E1), (IH E2). reflexivity.
Qed.

Definition is_not (x : ascii) (c : ascii) : bool := negb (Ascii.eqb c x).

Lemma has_ctl_false s : all_chars (fun c => negb (is_ctl c)) s = true -> has_ctl s = false.
Proof.
  induction s as [|c s IH]; cbn; [reflexivity|]. intros E. apply andb_true_iff in E.
  destruct E as [E1 E2]. apply negb_true_iff in E1. rewrite E1, (IH E2). reflexivity.
Qed.

Lemma contains_char_false x s : all_chars (is_not x) s = true -> contains_char x s = false.
Proof.
  induction s as [|c s IH]; cbn; [reflexivity|]. intros E. apply andb_true_iff in E.
  destruct E as [E1 E2]. unfold is_not in E1. apply negb_true_iff in E1. rewrite E1, (IH E2). reflexivity.
Qed.

(** * strings.Cut *)
Lemma cut_at_none sep s : all_chars (is_not sep) s = true -> cut_at sep s = (s, None).
Proof.
  induction s as [|c s IH]; cbn; [reflexivity|]. intros E. apply andb_true_iff in E.
  destruct E as [E1 E2]. unfold is_not in E1. apply negb_true_iff in E1. rewrite E1, (IH E2). reflexivity.
Qed.

Lemma cut_at_app sep a b :
  all_chars (is_not sep) a = true -> cut_at sep (a ++ String sep b) = (a, Some b).
Proof.
  induction a as [|c a IH]; cbn.
  - intros _. rewrite Ascii.eqb_refl. reflexivity.
  - intros E. apply andb_true_iff in E. destruct E as [E1 E2]. unfold is_not in E1.
    apply negb_true_iff in E1. rewrite E1, (IH E2). reflexivity.
Qed.

(** * strings.Split on one byte *)
Lemma split_on_app sep a rest cur :
  all_chars (is_not sep) a = true -> split_on sep (a ++ rest) cur = split_on sep rest (cur ++ a).
Proof.
  revert cur. induction a as [|c a IH]; intros cur; cbn.
  - intros _. rewrite sapp_nil_r. reflexivity.
  - intros E. apply andb_true_iff in E. destruct E as [E1 E2]. unfold is_not in E1.
    apply negb_true_iff in E1. rewrite E1, (IH _ E2), sapp_assoc. reflexivity.
Qed.

Lemma split_on_sep sep rest cur : split_on sep (String sep rest) cur = cur :: split_on sep rest "".
Proof. cbn. rewrite Ascii.eqb_refl. reflexivity. Qed.

Lemma split_on_end sep a cur : all_chars (is_not sep) a = true -> split_on sep a cur = [cur ++ a].
Proof.
  intros H. rewrite <- (sapp_nil_r a) at 1. rewrite split_on_app by exact H. reflexivity.
Qed.

Lemma join_cons2 sep x y l : join sep (x :: y :: l) = x ++ sep ++ join sep (y :: l).
Proof. reflexivity. Qed.

Lemma split_on_join sep l : forall x cur,
  Forall (fun y => all_chars (is_not sep) y = true) (x :: l) ->
  split_on sep (join (String sep "") (x :: l)) cur = (cur ++ x) :: l.
Proof.
  induction l as [|y l IH]; intros x cur H.
  - cbn [join]. inversion H; subst. apply split_on_end. assumption.
  - rewrite join_cons2. inversion H as [|? ? Hx Hl]; subst.
    rewrite split_on_app by exact Hx. cbn [append]. rewrite split_on_sep.
    rewrite (IH y "" Hl). reflexivity.
Qed.

Lemma split_char_join sep x l :
  Forall (fun y => all_chars (is_not sep) y = true) (x :: l) ->
  split_char sep (join (String sep "") (x :: l)) = x :: l.
Proof. intros H. unfold split_char. rewrite split_on_join by exact H. reflexivity. Qed.

Lemma non_empty_id l : Forall (fun y => y <> "") l -> non_empty l = l.
Proof.
  unfold non_empty. induction l as [|x l IH]; intros H; cbn [filter]; [reflexivity|].
  inversion H as [|? ? Hx Hl]; subst.
  destruct (String.eqb_spec x "") as [E|N]; [contradiction|]. cbn [negb]. rewrite (IH Hl). reflexivity.
Qed.

(** * the trailing-separator loops of URL.String *)
Definition joinsep (sep : string) (l : list string) : string :=
  fold_right (fun x acc => x ++ sep ++ acc) "" l.

Lemma joinsep_join sep x l : joinsep sep (x :: l) = join sep (x :: l) ++ sep.
Proof.
  revert x. induction l as [|y l IH]; intros x.
  - cbn. rewrite sapp_nil_r. reflexivity.
  - change (joinsep sep (x :: y :: l)) with (x ++ sep ++ joinsep sep (y :: l)).
    rewrite IH, join_cons2, !sapp_assoc. reflexivity.
Qed.

Lemma substring_all s : String.substring 0 (String.length s) s = s.
Proof. induction s as [|c s IH]; cbn; [reflexivity|rewrite IH; reflexivity]. Qed.

Lemma substring_head a b : String.substring 0 (String.length a) (a ++ b) = a.
Proof.
  induction a as [|c a IH]; cbn; [destruct b; reflexivity|rewrite IH; reflexivity].
Qed.

Lemma chop_app a b n : String.length b = n -> chop n (a ++ b) = a.
Proof.
  intros <-. unfold chop. rewrite slen_app.
  replace (String.length a + String.length b - String.length b) with (String.length a) by lia.
  apply substring_head.
Qed.

Lemma chop_joinsep sep x l n :
  String.length sep = n -> chop n (joinsep sep (x :: l)) = join sep (x :: l).
Proof. intros H. rewrite joinsep_join. apply chop_app. exact H. Qed.

Lemma chop_prefixed_joinsep pre sep x l n :
  String.length sep = n -> chop n (pre ++ joinsep sep (x :: l)) = pre ++ join sep (x :: l).
Proof. intros H. rewrite joinsep_join, <- sapp_assoc. apply chop_app. exact H. Qed.

Lemma chop_prefix_only pre : chop (String.length pre) pre = "".
Proof. unfold chop. rewrite Nat.sub_diag. destruct pre; reflexivity. Qed.

(** * prefixes, suffixes, substrings of  pre ++ k ++ suf *)
Lemma prefix_app p s : String.prefix p (p ++ s) = true.
Proof.
  induction p as [|c p IH]; cbn; [destruct s; reflexivity|].
  destruct (ascii_dec c c) as [_|N]; [exact IH|contradiction].
Qed.

Lemma substring_skip a b n : String.substring (String.length a) n (a ++ b) = String.substring 0 n b.
Proof. induction a as [|c a IH]; cbn; [reflexivity|exact IH]. Qed.

Lemma substring_mid a k b :
  String.substring (String.length a) (String.length k) (a ++ k ++ b) = k.
Proof. rewrite substring_skip. apply substring_head. Qed.

Lemma list_ascii_app a b :
  list_ascii_of_string (a ++ b) = (list_ascii_of_string a ++ list_ascii_of_string b)%list.
Proof. induction a as [|c a IH]; cbn; [reflexivity|rewrite IH; reflexivity]. Qed.

Lemma has_suffix_rev_app p rest : has_suffix_rev p (p ++ rest)%list = true.
Proof.
  induction p as [|c p IH]; cbn; [reflexivity|]. rewrite Ascii.eqb_refl. exact IH.
Qed.

Lemma has_suffix_app a suf : has_suffix suf (a ++ suf) = true.
Proof.
  unfold has_suffix. rewrite list_ascii_app, rev_app_distr. apply has_suffix_rev_app.
Qed.
