(* C02: structure of the document round trip (kind of primary data, order,
   errors win); the value-level round trip is C01's. *)
From Coq Require Import Lia.
From JV Require Import Model.Base Model.GoTime Gen.TypeGo Model.Schema Model.Value
  Model.Strconv Model.Json Model.SoftRes Model.Wrapper Model.Resource Model.Marshal
  Model.Unmarshal Model.Document Proofs.C03Facts.
Open Scope list_scope.

Lemma marshal_resource_is_object e r prepath fields reldata j :
  marshal_resource e r prepath fields reldata = Ok j -> exists m, j = JObj m.
Proof.
  unfold marshal_resource.
  destruct (get_str r "id"); cbn [bind]; try discriminate.
  destruct (marshal_attrs _ _ _ _ _); cbn [bind]; try discriminate.
  destruct (marshal_rels _ _ _ _ _ _ _ _); cbn [bind]; try discriminate.
  intros H; injection H as <-. unfold jobj. eauto.
Qed.

Lemma marshal_all_length e l prepath fields reldata js :
  marshal_all e l prepath fields reldata = Ok js -> length js = length l.
Proof.
  revert js. induction l as [|r l IH]; intros js; cbn.
  - intros H; injection H as <-. reflexivity.
  - destruct (marshal_resource _ _ _ _ _); cbn [bind]; try discriminate.
    destruct (marshal_all e l prepath fields reldata) as [js'| |]; cbn [bind]; try discriminate.
    intros H; injection H as <-. cbn. f_equal. apply IH. reflexivity.
Qed.

(** the kind of primary data that is written *)
Lemma marshal_data_kind e d fields dj :
  marshal_data e d fields = Ok (Some dj) ->
  match d_data d with
  | DNil => dj = JNull
  | DRes _ | DIdent _ => exists m, dj = JObj m
  | DCol _ l => exists js, dj = JArr js /\ length js = length l
  | DIdents true _ => dj = JNull
  | DIdents false l => exists js, dj = JArr js /\ length js = length l
  | DUnknown => False
  end.
Proof.
  unfold marshal_data. destruct (d_data d) as [|r|ct l|i|n l|].
  - destruct (d_errors d); intros H; inversion H. reflexivity.
  - destruct (marshal_resource _ _ _ _ _) as [j| |] eqn:E; cbn [bind]; try discriminate.
    intros H; injection H as <-. eapply marshal_resource_is_object. exact E.
  - destruct (marshal_all _ _ _ _ _) as [js| |] eqn:E; cbn [bind]; try discriminate.
    intros H; injection H as <-. exists js. split; [reflexivity|].
    eapply marshal_all_length. exact E.
  - intros H; injection H as <-. unfold ident_json. eauto.
  - destruct n; intros H; injection H as <-; [reflexivity|].
    eexists. split; [reflexivity|]. apply map_length.
  - discriminate.
Qed.

(** a document carrying errors is written without data, with the errors *)
Lemma errors_win e d fields self j :
  d_errors d <> [] -> marshal_document e d fields self = Ok j ->
  jhas "data" j = false /\ jhas "included" j = false /\
  jmember "errors" j = Some (JArr (map error_json (d_errors d))).
Proof.
  intros Hne. unfold marshal_document.
  destruct (marshal_data e d fields) as [data| |]; cbn [bind]; try discriminate.
  destruct (match d_included d, data with
            | _ :: _, Some _ => _ | _, _ => _ end) as [incs| |]; cbn [bind]; try discriminate.
  intros H. injection H as <-.
  destruct (d_errors d) as [|e0 es]; [congruence|].
  destruct (d_meta d); cbn; repeat split; reflexivity.
Qed.

(** ... and read back without data: the errors are taken only when there is
    no data member *)
Lemma unmarshal_errors_document e s j k :
  dec_payske j = Some k -> p_data k = None -> p_included k = [] ->
  unmarshal_document e s j = Ok (mkUDoc UNil (p_errors k) [] (p_meta k)).
Proof.
  intros Hk Hd Hi. unfold unmarshal_document. rewrite Hk, Hd, Hi. reflexivity.
Qed.

(** the kind of primary data that is read: object -> one resource, array ->
    a collection in the same order and of the same length, null -> nil *)
Lemma unmarshal_each_order e s js : forall rs,
  Forall2 (fun j r => unmarshal_resource e s j = Ok r) js rs ->
  unmarshal_each e s js = Ok rs.
Proof.
  induction js as [|j js IH]; intros rs H; inversion H; subst; cbn; [reflexivity|].
  match goal with Hj : unmarshal_resource e s j = Ok _ |- _ => rewrite Hj end. cbn.
  rewrite (IH _ ltac:(eassumption)). reflexivity.
Qed.

Lemma unmarshal_each_length e s js rs :
  unmarshal_each e s js = Ok rs -> length rs = length js.
Proof.
  revert rs. induction js as [|j js IH]; intros rs; cbn.
  - intros H; injection H as <-. reflexivity.
  - destruct (unmarshal_resource e s j); cbn [bind]; try discriminate.
    destruct (unmarshal_each e s js) as [rs'| |]; cbn [bind]; try discriminate.
    intros H; injection H as <-. cbn. f_equal. apply IH. reflexivity.
Qed.

Lemma unmarshal_document_kind e s j u :
  unmarshal_document e s j = Ok u ->
  exists k, dec_payske j = Some k /\
    match p_data k with
    | Some (JObj m) => exists r, u_data u = URes r /\ unmarshal_resource e s (JObj m) = Ok r
    | Some (JArr l) => exists rs, u_data u = UCol rs /\ unmarshal_each e s l = Ok rs /\ length rs = length l
    | Some JNull => u_data u = UNil /\ u_errors u = []
    | Some _ => False
    | None => u_data u = UNil /\ u_errors u = p_errors k
    end.
Proof.
  unfold unmarshal_document. destruct (dec_payske j) as [k|]; [|discriminate].
  intros H. exists k. split; [reflexivity|].
  destruct (p_data k) as [[| | | |l|m]|]; cbn [bind] in H; try discriminate.
  - destruct (negb _); [discriminate|].
    destruct (unmarshal_each e s (p_included k)); cbn [bind] in H; try discriminate.
    injection H as <-. split; reflexivity.
  - unfold unmarshal_collection in H.
    destruct (unmarshal_each e s l) as [rs| |] eqn:E; cbn [bind] in H; try discriminate.
    destruct (negb _); [discriminate|].
    destruct (unmarshal_each e s (p_included k)); cbn [bind] in H; try discriminate.
    injection H as <-. exists rs. split; [reflexivity|]. split; [reflexivity|].
    eapply unmarshal_each_length. exact E.
  - destruct (unmarshal_resource e s (JObj m)) as [r| |] eqn:E; cbn [bind] in H; try discriminate.
    destruct (negb _); [discriminate|].
    destruct (unmarshal_each e s (p_included k)); cbn [bind] in H; try discriminate.
    injection H as <-. exists r. split; reflexivity.
  - destruct (negb _); [discriminate|].
    destruct (unmarshal_each e s (p_included k)); cbn [bind] in H; try discriminate.
    injection H as <-. split; reflexivity.
Qed.
