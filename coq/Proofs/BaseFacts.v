(* Facts about the shared vocabulary: Go's string order is a strict total
   order; insertion sort yields the unique sorted permutation. *)
From Coq Require Import Lia Permutation Sorted.
From JV Require Import Model.Base.

(** * Ascii / String comparison *)
Lemma ascii_compare_refl a : Ascii.compare a a = Eq.
Proof. unfold Ascii.compare. apply N.compare_refl. Qed.

Lemma ascii_compare_eq a b : Ascii.compare a b = Eq <-> a = b.
Proof.
  split; [apply Ascii.compare_eq_iff|intros ->; apply ascii_compare_refl].
Qed.

Lemma ascii_compare_lt_trans a b c :
  Ascii.compare a b = Lt -> Ascii.compare b c = Lt -> Ascii.compare a c = Lt.
Proof.
  unfold Ascii.compare. rewrite !N.compare_lt_iff. lia.
Qed.

Lemma str_compare_refl s : String.compare s s = Eq.
Proof.
  induction s as [|a s IH]; cbn; [reflexivity|].
  rewrite ascii_compare_refl. exact IH.
Qed.

Lemma str_compare_eq s t : String.compare s t = Eq <-> s = t.
Proof.
  split; [apply String.compare_eq_iff|intros ->; apply str_compare_refl].
Qed.

Lemma str_compare_lt_trans s : forall t u,
  String.compare s t = Lt -> String.compare t u = Lt -> String.compare s u = Lt.
Proof.
  induction s as [|a s IH]; intros [|b t] [|c u]; cbn; try congruence.
  destruct (Ascii.compare a b) eqn:Hab; try discriminate;
  destruct (Ascii.compare b c) eqn:Hbc; try discriminate; intros H1 H2.
  - apply ascii_compare_eq in Hab; apply ascii_compare_eq in Hbc; subst.
    rewrite ascii_compare_refl. eauto.
  - apply ascii_compare_eq in Hab; subst. rewrite Hbc. reflexivity.
  - apply ascii_compare_eq in Hbc; subst. rewrite Hab. reflexivity.
  - rewrite (ascii_compare_lt_trans _ _ _ Hab Hbc). reflexivity.
Qed.

Lemma str_compare_gt_lt s t : String.compare s t = Gt <-> String.compare t s = Lt.
Proof.
  rewrite (String.compare_antisym t s).
  destruct (String.compare s t); cbn; split; congruence.
Qed.

Lemma slt_irrefl s : String.ltb s s = false.
Proof. unfold String.ltb. rewrite str_compare_refl. reflexivity. Qed.

Lemma slt_trans s t u :
  String.ltb s t = true -> String.ltb t u = true -> String.ltb s u = true.
Proof.
  unfold String.ltb.
  destruct (String.compare s t) eqn:H1; try discriminate.
  destruct (String.compare t u) eqn:H2; try discriminate.
  rewrite (str_compare_lt_trans _ _ _ H1 H2). reflexivity.
Qed.

Lemma slt_total s t : String.ltb s t = true \/ s = t \/ String.ltb t s = true.
Proof.
  unfold String.ltb.
  destruct (String.compare s t) eqn:H.
  - right; left. apply str_compare_eq. exact H.
  - left; reflexivity.
  - right; right. apply str_compare_gt_lt in H. rewrite H. reflexivity.
Qed.

Lemma slt_asym s t : String.ltb s t = true -> String.ltb t s = false.
Proof.
  intros H. destruct (String.ltb t s) eqn:E; [|reflexivity].
  pose proof (slt_trans _ _ _ H E) as C. rewrite slt_irrefl in C. discriminate.
Qed.

Lemma sle_not_lt s t : String.leb s t = negb (String.ltb t s).
Proof.
  unfold String.leb, String.ltb. rewrite (String.compare_antisym s t).
  destruct (String.compare t s); reflexivity.
Qed.

Lemma slt_neq s t : String.ltb s t = true -> s <> t.
Proof. intros H ->. rewrite slt_irrefl in H. discriminate. Qed.

Lemma seqb_eq s t : String.eqb s t = true <-> s = t.
Proof. apply String.eqb_eq. Qed.

Lemma seqb_neq s t : String.eqb s t = false <-> s <> t.
Proof. apply String.eqb_neq. Qed.

(** * Sorting with a strict total order *)
Section Sorting.
  Context {A : Type} (lt : A -> A -> bool).

  Definition le_of (a b : A) : Prop := lt b a = false.

  Lemma insert_by_perm x l : Permutation (insert_by lt x l) (x :: l).
  Proof.
    induction l as [|y ys IH]; cbn; [reflexivity|].
    destruct (lt x y); [reflexivity|].
    rewrite IH. apply perm_swap.
  Qed.

  Lemma isort_perm l : Permutation (isort lt l) l.
  Proof.
    induction l as [|x xs IH]; cbn; [constructor|].
    rewrite insert_by_perm. constructor. exact IH.
  Qed.

  Hypothesis lt_irrefl : forall a, lt a a = false.
  Hypothesis lt_trans : forall a b c, lt a b = true -> lt b c = true -> lt a c = true.
  Hypothesis lt_total : forall a b, lt a b = true \/ a = b \/ lt b a = true.

  Lemma le_of_trans a b c : le_of a b -> le_of b c -> le_of a c.
  Proof.
    unfold le_of. intros H1 H2.
    destruct (lt c a) eqn:E; [|reflexivity].
    destruct (lt_total a b) as [H|[->|H]]; [|congruence|congruence].
    destruct (lt_total b c) as [H'|[->|H']]; [|congruence|congruence].
    pose proof (lt_trans _ _ _ H H') as H3.
    pose proof (lt_trans _ _ _ H3 E) as H4. rewrite lt_irrefl in H4. discriminate.
  Qed.

  Lemma le_of_antisym a b : le_of a b -> le_of b a -> a = b.
  Proof.
    unfold le_of. intros H1 H2.
    destruct (lt_total a b) as [H|[->|H]]; congruence.
  Qed.

  Lemma lt_le_of a b : lt a b = true -> le_of a b.
  Proof.
    unfold le_of. intros H. destruct (lt b a) eqn:E; [|reflexivity].
    pose proof (lt_trans _ _ _ H E) as C. rewrite lt_irrefl in C. discriminate.
  Qed.

  Lemma insert_by_sorted x l :
    StronglySorted le_of l -> StronglySorted le_of (insert_by lt x l).
  Proof.
    induction l as [|y ys IH]; cbn; intros Hs.
    - constructor; constructor.
    - inversion Hs as [|? ? Hs' Hall]; subst.
      destruct (lt x y) eqn:E.
      + constructor; [exact Hs|]. constructor.
        * apply lt_le_of. exact E.
        * eapply Forall_impl; [|exact Hall]. intros z Hz.
          eapply le_of_trans; [apply lt_le_of; exact E|exact Hz].
      + constructor; [apply IH; exact Hs'|].
        assert (Hp := insert_by_perm x ys).
        eapply Permutation_Forall; [symmetry; exact Hp|].
        constructor; [exact E|exact Hall].
  Qed.

  Lemma isort_sorted l : StronglySorted le_of (isort lt l).
  Proof.
    induction l as [|x xs IH]; cbn; [constructor|].
    apply insert_by_sorted. exact IH.
  Qed.

  (** The sorted permutation is unique. *)
  Lemma sorted_perm_unique l1 : forall l2,
    StronglySorted le_of l1 -> StronglySorted le_of l2 ->
    Permutation l1 l2 -> l1 = l2.
  Proof.
    induction l1 as [|x xs IH]; intros l2 H1 H2 Hp.
    - apply Permutation_nil in Hp. congruence.
    - destruct l2 as [|y ys]; [apply Permutation_sym, Permutation_nil in Hp; discriminate|].
      inversion H1 as [|? ? H1' Hall1]; subst.
      inversion H2 as [|? ? H2' Hall2]; subst.
      assert (x = y) as ->.
      { assert (Hx : In x (y :: ys)) by (eapply Permutation_in; [exact Hp|left; reflexivity]).
        assert (Hy : In y (x :: xs)) by (eapply Permutation_in; [symmetry; exact Hp|left; reflexivity]).
        destruct Hx as [->|Hx]; [reflexivity|].
        destruct Hy as [->|Hy]; [reflexivity|].
        rewrite Forall_forall in Hall1, Hall2.
        apply le_of_antisym; [apply Hall1; exact Hy|apply Hall2; exact Hx]. }
      f_equal. apply IH; try assumption.
      eapply Permutation_cons_inv; exact Hp.
  Qed.

  Lemma isort_perm_eq l1 l2 : Permutation l1 l2 -> isort lt l1 = isort lt l2.
  Proof.
    intros Hp. apply sorted_perm_unique; try apply isort_sorted.
    rewrite !isort_perm. exact Hp.
  Qed.

  Lemma isort_of_sorted l : StronglySorted le_of l -> isort lt l = l.
  Proof.
    intros H. apply sorted_perm_unique; [apply isort_sorted|exact H|apply isort_perm].
  Qed.
End Sorting.

(** Uniqueness of the sorted permutation when the order is total on the
    elements at hand only (e.g. pairs with distinct keys). *)
Section UniqueOn.
  Context {A : Type} (lt : A -> A -> bool) (dom : list A).
  Hypothesis lt_total_on : forall a b, In a dom -> In b dom -> lt a b = true \/ a = b \/ lt b a = true.

  Lemma sorted_unique_on_gen l1 : forall l2,
    incl l1 dom -> incl l2 dom ->
    StronglySorted (fun a b => lt b a = false) l1 ->
    StronglySorted (fun a b => lt b a = false) l2 ->
    Permutation l1 l2 -> l1 = l2.
  Proof.
    induction l1 as [|x xs IH]; intros l2 Hd1 Hd2 H1 H2 Hp.
    - apply Permutation_nil in Hp. congruence.
    - destruct l2 as [|y ys]; [apply Permutation_sym, Permutation_nil in Hp; discriminate|].
      inversion H1 as [|? ? H1' Hall1]; subst. inversion H2 as [|? ? H2' Hall2]; subst.
      assert (x = y) as ->.
      { assert (Hx : In x (y :: ys)) by (eapply Permutation_in; [exact Hp|left; reflexivity]).
        assert (Hy : In y (x :: xs)) by (eapply Permutation_in; [symmetry; exact Hp|left; reflexivity]).
        destruct Hx as [->|Hx]; [reflexivity|]. destruct Hy as [->|Hy]; [reflexivity|].
        rewrite Forall_forall in Hall1, Hall2.
        specialize (Hall1 y Hy). specialize (Hall2 x Hx).
        destruct (lt_total_on x y) as [H|[H|H]]; try congruence;
          [apply Hd1; left; reflexivity|apply Hd2; left; reflexivity]. }
      f_equal. apply IH; try assumption.
      + intros z Hz. apply Hd1. right; exact Hz.
      + intros z Hz. apply Hd2. right; exact Hz.
      + eapply Permutation_cons_inv; exact Hp.
  Qed.
End UniqueOn.

(** insertion sort is sorted for any comparison that is irreflexive,
    transitive and total on the list's elements *)
Section SortOn.
  Context {A : Type} (lt : A -> A -> bool).

  Lemma insert_by_sorted_on x l :
    (forall a b c, lt a b = false -> lt b c = false -> lt a c = false) ->
    (forall a b, lt a b = true -> lt b a = false) ->
    StronglySorted (fun a b => lt b a = false) l ->
    StronglySorted (fun a b => lt b a = false) (insert_by lt x l).
  Proof.
    intros Hntrans Hasym. induction l as [|y ys IH]; cbn; intros Hs.
    - constructor; constructor.
    - inversion Hs as [|? ? Hs' Hall]; subst.
      destruct (lt x y) eqn:E.
      + constructor; [exact Hs|]. constructor.
        * apply Hasym. exact E.
        * eapply Forall_impl; [|exact Hall]. intros z Hz. cbn in Hz.
          (* lt z y = false, lt y x = false  ->  lt z x = false *)
          eapply Hntrans; [exact Hz|apply Hasym; exact E].
      + constructor; [apply IH; exact Hs'|].
        eapply Permutation_Forall; [symmetry; apply insert_by_perm|].
        constructor; [exact E|exact Hall].
  Qed.
End SortOn.
