(* Association lists as Go maps: map_set / remove_key / lookup. *)
From Coq Require Import Lia Permutation.
From JV Require Import Model.Base.

Section Maps.
  Context {A : Type}.
  Implicit Types (m : list (str * A)) (k : str) (v : A).

  Lemma map_set_keys k v m k' :
    In k' (map fst (map_set k v m)) <-> k' = k \/ In k' (map fst m).
  Proof.
    induction m as [|[k0 v0] m IH]; cbn.
    - intuition congruence.
    - destruct (String.eqb k k0) eqn:E; cbn.
      + apply String.eqb_eq in E. subst. intuition congruence.
      + rewrite IH. intuition congruence.
  Qed.

  Lemma map_set_NoDup k v m : NoDup (map fst m) -> NoDup (map fst (map_set k v m)).
  Proof.
    induction m as [|[k0 v0] m IH]; cbn; intros H.
    - constructor; [intros []|constructor].
    - inversion H as [|? ? Hn Hd]; subst.
      destruct (String.eqb k k0) eqn:E; cbn.
      + apply String.eqb_eq in E. subst. constructor; assumption.
      + constructor; [|apply IH; exact Hd].
        rewrite map_set_keys. intros [->|Hin]; [|contradiction].
        rewrite String.eqb_refl in E. discriminate.
  Qed.

  (** Under unique keys the characterisation is exact. *)
  Lemma map_set_In k v m k' v' :
    NoDup (map fst m) ->
    In (k', v') (map_set k v m) -> (k' = k /\ v' = v) \/ (k' <> k /\ In (k', v') m).
  Proof.
    induction m as [|[k0 v0] m IH]; cbn; intros Hn.
    - intros [H|[]]. inversion H. auto.
    - inversion Hn as [|? ? Hni Hd]; subst.
      destruct (String.eqb k k0) eqn:E; cbn.
      + apply String.eqb_eq in E. subst. intros [H|H]; [inversion H; auto|].
        right. split; [|right; exact H].
        intros ->. apply Hni. apply in_map_iff. exists (k0, v'). auto.
      + intros [H|H].
        * inversion H; subst. right. split; [|left; reflexivity].
          intros ->. rewrite String.eqb_refl in E. discriminate.
        * destruct (IH Hd H) as [?|[? ?]]; [left; assumption|right; split; [assumption|right; assumption]].
  Qed.

  Lemma lookup_map_set_same k v m : lookup k (map_set k v m) = Some v.
  Proof.
    induction m as [|[k0 v0] m IH]; cbn.
    - rewrite String.eqb_refl. reflexivity.
    - destruct (String.eqb k k0) eqn:E; cbn.
      + rewrite String.eqb_refl. reflexivity.
      + rewrite E. exact IH.
  Qed.

  Lemma lookup_map_set_other k v m k' :
    k' <> k -> lookup k' (map_set k v m) = lookup k' m.
  Proof.
    intros N. induction m as [|[k0 v0] m IH]; cbn.
    - apply String.eqb_neq in N. rewrite N. reflexivity.
    - destruct (String.eqb k k0) eqn:E; cbn.
      + apply String.eqb_eq in E. subst.
        apply String.eqb_neq in N. rewrite N. reflexivity.
      + destruct (String.eqb k' k0); [reflexivity|exact IH].
  Qed.

  Lemma remove_key_In k m kv : In kv (remove_key k m) -> In kv m /\ fst kv <> k.
  Proof.
    induction m as [|[k0 v0] m IH]; cbn; [tauto|].
    destruct (String.eqb k k0) eqn:E.
    - intros H. destruct (IH H). split; [right|]; assumption.
    - intros [<-|H].
      + split; [left; reflexivity|]. cbn. intros ->. rewrite String.eqb_refl in E. discriminate.
      + destruct (IH H). split; [right|]; assumption.
  Qed.

  Lemma remove_key_keys_incl k m k' :
    In k' (map fst (remove_key k m)) -> In k' (map fst m).
  Proof.
    intros H. apply in_map_iff in H. destruct H as [kv [<- H]].
    apply remove_key_In in H. apply in_map. tauto.
  Qed.

  Lemma remove_key_NoDup k m : NoDup (map fst m) -> NoDup (map fst (remove_key k m)).
  Proof.
    induction m as [|[k0 v0] m IH]; cbn; intros H; [constructor|].
    inversion H as [|? ? Hn Hd]; subst.
    destruct (String.eqb k k0); [apply IH; exact Hd|].
    cbn. constructor; [|apply IH; exact Hd].
    intros Hin. apply Hn. eapply remove_key_keys_incl; exact Hin.
  Qed.

  Lemma remove_key_absent k m : ~ In k (map fst m) -> remove_key k m = m.
  Proof.
    induction m as [|[k0 v0] m IH]; cbn; intros H; [reflexivity|].
    destruct (String.eqb k k0) eqn:E.
    - apply String.eqb_eq in E. subst. exfalso. apply H. left; reflexivity.
    - f_equal. apply IH. intros Hin. apply H. right; exact Hin.
  Qed.

  Lemma lookup_In k m v : lookup k m = Some v -> In (k, v) m.
  Proof.
    induction m as [|[k0 v0] m IH]; cbn; [discriminate|].
    destruct (String.eqb k k0) eqn:E.
    - apply String.eqb_eq in E. subst. intros H; inversion H. left; reflexivity.
    - intros H. right. apply IH. exact H.
  Qed.

  Lemma In_lookup k m v : NoDup (map fst m) -> In (k, v) m -> lookup k m = Some v.
  Proof.
    induction m as [|[k0 v0] m IH]; cbn; intros Hn; [tauto|].
    inversion Hn as [|? ? Hni Hd]; subst.
    intros [H|H].
    - inversion H; subst. rewrite String.eqb_refl. reflexivity.
    - destruct (String.eqb k k0) eqn:E.
      + apply String.eqb_eq in E. subst. exfalso. apply Hni.
        apply in_map_iff. exists (k0, v). auto.
      + apply IH; assumption.
  Qed.
End Maps.
