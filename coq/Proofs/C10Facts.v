(* C10: IsAllowed equals the filter tree read as logic. *)
From Coq Require Import Lia Permutation Sorted.
From JV Require Import Model.Base Model.GoTime Gen.TypeGo Gen.FilterGo Model.Schema Model.Value
  Model.SoftRes Model.Wrapper Model.Resource Model.Filter Proofs.BaseFacts.
Open Scope list_scope.

(** * The specification, from the property text *)
Definition is_eq (c : comparison) : bool := match c with Eq => true | _ => false end.
Definition is_lt (c : comparison) : bool := match c with Lt => true | _ => false end.
Definition is_gt (c : comparison) : bool := match c with Gt => true | _ => false end.

(** the six comparison operators on a three-way comparison; anything else allows nothing *)
Definition sem_cmp (op : str) (c : comparison) : bool :=
  if String.eqb op "=" then is_eq c
  else if String.eqb op "!=" then negb (is_eq c)
  else if String.eqb op "<" then is_lt c
  else if String.eqb op "<=" then negb (is_gt c)
  else if String.eqb op ">" then is_gt c
  else if String.eqb op ">=" then negb (is_lt c)
  else false.

(** equality only (booleans, nil, to-many sets): never ordered *)
Definition sem_eq_only (op : str) (equal : bool) : bool :=
  if String.eqb op "=" then equal
  else if String.eqb op "!=" then negb equal
  else false.

Definition time_cmp (a b : gtime) : comparison :=
  match Z.compare (t_unix a) (t_unix b) with
  | Eq => Z.compare (t_nsec a) (t_nsec b)
  | c => c
  end.

(** the natural total order of a kind *)
Definition sem_base (op : str) (x y : value) : bool :=
  match x, y with
  | VStr a, VStr b => sem_cmp op (String.compare a b)
  | VInt _ a, VInt _ b => sem_cmp op (Z.compare a b)
  | VTime a, VTime b => sem_cmp op (time_cmp a b)
  | VBytes _ a, VBytes _ b => sem_cmp op (bytes_cmp a b)
  | VBool a, VBool b => sem_eq_only op (Bool.eqb a b)
  | _, _ => false
  end.

Definition sem_leaf (op : str) (rv cv : value) : bool :=
  match rv, cv with
  | VPtr _ (Some x), VPtr _ (Some y) => sem_base op x y
  | VPtr _ None, VPtr _ None => sem_eq_only op true       (* nil equals only nil *)
  | VPtr _ _, VPtr _ _ => sem_eq_only op false            (* and is never ordered *)
  | VStrs _ a, VStrs _ b => sem_eq_only op (strs_eqb' (isort String.ltb a) (isort String.ltb b)
                                           && Nat.eqb (length a) (length b))
  | _, _ => sem_base op rv cv
  end.

(** values of the same Go type *)
Definition same_type (rv cv : value) : Prop :=
  match rv, cv with
  | VStr _, VStr _ | VBool _, VBool _ | VTime _, VTime _ | VBytes _ _, VBytes _ _
  | VStrs _ _, VStrs _ _ => True
  | VInt k _, VInt k' _ => k = k'
  | VPtr k None, VPtr k' None => k = k'
  | VPtr k None, VPtr k' (Some _) | VPtr k (Some _), VPtr k' None => k = k'
  | VPtr k (Some x), VPtr k' (Some y) =>
      k = k' /\ match x, y with
                | VStr _, VStr _ | VBool _, VBool _ | VTime _, VTime _ | VBytes _ _, VBytes _ _ => True
                | VInt a _, VInt b _ => a = b
                | _, _ => False
                end
  | _, _ => False
  end.

(** * The generated tables against the specification *)
Lemma str_eqb_compare a b : String.eqb a b = is_eq (String.compare a b).
Proof.
  destruct (String.eqb_spec a b) as [->|N].
  - rewrite str_compare_refl. reflexivity.
  - destruct (String.compare a b) eqn:E; try reflexivity.
    apply str_compare_eq in E. contradiction.
Qed.

Lemma str_compare_swap a b : String.compare b a = CompOpp (String.compare a b).
Proof. apply String.compare_antisym. Qed.

Lemma check_str_sem op a b : check_str op a b = sem_cmp op (String.compare a b).
Proof.
  unfold check_str, sem_cmp.
  destruct (String.eqb op "="); [apply str_eqb_compare|].
  destruct (String.eqb op "!="); [rewrite str_eqb_compare; reflexivity|].
  destruct (String.eqb op "<"); [reflexivity|].
  destruct (String.eqb op "<="); [unfold String.leb; destruct (String.compare a b); reflexivity|].
  destruct (String.eqb op ">").
  { unfold String.ltb. rewrite str_compare_swap. destruct (String.compare a b); reflexivity. }
  destruct (String.eqb op ">=").
  { unfold String.leb. rewrite str_compare_swap. destruct (String.compare a b); reflexivity. }
  reflexivity.
Qed.

Lemma z_eqb_compare a b : Z.eqb a b = is_eq (Z.compare a b).
Proof.
  destruct (Z.eqb_spec a b) as [->|N].
  - rewrite Z.compare_refl. reflexivity.
  - destruct (Z.compare a b) eqn:E; try reflexivity. apply Z.compare_eq in E. contradiction.
Qed.

Lemma check_z_sem op a b :
  check_int op a b = sem_cmp op (Z.compare a b) /\ check_uint op a b = sem_cmp op (Z.compare a b).
Proof.
  unfold check_int, check_uint, sem_cmp.
  assert (Hlt : Z.ltb a b = is_lt (Z.compare a b)) by (unfold Z.ltb; destruct (Z.compare a b); reflexivity).
  assert (Hle : Z.leb a b = negb (is_gt (Z.compare a b))) by (unfold Z.leb; destruct (Z.compare a b); reflexivity).
  assert (Hgt : Z.ltb b a = is_gt (Z.compare a b)).
  { unfold Z.ltb. rewrite (Z.compare_antisym a b). destruct (Z.compare a b); reflexivity. }
  assert (Hge : Z.leb b a = negb (is_lt (Z.compare a b))).
  { unfold Z.leb. rewrite (Z.compare_antisym a b). destruct (Z.compare a b); reflexivity. }
  destruct (String.eqb op "="); [split; apply z_eqb_compare|].
  destruct (String.eqb op "!="); [rewrite z_eqb_compare; split; reflexivity|].
  destruct (String.eqb op "<"); [split; exact Hlt|].
  destruct (String.eqb op "<="); [split; exact Hle|].
  destruct (String.eqb op ">"); [split; exact Hgt|].
  destruct (String.eqb op ">="); [split; exact Hge|].
  split; reflexivity.
Qed.

Lemma check_bool_sem op a b : check_bool op a b = sem_eq_only op (Bool.eqb a b).
Proof. reflexivity. Qed.

Lemma time_equal_cmp a b : time_equal a b = is_eq (time_cmp a b).
Proof.
  unfold time_equal, time_cmp. rewrite !z_eqb_compare.
  destruct (Z.compare (t_unix a) (t_unix b)); reflexivity.
Qed.

Lemma time_before_cmp a b : time_before a b = is_lt (time_cmp a b).
Proof.
  unfold time_before, time_cmp. rewrite z_eqb_compare. unfold Z.ltb.
  destruct (Z.compare (t_unix a) (t_unix b)); cbn; try reflexivity.
Qed.

Lemma time_cmp_swap a b : time_cmp b a = CompOpp (time_cmp a b).
Proof.
  unfold time_cmp. rewrite (Z.compare_antisym (t_unix a) (t_unix b)), (Z.compare_antisym (t_nsec a) (t_nsec b)).
  destruct (Z.compare (t_unix a) (t_unix b)); reflexivity.
Qed.

Lemma check_time_sem op a b : check_time op a b = sem_cmp op (time_cmp a b).
Proof.
  unfold check_time, sem_cmp. rewrite !time_before_cmp, !time_equal_cmp, (time_cmp_swap a b).
  destruct (String.eqb op "="); [reflexivity|].
  destruct (String.eqb op "!="); [reflexivity|].
  destruct (String.eqb op "<"); [reflexivity|].
  destruct (String.eqb op "<="); [destruct (time_cmp a b); reflexivity|].
  destruct (String.eqb op ">"); [destruct (time_cmp a b); reflexivity|].
  destruct (String.eqb op ">="); [destruct (time_cmp a b); reflexivity|].
  reflexivity.
Qed.

Lemma check_bytes_sem op a b : check_bytes op a b = sem_cmp op (bytes_cmp a b).
Proof.
  unfold check_bytes, sem_cmp, bytes_compare.
  destruct (String.eqb op "="); [destruct (bytes_cmp a b); reflexivity|].
  destruct (String.eqb op "!="); [destruct (bytes_cmp a b); reflexivity|].
  destruct (String.eqb op "<"); [destruct (bytes_cmp a b); reflexivity|].
  destruct (String.eqb op "<="); [destruct (bytes_cmp a b); reflexivity|].
  destruct (String.eqb op ">"); [destruct (bytes_cmp a b); reflexivity|].
  destruct (String.eqb op ">="); [destruct (bytes_cmp a b); reflexivity|].
  reflexivity.
Qed.

Lemma check_nil_sem op b : check_nil op b = sem_eq_only op b.
Proof. reflexivity. Qed.

Lemma check_slice_sem op a b :
  check_slice op a b =
  sem_eq_only op (strs_eqb' (isort String.ltb a) (isort String.ltb b) && Nat.eqb (length a) (length b)).
Proof. unfold check_slice, sem_eq_only. rewrite Bool.andb_comm. reflexivity. Qed.

(** * checkVal *)
Lemma check_base_sem op x y :
  match x, y with
  | VStr _, VStr _ | VBool _, VBool _ | VTime _, VTime _ | VBytes _ _, VBytes _ _ => True
  | VInt a _, VInt b _ => a = b
  | _, _ => False
  end ->
  check_base op x y = Ok (sem_base op x y).
Proof.
  destruct x, y; cbn; try contradiction; intros H.
  - rewrite check_str_sem. reflexivity.
  - subst. rewrite Z.eqb_refl. cbn. destruct (check_z_sem op z z0) as [H1 H2].
    destruct (is_signed k0); [rewrite H1|rewrite H2]; reflexivity.
  - reflexivity.
  - rewrite check_time_sem. reflexivity.
  - rewrite check_bytes_sem. reflexivity.
Qed.

Lemma check_val_sem op rv cv :
  same_type rv cv -> check_val op rv cv = Ok (sem_leaf op rv cv).
Proof.
  intros H. destruct rv as [| s | k z | b | t | n bs | k [x|] | n l];
    destruct cv as [| s' | k' z' | b' | t' | n' bs' | k' [y|] | n' l']; cbn in H; try contradiction.
  - cbn. rewrite check_str_sem. reflexivity.
  - subst. apply (check_base_sem op (VInt k' z) (VInt k' z')). reflexivity.
  - reflexivity.
  - cbn. rewrite check_time_sem. reflexivity.
  - cbn. rewrite check_bytes_sem. reflexivity.
  - destruct H as [-> Hxy]. cbn. rewrite Z.eqb_refl. cbn. apply check_base_sem. exact Hxy.
  - subst. cbn. rewrite Z.eqb_refl. reflexivity.
  - subst. cbn. rewrite Z.eqb_refl. reflexivity.
  - subst. cbn. rewrite Z.eqb_refl. reflexivity.
  - cbn. rewrite check_slice_sem. reflexivity.
Qed.

(** * Trees *)
Section Tree.
  Variable r : resource.

  (** a leaf is well typed when its operand can be read and has the type of
      the filter value (for in / has: a string against a string list) *)
  Definition wt_leaf (field op : str) (cv : value) : Prop :=
    exists rv, filter_operand r field = Ok rv /\
      String.eqb op "and" = false /\ String.eqb op "or" = false /\
      (if String.eqb op "in" then (exists s n l, rv = VStr s /\ cv = VStrs n l)
       else if String.eqb op "has" then (exists s n l, cv = VStr s /\ rv = VStrs n l)
       else (rv = VNil \/ same_type rv cv)).

  Inductive wt_filter : filter -> Prop :=
  | wt_leaf_ field op cv : wt_leaf field op cv -> wt_filter (FLeaf field op cv)
  | wt_and fs : Forall wt_filter fs -> wt_filter (FAnd fs)
  | wt_or fs : Forall wt_filter fs -> wt_filter (FOr fs).

  (** the tree read as logic *)
  Definition sem_operand (field : str) : value :=
    match filter_operand r field with Ok v => v | _ => VNil end.

  Fixpoint sem (f : filter) : bool :=
    match f with
    | FAnd fs => forallb sem fs
    | FOr fs => existsb sem fs
    | FLeaf field op cv =>
        let rv := sem_operand field in
        if String.eqb op "in" then
          match rv, cv with VStr s, VStrs _ l => existsb (String.eqb s) l | _, _ => false end
        else if String.eqb op "has" then
          match cv, rv with VStr s, VStrs _ l => existsb (String.eqb s) l | _, _ => false end
        else match rv with VNil => false | _ => sem_leaf op rv cv end
    end.

  Lemma check_in_mem s l : check_in s l = existsb (String.eqb s) l.
  Proof. unfold check_in. destruct (existsb _ l); reflexivity. Qed.

  Lemma is_allowed_and fs :
    Forall (fun f => is_allowed f r = Ok (sem f)) fs ->
    is_allowed (FAnd fs) r = Ok (forallb sem fs).
  Proof.
    cbn. induction 1 as [|f fs Hf _ IH]; cbn; [reflexivity|].
    rewrite Hf. cbn. destruct (sem f); [exact IH|reflexivity].
  Qed.

  Lemma is_allowed_or fs :
    Forall (fun f => is_allowed f r = Ok (sem f)) fs ->
    is_allowed (FOr fs) r = Ok (existsb sem fs).
  Proof.
    cbn. induction 1 as [|f fs Hf _ IH]; cbn; [reflexivity|].
    rewrite Hf. cbn. destruct (sem f); [reflexivity|exact IH].
  Qed.

  Lemma is_allowed_sem : forall f, wt_filter f -> is_allowed f r = Ok (sem f).
  Proof.
    fix IH 2. intros f Hw. destruct Hw as [field op cv Hl|fs Hfs|fs Hfs].
    - destruct Hl as [rv [Hop [Hand [Hor Hshape]]]].
      cbn [is_allowed sem]. unfold sem_operand. rewrite Hop. cbn [bind]. rewrite Hand, Hor. cbn [orb].
      destruct (String.eqb op "in").
      + destruct Hshape as [s [n [l [-> ->]]]]. rewrite check_in_mem. reflexivity.
      + destruct (String.eqb op "has").
        * destruct Hshape as [s [n [l [-> ->]]]]. rewrite check_in_mem. reflexivity.
        * destruct Hshape as [->|Hs]; [reflexivity|].
          rewrite (check_val_sem _ _ _ Hs).
          destruct rv; try reflexivity; cbn in Hs; destruct cv; contradiction.
    - apply is_allowed_and.
      induction Hfs as [|g gs Hg _ IHg]; constructor; [apply IH; exact Hg|exact IHg].
    - apply is_allowed_or.
      induction Hfs as [|g gs Hg _ IHg]; constructor; [apply IH; exact Hg|exact IHg].
  Qed.
End Tree.

(** * Consequences a user relies on *)
Lemma sem_cmp_trichotomy c :
  (sem_cmp "<" c = true /\ sem_cmp "=" c = false /\ sem_cmp ">" c = false) \/
  (sem_cmp "<" c = false /\ sem_cmp "=" c = true /\ sem_cmp ">" c = false) \/
  (sem_cmp "<" c = false /\ sem_cmp "=" c = false /\ sem_cmp ">" c = true).
Proof. destruct c; cbn; auto. Qed.

Lemma sem_cmp_complement c :
  sem_cmp "!=" c = negb (sem_cmp "=" c) /\
  sem_cmp "<=" c = (sem_cmp "<" c || sem_cmp "=" c) /\
  sem_cmp ">=" c = (sem_cmp ">" c || sem_cmp "=" c).
Proof. destruct c; cbn; auto. Qed.

Lemma sem_cmp_unknown op c :
  String.eqb op "=" = false -> String.eqb op "!=" = false -> String.eqb op "<" = false ->
  String.eqb op "<=" = false -> String.eqb op ">" = false -> String.eqb op ">=" = false ->
  sem_cmp op c = false.
Proof. intros H1 H2 H3 H4 H5 H6. unfold sem_cmp. rewrite H1, H2, H3, H4, H5, H6. reflexivity. Qed.

(** the comparisons are the natural orders: Eq exactly on equal values *)
Lemma bytes_cmp_eq a : forall b, bytes_cmp a b = Eq <-> a = b.
Proof.
  induction a as [|x a IH]; intros [|y b]; cbn; try (split; congruence).
  destruct (Z.compare x y) eqn:E.
  - apply Z.compare_eq in E. subst. rewrite IH. split; congruence.
  - split; [discriminate|]. intros H; inversion H; subst. rewrite Z.compare_refl in E. discriminate.
  - split; [discriminate|]. intros H; inversion H; subst. rewrite Z.compare_refl in E. discriminate.
Qed.

Lemma nil_never_ordered op k k' x :
  String.eqb op "=" = false -> String.eqb op "!=" = false ->
  sem_leaf op (VPtr k None) (VPtr k' x) = false /\ sem_leaf op (VPtr k x) (VPtr k' None) = false.
Proof.
  intros H1 H2. destruct x; cbn; unfold sem_eq_only; rewrite H1, H2; auto.
Qed.

Lemma nil_equals_only_nil k k' x :
  sem_leaf "=" (VPtr k None) (VPtr k' None) = true /\
  sem_leaf "=" (VPtr k None) (VPtr k' (Some x)) = false /\
  sem_leaf "=" (VPtr k (Some x)) (VPtr k' None) = false.
Proof. repeat split; reflexivity. Qed.

(** the verdict depends on the resource only through the operands read *)
Lemma is_allowed_operands r1 r2 : forall f,
  (forall field, filter_operand r1 field = filter_operand r2 field) ->
  is_allowed f r1 = is_allowed f r2.
Proof.
  intros f H. revert f. fix IH 1. intros [field op cv|fs|fs].
  - cbn. rewrite H. reflexivity.
  - cbn. induction fs as [|g gs IHg]; [reflexivity|]. rewrite (IH g), IHg. reflexivity.
  - cbn. induction fs as [|g gs IHg]; [reflexivity|]. rewrite (IH g), IHg. reflexivity.
Qed.
