(* C06 (attribute level): what Attr.UnmarshalToType accepts and what it stores. *)
From Coq Require Import Lia.
From JV Require Import Model.Base Model.GoTime Gen.TypeGo Model.Schema Model.Value
  Model.Strconv Model.Json Model.Attr Proofs.StrconvFacts.

Definition is_int_kind (k : Z) : bool := is_signed k || is_unsigned k.

Lemma bits_pos k : (1 <= bits_of k)%Z.
Proof.
  unfold bits_of.
  repeat match goal with |- context [if ?c then _ else _] => destruct c end; lia.
Qed.

Lemma parse_udec_no_sign c r z :
  parse_udec (String c r) = Some z -> Ascii.eqb c "-" = false /\ Ascii.eqb c "+" = false.
Proof.
  intros H. split.
  - destruct (Ascii.eqb c "-") eqn:E; [|reflexivity].
    apply Ascii.eqb_eq in E. subst. unfold parse_udec in H. cbn in H.
    destruct (DecimalString.NilEmpty.uint_of_string r); discriminate.
  - destruct (Ascii.eqb c "+") eqn:E; [|reflexivity].
    apply Ascii.eqb_eq in E. subst. unfold parse_udec in H. cbn in H.
    destruct (DecimalString.NilEmpty.uint_of_string r); discriminate.
Qed.

Lemma parse_udec_lit_value s z : parse_udec s = Some z -> lit_value s = Some z.
Proof.
  destruct s as [|c r]; [discriminate|]. intros H.
  destruct (parse_udec_no_sign _ _ _ H) as [H1 H2].
  unfold lit_value. rewrite H1, H2. exact H.
Qed.

(** Integers: accepted only when the literal's value lies in the kind's range,
    and stored unchanged. *)
Lemma unmarshal_int_faithful e a lit v :
  is_int_kind (acode a) = true ->
  unmarshal_to_type e a (JNum lit) = Ok v ->
  exists z, lit_value lit = Some z /\ in_range (acode a) z = true /\
            v = wrap_null a (VInt (acode a) z).
Proof.
  unfold is_int_kind, unmarshal_to_type. cbn [is_jnull andb].
  rewrite Bool.andb_false_r. cbn [andb].
  intros Hk.
  destruct (Z.eqb_spec (acode a) 1) as [E1|E1].
  { rewrite E1 in Hk. discriminate. }
  destruct (is_signed (acode a)) eqn:Es.
  - destruct (parse_int lit (bits_of (acode a))) as [z|] eqn:Ep; [|discriminate].
    intros H; inversion H; subst. exists z. split; [eapply parse_int_lit_value; exact Ep|].
    split; [|reflexivity].
    unfold in_range. rewrite Es.
    pose proof (parse_int_range _ _ _ (bits_pos _) Ep).
    apply andb_true_iff. split; [apply Z.leb_le|apply Z.ltb_lt]; lia.
  - cbn in Hk. rewrite Hk.
    destruct (parse_uint lit (bits_of (acode a))) as [z|] eqn:Ep; [|discriminate].
    intros H; inversion H; subst. exists z.
    split; [apply parse_udec_lit_value; eapply parse_uint_lit_value; exact Ep|].
    split; [|reflexivity].
    unfold in_range. rewrite Es, Hk.
    pose proof (parse_uint_range _ _ _ Ep).
    apply andb_true_iff. split; [apply Z.leb_le|apply Z.ltb_lt]; lia.
Qed.

(** null: accepted for nullable attributes (as nil) -- and, the recorded
    finding, for non-nullable bytes (as a nil slice). *)
Lemma unmarshal_null e a v :
  unmarshal_to_type e a JNull = Ok v ->
  (anull a = true /\ v = zero_value (acode a) true) \/
  (anull a = false /\ acode a = 14%Z /\ v = VBytes true []).
Proof.
  unfold unmarshal_to_type. cbn [is_jnull]. rewrite Bool.andb_true_r.
  destruct (anull a) eqn:En.
  - intros H; inversion H. left. auto.
  - cbn [andb]. destruct (Z.eqb_spec (acode a) 14) as [E|E]; cbn [negb]; [|discriminate].
    rewrite E. cbn. unfold wrap_null. rewrite En.
    intros H; inversion H. right. auto.
Qed.

Lemma unmarshal_null_partial e a v :
  acode a <> 14%Z -> unmarshal_to_type e a JNull = Ok v ->
  anull a = true /\ v = zero_value (acode a) true.
Proof.
  intros Hk H. destruct (unmarshal_null e a v H) as [?|[_ [? _]]]; [assumption|contradiction].
Qed.

Lemma unmarshal_null_bytes_refuted e :
  exists a, anull a = false /\ unmarshal_to_type e a JNull = Ok (VBytes true []).
Proof. exists (mkAttr "f" 14 false). split; reflexivity. Qed.

(** Other kinds: the stored value is what the token denotes. *)
Ltac kind_cases a :=
  destruct (Z.eqb_spec (acode a) 1);
  [|destruct (is_signed (acode a)) eqn:?;
    [|destruct (is_unsigned (acode a)) eqn:?;
      [|destruct (Z.eqb_spec (acode a) 12);
        [|destruct (Z.eqb_spec (acode a) 13);
          [|destruct (Z.eqb_spec (acode a) 14)]]]]].

Lemma unmarshal_string e a j v :
  acode a = 1%Z -> j <> JNull -> unmarshal_to_type e a j = Ok v ->
  exists s esc, j = JStr s esc /\ v = wrap_null a (VStr s).
Proof.
  intros Hk Hj. unfold unmarshal_to_type. rewrite Hk. cbn.
  destruct j; try congruence; cbn; rewrite ?Bool.andb_false_r; cbn; try discriminate.
  intros H; inversion H. eauto.
Qed.

Lemma unmarshal_bool e a j v :
  acode a = 12%Z -> j <> JNull -> unmarshal_to_type e a j = Ok v ->
  exists b, j = JBool b /\ v = wrap_null a (VBool b).
Proof.
  intros Hk Hj. unfold unmarshal_to_type. rewrite Hk. cbn.
  destruct j; try congruence; cbn; rewrite ?Bool.andb_false_r; cbn; try discriminate.
  intros H; inversion H. eauto.
Qed.

Lemma unmarshal_time e a j v :
  acode a = 13%Z -> j <> JNull -> unmarshal_to_type e a j = Ok v ->
  exists s t, j = JStr s false /\ tparse e s = Some t /\ v = wrap_null a (VTime t).
Proof.
  intros Hk Hj. unfold unmarshal_to_type. rewrite Hk. cbn.
  destruct j as [| | |s esc| |]; try congruence; cbn; rewrite ?Bool.andb_false_r; cbn; try discriminate.
  destruct esc; [discriminate|].
  destruct (tparse e s) as [t|] eqn:E; [|discriminate].
  intros H; inversion H. eauto.
Qed.

Lemma unmarshal_bytes_string e a s esc v :
  acode a = 14%Z -> unmarshal_to_type e a (JStr s esc) = Ok v ->
  exists b, b64dec e s = Some b /\ v = wrap_null a (VBytes false b).
Proof.
  intros Hk. unfold unmarshal_to_type. rewrite Hk. cbn. rewrite Bool.andb_false_r. cbn.
  destruct (b64dec e s) as [b|]; [|discriminate].
  intros H; inversion H. eauto.
Qed.

(** The stored value has exactly the Go type the attribute declares. *)
Lemma unmarshal_typed e a j v :
  (1 <= acode a <= 14)%Z -> unmarshal_to_type e a j = Ok v ->
  kind_of_value v = (acode a, anull a).
Proof.
  intros Hr. unfold unmarshal_to_type.
  destruct (anull a && is_jnull j) eqn:E0.
  { apply andb_true_iff in E0. destruct E0 as [En _].
    intros H; inversion H. unfold zero_value. rewrite En.
    destruct (Z.leb_spec 1 (acode a)); [|lia]. destruct (Z.leb_spec (acode a) 14); [|lia].
    reflexivity. }
  destruct (is_jnull j && negb (acode a =? 14)%Z); [discriminate|].
  assert (W : forall v0, kind_of_value v0 = (acode a, false) ->
                         kind_of_value (wrap_null a v0) = (acode a, anull a)).
  { intros v0 H0. unfold wrap_null. destruct (anull a); [reflexivity|exact H0]. }
  kind_cases a.
  - destruct j; try discriminate. intros H; inversion H. apply W. cbn. congruence.
  - destruct j; try discriminate. destruct (parse_int _ _); [|discriminate].
    intros H; inversion H. apply W. reflexivity.
  - destruct j; try discriminate. destruct (parse_uint _ _); [|discriminate].
    intros H; inversion H. apply W. reflexivity.
  - destruct j; try discriminate. intros H; inversion H. apply W. cbn. congruence.
  - destruct j as [| | |s esc| |]; try discriminate. destruct esc; [discriminate|].
    destruct (tparse e s); [|discriminate].
    intros H; inversion H. apply W. cbn. congruence.
  - destruct j as [| | |s esc|l|]; try discriminate.
    + intros H; inversion H. apply W. cbn. congruence.
    + destruct (b64dec e s); [|discriminate]. intros H; inversion H. apply W. cbn. congruence.
    + destruct (bytes_of_array l); [|discriminate]. intros H; inversion H. apply W. cbn. congruence.
  - discriminate.
Qed.

(** A panic can only come from the bytes branch (type.go: panic(err)). *)
Lemma unmarshal_panic_only_bytes e a j :
  unmarshal_to_type e a j = Panic -> acode a = 14%Z.
Proof.
  unfold unmarshal_to_type.
  destruct (anull a && is_jnull j); [discriminate|].
  destruct (is_jnull j && negb (acode a =? 14)%Z); [discriminate|].
  kind_cases a; try (intros _; assumption).
  - destruct j; discriminate.
  - destruct j; try discriminate. destruct (parse_int _ _); discriminate.
  - destruct j; try discriminate. destruct (parse_uint _ _); discriminate.
  - destruct j; discriminate.
  - destruct j as [| | |s esc| |]; try discriminate. destruct esc; [discriminate|].
    destruct (tparse e s); discriminate.
  - discriminate.
Qed.

Lemma unmarshal_panic_witness e :
  unmarshal_to_type e (mkAttr "f" 14 false) (JNum "123") = Panic.
Proof. reflexivity. Qed.

(** Round trip at the attribute level: printing an in-range integer and
    reading it back gives the same value (used by C01). *)
Lemma unmarshal_int_roundtrip e a z :
  is_int_kind (acode a) = true -> in_range (acode a) z = true ->
  unmarshal_to_type e a (JNum (itoa z)) = Ok (wrap_null a (VInt (acode a) z)).
Proof.
  unfold is_int_kind, unmarshal_to_type, in_range. cbn [is_jnull andb].
  rewrite Bool.andb_false_r. cbn [andb]. intros Hk.
  destruct (Z.eqb_spec (acode a) 1) as [E1|E1].
  { rewrite E1 in Hk. discriminate. }
  destruct (is_signed (acode a)) eqn:Es.
  - intros Hr. apply andb_true_iff in Hr. destruct Hr as [H1 H2].
    apply Z.leb_le in H1. apply Z.ltb_lt in H2.
    rewrite parse_int_itoa by lia. reflexivity.
  - cbn in Hk. rewrite Hk. intros Hr. apply andb_true_iff in Hr. destruct Hr as [H1 H2].
    apply Z.leb_le in H1. apply Z.ltb_lt in H2.
    unfold itoa. destruct (Z.ltb_spec z 0); [lia|].
    rewrite parse_uint_utoa by lia. reflexivity.
Qed.
