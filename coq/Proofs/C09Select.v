(* C09 -- the ID selection lists every selected resource exactly once when the
   ID list has no repetition: it is the sub-list of the collection (order kept)
   whose IDs are listed.  With a repeated ID the selection loop of Range
   (no break) adds the resource once per occurrence. *)
From Coq Require Import List String Bool.
From JV Require Import Model.Base Model.GoTime Gen.TypeGo Model.Schema Model.Value
  Model.Resource Model.Filter Model.Range.
Import ListNotations.

Definition listed (ids : list str) (r : resource) : bool :=
  existsb (String.eqb (id_of r)) ids.

Lemma inner_none r ids :
  existsb (String.eqb (id_of r)) ids = false ->
  flat_map (fun id => if String.eqb (id_of r) id then [r] else []) ids = [].
Proof.
  induction ids as [|i ids IH]; cbn; [reflexivity|].
  intros H. apply orb_false_iff in H. destruct H as [H1 H2].
  rewrite H1. cbn. apply IH. exact H2.
Qed.

Lemma existsb_eqb_In x (ids : list str) :
  existsb (String.eqb x) ids = true <-> In x ids.
Proof.
  rewrite existsb_exists. split.
  - intros [y [Hy E]]. apply String.eqb_eq in E. subst. exact Hy.
  - intros H. exists x. split; [exact H|apply String.eqb_refl].
Qed.

Lemma inner_once r ids :
  NoDup ids ->
  flat_map (fun id => if String.eqb (id_of r) id then [r] else []) ids
  = if listed ids r then [r] else [].
Proof.
  unfold listed. induction ids as [|i ids IH]; intros Hnd; cbn; [reflexivity|].
  inversion Hnd as [|? ? Hni Hnd']; subst.
  destruct (String.eqb_spec (id_of r) i) as [E|N]; cbn.
  - rewrite inner_none; [reflexivity|].
    destruct (existsb (String.eqb (id_of r)) ids) eqn:Ex; [|reflexivity].
    apply existsb_eqb_In in Ex. rewrite E in Ex. contradiction.
  - apply IH. exact Hnd'.
Qed.

Lemma flat_map_filter {A} (p : A -> bool) (l : list A) :
  flat_map (fun x => if p x then [x] else []) l = List.filter p l.
Proof.
  induction l as [|x l IH]; cbn; [reflexivity|]. rewrite IH. destruct (p x); reflexivity.
Qed.

Lemma select_ids_once c ids :
  NoDup ids -> ids <> [] -> select_ids c ids = List.filter (listed ids) c.
Proof.
  intros Hnd Hne. destruct ids as [|i ids]; [congruence|]. unfold select_ids.
  rewrite <- flat_map_filter. apply flat_map_ext. intros r. apply inner_once. exact Hnd.
Qed.

Lemma NoDup_map_filter {A B} (f : A -> B) (p : A -> bool) (l : list A) :
  NoDup (map f l) -> NoDup (map f (List.filter p l)).
Proof.
  induction l as [|x l IH]; cbn; intros H; [constructor|].
  inversion H as [|? ? Hni Hnd]; subst. destruct (p x); cbn; [|apply IH; exact Hnd].
  constructor; [|apply IH; exact Hnd].
  intros Hin. apply Hni. apply in_map_iff in Hin. destruct Hin as [y [Ey Hy]].
  apply filter_In in Hy. apply in_map_iff. exists y. tauto.
Qed.

Lemma select_ids_nodup c ids :
  NoDup ids -> NoDup (map id_of c) -> NoDup (map id_of (select_ids c ids)).
Proof.
  intros Hi Hc. destruct ids as [|i ids]; [exact Hc|].
  rewrite select_ids_once; [|exact Hi|discriminate]. apply NoDup_map_filter. exact Hc.
Qed.

(* without the hypothesis: an ID listed twice selects the resource twice *)
Lemma select_ids_twice r : select_ids [r] [id_of r; id_of r] = [r; r].
Proof. unfold select_ids. cbn. rewrite String.eqb_refl. reflexivity. Qed.
