(* C20: copying and re-creating an instance of an accepted struct never
   panics. *)
From Coq Require Import Lia.
From JV Require Import Model.Base Model.GoTime Gen.TypeGo Model.Schema Model.Value
  Model.Wrapper Model.WrapCopy Proofs.MapFacts Proofs.SoftFacts Proofs.WrapperFacts
  Proofs.C20Facts Proofs.C20Safe Proofs.C20Rels.
Open Scope list_scope.

(** * the tagged fields have distinct json names *)
Lemma names_ok_unique fs : forall seen, names_ok fs seen = true ->
  forall f g, In f fs -> In g fs -> tagged f = true -> tagged g = true ->
  sf_json f = sf_json g -> f = g.
Proof.
  induction fs as [|f0 fs IH]; intros seen H f g Hf Hg Tf Tg E; [contradiction|].
  cbn [names_ok] in H. fold (tagged f0) in H. destruct (tagged f0) eqn:T0.
  - repeat (apply andb_true_iff in H; destruct H as [H ?]).
    match goal with Hn : names_ok fs _ = true |- _ => rename Hn into Hrest end.
    assert (Hfresh : forall x, In x fs -> tagged x = true -> sf_json x <> sf_json f0).
    { intros x Hx Tx Ex. destruct (names_ok_spec fs _ Hrest x Hx Tx) as [_ [_ Hn]]. apply Hn. left. symmetry. exact Ex. }
    destruct Hf as [<-|Hf], Hg as [<-|Hg]; [reflexivity| | |exact (IH _ Hrest f g Hf Hg Tf Tg E)].
    + exfalso. apply (Hfresh g Hg Tg). symmetry. exact E.
    + exfalso. apply (Hfresh f Hf Tf). exact E.
  - destruct Hf as [<-|Hf]; [congruence|]. destruct Hg as [<-|Hg]; [congruence|].
    exact (IH _ H f g Hf Hg Tf Tg E).
Qed.

Lemma check_names_ok d : check_struct d = true -> names_ok d ["id"] = true.
Proof.
  unfold check_struct. destruct (find_field is_id_field d); [|discriminate]. intros H.
  apply andb_true_iff in H. destruct H as [H _]. apply andb_true_iff in H. destruct H as [H _].
  apply andb_true_iff in H. destruct H as [H _]. apply andb_true_iff in H. destruct H as [_ H]. exact H.
Qed.

(** a name declared by a tagged field *)
Definition decl (d : structdesc) (n : str) : Prop := exists f, In f d /\ tagged f = true /\ sf_json f = n.

(** * the slot of a declared name *)
Lemma get_slot_ext (p q : sfield -> bool) d : forall vals,
  (forall f, In f d -> p f = q f) -> get_slot p d vals = get_slot q d vals.
Proof.
  induction d as [|f d IH]; intros [|v vals] H; cbn [get_slot]; try reflexivity.
  rewrite (H f (or_introl eq_refl)). destruct (q f); [reflexivity|]. apply IH.
  intros g Hg. apply H. right. exact Hg.
Qed.

Lemma slot_decl d vals n :
  check_struct d = true -> NoDup (map sf_name d) -> length vals = length d -> decl d n ->
  exists g v0, get_slot (by_json n) d vals = Some (g, v0) /\
               get_slot (by_json_api n) d vals = Some (g, v0) /\
               In g d /\ tagged g = true /\ sf_json g = n /\ sf_exported g = true /\
               n <> "" /\ n <> "id".
Proof.
  intros Hc Hnd Hl [f [Hin [Ht Hj]]]. pose proof (check_facts d Hc) as Hfacts.
  destruct (af_tagged d Hfacts f Hin Ht) as [Hne [Hex Hnid]]. rewrite Hj in *.
  destruct (get_slot_exists (by_json n) d vals Hl) as [g [v0 [Hs [Hg Hp]]]].
  { exists f. split; [exact Hin|]. unfold by_json. rewrite Hj. apply String.eqb_refl. }
  unfold by_json in Hp. apply String.eqb_eq in Hp.
  assert (Htag : forall x, In x d -> sf_json x = n -> tagged x = true).
  { intros x Hx Ex. apply (same_json_is_tagged d n x Hfacts Hnd); try assumption.
    rewrite <- Hj. apply tagged_in_names; assumption. }
  assert (Htg : tagged g = true) by (apply Htag; [exact Hg|symmetry; exact Hp]).
  exists g, v0. split; [exact Hs|]. split.
  - rewrite <- Hs. apply get_slot_ext. intros x Hx. unfold by_json_api, by_json.
    destruct (String.eqb_spec n (sf_json x)) as [E|N]; [|reflexivity]. cbn [andb].
    specialize (Htag x Hx (eq_sym E)). unfold tagged in Htag. apply andb_true_iff in Htag.
    destruct Htag as [_ Hr]. destruct (String.eqb_spec (sf_api x) "") as [E0|_]; [|reflexivity].
    rewrite E0 in Hr. discriminate.
  - destruct (af_tagged d Hfacts g Hg Htg) as [_ [Hexg _]].
    repeat split; auto.
Qed.

(** * reading and writing through the slot *)
Lemma get_decl d vals typ attrs rels n :
  check_struct d = true -> NoDup (map sf_name d) -> length vals = length d -> decl d n ->
  exists g v0, get_slot (by_json n) d vals = Some (g, v0) /\ In g d /\ tagged g = true /\ sf_json g = n /\
               wrapper_get (mkWrapper d vals typ attrs rels) n = Ok (read_slot v0).
Proof.
  intros Hc Hnd Hl Hd. destruct (slot_decl d vals n Hc Hnd Hl Hd) as [g [v0 [S1 [S2 [Hg [Ht [Hj [He [Hne Hnid]]]]]]]]].
  exists g, v0. repeat (split; [assumption|]).
  unfold wrapper_get. apply String.eqb_neq in Hnid. rewrite Hnid. unfold wrapper_get_field. cbn [w_desc w_vals].
  apply String.eqb_neq in Hne. rewrite Hne.
  change (fun f => String.eqb n (sf_json f) && negb (String.eqb (sf_api f) "")) with (by_json_api n).
  rewrite S2, He. cbn [negb]. destruct v0 as [| | | | | |k0 [x|]|]; reflexivity.
Qed.

Lemma set_decl d vals typ attrs rels n v g v0 :
  check_struct d = true -> NoDup (map sf_name d) -> length vals = length d -> decl d n ->
  get_slot (by_json n) d vals = Some (g, v0) -> wset_ok g v ->
  exists vals', wrapper_set (mkWrapper d vals typ attrs rels) n v = Ok (mkWrapper d vals' typ attrs rels) /\
                length vals' = length d.
Proof.
  intros Hc Hnd Hl Hd Hs Hok.
  destruct (slot_decl d vals n Hc Hnd Hl Hd) as [g' [v0' [S1 [_ [Hg [Ht [Hj [He [Hne Hnid]]]]]]]]].
  rewrite Hs in S1. injection S1 as <- <-.
  unfold wrapper_set. apply String.eqb_neq in Hnid. rewrite Hnid. unfold wrapper_set_field. cbn [w_desc w_vals w_typ w_attrs w_rels].
  apply String.eqb_neq in Hne. rewrite Hne.
  change (fun f => String.eqb n (sf_json f)) with (by_json n). rewrite Hs, He. cbn [negb].
  destruct Hok as [->|Hty].
  - eexists. split; [reflexivity|]. rewrite set_slot_length. exact Hl.
  - destruct v; try (rewrite Hty; eexists; split; [reflexivity|rewrite set_slot_length; exact Hl]).
    destruct (sf_type g); discriminate.
Qed.

(** * the values a Go struct holds have their fields' types *)
Definition slot_typed (f : sfield) (v : value) : Prop :=
  tagged f = true -> value_has_type (sf_type f) v = true /\ value_kind_ok v = true.

Lemma get_slot_typed p d : forall vals g v,
  Forall2 slot_typed d vals -> get_slot p d vals = Some (g, v) -> slot_typed g v.
Proof.
  induction d as [|f d IH]; intros vals g v H Hs; inversion H as [|? v1 ? vals1 H1 H2]; subst; cbn [get_slot] in Hs; [discriminate|].
  destruct (p f); [injection Hs as <- <-; exact H1|exact (IH _ _ _ H2 Hs)].
Qed.

Lemma read_slot_ok g v0 : value_has_type (sf_type g) v0 = true -> wset_ok g (read_slot v0).
Proof.
  intros H. destruct v0 as [| | | | | |k0 [x|]|]; cbn [read_slot]; try (right; exact H). left. reflexivity.
Qed.

Lemma typed_string v : value_has_type (GTAttr 1 false) v = true -> value_kind_ok v = true -> exists s, v = VStr s.
Proof.
  destruct v as [|s|k z|b|t|nn bs|k o|nn l]; cbn [value_has_type kind_of_value]; intros H K;
    try (exists s; reflexivity); try (cbn in H; discriminate).
  - apply andb_true_iff in H. destruct H as [H _]. apply andb_true_iff in H. destruct H as [_ H].
    apply Z.eqb_eq in H. subst k. cbn in K. discriminate.
  - apply andb_true_iff in H. destruct H as [_ H]. discriminate.
Qed.

Lemma typed_strs v : value_has_type GTStrs v = true -> exists nn l, v = VStrs nn l.
Proof. destruct v; cbn; intros H; try discriminate. eauto. Qed.

(** * the names of the built type are declared names *)
Lemma split_aux_cons2 s : forall cur hd t tl,
  split_comma_aux s cur = hd :: t :: tl -> exists a rest, s = (a ++ String "," rest)%string /\ hd = (cur ++ a)%string.
Proof.
  induction s as [|c s IH]; intros cur hd t tl H; cbn [split_comma_aux] in H; [discriminate|].
  destruct (Ascii.eqb c ",") eqn:E.
  - injection H as <- _. apply Ascii.eqb_eq in E. subst c. exists ""%string, s. split; [reflexivity|].
    symmetry. apply sappend_nil_r.
  - destruct (IH _ _ _ _ H) as [a [rest [-> ->]]]. exists (String c a), rest. split; [reflexivity|].
    rewrite sappend_assoc. reflexivity.
Qed.

Lemma rel_of_field_res_tag typ f x : rel_of_field typ f = Some x -> is_res_tag (sf_api f) = true.
Proof.
  unfold rel_of_field. destruct (split_comma (sf_api f)) as [|hd [|target tl2]] eqn:E; try discriminate.
  destruct (String.eqb_spec hd "rel") as [->|N]; [|discriminate]. intros _.
  unfold split_comma in E. destruct (split_aux_cons2 _ _ _ _ _ E) as [a [rest [Ha Hh]]].
  cbn [append] in Hh. subst a. rewrite Ha. unfold is_res_tag.
  assert (P : String.prefix "rel," ("rel" ++ String "," rest)%string = true) by (destruct rest; reflexivity).
  rewrite P. apply Bool.orb_true_r.
Qed.

(** the field called ID *)
Lemma id_field_unique d f g :
  NoDup (map sf_name d) -> In f d -> In g d -> is_id_field f = true -> is_id_field g = true -> f = g.
Proof.
  unfold is_id_field. intros Hnd Hf Hg Ef Eg. apply String.eqb_eq in Ef, Eg.
  induction d as [|x d IH]; [contradiction|]. cbn in Hnd. apply NoDup_cons_iff in Hnd. destruct Hnd as [Hx Hd].
  destruct Hf as [<-|Hf], Hg as [<-|Hg]; try reflexivity.
  - exfalso. apply Hx. rewrite Ef, <- Eg. apply in_map. exact Hg.
  - exfalso. apply Hx. rewrite Eg, <- Ef. apply in_map. exact Hf.
  - apply IH; assumption.
Qed.

Lemma find_get_slot (p : sfield -> bool) d : forall vals f,
  find p d = Some f -> length vals = length d -> exists v, get_slot p d vals = Some (f, v).
Proof.
  induction d as [|f0 d IH]; intros [|v vals] f H Hl; cbn [find get_slot] in *; try discriminate.
  destruct (p f0); [injection H as <-; eauto|]. apply IH; [exact H|cbn in Hl; lia].
Qed.

Section Accepted.
  Variable d : structdesc.
  Hypothesis Hc : check_struct d = true.
  Hypothesis Hnd : NoDup (map sf_name d).
  (** a field called ID is exported (Go: its name starts with a capital) *)
  Hypothesis Hexp : forall f, In f d -> is_id_field f = true -> sf_exported f = true.

  Lemma id_field_facts : exists idf, In idf d /\ is_id_field idf = true /\ sf_json idf = "id" /\
                                     sf_type idf = GTAttr 1 false /\ find_field is_id_field d = Some idf.
  Proof.
    destruct (af_id d (check_facts d Hc)) as [idf [Hfind [Hj Ht]]].
    pose proof (find_some _ _ Hfind) as [Hin Hid]. exists idf. auto.
  Qed.

  (** only the ID field carries the json name "id" *)
  Lemma json_id_is_id g : In g d -> sf_json g = "id" -> is_id_field g = true.
  Proof.
    intros Hg Hj. pose proof (check_facts d Hc) as Hfacts.
    destruct (is_id_field g) eqn:E; [reflexivity|exfalso].
    destruct (is_res_tag (sf_api g)) eqn:Er.
    - assert (Ht : tagged g = true) by (unfold tagged; rewrite E, Er; reflexivity).
      destruct (af_tagged d Hfacts g Hg Ht) as [_ [_ Hn]]. exact (Hn Hj).
    - destruct (af_untagged d Hfacts g Hg E Er) as [H|H]; [rewrite Hj in H; discriminate|].
      apply H. rewrite Hj. left. reflexivity.
  Qed.

  (** Set("id", s) on any instance *)
  Lemma set_id_key vals typ attrs rels s :
    length vals = length d ->
    exists vals', wrapper_set (mkWrapper d vals typ attrs rels) "id" (VStr s)
                  = Ok (mkWrapper d vals' typ attrs rels) /\ length vals' = length d.
  Proof.
    intros Hl. destruct id_field_facts as [idf [Hin [Hid [Hj [Ht Hfind]]]]].
    unfold wrapper_set. cbn [String.eqb Ascii.eqb Bool.eqb]. unfold wrapper_set_id. cbn [w_desc w_vals w_typ w_attrs w_rels].
    change (fun f => String.eqb (sf_name f) "ID") with is_id_field.
    destruct (find_get_slot is_id_field d vals idf Hfind Hl) as [v Hslot]. rewrite Hslot, Ht. cbn [bind].
    set (vals1 := set_slot is_id_field d vals (fun _ => VStr s)).
    assert (Hl1 : length vals1 = length d) by (unfold vals1; rewrite set_slot_length; exact Hl).
    unfold wrapper_set_field. cbn [w_desc w_vals w_typ w_attrs w_rels].
    change (String.eqb "id" "") with false. cbv iota.
    destruct (get_slot_exists (fun f => String.eqb "id" (sf_json f)) d vals1 Hl1) as [g [v0 [Hs [Hg Hp]]]].
    { exists idf. split; [exact Hin|]. rewrite Hj. reflexivity. }
    rewrite Hs. apply String.eqb_eq in Hp.
    assert (Hgid : is_id_field g = true) by (apply json_id_is_id; [exact Hg|symmetry; exact Hp]).
    rewrite (Hexp g Hg Hgid). cbn [negb].
    assert (g = idf) by (apply (id_field_unique d g idf Hnd); assumption). subst g.
    rewrite Ht. cbn. eexists. split; [reflexivity|]. rewrite set_slot_length. exact Hl1.
  Qed.

  (** the names of the built type: declared by a tagged field, or "id" when
      the struct's own type name is a resource tag *)
  Lemma attr_decl n a : In (n, a) (build_attrs d) -> (decl d n \/ n = "id") /\ aname a = n.
  Proof.
    intros Hin. destruct (build_attrs_from d n a Hin) as [f [Hf [Hapi [Hj Ha]]]]. split.
    - destruct (is_id_field f) eqn:E.
      + right. destruct id_field_facts as [idf [Hin' [Hid [Hj' _]]]].
        assert (f = idf) by (apply (id_field_unique d f idf Hnd); assumption). subst f. rewrite <- Hj. exact Hj'.
      + left. exists f. split; [exact Hf|]. split; [|exact Hj].
        unfold tagged, is_res_tag. rewrite E, Hapi. reflexivity.
    - rewrite Ha. destruct (get_attr_type _). reflexivity.
  Qed.

  Lemma rel_decl typ rels n x : build_rels typ d = Some rels -> In (n, x) rels ->
    from_name x = n /\
    ((exists f, In f d /\ tagged f = true /\ sf_json f = n /\ rel_of_field typ f = Some x) \/
     (n = "id" /\ to_one x = true)).
  Proof.
    intros Hb Hin. destruct (build_rels_from typ d rels n x Hb Hin) as [f [Hf [Hr Hj]]].
    assert (Hfn : from_name x = n).
    { unfold rel_of_field in Hr. destruct (split_comma (sf_api f)) as [|hd [|target tl2]]; try discriminate.
      destruct (String.eqb hd "rel"); [|discriminate]. injection Hr as <-. exact Hj. }
    split; [exact Hfn|].
    destruct (is_id_field f) eqn:E.
    - right. destruct id_field_facts as [idf [Hin' [Hid [Hj' [Ht _]]]]].
      assert (f = idf) by (apply (id_field_unique d f idf Hnd); assumption). subst f.
      split; [rewrite <- Hj; exact Hj'|].
      unfold rel_of_field in Hr. destruct (split_comma (sf_api idf)) as [|hd [|target tl2]]; try discriminate.
      destruct (String.eqb hd "rel"); [|discriminate]. injection Hr as <-. cbn [to_one]. rewrite Ht. reflexivity.
    - left. exists f. split; [exact Hf|]. split; [|split; [exact Hj|exact Hr]].
      unfold tagged. rewrite E, (rel_of_field_res_tag typ f x Hr). reflexivity.
  Qed.

  Lemma rel_field_type f : In f d -> tagged f = true -> forall typ x, rel_of_field typ f = Some x ->
    (sf_type f = GTAttr 1 false /\ to_one x = true) \/ (sf_type f = GTStrs /\ to_one x = false).
  Proof.
    intros Hf _ typ x Hr. pose proof (check_rel_clause d Hc) as Hall. rewrite forallb_forall in Hall.
    specialize (Hall f Hf). unfold rel_clause in Hall.
    pose proof (rel_of_field_res_tag typ f x Hr) as Hres. unfold is_res_tag in Hres.
    assert (Hcond : String.eqb (sf_api f) "rel" || String.prefix "rel," (sf_api f) = true).
    { destruct (String.eqb_spec (sf_api f) "attr") as [E|_]; [|exact Hres].
      exfalso. unfold rel_of_field in Hr. rewrite E in Hr. cbn in Hr. discriminate. }
    rewrite Hcond in Hall. apply andb_true_iff in Hall. destruct Hall as [_ Hty].
    unfold rel_of_field in Hr. destruct (split_comma (sf_api f)) as [|hd [|target tl2]]; try discriminate.
    destruct (String.eqb hd "rel"); [|discriminate]. injection Hr as <-. cbn [to_one].
    destruct (sf_type f) as [k nl| |]; try discriminate.
    - destruct k as [|p|p]; try discriminate. destruct p; try discriminate. destruct nl; [discriminate|].
      left. split; reflexivity.
    - right. split; reflexivity.
  Qed.

  Variable vals : list value.
  Hypothesis Hl : length vals = length d.
  Hypothesis Hty : Forall2 slot_typed d vals.
  Variables (typ : str) (attrs : list (str * attr)) (rels : list (str * rel)).
  Let w := mkWrapper d vals typ attrs rels.

  (** the running copy: same descriptor, aligned values *)
  Definition copy_inv (r : res wrapper) : Prop :=
    exists vals', r = Ok (mkWrapper d vals' typ attrs rels) /\ length vals' = length d.

  Lemma copy_attr_ok n : decl d n -> forall r, copy_inv r ->
    copy_inv (bind r (fun nw => bind (wrapper_get w n) (fun v => wrapper_set nw n v))).
  Proof.
    intros Hd r [vals' [-> Hl']]. cbn [bind].
    destruct (get_decl d vals typ attrs rels n Hc Hnd Hl Hd) as [g [v0 [Hs [Hg [Ht [Hj Hget]]]]]].
    fold w in Hget. rewrite Hget. cbn [bind].
    destruct (slot_decl d vals' n Hc Hnd Hl' Hd) as [g' [v0' [S1 [_ [Hg' [Ht' [Hj' _]]]]]]].
    assert (g' = g).
    { apply (names_ok_unique d ["id"] (check_names_ok d Hc)); try assumption. rewrite Hj, Hj'. reflexivity. }
    subst g'.
    destruct (get_slot_typed _ _ _ _ _ Hty Hs Ht) as [Hvt _].
    destruct (set_decl d vals' typ attrs rels n (read_slot v0) g v0' Hc Hnd Hl' Hd S1 (read_slot_ok g v0 Hvt))
      as [vals'' [E Hl'']].
    rewrite E. exists vals''. split; [reflexivity|exact Hl''].
  Qed.

  Lemma copy_id_ok : forall r, copy_inv r ->
    copy_inv (bind r (fun nw => bind (wrapper_get w "id") (fun v => wrapper_set nw "id" v))).
  Proof.
    intros r [vals' [-> Hl']]. cbn [bind]. unfold wrapper_get at 1. cbn [String.eqb Ascii.eqb Bool.eqb bind].
    destruct (set_id_key vals' typ attrs rels (wrapper_get_id w) Hl') as [vals'' [E Hl'']].
    rewrite E. exists vals''. split; [reflexivity|exact Hl''].
  Qed.

  Lemma copy_attrs_ok l : (forall n a, In (n, a) l -> (decl d n \/ n = "id") /\ aname a = n) ->
    forall r, copy_inv r -> copy_inv (fold_left (copy_attr_step w) l r).
  Proof.
    induction l as [|[n a] l IH]; intros H r Hr; [exact Hr|]. cbn [fold_left]. apply IH.
    - intros n' a' Hin. apply H. right. exact Hin.
    - destruct (H n a (or_introl eq_refl)) as [[Hd| ->] Hn]; unfold copy_attr_step; cbn [snd]; rewrite Hn.
      + apply copy_attr_ok; assumption.
      + apply copy_id_ok; assumption.
  Qed.

  Lemma copy_rel_ok typ0 n x : (exists f, In f d /\ tagged f = true /\ sf_json f = n /\
                                          rel_of_field typ0 f = Some x /\ from_name x = n) ->
    forall r, copy_inv r -> copy_inv (copy_rel_step w r (n, x)).
  Proof.
    intros [f [Hf [Htf [Hjf [Hr Hfn]]]]] r [vals' [-> Hl']]. unfold copy_rel_step. cbn [bind snd]. rewrite Hfn.
    assert (Hd : decl d n) by (exists f; auto).
    destruct (get_decl d vals typ attrs rels n Hc Hnd Hl Hd) as [g [v0 [Hs [Hg [Ht [Hj Hget]]]]]].
    fold w in Hget. rewrite Hget. cbn [bind].
    assert (g = f).
    { apply (names_ok_unique d ["id"] (check_names_ok d Hc)); try assumption. rewrite Hj, Hjf. reflexivity. }
    subst g.
    destruct (slot_decl d vals' n Hc Hnd Hl' Hd) as [g' [v0' [S1 [_ [Hg' [Ht' [Hj' _]]]]]]].
    assert (g' = f).
    { apply (names_ok_unique d ["id"] (check_names_ok d Hc)); try assumption. rewrite Hjf, Hj'. reflexivity. }
    subst g'.
    destruct (get_slot_typed _ _ _ _ _ Hty Hs Ht) as [Hvt Hvk].
    destruct (rel_field_type f Hf Htf typ0 x Hr) as [[Et E1]|[Et E1]]; rewrite E1.
    - rewrite Et in Hvt. destruct (typed_string v0 Hvt Hvk) as [s ->]. cbn [read_slot].
      destruct (set_decl d vals' typ attrs rels n (VStr s) f v0' Hc Hnd Hl' Hd S1) as [vals'' [E Hl'']].
      { right. rewrite Et. reflexivity. }
      rewrite E. exists vals''. split; [reflexivity|exact Hl''].
    - rewrite Et in Hvt. destruct (typed_strs v0 Hvt) as [nn [l ->]]. cbn [read_slot].
      destruct (set_decl d vals' typ attrs rels n (VStrs nn l) f v0' Hc Hnd Hl' Hd S1) as [vals'' [E Hl'']].
      { right. rewrite Et. reflexivity. }
      rewrite E. exists vals''. split; [reflexivity|exact Hl''].
  Qed.

  Lemma copy_rel_id_ok x : from_name x = "id" -> to_one x = true ->
    forall r, copy_inv r -> copy_inv (copy_rel_step w r ("id", x)).
  Proof.
    intros Hfn H1 r [vals' [-> Hl']]. unfold copy_rel_step. cbn [bind snd]. rewrite Hfn, H1.
    unfold wrapper_get at 1. cbn [String.eqb Ascii.eqb Bool.eqb bind].
    destruct (set_id_key vals' typ attrs rels (wrapper_get_id w) Hl') as [vals'' [E Hl'']].
    rewrite E. exists vals''. split; [reflexivity|exact Hl''].
  Qed.

  Lemma copy_rels_ok typ0 l :
    (forall n x, In (n, x) l -> from_name x = n /\
       ((exists f, In f d /\ tagged f = true /\ sf_json f = n /\ rel_of_field typ0 f = Some x) \/
        (n = "id" /\ to_one x = true))) ->
    forall r, copy_inv r -> copy_inv (fold_left (copy_rel_step w) l r).
  Proof.
    induction l as [|[n x] l IH]; intros H r Hr; [exact Hr|]. cbn [fold_left]. apply IH.
    - intros n' x' Hin. apply H. right. exact Hin.
    - destruct (H n x (or_introl eq_refl)) as [Hfn [[f [Hf [Ht [Hj Hrf]]]]|[-> H1]]].
      + apply (copy_rel_ok typ0 n x); [exists f; auto|exact Hr].
      + apply copy_rel_id_ok; assumption.
  Qed.
End Accepted.

Lemma zero_vals_length d : length (zero_vals d) = length d.
Proof. unfold zero_vals. apply map_length. Qed.

(** Copy and New of an accepted struct succeed *)
Theorem copy_checked_ok d vals w :
  check_struct d = true -> NoDup (map sf_name d) ->
  (forall f, In f d -> is_id_field f = true -> sf_exported f = true) ->
  length vals = length d -> Forall2 slot_typed d vals ->
  wrap d vals = Ok w ->
  (exists w', wrapper_copy w = Ok w' /\ w_desc w' = d /\ w_typ w' = w_typ w /\
              w_attrs w' = w_attrs w /\ w_rels w' = w_rels w) /\
  (exists w0, wrapper_new w = Ok w0).
Proof.
  intros Hc Hnd Hid Hl Hty Hw.
  destruct (accept_both d vals Hc) as [rels [_ Hw']]. rewrite Hw in Hw'. injection Hw' as ->.
  destruct (accept_both d (zero_vals d) Hc) as [rels0 [_ Hw0]].
  assert (Hrels : build_rels (struct_type_name d) d = Some rels).
  { unfold wrap in Hw. rewrite Hc in Hw. cbn [negb] in Hw.
    destruct (build_rels (struct_type_name d) d); [|discriminate]. injection Hw as <-. reflexivity. }
  assert (rels0 = rels).
  { unfold wrap in Hw0. rewrite Hc, Hrels in Hw0. cbn [negb] in Hw0. injection Hw0 as <-. reflexivity. }
  subst rels0. split; [|exists (mkWrapper d (zero_vals d) (struct_type_name d) (build_attrs d) rels); exact Hw0].
  unfold wrapper_copy. cbn [w_desc w_attrs w_rels]. unfold wrap_new. rewrite Hw0. cbn [bind].
  (* SetID on the new instance *)
  pose proof (check_facts d Hc) as Hfacts. destruct (af_id d Hfacts) as [idf [Hfind [_ Hidty]]].
  destruct (find_get_slot is_id_field d (zero_vals d) idf Hfind (zero_vals_length d)) as [v Hslot].
  unfold wrapper_set_id. cbn [w_desc w_vals w_typ w_attrs w_rels].
  change (fun f => String.eqb (sf_name f) "ID") with is_id_field. rewrite Hslot, Hidty. cbn [bind].
  set (nw1 := Ok (mkWrapper d _ (struct_type_name d) (build_attrs d) rels)).
  assert (I1 : copy_inv d (struct_type_name d) (build_attrs d) rels nw1).
  { eexists. split; [reflexivity|]. rewrite set_slot_length. apply zero_vals_length. }
  pose proof (copy_attrs_ok d Hc Hnd Hid vals Hl Hty (struct_type_name d) (build_attrs d) rels (build_attrs d)
                (fun n a Hin => attr_decl d Hc Hnd n a Hin) nw1 I1) as I2.
  pose proof (copy_rels_ok d Hc Hnd Hid vals Hl Hty (struct_type_name d) (build_attrs d) rels (struct_type_name d) rels
                (fun n x Hin => rel_decl d Hc Hnd (struct_type_name d) rels n x Hrels Hin) _ I2) as [vals' [E _]].
  rewrite E. eexists. split; [reflexivity|]. cbn. repeat split.
Qed.
