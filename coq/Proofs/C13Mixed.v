(* C13 for struct-backed types: the values of the partial resource are the
   values full unmarshaling stores in the struct. *)
From Coq Require Import Lia Permutation.
From JV Require Import Model.Base Model.GoTime Gen.TypeGo Model.Schema Model.Value
  Model.Strconv Model.Json Model.Attr Model.SoftRes Model.Wrapper Model.Resource Model.Unmarshal
  Proofs.BaseFacts Proofs.MapFacts Proofs.SoftFacts Proofs.WrapperFacts Proofs.C05Facts Proofs.C13Facts
  Proofs.C13Rels Proofs.C13Values Proofs.C06Resource Proofs.C05Mixed.
Open Scope list_scope.

Lemma set_rels_soft t l : forall s r, set_rels t (RSoft s) l = Ok r -> exists s', r = RSoft s'.
Proof.
  induction l as [|[k rs] l IH]; intros s r; cbn [set_rels].
  - intros H; inversion H. eauto.
  - destruct (lookup k (trels t)) as [x|]; [|discriminate].
    destruct (rs_data rs) as [d|]; [|apply IH].
    destruct (to_one x).
    + destruct (dec_identifier d); [cbn; apply IH|discriminate].
    + destruct (dec_identifiers d); [cbn; apply IH|discriminate].
Qed.

Lemma unmarshal_resource_soft e s j r :
  all_soft s -> unmarshal_resource e s j = Ok r -> exists sr, r = RSoft sr.
Proof.
  intros Hs. unfold unmarshal_resource. destruct (dec_resske j) as [k|]; [|discriminate].
  destruct (String.eqb _ ""); [discriminate|]. unfold type_new. rewrite Hs. cbn [lookup bind res_set].
  destruct (set_attrs e _ _ _) as [r2| |] eqn:E2; cbn [bind]; try discriminate.
  destruct (set_attrs_soft _ _ _ _ _ E2) as [s2 ->]. apply set_rels_soft.
Qed.

Lemma lookup_of_key {A} k (m : list (str * A)) : In k (map fst m) -> exists v, lookup k m = Some v.
Proof.
  intros H. destruct (lookup k m) as [v|] eqn:E; [eauto|].
  exfalso. apply (proj1 (lookup_None_notin k m) E). exact H.
Qed.

Theorem partial_values_agree_wrapped e s j p r d :
  sch_ok s ->
  (forall k, dec_resske j = Some k ->
     lookup (tname (get_type (sch_schema s) (k_type k))) (sch_wrapped s) = Some d /\
     wf_res_type (get_type (sch_schema s) (k_type k))) ->
  unmarshal_partial e s j = Ok p -> unmarshal_resource e s j = Ok r ->
  exists w', r = RWrap w' /\
    wrapper_get w' "id" = Ok (soft_get p "id") /\
    (forall n, In n (map fst (tattrs (s_type p))) -> wrapper_get w' n = Ok (read_slot (soft_get p n))) /\
    (forall n, In n (map fst (trels (s_type p))) -> wrapper_get w' n = Ok (soft_get p n)).
Proof.
  intros Hok Hk Hp Hr.
  set (s0 := mkSch (sch_schema s) []).
  assert (Hp0 : unmarshal_partial e s0 j = Ok p) by exact Hp.
  assert (Hs0 : all_soft s0) by reflexivity.
  (* full unmarshaling against the all-soft twin of the schema accepts too *)
  destruct (accept_iff e s0 j Hs0) as [Hacc _]. rewrite Hp0 in Hacc. cbn [is_ok] in Hacc.
  destruct (unmarshal_resource e s0 j) as [r0| |] eqn:Er0; try discriminate.
  destruct (unmarshal_resource_soft e s0 j r0 Hs0 Er0) as [sr0 ->].
  assert (Hwf0 : forall k, dec_resske j = Some k -> wf_res_type (get_type (sch_schema s0) (k_type k))).
  { intros k Hd. exact (proj2 (Hk k Hd)). }
  destruct (partial_values_agree e s0 j p sr0 Hs0 Hwf0 Hp0 Er0) as [Hid Hval].
  destruct (accepted_resource_values e s0 j sr0 Hs0 Hwf0 Er0) as [k [Hd [Ht0 [Hid0 [Hpres0 [_ [Hrp0 _]]]]]]].
  cbn zeta in Hpres0, Hrp0.
  destruct (accepted_resource_values_wrapped e s j r d Hok (fun k Hd => proj1 (Hk k Hd)) Hr)
    as [k' [w' [Hd' [-> [Hidw [Hpresw [Hrpw _]]]]]]]. cbn zeta in Hpresw, Hrpw.
  rewrite Hd in Hd'. injection Hd' as <-.
  exists w'. split; [reflexivity|]. split; [rewrite Hid, Hid0; exact Hidw|].
  pose proof (proj1 (Hwf0 k Hd)) as Hwt.
  destruct (partial_attrs_exact e s0 j p Hp0) as [k1 [Hd1 Hax]]. rewrite Hd in Hd1. injection Hd1 as <-.
  destruct (Hax Hwt) as [Hakeys _].
  destruct (partial_rels_exact e s0 j p Hp0) as [k2 [Hd2 Hrx]]. rewrite Hd in Hd2. injection Hd2 as <-.
  destruct (Hrx Hwt) as [Hrkeys _].
  split.
  - intros n Hn. destruct (lookup_of_key n (k_attrs k) (proj1 (Hakeys n) Hn)) as [jv Ej].
    destruct (Hpres0 n jv Ej) as [a [v [Hl [Hv Hg]]]].
    destruct (Hpresw n jv Ej) as [a' [v' [Hl' [Hv' Hg']]]].
    change (sch_schema s0) with (sch_schema s) in Hl. rewrite Hl in Hl'. injection Hl' as <-.
    rewrite Hv in Hv'. injection Hv' as <-.
    rewrite (Hval n (or_introl Hn)), Hg. exact Hg'.
  - intros n Hn. pose proof (proj1 (Hrkeys n) Hn) as Hwd. unfold with_data in Hwd.
    apply in_map_iff in Hwd. destruct Hwd as [[n' rs] [En Hf]]. cbn in En. subst n'.
    apply filter_In in Hf. destruct Hf as [Hin Hdata]. cbn [snd] in Hdata.
    destruct (rs_data rs) as [dj|] eqn:Edj; [|discriminate].
    assert (El : lookup n (k_rels k) = Some rs).
    { apply In_lookup; [|exact Hin]. destruct (dec_resske_NoDup j k Hd) as [_ Hnr]. exact Hnr. }
    destruct (Hrp0 n rs dj El Edj) as [x [Hl Hx]].
    destruct (Hrpw n rs dj El Edj) as [x' [Hl' Hx']].
    change (sch_schema s0) with (sch_schema s) in Hl. rewrite Hl in Hl'. injection Hl' as <-.
    rewrite (Hval n (or_intror Hn)).
    destruct (to_one x).
    + destruct Hx as [i [Hi ->]]. destruct Hx' as [i' [Hi' ->]]. rewrite Hi in Hi'. injection Hi' as <-. reflexivity.
    + destruct Hx as [l [Hi ->]]. destruct Hx' as [l' [Hi' ->]]. rewrite Hi in Hi'. injection Hi' as <-. reflexivity.
Qed.
