(* C02: documents whose primary data is an identifier or a list of
   identifiers.  What comes back is what UnmarshalDocument makes of a
   type/id object: a resource of that type with that id and every field at
   its zero value (one per identifier, in order); a nil list comes back as no
   data. *)
From Coq Require Import Lia Permutation.
From JV Require Import Model.Base Model.GoTime Gen.TypeGo Model.Schema Model.Value
  Model.Json Model.SoftRes Model.Wrapper Model.Resource Model.Marshal Model.Unmarshal Model.Document
  Proofs.BaseFacts Proofs.SoftFacts Proofs.C03Facts Proofs.C02Facts Proofs.C01Full Proofs.C02Full.
Open Scope list_scope.

(** the resource a bare type/id object unmarshals to *)
Definition bare_resource (sc : sch) (i : identifier) : resource :=
  RSoft (soft_set (soft_new (get_type (sch_schema sc) (i_type i))) "id" (VStr (i_id i))).

Definition ident_ok (sc : sch) (i : identifier) : Prop :=
  tname (get_type (sch_schema sc) (i_type i)) <> "" /\
  lookup (tname (get_type (sch_schema sc) (i_type i))) (sch_wrapped sc) = None.

Lemma unmarshal_ident e sc i : ident_ok sc i ->
  unmarshal_resource e sc (ident_json i) = Ok (bare_resource sc i).
Proof.
  intros [Hn Hs]. destruct i as [id ty]. unfold unmarshal_resource.
  change (dec_resske (ident_json (mkIdent id ty))) with (Some (mkResSke id ty [] [])).
  cbn [k_type k_id k_attrs k_rels i_type i_id] in *. apply String.eqb_neq in Hn. rewrite Hn.
  unfold type_new. rewrite Hs. reflexivity.
Qed.

Lemma unmarshal_idents e sc l : Forall (ident_ok sc) l ->
  unmarshal_each e sc (map ident_json l) = Ok (map (bare_resource sc) l).
Proof.
  induction l as [|i l IH]; intros H; [reflexivity|]. inversion H as [|? ? Hi Hl]; subst.
  cbn [map unmarshal_each]. rewrite (unmarshal_ident e sc i Hi). cbn [bind]. rewrite (IH Hl). reflexivity.
Qed.

Section IdentDocs.
  Variables (e : stdenv) (sc : sch) (fields : list (str * list str)) (self : str).
  Variable d : document.
  Variable incl : list soft.
  Hypothesis Hinc : d_included d = map RSoft incl.
  Hypothesis Hincok : Forall (rt_ok e sc fields (d_reldata d)) incl.
  Hypothesis Herr : d_errors d = [].

  Theorem doc_roundtrip_identifier i :
    d_data d = DIdent i -> ident_ok sc i ->
    exists j u, marshal_document e d fields self = Ok j /\
                unmarshal_document e sc j = Ok u /\
                u_data u = URes (bare_resource sc i) /\ rest_ok d incl u.
  Proof.
    intros Hdata Hok.
    apply (doc_roundtrip_gen e sc fields self d incl Hinc Hincok Herr (ident_json i) (URes (bare_resource sc i))).
    - unfold marshal_data. rewrite Hdata. reflexivity.
    - unfold ident_json. exists (bare_resource sc i). split; [exact (unmarshal_ident e sc i Hok)|reflexivity].
  Qed.

  Theorem doc_roundtrip_identifiers l :
    d_data d = DIdents false l -> Forall (ident_ok sc) l ->
    exists j u, marshal_document e d fields self = Ok j /\
                unmarshal_document e sc j = Ok u /\
                u_data u = UCol (map (bare_resource sc) l) /\ rest_ok d incl u.
  Proof.
    intros Hdata Hok.
    apply (doc_roundtrip_gen e sc fields self d incl Hinc Hincok Herr (JArr (map ident_json l)) (UCol (map (bare_resource sc) l))).
    - unfold marshal_data. rewrite Hdata. reflexivity.
    - exists (map (bare_resource sc) l). split; [exact (unmarshal_idents e sc l Hok)|reflexivity].
  Qed.

  Theorem doc_roundtrip_nil_identifiers l :
    d_data d = DIdents true l ->
    exists j u, marshal_document e d fields self = Ok j /\
                unmarshal_document e sc j = Ok u /\ u_data u = UNil /\ rest_ok d incl u.
  Proof.
    intros Hdata.
    apply (doc_roundtrip_gen e sc fields self d incl Hinc Hincok Herr JNull UNil); [|reflexivity].
    unfold marshal_data. rewrite Hdata. reflexivity.
  Qed.
End IdentDocs.

(** what a bare resource reads: the identifier's type and id, zero elsewhere *)
Lemma bare_resource_reads sc i :
  res_type_name (bare_resource sc i) = tname (get_type (sch_schema sc) (i_type i)) /\
  res_get (bare_resource sc i) "id" = Ok (VStr (i_id i)).
Proof. split; reflexivity. Qed.
