(* C01: value-level round trip through json_of_value / unmarshal_to_type and
   through relationship linkage. *)
From Coq Require Import Lia Permutation.
From JV Require Import Model.Base Model.GoTime Gen.TypeGo Model.Schema Model.Value
  Model.Strconv Model.Json Model.Attr Model.SoftRes Model.Wrapper Model.Resource
  Model.Marshal Model.Unmarshal
  Proofs.BaseFacts Proofs.StrconvFacts Proofs.C06Facts.
Open Scope list_scope.

(** "The same value" of the property: integers exactly, strings and bytes
    byte for byte (a nil and an empty byte string are both empty), times as
    the same instant, nil-ness preserved. *)
Definition same_base (a b : value) : Prop :=
  match a, b with
  | VStr x, VStr y => x = y
  | VInt k x, VInt k' y => k = k' /\ x = y
  | VBool x, VBool y => x = y
  | VTime x, VTime y => time_equal x y = true
  | VBytes _ x, VBytes _ y => x = y
  | _, _ => False
  end.

Definition same_value (a b : value) : Prop :=
  match a, b with
  | VPtr k None, VPtr k' None => k = k'
  | VPtr k (Some x), VPtr k' (Some y) => k = k' /\ same_base x y
  | VPtr _ _, _ | _, VPtr _ _ => False
  | _, _ => same_base a b
  end.

(** The oracle hypotheses about the standard library (DESIGN.md 5.3). *)
Definition time_ok (e : stdenv) (t : gtime) : Prop :=
  exists t', tparse e (tfmt e t) = Some t' /\ time_equal t t' = true.
Definition bytes_ok (e : stdenv) (b : list Z) : Prop := b64dec e (b64enc e b) = Some b.

(** Values of the property's domain for an attribute: exactly the declared
    type, integers in range, oracle-round-trippable times and bytes, and no
    non-nil pointer to a nil byte slice. *)
Definition base_in_domain (e : stdenv) (k : Z) (v : value) : Prop :=
  match v with
  | VStr _ => k = 1%Z
  | VInt k' z => k = k' /\ is_int_kind k = true /\ in_range k z = true
  | VBool _ => k = 12%Z
  | VTime t => k = 13%Z /\ time_ok e t
  | VBytes n b => k = 14%Z /\ bytes_ok e b /\ (n = true -> b = [])
  | _ => False
  end.

Definition in_domain (e : stdenv) (a : attr) (v : value) : Prop :=
  if anull a then
    match v with
    | VPtr k None => k = acode a
    | VPtr k (Some (VBytes true _)) => False
    | VPtr k (Some x) => k = acode a /\ base_in_domain e (acode a) x
    | _ => False
    end
  else
    match v with
    | VPtr _ _ => False
    | _ => base_in_domain e (acode a) v
    end.

Lemma roundtrip_base e a x :
  base_in_domain e (acode a) x ->
  (match x with VBytes true _ => anull a = false | _ => True end) ->
  exists y, unmarshal_to_type e a (json_of_value e x) = Ok (wrap_null a y) /\ same_base x y.
Proof.
  intros Hd Hb. destruct x as [| s | k z | b | t | n bs | |]; cbn in Hd; try contradiction.
  - exists (VStr s). split; [|reflexivity].
    unfold unmarshal_to_type. rewrite Hd. cbn. rewrite Bool.andb_false_r. reflexivity.
  - destruct Hd as [<- [Hk Hr]]. exists (VInt (acode a) z). split; [|split; reflexivity].
    cbn [json_of_value]. apply unmarshal_int_roundtrip; assumption.
  - exists (VBool b). split; [|reflexivity].
    unfold unmarshal_to_type. rewrite Hd. cbn. rewrite Bool.andb_false_r. reflexivity.
  - destruct Hd as [Hk [t' [Hp Ht]]]. exists (VTime t'). split; [|exact Ht].
    unfold unmarshal_to_type. rewrite Hk. cbn. rewrite Bool.andb_false_r. cbn. rewrite Hp. reflexivity.
  - destruct Hd as [Hk [Hbo Hn]]. destruct n.
    + (* a nil byte slice is printed as null and read back as a nil slice *)
      rewrite (Hn eq_refl). exists (VBytes true []). split; [|reflexivity].
      unfold unmarshal_to_type. rewrite Hk, Hb. cbn. reflexivity.
    + exists (VBytes false bs). split; [|reflexivity].
      unfold unmarshal_to_type. rewrite Hk. cbn. rewrite Bool.andb_false_r. cbn.
      unfold bytes_ok in Hbo. rewrite Hbo. reflexivity.
Qed.

(** Every in-domain attribute value survives json_of_value / unmarshal_to_type. *)
Lemma attr_roundtrip e a v :
  (1 <= acode a <= 14)%Z -> in_domain e a v ->
  exists v', unmarshal_to_type e a (json_of_value e v) = Ok v' /\ same_value v v'.
Proof.
  intros Hc Hd. unfold in_domain in Hd. destruct (anull a) eqn:En.
  - destruct v as [| | | | | |k [x|]|]; try contradiction.
    + assert (Hx : k = acode a /\ base_in_domain e (acode a) x /\
                   match x with VBytes true _ => False | _ => True end).
      { destruct x as [| s0 | k0 z0 | b0 | t0 | n0 bs0 | k0 v0 | n0 l0].
        all: try (destruct Hd as [Hd1 Hd2]; split; [exact Hd1|split; [exact Hd2|exact I]]).
        destruct n0; [contradiction|].
        destruct Hd as [Hd1 Hd2]. split; [exact Hd1|split; [exact Hd2|exact I]]. }
      destruct Hx as [-> [Hbd Hnb]].
      destruct (roundtrip_base e a x Hbd) as [y [Hu Hs]].
      { destruct x as [| s0 | k0 z0 | b0 | t0 | n0 bs0 | k0 v0 | n0 l0]; try exact I.
        destruct n0; [contradiction|exact I]. }
      exists (wrap_null a y). cbn [json_of_value]. split; [exact Hu|].
      unfold wrap_null. rewrite En. cbn. split; [reflexivity|].
      destruct x, y; cbn in Hs |- *; try contradiction; exact Hs.
    + subst. exists (VPtr (acode a) None). split; [|reflexivity].
      unfold unmarshal_to_type. rewrite En. cbn. unfold zero_value.
      destruct (Z.leb_spec 1 (acode a)); [|lia]. destruct (Z.leb_spec (acode a) 14); [|lia]. reflexivity.
  - assert (Hbd : base_in_domain e (acode a) v) by (destruct v; try contradiction; exact Hd).
    destruct (roundtrip_base e a v Hbd) as [y [Hu Hs]].
    { destruct v as [| s0 | k0 z0 | b0 | t0 | n0 bs0 | k0 v0 | n0 l0]; try exact I.
      destruct n0; [exact En|exact I]. }
    exists y. unfold wrap_null in Hu. rewrite En in Hu. split; [exact Hu|].
    destruct v, y; cbn in Hs |- *; try contradiction; try exact Hs.
    all: cbn in Hbd; try contradiction.
Qed.

(** * Relationship linkage *)
Lemma key_is_refl n : key_is n n = true.
Proof. unfold key_is. rewrite String.eqb_refl. reflexivity. Qed.

Lemma identifier_roundtrip id ty :
  dec_identifier (identifier_json id ty) = Some (mkIdent id ty).
Proof. reflexivity. Qed.

Lemma to_one_roundtrip id ty :
  option_map i_id (dec_identifier (if String.eqb id "" then JNull else identifier_json id ty)) = Some id.
Proof.
  destruct (String.eqb_spec id "") as [->|N]; reflexivity.
Qed.

Lemma identifiers_roundtrip ids ty :
  dec_identifiers (JArr (map (fun i => identifier_json i ty) ids)) =
  Some (map (fun i => mkIdent i ty) ids).
Proof.
  cbn. induction ids as [|i ids IH]; cbn; [reflexivity|].
  change (dec_identifier (identifier_json i ty)) with (Some (mkIdent i ty)).
  rewrite IH. reflexivity.
Qed.

Lemma to_many_roundtrip ids ty :
  exists l, dec_identifiers (JArr (map (fun i => identifier_json i ty) (isort String.ltb ids))) = Some l /\
            Permutation (ids_of l) ids.
Proof.
  eexists. split; [apply identifiers_roundtrip|].
  unfold ids_of. rewrite map_map. cbn. rewrite map_id. apply isort_perm.
Qed.
