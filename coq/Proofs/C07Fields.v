(* C07: the field-selection clause. *)
From Coq Require Import Lia.
From JV Require Import Model.Base Model.GoTime Gen.TypeGo Model.Schema Model.Value
  Model.Url Proofs.BaseFacts Proofs.MapFacts Proofs.SoftFacts Proofs.C07Facts.
Open Scope list_scope.

(** an entry while the maps are being filled: an empty list stands for "all
    fields" until the defaults are applied *)
Definition entry_ok (s : schema) (t : str) (fs : list str) : Prop :=
  has_type s t = true /\
  (fs = [] \/ (NoDup fs /\ forall f, In f fs -> f = "id" \/ In f (type_fields (get_type s t)))).

Definition fields_ok (s : schema) (m : list (str * list str)) : Prop :=
  forall t fs, In (t, fs) m -> entry_ok s t fs.

Lemma map_set_In_weak {A} k (v : A) m k' v' :
  In (k', v') (map_set k v m) -> (k' = k /\ v' = v) \/ In (k', v') m.
Proof.
  induction m as [|[k0 v0] m IH]; cbn.
  - intros [H|[]]. inversion H. auto.
  - destruct (String.eqb k k0) eqn:E; cbn.
    + intros [H|H]; [inversion H; auto|right; right; exact H].
    + intros [H|H]; [right; left; exact H|]. destruct (IH H) as [?|?]; [left; assumption|right; right; assumption].
Qed.

Lemma fields_ok_set s m t fs : fields_ok s m -> entry_ok s t fs -> fields_ok s (map_set t fs m).
Proof.
  intros Hm He t' fs' Hin. apply map_set_In_weak in Hin. destruct Hin as [[-> ->]|Hin]; [exact He|apply Hm; exact Hin].
Qed.

Lemma check_words_ok s words : forall cur fields,
  fields_ok s fields -> fields_ok s (snd (check_words s words cur fields)).
Proof.
  induction words as [|w rest IH]; intros cur fields H; cbn; [exact H|].
  destruct (String.eqb (tname (get_type s (to_type cur))) ""); [apply IH; exact H|].
  destruct (lookup w (trels (get_type s (to_type cur)))) as [r|]; [|exact H].
  destruct (has_type s (to_type r)) eqn:Eh; [|exact H].
  apply IH. apply fields_ok_set; [exact H|]. split; [exact Eh|left; reflexivity].
Qed.

Lemma check_includes_ok fuel s rt : forall i incs fields,
  fields_ok s fields -> fields_ok s (snd (check_includes fuel s rt i incs fields)).
Proof.
  induction fuel as [|f IH]; intros i incs fields H; cbn; [exact H|].
  destruct (Nat.leb (length incs) i); [exact H|].
  pose proof (check_words_ok s (split_char "." (nth_str incs i)) (mkRel "" "" false rt "" false) fields H) as Hw.
  destruct (check_words s _ _ fields) as [[x|] fields']; cbn in Hw; apply IH; exact Hw.
Qed.

Lemma has_dup_NoDup l : has_dup l = false -> NoDup l.
Proof.
  induction l as [|x l IH]; cbn; intros H; [constructor|].
  apply Bool.orb_false_iff in H. destruct H as [H1 H2]. constructor; [|apply IH; exact H2].
  intros Hin. apply (proj2 (mem_str_In _ _)) in Hin. congruence.
Qed.

Lemma get_type_named s t : tname (get_type s t) <> "" -> tname (get_type s t) = t.
Proof.
  unfold get_type. induction (types s) as [|t0 ts IH]; cbn; [congruence|].
  destruct (String.eqb_spec (tname t0) t) as [E|N]; [intros _; exact E|exact IH].
Qed.

Lemma apply_fields_ok s rt sf : forall fields out,
  fields_ok s fields -> apply_fields s rt sf fields = Ok out -> fields_ok s out.
Proof.
  induction sf as [|[t fs] rest IH]; intros fields out H; cbn.
  - intros E; injection E as <-. exact H.
  - destruct (negb (String.eqb t rt) && String.eqb (tname (get_type s t)) ""); [discriminate|].
    destruct (String.eqb_spec (tname (get_type s t)) "") as [E|N]; [apply IH; exact H|].
    match goal with |- context [has_dup ?x] => set (sel := x) end.
    destruct (has_dup sel) eqn:Ed; [discriminate|].
    apply IH. apply fields_ok_set; [exact H|]. split.
    + rewrite <- (get_type_named s t N). apply get_type_has. exact N.
    + right. split; [apply has_dup_NoDup; exact Ed|].
      intros f Hin. unfold sel in Hin. apply in_flat_map in Hin. destruct Hin as [x [_ Hx]].
      destruct (String.eqb x "id") eqn:Ex.
      * destruct Hx as [<-|[]]. left; reflexivity.
      * right. apply filter_In in Hx. exact (proj1 Hx).
Qed.

(** what an entry of the returned URL looks like *)
Definition final_entry_ok (s : schema) (t : str) (fs : list str) : Prop :=
  has_type s t = true /\
  (fs = type_fields (get_type s t) \/
   (fs <> [] /\ NoDup fs /\ forall f, In f fs -> f = "id" \/ In f (type_fields (get_type s t)))).

Lemma default_fields_ok s m : fields_ok s m ->
  forall t fs, In (t, fs) (default_fields s m) -> final_entry_ok s t fs.
Proof.
  intros H t fs Hin. unfold default_fields in Hin. apply in_map_iff in Hin.
  destruct Hin as [[t0 fs0] [E Hin0]]. destruct (H t0 fs0 Hin0) as [Ht Hfs]. cbn in E.
  destruct fs0 as [|x fs0'].
  - injection E as <- <-. split; [exact Ht|left; reflexivity].
  - injection E as <- <-. split; [exact Ht|]. right. destruct Hfs as [Hfs|[Hn Hm]]; [discriminate|].
    split; [discriminate|]. split; assumption.
Qed.

Theorem new_params_fields s su rt p :
  rt = "" \/ has_type s rt = true ->
  new_params s su rt = Ok p ->
  forall t fs, In (t, fs) (p_fields p) -> final_entry_ok s t fs.
Proof.
  intros Hrt. unfold new_params.
  destruct (check_includes _ s rt 0 _ []) as [incs fields1] eqn:Ec.
  assert (H1 : fields_ok s fields1).
  { pose proof (check_includes_ok (S (length (prune_includes (isort String.ltb (su_include su))))) s rt 0
                  (prune_includes (isort String.ltb (su_include su))) []) as H.
    rewrite Ec in H. apply H. intros t fs []. }
  assert (H2 : fields_ok s (if String.eqb rt "" then fields1 else map_set rt [] fields1)).
  { destruct (String.eqb_spec rt "") as [E|N]; [exact H1|].
    apply fields_ok_set; [exact H1|]. destruct Hrt as [E|Hh]; [contradiction|]. split; [exact Hh|left; reflexivity]. }
  destruct (apply_fields s rt (su_fields su) _) as [fields3| |] eqn:Ea; cbn [bind]; try discriminate.
  intros E; injection E as <-. cbn [p_fields].
  apply default_fields_ok. eapply apply_fields_ok; eassumption.
Qed.

Theorem new_url_fields s su u :
  new_url s su = Ok u ->
  forall t fs, In (t, fs) (p_fields (u_params u)) -> final_entry_ok s t fs.
Proof.
  unfold new_url. destruct (su_fragments su) as [|f0 fr]; [discriminate|].
  destruct (String.eqb_spec (tname (get_type s f0)) "") as [E|N]; [discriminate|].
  destruct (Nat.leb 3 _).
  - destruct (lookup _ _) as [r|]; [|discriminate].
    destruct (has_type s (to_type r)) eqn:Eh; cbn [negb]; [|discriminate].
    destruct (new_params s su (to_type r)) as [p| |] eqn:Ep; cbn; try discriminate.
    intros H; injection H as <-. cbn [u_params]. apply (new_params_fields s su (to_type r) p); [right; exact Eh|exact Ep].
  - destruct (new_params s su _) as [p| |] eqn:Ep; cbn; try discriminate.
    intros H; injection H as <-. cbn [u_params].
    apply (new_params_fields s su (tname (get_type s f0)) p); [right; apply get_type_has; exact N|exact Ep].
Qed.
