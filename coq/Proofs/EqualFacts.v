(* Equal: reflexivity for readable resources, and the recorded refutation of
   soundness (field names are never compared). *)
From Coq Require Import Lia.
From JV Require Import Model.Base Model.GoTime Gen.TypeGo Model.Schema Model.Value
  Model.SoftRes Model.Wrapper Model.Resource Model.Equal.
Open Scope list_scope.

Lemma zlist_eqb_refl l : zlist_eqb l l = true.
Proof. induction l as [|x l IH]; cbn; [reflexivity|]. rewrite Z.eqb_refl. exact IH. Qed.

Lemma strs_eqb_refl l : strs_eqb l l = true.
Proof. induction l as [|x l IH]; cbn; [reflexivity|]. rewrite String.eqb_refl. exact IH. Qed.

Lemma gtime_eqb_refl t : gtime_eqb t t = true.
Proof. unfold gtime_eqb. rewrite !Z.eqb_refl. reflexivity. Qed.

Lemma deep_equal_refl : forall v, deep_equal v v = true.
Proof.
  fix IH 1. intros [| s | k z | b | t | n b | k [x|] | n l]; cbn.
  - reflexivity.
  - apply String.eqb_refl.
  - rewrite !Z.eqb_refl. reflexivity.
  - apply Bool.eqb_reflx.
  - apply gtime_eqb_refl.
  - rewrite Bool.eqb_reflx. apply zlist_eqb_refl.
  - rewrite Z.eqb_refl. apply IH.
  - apply Z.eqb_refl.
  - rewrite Bool.eqb_reflx. apply strs_eqb_refl.
Qed.

(** A resource is readable when every attribute can be read and every
    relationship reads as a string / string list according to its cardinality
    (true of every resource reached by well-typed Set calls). *)
Definition readable (r : resource) : Prop :=
  (forall a, In a (sorted_attrs r) -> exists v, res_get r (aname a) = Ok v) /\
  (forall x, In x (sorted_rels r) ->
     if to_one x then exists s, res_get r (from_name x) = Ok (VStr s)
     else exists n l, res_get r (from_name x) = Ok (VStrs n l)).

Lemma equal_attrs_refl r l :
  (forall a, In a l -> exists v, res_get r (aname a) = Ok v) ->
  equal_attrs r r (combine l l) = Ok true.
Proof.
  induction l as [|a l IH]; intros H; cbn; [reflexivity|].
  destruct (H a (or_introl eq_refl)) as [v Hv]. rewrite Hv. cbn.
  rewrite deep_equal_refl. apply IH. intros a' Hin. apply H. right; exact Hin.
Qed.

Lemma equal_rels_refl r l :
  (forall x, In x l ->
     if to_one x then exists s, res_get r (from_name x) = Ok (VStr s)
     else exists n l, res_get r (from_name x) = Ok (VStrs n l)) ->
  equal_rels r r (combine l l) = Ok true.
Proof.
  induction l as [|x l IH]; intros H; cbn; [reflexivity|].
  rewrite Bool.eqb_reflx. cbn.
  assert (IH' : equal_rels r r (combine l l) = Ok true).
  { apply IH. intros x' Hin. apply H. right; exact Hin. }
  specialize (H x (or_introl eq_refl)). destruct (to_one x).
  - destruct H as [s Hs]. rewrite Hs. cbn. rewrite String.eqb_refl. exact IH'.
  - destruct H as [n [l0 Hs]]. rewrite Hs. cbn.
    rewrite Bool.eqb_reflx, strs_eqb_refl. cbn.
    destruct (negb (Nat.eqb (length l0) 0) || negb (Nat.eqb (length l0) 0)); exact IH'.
Qed.

Lemma equal_refl r : readable r -> equal r r = Ok true.
Proof.
  intros [Ha Hr]. unfold equal.
  rewrite String.eqb_refl, Nat.eqb_refl. cbn.
  rewrite (equal_attrs_refl r _ Ha). cbn.
  rewrite Nat.eqb_refl. cbn. apply equal_rels_refl. exact Hr.
Qed.

Lemma equal_strict_refl r s :
  readable r -> res_get r "id" = Ok (VStr s) -> equal_strict r r = Ok true.
Proof.
  intros Hr Hid. unfold equal_strict. rewrite Hid. cbn. rewrite String.eqb_refl.
  apply equal_refl. exact Hr.
Qed.

(** Type names are compared. *)
Lemma equal_type_name r1 r2 : equal r1 r2 = Ok true -> res_type_name r1 = res_type_name r2.
Proof.
  unfold equal. destruct (String.eqb_spec (res_type_name r1) (res_type_name r2)); [auto|discriminate].
Qed.

Lemma equal_strict_id r1 r2 :
  equal_strict r1 r2 = Ok true ->
  exists s, res_get r1 "id" = Ok (VStr s) /\ res_get r2 "id" = Ok (VStr s) /\ equal r1 r2 = Ok true.
Proof.
  unfold equal_strict.
  destruct (res_get r1 "id") as [[| s1 | | | | | |]| |]; cbn; try discriminate;
  destruct (res_get r2 "id") as [[| s2 | | | | | |]| |]; cbn; try discriminate.
  destruct (String.eqb_spec s1 s2) as [->|]; [|discriminate]. eauto.
Qed.

(** Field names are not: the full soundness statement is false. *)
Definition ty_a : type := mkType "x" [("a", mkAttr "a" 1 false)] [].
Definition ty_b : type := mkType "x" [("b", mkAttr "b" 1 false)] [].

Lemma equal_sound_refuted :
  exists r1 r2, equal r1 r2 = Ok true /\ map fst (res_attrs r1) <> map fst (res_attrs r2).
Proof.
  exists (RSoft (soft_new ty_a)), (RSoft (soft_new ty_b)).
  split; [vm_compute; reflexivity|]. vm_compute. discriminate.
Qed.

(** ... and so is symmetry, for the same reason. *)
Definition ty_np : type := mkType "x" [("a", mkAttr "a" 2 true)] [].
Definition ty_i : type := mkType "x" [("b", mkAttr "b" 2 false)] [].

Lemma equal_sym_refuted :
  exists r1 r2, equal r1 r2 = Ok true /\ equal r2 r1 = Ok false.
Proof.
  exists (RSoft (soft_new ty_np)), (RSoft (soft_set (soft_new ty_i) "b" (VInt 2 5))).
  split; vm_compute; reflexivity.
Qed.
