(* C13: every field of the partial resource holds the value full
   unmarshaling gives it. *)
From Coq Require Import Lia.
From JV Require Import Model.Base Model.GoTime Gen.TypeGo Model.Schema Model.Value
  Model.Json Model.Attr Model.SoftRes Model.Wrapper Model.Resource Model.C14 Model.Unmarshal
  Proofs.MapFacts Proofs.C14Facts Proofs.SoftFacts Proofs.C06Facts Proofs.C13Facts Proofs.C13Rels.
Open Scope list_scope.

Section Agree.
  Variable t : type.
  Hypothesis Hw : wf_res_type t.

  Definition sub_type (pt : type) : Prop :=
    attrs_from t (tattrs pt) /\ rels_from t (trels pt) /\
    NoDup (map fst (tattrs pt)) /\ NoDup (map fst (trels pt)).

  Lemma sub_attr_in pt k : sub_type pt -> In k (map fst (tattrs pt)) -> In k (map fst (tattrs t)).
  Proof.
    intros [Ha _] Hin. apply in_map_iff in Hin. destruct Hin as [[k0 a] [<- Hin]].
    apply Ha in Hin. apply lookup_In in Hin. apply in_map_iff. exists (k0, a). auto.
  Qed.

  Lemma sub_rel_in pt k : sub_type pt -> In k (map fst (trels pt)) -> In k (map fst (trels t)).
  Proof.
    intros [_ [Hr _]] Hin. apply in_map_iff in Hin. destruct Hin as [[k0 x] [<- Hin]].
    apply Hr in Hin. apply lookup_In in Hin. apply in_map_iff. exists (k0, x). auto.
  Qed.

  Lemma sub_wf pt : sub_type pt -> wf_res_type pt.
  Proof.
    intros Hs. pose proof Hs as [Ha [Hr [Hna Hnr]]].
    pose proof Hw as [[[_ Hwa] [_ Hwr]] [Hdisj [Hia Hir]]].
    split; [split; split|split; [|split]].
    - exact Hna.
    - intros k a Hin. apply Ha in Hin. apply lookup_In in Hin. apply (Hwa k a Hin).
    - exact Hnr.
    - intros k x Hin. apply Hr in Hin. apply lookup_In in Hin. apply (Hwr k x Hin).
    - intros n H1 H2. apply (Hdisj n); [apply (sub_attr_in pt n Hs H1)|apply (sub_rel_in pt n Hs H2)].
    - intros H. apply Hia. apply (sub_attr_in pt _ Hs H).
    - intros H. apply Hir. apply (sub_rel_in pt _ Hs H).
  Qed.

  Lemma sub_field pt f : sub_type pt -> is_field pt f -> is_field t f.
  Proof. intros Hs [H|H]; [left; apply (sub_attr_in pt f Hs H)|right; apply (sub_rel_in pt f Hs H)]. Qed.

  Lemma field_zero_sub pt f : sub_type pt -> is_field pt f -> field_zero pt f = field_zero t f.
  Proof.
    intros Hs Hf. pose proof Hs as [Ha [Hr [Hna Hnr]]]. unfold field_zero.
    destruct (lookup f (tattrs pt)) as [a|] eqn:E.
    - rewrite (Ha f a (lookup_In _ _ _ E)). reflexivity.
    - destruct Hf as [Hf|Hf]; [apply lookup_None_notin in E; contradiction|].
      apply in_map_iff in Hf. destruct Hf as [[k x] [Hk Hin]]. cbn in Hk. subst k.
      rewrite (In_lookup _ _ _ Hnr Hin).
      pose proof (Hr f x Hin) as Ht.
      assert (Et : lookup f (tattrs t) = None).
      { apply lookup_None_notin. intros H. destruct Hw as [_ [Hdisj _]]. apply (Hdisj f H).
        apply in_map_iff. exists (f, x). split; [reflexivity|apply lookup_In; exact Ht]. }
      rewrite Et, Ht. reflexivity.
  Qed.

  (** the partial resource [p] and the full one [r] agree *)
  Definition agree (p r : soft) : Prop :=
    sub_type (s_type p) /\ s_type r = t /\ s_id p = s_id r /\
    forall f, is_field (s_type p) f -> soft_get p f = soft_get r f.

  (** changing the type of [p] to a larger sub-type keeps the old fields' readings *)
  Lemma retype_keeps p nt f :
    sub_type (s_type p) -> sub_type nt -> is_field (s_type p) f -> is_field nt f ->
    soft_get (mkSoft nt (s_id p) (s_data p)) f = soft_get p f.
  Proof.
    intros Hs Hn Hf Hfn.
    rewrite (soft_get_field (mkSoft nt (s_id p) (s_data p)) f); [|apply sub_wf; exact Hn|exact Hfn].
    rewrite (soft_get_field p f); [|apply sub_wf; exact Hs|exact Hf].
    cbn [s_data s_type]. rewrite (field_zero_sub nt f Hn Hfn), (field_zero_sub (s_type p) f Hs Hf). reflexivity.
  Qed.

  Lemma add_attr_sub pt a k : sub_type pt -> lookup k (tattrs t) = Some a ->
    sub_type (snd (type_add_attr pt a)) /\
    is_field (snd (type_add_attr pt a)) (aname a) /\
    (forall f, is_field pt f -> is_field (snd (type_add_attr pt a)) f) /\
    (forall f, is_field (snd (type_add_attr pt a)) f -> f = aname a \/ is_field pt f) /\
    lookup (aname a) (tattrs (snd (type_add_attr pt a))) = Some a.
  Proof.
    intros Hs El. pose proof Hs as [Ha [Hr [Hna Hnr]]].
    pose proof (lookup_In _ _ _ El) as Hin.
    pose proof Hw as [[[_ Hwa] _] _]. destruct (Hwa k a Hin) as [Hk [Hne Hvc]]. subst k.
    unfold type_add_attr, type_check_attr.
    apply String.eqb_neq in Hne. rewrite Hne. apply valid_code_iff in Hvc. rewrite Hvc. cbn [negb andb].
    destruct (attr_name_used pt (aname a)) eqn:Eu; cbn [negb snd].
    - (* already there: with the schema's definition *)
      unfold attr_name_used in Eu. apply existsb_exists in Eu. destruct Eu as [[k0 a0] [Hi0 He0]].
      cbn in He0. apply String.eqb_eq in He0.
      pose proof (Ha _ _ Hi0) as Hl0. pose proof (lookup_In _ _ _ Hl0) as Hin0.
      destruct (Hwa _ _ Hin0) as [Hk0 _]. subst k0.
      assert (a0 = a) by (rewrite He0 in Hl0; congruence). subst a0.
      split; [exact Hs|]. split; [left; apply in_map_iff; exists (aname a, a); auto|].
      split; [auto|]. split; [auto|]. apply In_lookup; assumption.
    - split; [|split; [|split; [|split]]].
      + split; [|split; [exact Hr|split; [apply map_set_NoDup; exact Hna|exact Hnr]]].
        intros k0 a0 Hi. cbn [tattrs] in Hi. apply (map_set_In _ _ _ _ _ Hna) in Hi.
        destruct Hi as [[-> ->]|[_ Hi]]; [exact El|apply Ha; exact Hi].
      + left. cbn [tattrs]. apply map_set_keys. left; reflexivity.
      + intros f [Hf|Hf]; [left; cbn [tattrs]; apply map_set_keys; right; exact Hf|right; exact Hf].
      + intros f [Hf|Hf]; [cbn [tattrs] in Hf; apply map_set_keys in Hf; destruct Hf as [->|Hf]; [left; reflexivity|right; left; exact Hf]|right; right; exact Hf].
      + cbn [tattrs]. apply lookup_map_set_same.
  Qed.

  Lemma step_attr p r a k val :
    agree p r -> lookup k (tattrs t) = Some a -> kind_of_value val = (acode a, anull a) ->
    agree (soft_set (mkSoft (snd (type_add_attr (s_type p) a)) (s_id p) (s_data p)) (aname a) val)
          (soft_set r (aname a) val).
  Proof.
    intros [Hs [Ht [Hid Hag]]] El Hk.
    destruct (add_attr_sub (s_type p) a k Hs El) as [Hsn [Hfa [Hup [Hdown Hla]]]].
    set (nt := snd (type_add_attr (s_type p) a)) in *.
    set (p0 := mkSoft nt (s_id p) (s_data p)).
    pose proof (lookup_In _ _ _ El) as Hin.
    pose proof Hw as [[[_ Hwa] _] _]. destruct (Hwa k a Hin) as [Hka [_ Hvc]]. subst k.
    assert (Hvn : val <> VNil).
    { intros ->. cbn in Hk. injection Hk as H0 _. unfold valid_code in Hvc. lia. }
    assert (Hok0 : set_ok (s_type p0) (aname a) val).
    { right; left. exists a. split; [exact Hla|left; exact Hk]. }
    assert (Hokr : set_ok (s_type r) (aname a) val).
    { right; left. exists a. rewrite Ht. split; [exact El|left; exact Hk]. }
    assert (Hwr : wf_res_type (s_type r)) by (rewrite Ht; exact Hw).
    assert (Hw0 : wf_res_type (s_type p0)) by (apply sub_wf; exact Hsn).
    assert (Hfr : is_field (s_type r) (aname a)).
    { rewrite Ht. left. apply in_map_iff. exists (aname a, a). auto. }
    assert (Hnid : aname a <> "id").
    { intros E. destruct Hw as [_ [_ [Hia _]]]. apply Hia. rewrite <- E. apply in_map_iff. exists (aname a, a). auto. }
    split; [rewrite soft_set_type; exact Hsn|]. split; [rewrite soft_set_type; exact Ht|]. split.
    - destruct (soft_set_data p0 (aname a) val Hw0 Hnid Hok0) as [_ H1].
      destruct (soft_set_data r (aname a) val Hwr Hnid Hokr) as [_ H2]. rewrite H1, H2. exact Hid.
    - intros f Hf. rewrite soft_set_type in Hf. change (s_type p0) with nt in Hf.
      destruct (String.eqb_spec f (aname a)) as [->|N].
      + rewrite (soft_get_set_same p0 (aname a) val Hw0 Hfa Hok0).
        rewrite (soft_get_set_same r (aname a) val Hwr Hfr Hokr).
        unfold stored. destruct val; congruence.
      + destruct (Hdown f Hf) as [E|Hfp]; [contradiction|].
        rewrite (soft_get_set_other p0 (aname a) val f Hw0 Hf N Hnid Hok0).
        rewrite (soft_get_set_other r (aname a) val f Hwr); try assumption.
        * unfold p0. rewrite (retype_keeps p nt f Hs Hsn Hfp Hf). apply Hag. exact Hfp.
        * rewrite Ht. apply (sub_field nt f Hsn Hf).
  Qed.

  Lemma add_rel_sub pt x k : sub_type pt -> lookup k (trels t) = Some x ->
    sub_type (snd (type_add_rel pt x)) /\
    is_field (snd (type_add_rel pt x)) (from_name x) /\
    (forall f, is_field (snd (type_add_rel pt x)) f -> f = from_name x \/ is_field pt f) /\
    lookup (from_name x) (trels (snd (type_add_rel pt x))) = Some x /\
    lookup (from_name x) (tattrs (snd (type_add_rel pt x))) = None.
  Proof.
    intros Hs El. pose proof Hs as [Ha [Hr [Hna Hnr]]].
    pose proof (lookup_In _ _ _ El) as Hin.
    pose proof Hw as [[_ [_ Hwr]] [Hdisj _]]. destruct (Hwr k x Hin) as [Hk [Hne Htt]]. subst k.
    assert (Hnoattr : forall pt', tattrs pt' = tattrs pt -> lookup (from_name x) (tattrs pt') = None).
    { intros pt' E. rewrite E. apply lookup_None_notin. intros H.
      apply (Hdisj (from_name x)); [apply (sub_attr_in pt _ Hs H)|].
      apply in_map_iff. exists (from_name x, x). auto. }
    unfold type_add_rel, type_check_rel.
    apply String.eqb_neq in Hne, Htt. rewrite Hne, Htt. cbn [negb andb].
    destruct (rel_name_used pt (from_name x)) eqn:Eu; cbn [negb snd].
    - unfold rel_name_used in Eu. apply existsb_exists in Eu. destruct Eu as [[k0 x0] [Hi0 He0]].
      cbn in He0. apply String.eqb_eq in He0.
      pose proof (Hr _ _ Hi0) as Hl0. pose proof (lookup_In _ _ _ Hl0) as Hin0.
      destruct (Hwr _ _ Hin0) as [Hk0 _]. subst k0.
      assert (x0 = x) by (rewrite He0 in Hl0; congruence). subst x0.
      split; [exact Hs|]. split; [right; apply in_map_iff; exists (from_name x, x); auto|].
      split; [auto|]. split; [apply In_lookup; assumption|apply Hnoattr; reflexivity].
    - split; [|split; [|split; [|split]]].
      + split; [exact Ha|split; [|split; [exact Hna|apply map_set_NoDup; exact Hnr]]].
        intros k0 x0 Hi. cbn [trels] in Hi. apply (map_set_In _ _ _ _ _ Hnr) in Hi.
        destruct Hi as [[-> ->]|[_ Hi]]; [exact El|apply Hr; exact Hi].
      + right. cbn [trels]. apply map_set_keys. left; reflexivity.
      + intros f [Hf|Hf]; [right; left; exact Hf|].
        cbn [trels] in Hf. apply map_set_keys in Hf. destruct Hf as [->|Hf]; [left; reflexivity|right; right; exact Hf].
      + cbn [trels]. apply lookup_map_set_same.
      + apply Hnoattr. reflexivity.
  Qed.

  Lemma step_rel p r x k v :
    agree p r -> lookup k (trels t) = Some x ->
    ((to_one x = true /\ exists s, v = VStr s) \/ (to_one x = false /\ exists n l, v = VStrs n l)) ->
    agree (soft_set (mkSoft (snd (type_add_rel (s_type p) x)) (s_id p) (s_data p)) (from_name x) v)
          (soft_set r (from_name x) v).
  Proof.
    intros [Hs [Ht [Hid Hag]]] El Hv.
    destruct (add_rel_sub (s_type p) x k Hs El) as [Hsn [Hfa [Hdown [Hlr Hla]]]].
    set (nt := snd (type_add_rel (s_type p) x)) in *.
    set (p0 := mkSoft nt (s_id p) (s_data p)).
    pose proof (lookup_In _ _ _ El) as Hin.
    pose proof Hw as [[_ [_ Hwr]] _]. destruct (Hwr k x Hin) as [Hkx _]. subst k.
    assert (Hvn : v <> VNil) by (destruct Hv as [[_ [s0 ->]]|[_ [n [l ->]]]]; discriminate).
    assert (Hok0 : set_ok (s_type p0) (from_name x) v).
    { right; right. exists x. split; [exact Hlr|exact Hv]. }
    assert (Hokr : set_ok (s_type r) (from_name x) v).
    { right; right. exists x. rewrite Ht. split; [exact El|exact Hv]. }
    assert (Hwr' : wf_res_type (s_type r)) by (rewrite Ht; exact Hw).
    assert (Hw0 : wf_res_type (s_type p0)) by (apply sub_wf; exact Hsn).
    assert (Hfr : is_field (s_type r) (from_name x)).
    { rewrite Ht. right. apply in_map_iff. exists (from_name x, x). auto. }
    assert (Hnid : from_name x <> "id").
    { intros E. destruct Hw as [_ [_ [_ Hir]]]. apply Hir. rewrite <- E. apply in_map_iff. exists (from_name x, x). auto. }
    split; [rewrite soft_set_type; exact Hsn|]. split; [rewrite soft_set_type; exact Ht|]. split.
    - destruct (soft_set_data p0 (from_name x) v Hw0 Hnid Hok0) as [_ H1].
      destruct (soft_set_data r (from_name x) v Hwr' Hnid Hokr) as [_ H2]. rewrite H1, H2. exact Hid.
    - intros f Hf. rewrite soft_set_type in Hf. change (s_type p0) with nt in Hf.
      destruct (String.eqb_spec f (from_name x)) as [->|N].
      + rewrite (soft_get_set_same p0 (from_name x) v Hw0 Hfa Hok0).
        rewrite (soft_get_set_same r (from_name x) v Hwr' Hfr Hokr).
        unfold stored. destruct v; congruence.
      + destruct (Hdown f Hf) as [E|Hfp]; [contradiction|].
        rewrite (soft_get_set_other p0 (from_name x) v f Hw0 Hf N Hnid Hok0).
        rewrite (soft_get_set_other r (from_name x) v f Hwr'); try assumption.
        * unfold p0. rewrite (retype_keeps p nt f Hs Hsn Hfp Hf). apply Hag. exact Hfp.
        * rewrite Ht. apply (sub_field nt f Hsn Hf).
  Qed.

  (** the two loops, in lock step *)
  Lemma lockstep_attrs e l : forall p r p' r',
    agree p r -> partial_attrs e t p l = Ok p' -> set_attrs e t (RSoft r) l = Ok (RSoft r') -> agree p' r'.
  Proof.
    induction l as [|[k v] l IH]; intros p r p' r' Hag; cbn [partial_attrs set_attrs].
    - intros H1 H2. injection H1 as <-. injection H2 as <-. exact Hag.
    - destruct (lookup k (tattrs t)) as [a|] eqn:El; [|discriminate].
      destruct (unmarshal_to_type e a v) as [val| |] eqn:Eu; cbn [bind]; try discriminate.
      cbn [res_set bind]. intros H1 H2.
      pose proof (lookup_In _ _ _ El) as Hin. pose proof Hw as [[[_ Hwa] _] _].
      destruct (Hwa k a Hin) as [_ [_ Hvc]].
      apply (IH _ _ _ _ (step_attr p r a k val Hag El (unmarshal_typed e a v val Hvc Eu)) H1 H2).
  Qed.

  Lemma lockstep_rels l : forall p r p' r',
    agree p r -> partial_rels t p l = Ok p' -> set_rels t (RSoft r) l = Ok (RSoft r') -> agree p' r'.
  Proof.
    induction l as [|[k rs] l IH]; intros p r p' r' Hag; cbn [partial_rels set_rels].
    - intros H1 H2. injection H1 as <-. injection H2 as <-. exact Hag.
    - destruct (lookup k (trels t)) as [x|] eqn:El; [|discriminate].
      destruct (rs_data rs) as [d|]; [|apply IH; exact Hag].
      destruct (to_one x) eqn:Eo.
      + destruct (dec_identifier d) as [i|]; [|discriminate]. cbn [res_set bind]. intros H1 H2.
        apply (IH _ _ _ _ (step_rel p r x k (VStr (i_id i)) Hag El (or_introl (conj Eo (ex_intro _ _ eq_refl)))) H1 H2).
      + destruct (dec_identifiers d) as [is'|]; [|discriminate]. cbn [res_set bind]. intros H1 H2.
        apply (IH _ _ _ _ (step_rel p r x k (VStrs false (ids_of is')) Hag El
                             (or_intror (conj Eo (ex_intro _ _ (ex_intro _ _ eq_refl))))) H1 H2).
  Qed.
End Agree.

(** every field of the partial resource reads what full unmarshaling reads *)
Theorem partial_values_agree e s j p r :
  sch_wrapped s = [] ->
  (forall k, dec_resske j = Some k -> wf_res_type (get_type (sch_schema s) (k_type k))) ->
  unmarshal_partial e s j = Ok p -> unmarshal_resource e s j = Ok (RSoft r) ->
  soft_get p "id" = soft_get r "id" /\
  forall f, is_field (s_type p) f -> soft_get p f = soft_get r f.
Proof.
  intros Hsoft Hwf. unfold unmarshal_partial, unmarshal_resource.
  destruct (dec_resske j) as [k|]; [|discriminate].
  specialize (Hwf k eq_refl). set (t := get_type (sch_schema s) (k_type k)) in *.
  destruct (String.eqb (tname t) ""); [discriminate|].
  unfold type_new. rewrite Hsoft. cbn [lookup bind res_set].
  destruct (partial_attrs e t _ (k_attrs k)) as [p1| |] eqn:E1; cbn [bind]; try discriminate.
  destruct (set_attrs e t _ (k_attrs k)) as [r1| |] eqn:E2; cbn [bind]; try discriminate.
  intros H1 H2.
  assert (Hr1 : exists r1s, r1 = RSoft r1s).
  { clear -E2. revert E2. generalize (soft_set (soft_new t) "id" (VStr (k_id k))). generalize (k_attrs k).
    induction l as [|[k0 v0] l IH]; intros s0; cbn.
    - intros H; injection H as <-. eauto.
    - destruct (lookup k0 (tattrs t)); [|discriminate].
      destruct (unmarshal_to_type e a v0); cbn [bind]; try discriminate. apply IH. }
  destruct Hr1 as [r1s ->].
  assert (Hag0 : agree t (mkSoft (mkType (tname t) [] []) (k_id k) []) (soft_set (soft_new t) "id" (VStr (k_id k)))).
  { split; [|split; [reflexivity|split; [reflexivity|]]].
    - split; [intros ? ? []|split; [intros ? ? []|split; constructor]].
    - intros f [[]|[]]. }
  pose proof (lockstep_attrs t Hwf e (k_attrs k) _ _ _ _ Hag0 E1 E2) as Hag1.
  pose proof (lockstep_rels t Hwf (k_rels k) _ _ _ _ Hag1 H1 H2) as [_ [_ [Hid Hf]]].
  split; [rewrite !soft_get_id; rewrite Hid; reflexivity|exact Hf].
Qed.
